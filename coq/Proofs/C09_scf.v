(* C09 — the squared covariance fraction AS THE SOURCE COMPUTES IT (CPCCA.squared_covariance_fraction: one minus the squared
   Frobenius norm of the cross-covariance of the residuals left by mode i, over the total squared covariance) is
   sigma_i^2 / ||C||_F^2 whenever (u, sigma, v) is a singular triplet of the cross-covariance C = X^H Y / (n-1):
   the residual cross-covariance is C - sigma u v^H, and its squared norm is ||C||_F^2 - sigma^2.
   Any field with conjugation, any shapes; the whitening is the identity (MCA) - for alpha < 1 the source un-whitens
   both sides first, which is outside this statement. *)
From Coq Require Import ZArith List Bool Ring Field Setoid Lia Arith.
From XV Require Import Base.Scalar Base.Sum Base.Mat Base.MatAlg Model.Eof Model.Cpcca.
Import ListNotations.

Section Scf.
Context {F : Type} (K : Ops F).
Hypothesis FL : FieldLaws K.
Add Field Ffscf : (FL_field K FL).
Notation "0" := (f0 K). Notation "1" := (f1 K).
Infix "+" := (fadd K). Infix "*" := (fmul K). Infix "-" := (fsub K).
Notation cj := (fconj K).
Notation mat := (@mat F).
Notation mmul := (mmul K). Notation msub := (msub K). Notation mH := (mH K). Notation mI := (mI K).
Notation mscale := (mscale K). Notation wf := (wf K). Notation get := (get K).
Notation frob2 := (frob2 K). Notation trace := (trace K).

Ltac mx := mat_unfold; apply tab_ext; intros i j Hi Hj; get_simpl.

Notation mode_scores := (mode_scores K). Notation mode_recon := (mode_recon K). Notation mode_resid := (mode_resid K).
Notation resid_sqcov := (resid_sqcov K). Notation scf_src := (scf_src K).

Variables (n p1 p2 : nat) (X Y u v : mat) (sg : F).
Notation C := (cross_cov K n p1 p2 X Y).
Notation c := (finv K (fofZ K (Z.of_nat n - 1))).
Hypothesis WX : wf n p1 X. Hypothesis WY : wf n p2 Y. Hypothesis Wu : wf p1 1 u. Hypothesis Wv : wf p2 1 v.
(* (u, sg, v) is a singular triplet of C with unit vectors and a real singular value *)
Hypothesis Hu : mmul 1 p1 1 (mH p1 1 u) u = mI 1.
Hypothesis Hv : mmul 1 p2 1 (mH p2 1 v) v = mI 1.
Hypothesis HuC : mmul 1 p1 p2 (mH p1 1 u) C = mscale 1 p2 sg (mH p2 1 v).
Hypothesis HCv : mmul p1 p2 1 C v = mscale p1 1 sg u.
Hypothesis Hsg : cj sg = sg.

Notation P1 := (msub p1 p1 (mI p1) (mmul p1 1 p1 u (mH p1 1 u))).
Notation P2 := (msub p2 p2 (mI p2) (mmul p2 1 p2 v (mH p2 1 v))).
Notation E := (mmul p1 1 p2 u (mH p2 1 v)).

Lemma resid_is_projection_X : mode_resid n p1 X u = mmul n p1 p1 X P1.
Proof. unfold mode_resid, mode_recon, mode_scores. rewrite (mmul_msub_r K FL). rewrite (mmul_I_r K FL) by exact WX.
  rewrite (mmul_assoc K FL n p1 1 p1). reflexivity. Qed.

Lemma resid_is_projection_Y : mode_resid n p2 Y v = mmul n p2 p2 Y P2.
Proof. unfold mode_resid, mode_recon, mode_scores. rewrite (mmul_msub_r K FL). rewrite (mmul_I_r K FL) by exact WY.
  rewrite (mmul_assoc K FL n p2 1 p2). reflexivity. Qed.

Lemma P1_herm : mH p1 p1 P1 = P1.
Proof. rewrite (mH_msub K FL). rewrite (mH_I K FL). rewrite (mH_mmul K FL p1 1 p1). rewrite (mH_invol K FL p1 1) by exact Wu. reflexivity. Qed.

(* the cross-covariance of the residuals is P1 C P2 *)
Lemma resid_cov_projected :
  cross_cov K n p1 p2 (mode_resid n p1 X u) (mode_resid n p2 Y v) = mmul p1 p2 p2 (mmul p1 p1 p2 P1 C) P2.
Proof. rewrite resid_is_projection_X, resid_is_projection_Y. unfold cross_cov.
  rewrite (mH_mmul K FL n p1 p1). rewrite P1_herm.
  rewrite (mmul_mscale_r K FL p1 p1 p2). rewrite (mmul_mscale_l K FL p1 p2 p2). f_equal.
  rewrite (mmul_assoc K FL p1 p1 n p2). rewrite <- (mmul_assoc K FL p1 n p2 p2). rewrite <- (mmul_assoc K FL p1 p1 p2 p2).
  reflexivity. Qed.

(* u u^H C = sg u v^H and C v v^H = sg u v^H *)
Lemma uuHC : mmul p1 p1 p2 (mmul p1 1 p1 u (mH p1 1 u)) C = mscale p1 p2 sg E.
Proof. rewrite (mmul_assoc K FL p1 1 p1 p2). rewrite HuC. apply (mmul_mscale_r K FL). Qed.

Lemma CvvH : mmul p1 p2 p2 C (mmul p2 1 p2 v (mH p2 1 v)) = mscale p1 p2 sg E.
Proof. rewrite <- (mmul_assoc K FL p1 p2 1 p2). rewrite HCv. apply (mmul_mscale_l K FL). Qed.

Lemma wfC : wf p1 p2 C. Proof. unfold cross_cov. apply wf_mscale. Qed.

(* P1 C P2 = C - sg u v^H *)
Lemma projected_is_deflated : mmul p1 p2 p2 (mmul p1 p1 p2 P1 C) P2 = msub p1 p2 C (mscale p1 p2 sg E).
Proof. rewrite (mmul_msub_l K FL p1 p1 p2). rewrite (mmul_I_l K FL) by exact wfC. rewrite uuHC.
  rewrite (mmul_msub_r K FL p1 p2 p2). rewrite (mmul_I_r K FL) by apply wf_msub.
  rewrite (mmul_msub_l K FL p1 p2 p2). rewrite CvvH.
  rewrite (mmul_mscale_l K FL p1 p2 p2). rewrite (mmul_assoc K FL p1 1 p2 p2).
  rewrite <- (mmul_assoc K FL 1 p2 1 p2). rewrite Hv. rewrite (mmul_I_l K FL) by apply wf_mH.
  mat_unfold. apply tab_ext. intros i j Hi Hj. get_simpl. ring. Qed.

(* ---- variance explained by one mode: the residual X (I - u u^H) has squared norm ||X||^2 - ||X u||^2 for every unit vector u *)
Lemma P1_idem : mmul p1 p1 p1 P1 P1 = P1.
Proof. rewrite (mmul_msub_l K FL p1 p1 p1). rewrite (mmul_I_l K FL) by apply wf_msub.
  rewrite (mmul_msub_r K FL p1 p1 p1). rewrite (mmul_I_r K FL) by apply wf_mmul.
  rewrite (mmul_assoc K FL p1 1 p1 p1). rewrite <- (mmul_assoc K FL 1 p1 1 p1). rewrite Hu. rewrite (mmul_I_l K FL) by apply wf_mH.
  mat_unfold. apply tab_ext. intros i j Hi Hj. get_simpl. ring. Qed.

Lemma resid_frob2 : frob2 n p1 (mode_resid n p1 X u) = frob2 n p1 X - frob2 n 1 (mode_scores n p1 X u).
Proof. rewrite resid_is_projection_X. rewrite !(frob2_trace K).
  rewrite (mH_mmul K FL n p1 p1). rewrite P1_herm. rewrite (mmul_assoc K FL n p1 p1 n). rewrite <- (mmul_assoc K FL p1 p1 p1 n). rewrite P1_idem.
  rewrite (mmul_msub_l K FL p1 p1 n). rewrite (mmul_I_l K FL) by apply wf_mH. rewrite (mmul_msub_r K FL n p1 n).
  rewrite (trace_msub K FL). f_equal.
  unfold mode_scores. rewrite (mH_mmul K FL n p1 1). rewrite (mmul_assoc K FL n p1 1 n). rewrite (mmul_assoc K FL p1 1 p1 n). reflexivity. Qed.

Theorem fve_src_is_score_norm_over_total : frob2 n p1 X <> 0 ->
  fve_src K n p1 X u = fdiv K (frob2 n 1 (mode_scores n p1 X u)) (frob2 n p1 X).
Proof. intros Hne. unfold fve_src. fold (mode_resid n p1 X u). rewrite resid_frob2. field. exact Hne. Qed.

(* ---- the squared norm of the deflated matrix *)
Lemma sum4 m (f g h k : nat -> F) a b d :
  sum K m (fun j => f j - a * g j - b * h j + d * k j) = sum K m f - a * sum K m g - b * sum K m h + d * sum K m k.
Proof. induction m as [|m IH]; cbn [sum]; [ring | rewrite IH; ring]. Qed.

Lemma frob2_deflate m q (A B : mat) (s : F) :
  frob2 m q (msub m q A (mscale m q s B)) =
  frob2 m q A - cj s * trace m (mmul m q m A (mH m q B)) - s * trace m (mmul m q m B (mH m q A)) + (s * cj s) * frob2 m q B.
Proof. unfold frob2, trace.
  rewrite <- (sum4 m (fun i => sum K q (fun j => get A i j * cj (get A i j)))
                     (fun i => get (mmul m q m A (mH m q B)) i i) (fun i => get (mmul m q m B (mH m q A)) i i)
                     (fun i => sum K q (fun j => get B i j * cj (get B i j)))).
  apply (sum_ext K). intros i Hi. mat_unfold. get_simpl.
  rewrite <- (sum4 q). apply (sum_ext K). intros j Hj. get_simpl.
  rewrite (cj_sub K FL). rewrite (FL_conj_mul K FL). ring. Qed.

Lemma trace_mscale m s A : trace m (mscale m m s A) = s * trace m A.
Proof. unfold trace. rewrite <- (sum_scale_l K FL). apply (sum_ext K). intros i Hi. mat_unfold. get_simpl. reflexivity. Qed.

Lemma trace_I1 : trace 1 (mI 1) = 1.
Proof. unfold trace. cbn [sum]. mat_unfold. get_simpl. rewrite (delta_same K). ring. Qed.

Lemma trace_uuH : trace p1 (mmul p1 1 p1 u (mH p1 1 u)) = 1.
Proof. rewrite (trace_mmul_comm K FL p1 1). rewrite Hu. apply trace_I1. Qed.

Lemma mH_mscale m q s A : mH m q (mscale m q s A) = mscale q m (cj s) (mH m q A).
Proof. mx. apply (FL_conj_mul K FL). Qed.

Lemma EH : mH p1 p2 E = mmul p2 1 p1 v (mH p1 1 u).
Proof. rewrite (mH_mmul K FL p1 1 p2). rewrite (mH_invol K FL p2 1) by exact Wv. reflexivity. Qed.

Lemma tr_CEH : trace p1 (mmul p1 p2 p1 C (mH p1 p2 E)) = sg.
Proof. rewrite EH. rewrite <- (mmul_assoc K FL p1 p2 1 p1). rewrite HCv. rewrite (mmul_mscale_l K FL).
  rewrite trace_mscale. rewrite trace_uuH. ring. Qed.

Lemma tr_ECH : trace p1 (mmul p1 p2 p1 E (mH p1 p2 C)) = sg.
Proof. rewrite (mmul_assoc K FL p1 1 p2 p1). rewrite <- (mH_mmul K FL p1 p2 1). rewrite HCv. rewrite mH_mscale. rewrite Hsg.
  rewrite (mmul_mscale_r K FL). rewrite trace_mscale. rewrite trace_uuH. ring. Qed.

Lemma frob2_E : frob2 p1 p2 E = 1.
Proof. rewrite (frob2_trace K). rewrite EH. rewrite (mmul_assoc K FL p1 1 p2 p1). rewrite <- (mmul_assoc K FL 1 p2 1 p1).
  rewrite Hv. rewrite (mmul_I_l K FL) by apply wf_mH. apply trace_uuH. Qed.

(* the residual squared covariance of the mode, as the source computes it, is the total minus sigma^2 *)
Theorem resid_sqcov_is_total_minus_sigma2 : resid_sqcov n p1 p2 X Y u v = frob2 p1 p2 C - sg * sg.
Proof. unfold resid_sqcov. rewrite resid_cov_projected, projected_is_deflated. rewrite frob2_deflate.
  rewrite tr_CEH, tr_ECH, frob2_E, Hsg. ring. Qed.

(* ... and the fraction the source returns is sigma^2 / ||C||_F^2 *)
Theorem scf_src_is_sigma2_over_total : frob2 p1 p2 C <> 0 ->
  scf_src n p1 p2 X Y u v (frob2 p1 p2 C) = fdiv K (sg * sg) (frob2 p1 p2 C).
Proof. intros Hne. unfold scf_src. rewrite resid_sqcov_is_total_minus_sigma2. field. exact Hne. Qed.

End Scf.

(* ---- every mode of the fitted cross-set model is such a triplet: column i of the two component matrices with the i-th singular value *)
From XV Require Import Proofs.C01_proofs Proofs.C09_proofs.
Section Triplet.
Context {F : Type} (K : Ops F).
Hypothesis FL : FieldLaws K.
Notation mat := (@mat F). Notation vec := (@vec F).
Notation mmul := (mmul K). Notation mH := (mH K). Notation mI := (mI K). Notation mdiag := (mdiag K).
Notation mrows := (mrows K). Notation mcols := (mcols K). Notation mscale := (mscale K). Notation get := (get K).

Variables (n p1 p2 r k : nat) (X Y U Vt : mat) (s sg : vec).
Notation C := (cross_cov K n p1 p2 X Y).
Hypothesis OK : svd_ok K p1 p2 r C (U, s, Vt).
Hypothesis Hk : (k <= r)%nat.
Hypothesis Hsg : sign_vec K k sg.
Hypothesis WX : wf K n p1 X. Hypothesis WY : wf K n p2 Y.

Notation out := (cpcca_fit_sg K n p1 p2 r k X Y (U, s, Vt) sg).
Notation Uk := (mcols p1 k U).
Notation Vtk := (mrows k p2 Vt).
Notation G := (mdiag k sg).
Notation Sk := (mdiag k (vfirstn K k s)).
Notation Q1 := (cp_Q1 out). Notation Q2 := (cp_Q2 out).

(* Q1^H C = S_k Q2^H and C Q2 = Q1 S_k *)
Lemma Q1HC : mmul k p1 p2 (mH p1 k Q1) C = mmul k k p2 Sk (mH p2 k Q2).
Proof. rewrite (Q1_eq K FL n p1 p2 r k X Y U Vt s sg), (Q2_eq K FL n p1 p2 r k X Y U Vt s sg Hsg).
  rewrite (mH_mmul K FL p1 k k). rewrite (G_herm K FL k sg Hsg). rewrite (mmul_assoc K FL k k p1 p2).
  rewrite (UkHX K FL p1 p2 r C U Vt s OK k Hk).
  rewrite (mH_mmul K FL p2 k k). rewrite (G_herm K FL k sg Hsg). rewrite (mH_invol K FL k p2) by apply wf_mrows.
  rewrite <- (mmul_assoc K FL k k k p2). rewrite <- (mmul_assoc K FL k k k p2). rewrite (G_Sk_comm K FL s k sg). reflexivity. Qed.

Lemma CQ2 : mmul p1 p2 k C Q2 = mmul p1 k k Q1 Sk.
Proof. rewrite (Q1_eq K FL n p1 p2 r k X Y U Vt s sg), (Q2_eq K FL n p1 p2 r k X Y U Vt s sg Hsg).
  rewrite <- (mmul_assoc K FL p1 p2 k k). rewrite (XVk K FL p1 p2 r C U Vt s OK k Hk).
  rewrite (mmul_assoc K FL p1 k k k). rewrite (mmul_assoc K FL p1 k k k). rewrite (G_Sk_comm K FL s k sg). reflexivity. Qed.

Notation col := (col K).
Variable i : nat.
Hypothesis Hi : (i < k)%nat.
Notation ui := (col p1 i Q1). Notation vi := (col p2 i Q2). Notation si := (vget K s i).

Lemma get_eq (A B : mat) a b : A = B -> get A a b = get B a b. Proof. intros ->; reflexivity. Qed.

Lemma trip_u : mmul 1 p1 1 (mH p1 1 ui) ui = mI 1.
Proof. pose proof (get_eq _ _ i i (Q1_orthonormal K FL n p1 p2 r k X Y U Vt s sg OK Hk Hsg)) as H.
  revert H. unfold col. mat_unfold. get_simpl. intros H. apply tab_ext. intros a b Ha Hb. assert (a = 0%nat) by lia. assert (b = 0%nat) by lia. subst.
  get_simpl. rewrite (delta_same K) in *. rewrite <- H. apply (sum_ext K). intros l Hl. get_simpl. reflexivity. Qed.

Lemma trip_v : mmul 1 p2 1 (mH p2 1 vi) vi = mI 1.
Proof. pose proof (get_eq _ _ i i (Q2_orthonormal K FL n p1 p2 r k X Y U Vt s sg OK Hk Hsg)) as H.
  revert H. unfold col. mat_unfold. get_simpl. intros H. apply tab_ext. intros a b Ha Hb. assert (a = 0%nat) by lia. assert (b = 0%nat) by lia. subst.
  get_simpl. rewrite (delta_same K) in *. rewrite <- H. apply (sum_ext K). intros l Hl. get_simpl. reflexivity. Qed.

Lemma trip_uC : mmul 1 p1 p2 (mH p1 1 ui) C = mscale 1 p2 si (mH p2 1 vi).
Proof. apply tab_ext. intros a b Ha Hb. assert (a = 0%nat) by lia. subst.
  assert (A : get (mmul k k p2 Sk (mH p2 k Q2)) i b = fmul K si (fconj K (get Q2 b i))).
  { rewrite (mmul_diag_l K FL). mat_unfold. get_simpl. reflexivity. }
  assert (B : get (mmul k p1 p2 (mH p1 k Q1) C) i b = sum K p1 (fun l => fmul K (fconj K (get Q1 l i)) (get C l b))).
  { unfold Mat.mmul at 1. get_simpl. apply (sum_ext K). intros l Hl. unfold Mat.mH. get_simpl. reflexivity. }
  rewrite Q1HC in B. rewrite A in B. unfold col. unfold Mat.mH. get_simpl.
  rewrite (sum_ext K p1 _ (fun l => fmul K (fconj K (get Q1 l i)) (get C l b))) by (intros l Hl; get_simpl; reflexivity).
  rewrite <- B. reflexivity. Qed.

Lemma trip_Cv : mmul p1 p2 1 C vi = mscale p1 1 si ui.
Proof. apply tab_ext. intros a b Ha Hb. assert (b = 0%nat) by lia. subst.
  assert (A : get (mmul p1 k k Q1 Sk) a i = fmul K si (get Q1 a i)).
  { rewrite (mmul_diag_r K FL). mat_unfold. get_simpl. destruct FL as [FT _ _ _ _ _ _ _]. destruct FT as [RT _ _ _]. apply (Rmul_comm RT). }
  assert (B : get (mmul p1 p2 k C Q2) a i = sum K p2 (fun l => fmul K (get C a l) (get Q2 l i))).
  { unfold Mat.mmul at 1. get_simpl. reflexivity. }
  rewrite CQ2 in B. rewrite A in B. unfold col. get_simpl.
  rewrite (sum_ext K p2 _ (fun l => fmul K (get C a l) (get Q2 l i))) by (intros l Hl; get_simpl; reflexivity).
  rewrite <- B. reflexivity. Qed.

Lemma si_real : fconj K si = si.
Proof. destruct OK as (_ & _ & _ & _ & _ & _ & _ & Hreal). apply Hreal. lia. Qed.

(* the squared covariance fraction the source computes for mode i of a fitted MCA is sigma_i^2 / ||C||_F^2 *)
Theorem scf_of_fitted_mode :
  resid_sqcov K n p1 p2 X Y ui vi = fsub K (frob2 K p1 p2 C) (fmul K si si) /\
  (frob2 K p1 p2 C <> f0 K -> scf_src K n p1 p2 X Y ui vi (cp_tsc out) = fdiv K (fmul K si si) (frob2 K p1 p2 C)).
Proof. split.
  - apply (resid_sqcov_is_total_minus_sigma2 K FL n p1 p2 X Y ui vi si WX WY); try apply wf_tab.
    + exact trip_u. + exact trip_v. + exact trip_uC. + exact trip_Cv. + exact si_real.
  - intros Hne. unfold cpcca_fit_sg. cbn [cp_tsc].
    apply (scf_src_is_sigma2_over_total K FL n p1 p2 X Y ui vi si WX WY); try apply wf_tab; try exact Hne.
    + exact trip_u. + exact trip_v. + exact trip_uC. + exact trip_Cv. + exact si_real.
Qed.

End Triplet.
