(* the rotator as a state machine: whatever was fitted, computed or asked before, after the last fit (and any number of
   compute() calls) transform of that fit's training data returns the scores the object holds *)
From Coq Require Import ZArith List Bool Lia Arith.
From XV Require Import Base.Scalar Base.Sum Base.Mat Model.Eof Model.Rot Model.FlagState Proofs.FlagState_proofs Proofs.C11_proofs.
Import ListNotations.

Section RotState.
Context {F : Type} (K : Ops F).
Hypothesis FL : FieldLaws K.
Notation mat := (@mat F). Notation vec := (@vec F).
Variables (n p k : nat).
Notation RS := (fstate (@rot_out F)).
Notation rrun := (frun (@rot_out F) (rot_sort K n p) true true).
Notation RInv := (FlagInv (@rot_out F) (rot_sort K n p)).

Definition only_computes (ops : list (fop (@rot_out F))) : Prop := Forall (fun o => o = FCompute _) ops.

Lemma computes_keep ops : only_computes ops -> forall s, fs_fresh _ (rrun s ops) = fs_fresh _ s /\ fs_idx _ (rrun s ops) = fs_idx _ s.
Proof. induction 1 as [|o ops Ho _ IH]; intros s; [split; reflexivity|]. subst o.
  change (rrun s (FCompute _ :: ops)) with (rrun (fstep _ (rot_sort K n p) true true s (FCompute _)) ops).
  destruct (IH (fstep _ (rot_sort K n p) true true s (FCompute _))) as [H1 H2]. rewrite H1, H2. split; reflexivity. Qed.

Theorem rot_state_transform_training (Vk Un : mat) (lam sv : vec) (R RinvT X : mat) (idx : list nat)
  (before after : list (fop (@rot_out F))) (s0 : RS) :
  (length idx = k /\ forall j, (j < k)%nat -> (nth j idx O < k)%nat) ->
  mmul K n p k X Vk = colscale K n k Un sv -> (forall j, (j < k)%nat -> vget K sv j <> f0 K) -> wf K n k Un ->
  only_computes after ->
  let s := rrun s0 (before ++ FFit _ (rot_fit K n p k Vk Un lam R RinvT) idx :: after) in
  rot_transform K n p k Vk sv RinvT (fs_sorted _ s) (fs_idx _ s) (fs_data _ s) X = r_scores (fs_data _ s).
Proof. intros Hidx HXV Hsv HUn Hafter s.
  set (d := rot_fit K n p k Vk Un lam R RinvT).
  assert (Es : s = rrun (finit _ d idx) after).
  { unfold s, FlagState.frun. rewrite fold_left_app. reflexivity. }
  assert (Hi : RInv s) by (rewrite Es; apply frun_inv; apply finit_inv).
  destruct (computes_keep after Hafter (finit _ d idx)) as [Hf Hx]. rewrite <- Es in Hf, Hx. cbn in Hf, Hx.
  unfold FlagState.FlagInv in Hi. rewrite Hf, Hx in Hi. rewrite Hx, Hi.
  destruct (fs_sorted _ s).
  - apply (rot_transform_training_sorted K FL n p k Vk Un lam sv R RinvT X idx Hidx HXV Hsv HUn).
  - apply (rot_transform_training_unsorted K FL n p k Vk Un lam sv R RinvT X idx HXV Hsv HUn).
Qed.

(* once compute() has run after the last fit the stored arrays are that fit's arrays re-indexed by that fit's permutation *)
Theorem rot_sorted_after_any_history (ops : list (fop (@rot_out F))) (s : RS) : RInv s ->
  let s' := rrun s (ops ++ [FCompute _]) in
  fs_sorted _ s' = true /\ fs_data _ s' = rot_sort K n p (fs_idx _ s') (fs_fresh _ s') /\
  r_expvar (fs_data _ s') = vsel K (fs_idx _ s') (r_expvar (fs_fresh _ s')).
Proof. intros H s'. destruct (after_compute_sorted _ (rot_sort K n p) ops s H) as [H1 H2].
  fold s' in H1, H2. split; [exact H1|]. split; [exact H2|]. rewrite H2. reflexivity. Qed.
End RotState.
