(* C14 — obligations on the per-method effects table regenerated from the source (Gen/T7hist.v) *)
From Coq Require Import String List Bool.
From XV Require Import Gen.T7hist Gen.T7inplace.
Import ListNotations.
Open Scope string_scope.

(* ---------- obligations on the effects table regenerated from the source ---------- *)
Definition eff_of (c m : string) : list string * list string * list string :=
  match find (fun e => (String.eqb (fst (fst (fst (fst e)))) c && String.eqb (snd (fst (fst (fst e)))) m)%bool) effects with
  | Some e => (snd (fst (fst e)), snd (fst e), snd e)
  | None => ([], [], [])
  end.
Definition writes (c m : string) : list string := let '(a, mu, _) := eff_of c m in (a ++ mu)%list.

(* the only attributes written by non-fit methods of the transformers: bookkeeping of the transform call
   (and the materialisation of the lazily stored NaN mask in Sanitizer.transform) *)
Definition unseen_fields : list (string * string) :=
  [("MultiIndexConverter", "coords_from_transform"); ("Stacker", "coords_out"); ("Concatenator", "coords_out");
   ("Sanitizer", "is_valid_feature")].
Definition nonfit_methods : list string :=
  ["transform"; "inverse_transform_data"; "inverse_transform_components"; "inverse_transform_scores"; "inverse_transform_scores_unseen"].
Definition transformer_classes : list string :=
  ["GenericListTransformer"; "Preprocessor"; "Scaler"; "DimensionRenamer"; "MultiIndexConverter"; "Stacker"; "Sanitizer"; "Concatenator"; "Whitener"; "PCA"].

Definition nonfit_writes_ok : bool :=
  forallb (fun c => forallb (fun m => forallb (fun a => existsb (fun u => (String.eqb (fst u) c && String.eqb (snd u) a)%bool) unseen_fields) (writes c m))
                              nonfit_methods) transformer_classes.

Lemma nonfit_methods_write_only_bookkeeping : nonfit_writes_ok = true.
Proof. vm_compute. reflexivity. Qed.

(* fitted-data accessors never read the bookkeeping fields *)
Definition fitted_accessors : list string := ["inverse_transform_data"; "inverse_transform_components"; "inverse_transform_scores"].
Definition reads (c m : string) : list string := let '(_, _, r) := eff_of c m in r.
Definition bookkeeping_not_read : bool :=
  forallb (fun c => forallb (fun m => forallb (fun a => negb (existsb (fun u => (String.eqb (fst u) c && String.eqb (snd u) a
                                                            && negb (String.eqb a "is_valid_feature"))%bool) unseen_fields)) (reads c m))
                              fitted_accessors) transformer_classes.
Lemma fitted_accessors_ignore_bookkeeping : bookkeeping_not_read = true.
Proof. vm_compute. reflexivity. Qed.

(* fit rebuilds the transformer list, with freshly constructed transformers *)
Lemma list_fit_rebuilds : list_fit_resets_transformers = true /\ list_fit_instantiates_fresh_transformers = true.
Proof. split; reflexivity. Qed.

(* the source is the rebuilding variant of the history model, and containers copy before renaming *)
Lemma source_variant : negb list_fit_resets_transformers = false /\ container_add_copies_before_renaming = true.
Proof. split; reflexivity. Qed.

(* in-place arithmetic (x op= y) occurs only at sites whose target is a fresh local value (a factor just returned by the
   SVD routine, a scalar counter, a message string, a freshly concatenated array): never on an array read from a model,
   a container or the user's input, which it would change behind their back *)
Definition not_in_fit_algorithm (s : string * string * string * string) : bool := negb (String.eqb (snd (fst (fst s))) "_fit_algorithm").
Lemma inplace_sites_known : inplace_sites =
  [("xeofs/linalg/_numpy/_svd.py", "fit_transform", "U", "Mult");
   ("xeofs/linalg/_numpy/_svd.py", "fit_transform", "V", "Mult");
   ("xeofs/linalg/decomposer.py", "fit", "U", "Mult");
   ("xeofs/linalg/decomposer.py", "fit", "VT", "Mult");
   ("xeofs/multi/cca.py", "_apply_pca", "cum_exp_var_ratio", "Sub");
   ("xeofs/single/_numpy/_sparse_pca.py", "compute_rqb", "nblock", "Add");
   ("xeofs/single/_numpy/_sparse_pca.py", "compute_rspca", "eigen_values", "Mult");
   ("xeofs/single/_numpy/_sparse_pca.py", "compute_spca", "R", "Sub");
   ("xeofs/single/_numpy/_sparse_pca.py", "compute_spca", "alpha", "Mult");
   ("xeofs/single/_numpy/_sparse_pca.py", "compute_spca", "beta", "Mult");
   ("xeofs/single/_numpy/_sparse_pca.py", "compute_spca", "n_iter", "Add");
   ("xeofs/single/_numpy/_sparse_pca.py", "compute_spca", "objective", "Add");
   ("xeofs/utils/hilbert_transform.py", "_pad_exp", "y_ext", "Add");
   ("xeofs/utils/xarray_utils.py", "get_dims", "err_message", "Add")].
Proof. reflexivity. Qed.

(* every attribute that a post-fit method of a model or rotator class assigns (the `sorted` flag set by
   _sort_by_variance) is assigned afresh by the class's own _fit_algorithm: a second fit of the same object starts
   from the state a first fit starts from *)
Definition assigns (c m : string) : list string := let '(a, _, _) := eff_of c m in a.
Definition postfit_flags : list (string * string * string) :=
  [("POP", "_sort_by_variance", "sorted"); ("EOFRotator", "_sort_by_variance", "sorted"); ("CPCCARotator", "_sort_by_variance", "sorted")].
Definition flag_reset_by_fit (f : string * string * string) : bool :=
  let '(c, m, a) := f in existsb (String.eqb a) (assigns c m) && existsb (String.eqb a) (assigns c "_fit_algorithm").
Lemma postfit_flags_reset_by_fit : forallb flag_reset_by_fit postfit_flags = true.
Proof. vm_compute. reflexivity. Qed.

(* the complete list of methods outside the fit family (__init__, fit, _fit_algorithm, fit_transform) that write any
   attribute of self, over all transformer, container, model and rotator classes: bookkeeping of a transform call, the
   container's compute flags and the sort-after-compute flag - no caches, nothing a later answer could inherit *)
Definition fit_family (m : string) : bool :=
  existsb (String.eqb m) ["__init__"; "fit"; "_fit_algorithm"; "fit_transform"].
Definition nonfit_writers : list (string * string * list string * list string) :=
  map (fun e => (fst (fst (fst (fst e))), snd (fst (fst (fst e))), snd (fst (fst e)), snd (fst e)))
      (filter (fun e => negb (fit_family (snd (fst (fst (fst e))))) &&
                        negb (match (snd (fst (fst e)) ++ snd (fst e))%list with [] => true | _ => false end)) effects).
Lemma nonfit_writers_known : nonfit_writers =
  [("Preprocessor", "_set_return_list", ["return_list"], []);
   ("MultiIndexConverter", "transform", [], ["coords_from_transform"]);
   ("Stacker", "transform", [], ["coords_out"]);
   ("Sanitizer", "transform", ["is_valid_feature"], []);
   ("Concatenator", "transform", ["coords_out"], []);
   ("DataContainer", "add", [], ["_allow_compute"]);
   ("DataContainer", "__setitem__", [], ["_allow_compute"]);
   ("POP", "_sort_by_variance", ["sorted"], ["data"]);
   ("EOFRotator", "_sort_by_variance", ["sorted"], ["data"]);
   ("CPCCARotator", "_sort_by_variance", ["sorted"], ["data"])].
Proof. vm_compute. reflexivity. Qed.

Definition writer_method_known (w : string * string * list string * list string) : bool :=
  existsb (String.eqb (snd (fst (fst w)))) ["_set_return_list"; "transform"; "add"; "__setitem__"; "_sort_by_variance"].
