(* ties between the sanitizer model (Model/Sanitizer.v) and the constants regenerated from
   xeofs/preprocessing/sanitizer.py (Gen/T6san.v) *)
From Coq Require Import List Bool Arith.
From XV Require Import Model.Sanitizer Gen.T6san.
Import ListNotations.

(* the naming correspondence between generated and hand-written constructors *)
Definition step_of_gen (s : san_gstep) : mstep :=
  match s with
  | GCheckDims => MCheckDims | GCheckCoords => MCheckCoords | GCheckMask => MCheckMask
  | GCheckIsolated => MCheckIsolated | GWhereDrop => MWhereDrop
  end.
Definition axis_of_gen (a : san_gaxis) : axis := match a with GAxSample => AxSample | GAxFeature => AxFeature end.
Definition red_of_gen (r : san_gred) : reduction := match r with GRAny => RAny | GRSum => RSum end.
Definition redax_of_gen (ra : san_gred * san_gaxis) : reduction * axis := (red_of_gen (fst ra), axis_of_gen (snd ra)).

(* the acceptance test of one sample: the model's [row_ok] is the negation of the generated flag and
   compares with the number of VALID features (not the number of features) *)
Lemma tie_san_acceptance : forall cnt nvalid nfeat : nat, san_isolated_flag cnt nvalid nfeat = negb (row_ok cnt nvalid).
Proof. intros. reflexivity. Qed.

Lemma tie_san_steps :
  map (fun sg => (step_of_gen (fst sg), snd sg)) san_transform_steps
  = map (fun s => (s, mstep_needs_check_nans s)) san_model_steps.
Proof. reflexivity. Qed.

Lemma tie_san_fit : map step_of_gen san_fit_steps = [MCheckDims] /\ san_fit_stores_valid_features = true.
Proof. split; reflexivity. Qed.

Lemma tie_san_reductions :
  redax_of_gen san_valid_features_red = model_valid_features_red /\
  redax_of_gen san_valid_samples_red = model_valid_samples_red /\
  redax_of_gen san_valid_per_sample_red = model_valid_per_sample_red.
Proof. repeat split; reflexivity. Qed.

Lemma tie_san_inverse :
  option_map axis_of_gen san_inverse_data_axis = model_inverse_data_axis /\
  option_map axis_of_gen san_inverse_components_axis = model_inverse_components_axis /\
  option_map axis_of_gen san_inverse_scores_axis = model_inverse_scores_axis /\
  option_map axis_of_gen san_inverse_scores_unseen_axis = model_inverse_scores_unseen_axis.
Proof. repeat split; reflexivity. Qed.

(* the model's reductions really are what the declared (reduction, axis) pairs say *)
Lemma tie_model_reductions : forall (p : nat) (B : list (list bool)),
  valid_features_b p B = map (fun j => existsb (fun r => nth j r false) B) (seq 0 p) /\
  valid_samples_b B = map (existsb (fun b : bool => b)) B /\
  valid_per_sample_b B = map (fun r => length (filter (fun b : bool => b) r)) B.
Proof. intros. repeat split; reflexivity. Qed.

Theorem model_matches_source :
  (forall cnt nvalid nfeat : nat, san_isolated_flag cnt nvalid nfeat = negb (row_ok cnt nvalid)) /\
  map (fun sg => (step_of_gen (fst sg), snd sg)) san_transform_steps
    = map (fun s => (s, mstep_needs_check_nans s)) san_model_steps /\
  (map step_of_gen san_fit_steps = [MCheckDims] /\ san_fit_stores_valid_features = true) /\
  (redax_of_gen san_valid_features_red = model_valid_features_red /\
   redax_of_gen san_valid_samples_red = model_valid_samples_red /\
   redax_of_gen san_valid_per_sample_red = model_valid_per_sample_red) /\
  (option_map axis_of_gen san_inverse_data_axis = model_inverse_data_axis /\
   option_map axis_of_gen san_inverse_components_axis = model_inverse_components_axis /\
   option_map axis_of_gen san_inverse_scores_axis = model_inverse_scores_axis /\
   option_map axis_of_gen san_inverse_scores_unseen_axis = model_inverse_scores_unseen_axis).
Proof.
  exact (conj tie_san_acceptance (conj tie_san_steps (conj tie_san_fit (conj tie_san_reductions tie_san_inverse)))).
Qed.
