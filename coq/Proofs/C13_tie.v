(* C13 — ties between the hand model (Model/Serial.v) and what the translator reads off the source:
   the codec's loop structure (Gen/T2.v) and the serialisation footprint of every transformer and
   model class (Gen/T7ser.v). All by computation on the generated constants. *)
From Coq Require Import String List Bool.
From XV Require Import Base.Scalar Model.PyVal Gen.T2 Gen.T7ser Model.Serial.
Import ListNotations.
Open Scope string_scope.

(* ------------------------------------------------------------------ codec structure *)
(* both functions visit, for every node of dt.subtree, the node attributes and then the attributes of
   every variable: the sites the hand model processes *)
Lemma sanitize_sites_tie : map (fun x => fst (fst x)) sanitize_loops = model_sites.
Proof. reflexivity. Qed.
Lemma desanitize_sites_tie : map (fun x => fst (fst x)) desanitize_loops = model_sites.
Proof. reflexivity. Qed.

(* at every site: guard `isinstance(attr, sanitized_types)` with action `str(attr)`, resp. guard
   `_should_desanitize(attr)` with action `literal_eval(attr)` under try/except — what sanitize_attr/desanitize_attr do *)
Lemma sanitize_guard_action_tie :
  forallb (fun x => match x with (_, GuardIsSanitizedType, ActStr) => true | _ => false end) sanitize_loops = true.
Proof. reflexivity. Qed.
Lemma desanitize_guard_action_tie :
  forallb (fun x => match x with (_, GuardShouldDesanitize, ActLiteralOrStr) => true | _ => false end) desanitize_loops = true.
Proof. reflexivity. Qed.

(* the wrapper around literal_eval catches exactly the two kinds [oracle_errors] speaks of, and the guard
   skips the empty string: what Model/Serial.literal_action and the should_* lemmas rely on *)
Lemma desanitize_caught_tie : desanitize_caught = [EValueError; ESyntaxError].
Proof. reflexivity. Qed.
Lemma should_guard_nonempty_tie : should_guard_nonempty = true.
Proof. reflexivity. Qed.

Lemma sanitized_types_tie : sanitized_types = [TDict; TList; TBool; TNone].
Proof. reflexivity. Qed.

(* a file written through the encoder is read back through the decoder, and only then *)
Lemma codec_engines_tie : sanitize_engines = desanitize_engines.
Proof. reflexivity. Qed.

(* ------------------------------------------------------------------ footprint *)
Definition mem (s : string) (l : list string) : bool := existsb (String.eqb s) l.

Lemma mem_In : forall s l, mem s l = true <-> In s l.
Proof.
  intros s l. unfold mem. rewrite existsb_exists. split.
  - intros [x [Hin Heq]]. apply String.eqb_eq in Heq. now subst.
  - intros Hin. exists s. split; [exact Hin | apply String.eqb_refl].
Qed.

(* attributes a post-fit method may read although deserialisation restores them neither from the tree
   nor through the constructor.  Empty on the pinned tree: every read is covered by one of
     - fp_serialized: restored by setattr from the tree (`_deserialize` / `_deserialize_attrs`),
     - fp_ctor:       restored by `cls( **params )` (sklearn get_params reads the current attribute value),
     - fp_init_only:  assigned by the reachable constructors and never changed afterwards, neither by assignment nor
                      in place (`_params`, `attrs`, dimension names, ...), hence rebuilt by `cls( **params )`,
     - fp_custom_restored: the seven transformer slots of the Preprocessor, which `Preprocessor.deserialize`
                      rebuilds from the sub-trees in its own loop over `transformer_types()`. *)
Definition allowed_runtime (cls : string) : list string := [].

Definition restored_fields (fp : footprint) : list string :=
  fp_serialized fp ++ fp_ctor fp ++ fp_init_only fp ++ fp_custom_restored fp ++ allowed_runtime (fp_class fp).

Definition unrestored_reads (fp : footprint) : list (string * string) :=
  filter (fun mf => negb (mem (snd mf) (restored_fields fp))) (fp_reads fp).

Definition footprint_ok (fp : footprint) : bool :=
  forallb (fun mf => mem (snd mf) (restored_fields fp)) (fp_reads fp).

Lemma footprints_ok : forallb footprint_ok footprints = true.
Proof. vm_compute; reflexivity. Qed.

Theorem every_read_field_is_restored : forall fp, In fp footprints ->
  forall m f, In (m, f) (fp_reads fp) ->
  In f (fp_serialized fp) \/ In f (fp_ctor fp) \/ In f (fp_init_only fp) \/ In f (fp_custom_restored fp) \/
  In f (allowed_runtime (fp_class fp)).
Proof.
  intros fp Hfp m f Hin.
  pose proof (proj1 (forallb_forall footprint_ok footprints) footprints_ok fp Hfp) as Hok.
  pose proof (proj1 (forallb_forall _ (fp_reads fp)) Hok (m, f) Hin) as Hm.
  cbn [snd] in Hm. apply mem_In in Hm. unfold restored_fields in Hm.
  rewrite !in_app_iff in Hm. tauto.
Qed.

(* the classes the obligation ranges over *)
Lemma footprint_classes : map fp_class footprints =
  ["Scaler"; "Stacker"; "Sanitizer"; "MultiIndexConverter"; "DimensionRenamer"; "Concatenator"; "Whitener"; "PCA";
   "Preprocessor"; "DataContainer"; "BaseModelSingleSet"; "BaseModelCrossSet"; "EOFRotator"; "CPCCARotator"; "POP"; "OPA";
   "EOF"; "ComplexEOF"; "HilbertEOF"; "ExtendedEOF"; "SparsePCA"; "CPCCA"; "ComplexCPCCA"; "HilbertCPCCA"; "MCA"; "CCA"; "RDA"].
Proof. reflexivity. Qed.

(* `cls( **dt.attrs["params"] )` is a valid call: every key of `self._params` is a constructor parameter *)
Lemma params_are_ctor_parameters :
  forallb (fun fp => forallb (fun k => mem k (fp_ctor fp)) (fp_params fp)) footprints = true.
Proof. vm_compute; reflexivity. Qed.

Theorem params_accepted_by_constructor : forall fp, In fp footprints ->
  forall k, In k (fp_params fp) -> In k (fp_ctor fp).
Proof.
  intros fp Hfp k Hk.
  pose proof (proj1 (forallb_forall _ footprints) params_are_ctor_parameters fp Hfp) as H.
  apply mem_In. exact (proj1 (forallb_forall _ (fp_params fp)) H k Hk).
Qed.

(* sklearn's get_params() does getattr(self, p) for every constructor parameter p of a transformer *)
Lemma transformer_params_stored :
  forallb (fun fp => match fp_ctor_unstored fp with [] => true | _ => false end) footprints = true.
Proof. vm_compute; reflexivity. Qed.

(* non-vacuity: the obligation ranges over real reads *)
Example footprint_nonempty :
  length (concat (map fp_reads footprints)) >= 100 /\ In ("transform", "sorted") (fp_reads fp_CPCCARotator) /\
  In ("get_transformers", "stacker") (fp_reads fp_Preprocessor) /\ In "stacker" (fp_custom_restored fp_Preprocessor).
Proof. vm_compute. split; [repeat constructor | tauto]. Qed.

(* the Preprocessor slots are the only fields covered by a class-specific deserialisation *)
Lemma custom_restored_only_preprocessor :
  forallb (fun fp => match fp_custom_restored fp with [] => true | _ => String.eqb (fp_class fp) "Preprocessor" end) footprints = true.
Proof. vm_compute; reflexivity. Qed.
