(* C16 — obligations tying the hand-written whitening / PCA model (Model/Whiten.v) to the
   definitions regenerated from the source (Gen/T5whiten.v).  Each is closed by computation: a
   change of the source that alters a generated constant, formula or operand structure breaks
   the proof (or the translator refuses and the tie is reported broken). *)
From Coq Require Import String ZArith List Bool.
From XV Require Import Base.Scalar Base.Mat Model.Eof Model.Whiten Gen.T5whiten.
Import ListNotations.

(* ---- scalar pieces ---- *)
Lemma tie_divisor : forall n p : nat, whiten_divisor n p = whiten_cov_divisor (Z.of_nat n) (Z.of_nat p).
Proof. reflexivity. Qed.

Lemma tie_scalars : forall (F : Type) (K : Ops F) (alpha eps s mx mn : F),
  whiten_exponent K alpha = whiten_power K alpha /\
  whiten_is_identity K alpha eps = whiten_alpha_is_one K alpha eps /\
  whiten_rejects K alpha = whiten_alpha_rejected K alpha /\
  whiten_keep K s eps = fmp_keep K s eps /\
  sign_rule K mx mn = svd_sign_rule K mx mn.
Proof. intros. repeat split; reflexivity. Qed.

(* the cut-off threshold, in whichever of the two variants the source currently uses *)
Lemma tie_threshold : forall (F : Type) (K : Ops F) (eps smax : F) (p : nat),
  whiten_threshold K fmp_cutoff_relative eps p smax = fmp_threshold K eps (Z.of_nat p) smax.
Proof. reflexivity. Qed.

Lemma tie_structure :
  whiten_cov_left_is_conj_transpose = true /\ whiten_solver = "full"%string /\
  whiten_Tinv_is_inv_with_pinv_fallback = true /\
  whiten_T_dims = ["feature"; "mode"]%string /\ whiten_Tinv_dims = ["mode"; "feature"]%string /\
  fmp_product = ["V"; "diag(s**power)"; "V^H"]%string /\ fmp_left_associated = true /\
  fmp_real_input_returns_real_part = true /\
  pca_basis_is_right_singular_vectors = true /\ svd_sign_source = "V"%string /\
  (forall n p : nat, (p <= n)%nat -> pca_all_modes (Z.of_nat n) (Z.of_nat p) = Z.of_nat p).
Proof. repeat split; try reflexivity. intros n p H. unfold pca_all_modes. apply Z.min_r. apply Nat2Z.inj_le. exact H. Qed.

(* ---- operand structure of the eight maps: interpret the generated descriptor as a matrix product ---- *)
Section Interp.
Context {F : Type} (K : Ops F).
Definition opnd := (@mat F * nat * nat)%type.
(* an operand used as is / conjugated / transposed / conjugate-transposed, with its shape *)
Definition use (cj tr : bool) (o : opnd) : opnd :=
  let '(A, r, c) := o in
  match cj, tr with
  | true, true => (mH K r c A, c, r)
  | false, true => (mT K r c A, c, r)
  | true, false => (mconj K r c A, r, c)
  | false, false => (A, r, c)
  end.
Definition interp (d : mapdesc) (env : wmat -> opnd) : @mat F :=
  let '(L, lr, lc) := use (md_left_conj d) (md_left_tr d) (env (md_left d)) in
  let '(R, rr, rc) := use (md_right_conj d) (md_right_tr d) (env (md_right d)) in
  mmul K lr lc rc L R.
(* T is feature x mode, Tinv is mode x feature, V is feature x mode; the argument X has shape a x b *)
Definition env_of (p k a b : nat) (T Tinv V X : @mat F) (w : wmat) : opnd :=
  match w with MT => (T, p, p) | MTinv => (Tinv, p, p) | MV => (V, p, k) | MX => (X, a, b) end.
End Interp.

Lemma tie_whiten_maps : forall (F : Type) (K : Ops F) (n p m : nat) (T Tinv V X P : @mat F),
  whiten_transform K n p T X = interp K whiten_transform_desc (env_of p p n p T Tinv V X) /\
  whiten_inverse_data K n p Tinv X = interp K whiten_inverse_data_desc (env_of p p n p T Tinv V X) /\
  whiten_transform_components K p m T P = interp K whiten_transform_components_desc (env_of p p p m T Tinv V P) /\
  whiten_inverse_components K p m Tinv P = interp K whiten_inverse_components_desc (env_of p p p m T Tinv V P).
Proof. intros. repeat split; reflexivity. Qed.

Lemma tie_pca_maps : forall (F : Type) (K : Ops F) (n p k m : nat) (T Tinv V X Y P Q : @mat F),
  pca_transform K n p k V X = interp K pca_transform_desc (env_of p k n p T Tinv V X) /\
  pca_inverse_data K n p k V Y = interp K pca_inverse_data_desc (env_of p k n k T Tinv V Y) /\
  pca_transform_components K p k m V P = interp K pca_transform_components_desc (env_of p k p m T Tinv V P) /\
  pca_inverse_components K p k m V Q = interp K pca_inverse_components_desc (env_of p k k m T Tinv V Q).
Proof. intros. repeat split; reflexivity. Qed.
