(* the EOF model commutes with every homomorphism of scalar instances; instance RtoC : R -> C *)
From Coq Require Import ZArith List Bool Lia Arith Reals.
From Coquelicot Require Import Complex.
From XV Require Import Base.Scalar Base.Sum Base.Mat Base.Hom Base.RInst Base.CInst Model.Eof.
Import ListNotations.

Section HomEof.
Context {F G : Type} (K1 : Ops F) (K2 : Ops G) (h : F -> G).
Hypothesis H : OpsHom K1 K2 h.
Notation mmap := (mmap h). Notation vmaph := (vmaph h).

Lemma fold_max_hom l : forall a, fold_left (fun a x => if fleb K2 a x then x else a) (vmaph l) (h a)
                                = h (fold_left (fun a x => if fleb K1 a x then x else a) l a).
Proof. induction l as [|x l IH]; intros a; [reflexivity|]. cbn [vmaph Hom.vmaph map fold_left]. rewrite (h_leb _ _ _ H).
  destruct (fleb K1 a x); apply IH. Qed.
Lemma fold_min_hom l : forall a, fold_left (fun a x => if fleb K2 x a then x else a) (vmaph l) (h a)
                                = h (fold_left (fun a x => if fleb K1 x a then x else a) l a).
Proof. induction l as [|x l IH]; intros a; [reflexivity|]. cbn [vmaph Hom.vmaph map fold_left]. rewrite (h_leb _ _ _ H).
  destruct (fleb K1 x a); apply IH. Qed.

Lemma vmax_hom l : vmax K2 (vmaph l) = h (vmax K1 l).
Proof. unfold vmax. destruct l as [|x l]; cbn [vmaph Hom.vmaph map hd tl].
  - cbn. symmetry. apply (h_0 _ _ _ H).
  - apply fold_max_hom. Qed.
Lemma vmin_hom l : vmin K2 (vmaph l) = h (vmin K1 l).
Proof. unfold vmin. destruct l as [|x l]; cbn [vmaph Hom.vmaph map hd tl].
  - cbn. symmetry. apply (h_0 _ _ _ H).
  - apply fold_min_hom. Qed.

Lemma sign_rule_hom mx mn : sign_rule K2 (h mx) (h mn) = h (sign_rule K1 mx mn).
Proof. unfold sign_rule. rewrite <- !(h_abs _ _ _ H), (h_leb _ _ _ H). destruct (fleb K1 _ _); symmetry; apply (h_ofZ _ _ _ H). Qed.

Lemma row_signs_hom k A : row_signs K2 k (mmap A) = vmaph (row_signs K1 k A).
Proof. unfold row_signs. rewrite <- (vtab_hom h). apply vtab_ext_all. intros i.
  rewrite (nth_mmap h), vmax_hom, vmin_hom. apply sign_rule_hom. Qed.

Lemma sq_over_hom n x : sq_over K2 n (h x) = h (sq_over K1 n x).
Proof. unfold sq_over. rewrite (h_div _ _ _ H), (h_mul _ _ _ H), (h_ofZ _ _ _ H). reflexivity. Qed.

Lemma colsum_hom n A j : colsum K2 n (mmap A) j = h (colsum K1 n A j).
Proof. unfold colsum. rewrite <- (sum_hom K1 K2 h H). apply sum_ext_all. intros i. apply (get_mmap K1 K2 h H). Qed.

Lemma totvar_hom n p A : totvar K2 n p (mmap A) = h (totvar K1 n p A).
Proof. unfold totvar. rewrite (h_div _ _ _ H), (h_ofZ _ _ _ H). f_equal.
  rewrite <- (sum_hom K1 K2 h H). apply sum_ext_all. intros j. rewrite <- (sum_hom K1 K2 h H). apply sum_ext_all. intros i.
  unfold colmean. rewrite (h_mul _ _ _ H), (h_conj _ _ _ H), (h_sub _ _ _ H), (h_div _ _ _ H), (h_ofZ _ _ _ H), colsum_hom, (get_mmap K1 K2 h H).
  reflexivity. Qed.

Definition amap (a : @svd_answer F) : @svd_answer G := let '(U, s, Vt) := a in (mmap U, vmaph s, mmap Vt).
Definition omap (o : @eof_out F) : @eof_out G :=
  {| e_comps := mmap (e_comps o); e_scores := mmap (e_scores o); e_norms := vmaph (e_norms o);
     e_expvar := vmaph (e_expvar o); e_totvar := h (e_totvar o) |}.

Theorem eof_fit_hom n p r k X a : eof_fit K2 n p r k (mmap X) (amap a) = omap (eof_fit K1 n p r k X a).
Proof. destruct a as [[U s] Vt]. unfold eof_fit, amap, eof_fit_sg, omap. cbv beta iota zeta. cbn [e_comps e_scores e_norms e_expvar e_totvar].
  rewrite !(mrows_hom K1 K2 h H), row_signs_hom, !(rowscale_hom K1 K2 h H), (mH_hom K1 K2 h H),
          (vfirstn_hom K1 K2 h H), !(colscale_hom K1 K2 h H), totvar_hom.
  rewrite (vmap_hom K1 K2 h H k (sq_over K1 n) (sq_over K2 n)) by (intros x; apply sq_over_hom). reflexivity. Qed.

Theorem eof_transform_hom m p k o Xn : eof_transform K2 m p k (omap o) (mmap Xn) = mmap (eof_transform K1 m p k o Xn).
Proof. unfold eof_transform, omap. cbn [e_comps]. apply (mmul_hom K1 K2 h H). Qed.
Theorem eof_inverse_hom m p k o S : eof_inverse K2 m p k (omap o) (mmap S) = mmap (eof_inverse K1 m p k o S).
Proof. unfold eof_inverse, omap. cbn [e_comps]. rewrite (mH_hom K1 K2 h H). apply (mmul_hom K1 K2 h H). Qed.

(* an admissible SVD answer is mapped to an admissible SVD answer *)
Theorem svd_ok_hom n p r X a : svd_ok K1 n p r X a -> svd_ok K2 n p r (mmap X) (amap a).
Proof. destruct a as [[U s] Vt]. unfold svd_ok, amap. intros (WX & WU & WV & Ws & E & HU & HV & Hr).
  repeat split.
  - apply (wf_hom K1 K2 h H); exact WX.
  - apply (wf_hom K1 K2 h H); exact WU.
  - apply (wf_hom K1 K2 h H); exact WV.
  - apply (vwf_hom K1 K2 h H); exact Ws.
  - rewrite (mdiag_hom K1 K2 h H), !(mmul_hom K1 K2 h H). rewrite <- E. reflexivity.
  - unfold unitary_cols in *. rewrite (mH_hom K1 K2 h H), (mmul_hom K1 K2 h H), HU. symmetry. apply (mI_hom K1 K2 h H).
  - unfold unitary_rows in *. rewrite (mH_hom K1 K2 h H), (mmul_hom K1 K2 h H), HV. symmetry. apply (mI_hom K1 K2 h H).
  - intros i Hi. rewrite (vget_vmaph K1 K2 h H), <- (h_conj _ _ _ H), (Hr i Hi). reflexivity. Qed.
End HomEof.

(* ---- the instance: the reals inside the complex numbers ---- *)
Lemma RtoC_hom : OpsHom OR OCR RtoC.
Proof. constructor; cbn.
  - reflexivity.
  - reflexivity.
  - intros x y. apply RtoC_plus.
  - intros x y. apply RtoC_mult.
  - intros x y. apply RtoC_minus.
  - intros x. apply RtoC_opp.
  - intros x y. unfold Rdiv, Cdiv. rewrite RtoC_mult. f_equal.
    destruct (Req_dec y 0) as [->|Hy]; [|apply RtoC_inv; exact Hy].
    rewrite Rinv_0. unfold Cinv, RtoC. cbn. f_equal; unfold Rdiv; ring.
  - intros x. destruct (Req_dec x 0) as [->|Hx]; [|apply RtoC_inv; exact Hx].
    rewrite Rinv_0. unfold Cinv, RtoC. cbn. f_equal; unfold Rdiv; ring.
  - intros x. unfold Cconj, RtoC. cbn. f_equal. ring.
  - intros x. reflexivity.
  - intros x. rewrite Cmod_R. reflexivity.
  - intros x y. reflexivity.
  - intros z. reflexivity. Qed.

(* a complex model fed real data equals the real model, embedded *)
Theorem complex_eof_on_real_data n p r k (X : list (list R)) (a : @svd_answer R) :
  svd_ok OR n p r X a ->
  svd_ok OCR n p r (mmap RtoC X) (amap RtoC a) /\
  eof_fit OCR n p r k (mmap RtoC X) (amap RtoC a) = omap RtoC (eof_fit OR n p r k X a).
Proof. intros Hs. split; [apply (svd_ok_hom OR OCR RtoC RtoC_hom); exact Hs|apply (eof_fit_hom OR OCR RtoC RtoC_hom)]. Qed.
