(* C14 — answers depend only on the last fit: non-interference over all operation sequences. *)
From Coq Require Import List Bool Lia Arith.
From XV Require Import Model.History.
Import ListNotations.

Section C14.
Variables (Data View Bk Query Ans : Type).
Variable fit_view : Data -> View.
Variable bk_of : Data -> Bk.
Variable ans_query : View -> Query -> Ans.
Variable ans_transform : View -> Bk -> Data -> Ans.
Notation step := (step Data View Bk Query Ans fit_view bk_of ans_query ans_transform).
Notation run := (run Data View Bk Query Ans fit_view bk_of ans_query ans_transform).
Notation op := (op Data Query).
Notation state := (state View Bk).

(* fit overwrites: whatever happened before, the stored views after fit d are exactly [fit_view d] *)
Lemma fit_overwrites (s : state) d : st_views View Bk (fst (step false s (OFit Data Query d))) = [fit_view d].
Proof. reflexivity. Qed.

(* every non-fit operation preserves the stored views *)
Lemma queries_preserve appends (s : state) (o : op) : is_fit Data Query o = false ->
  st_views View Bk (fst (step appends s o)) = st_views View Bk s.
Proof. destruct o; cbn; intros H; try discriminate; reflexivity. Qed.

Lemma run_queries_preserve appends (q : list op) : forall (s : state), forallb (fun o => negb (is_fit Data Query o)) q = true ->
  st_views View Bk (fst (run appends s q)) = st_views View Bk s.
Proof. induction q as [|o q IH]; intros s H; cbn [run]; [reflexivity|].
  cbn [forallb] in H. apply andb_prop in H. destruct H as [Ho Hq]. apply negb_true_iff in Ho.
  destruct (step appends s o) as [s1 a] eqn:E1. destruct (run appends s1 q) as [s2 l] eqn:E2. cbn [fst].
  pose proof (IH s1 Hq) as H1. rewrite E2 in H1. cbn [fst] in H1. rewrite H1.
  pose proof (queries_preserve appends s o Ho) as H2. rewrite E1 in H2. exact H2. Qed.

(* answers of a query sequence depend on the stored views only (never on bookkeeping) *)
Lemma answers_depend_on_views appends (q : list op) : forall (s s' : state),
  forallb (fun o => negb (is_fit Data Query o)) q = true ->
  st_views View Bk s = st_views View Bk s' -> snd (run appends s q) = snd (run appends s' q).
Proof. induction q as [|o q IH]; intros s s' H Hv; cbn [run]; [reflexivity|].
  cbn [forallb] in H. apply andb_prop in H. destruct H as [Ho Hq]. apply negb_true_iff in Ho.
  destruct (step appends s o) as [s1 a] eqn:E1. destruct (step appends s' o) as [s1' a'] eqn:E1'.
  destruct (run appends s1 q) as [s2 l] eqn:E2. destruct (run appends s1' q) as [s2' l'] eqn:E2'. cbn [snd].
  assert (Ha : a = a').
  { destruct o; cbn in E1, E1'; try discriminate; inversion E1; inversion E1'; subst; unfold current; try rewrite Hv; reflexivity. }
  assert (Hv1 : st_views View Bk s1 = st_views View Bk s1').
  { pose proof (queries_preserve appends s o Ho) as A. pose proof (queries_preserve appends s' o Ho) as B.
    rewrite E1 in A. rewrite E1' in B. cbn [fst] in A, B. congruence. }
  pose proof (IH s1 s1' Hq Hv1) as Hl. rewrite E2, E2' in Hl. cbn [snd] in Hl. congruence. Qed.

Lemma run_app appends (h1 h2 : list op) (s : state) :
  run appends s (h1 ++ h2) = let '(s1, l1) := run appends s h1 in let '(s2, l2) := run appends s1 h2 in (s2, l1 ++ l2).
Proof. revert s; induction h1 as [|o h1 IH]; intros s; cbn [run app].
  - destruct (run appends s h2); reflexivity.
  - destruct (step appends s o) as [s1 a]. rewrite IH. destruct (run appends s1 h1) as [s2 l1]. destruct (run appends s2 h2) as [s3 l2]. reflexivity. Qed.

(* history independence: after any history h, a fit on d followed by queries q answers exactly as a fresh
   object fitted on d and asked q *)
Theorem history_independent (h q : list op) d : forallb (fun o => negb (is_fit Data Query o)) q = true ->
  let all := snd (run false (init View Bk) (h ++ OFit Data Query d :: q)) in
  let fresh := snd (run false (init View Bk) (OFit Data Query d :: q)) in
  skipn (length h + 1) all = skipn 1 fresh.
Proof. intros Hq all fresh. unfold all, fresh. rewrite run_app.
  destruct (run false (init View Bk) h) as [s1 l1] eqn:E1.
  assert (Hl1 : length l1 = length h).
  { clear -E1. revert E1. generalize (init View Bk). revert l1 s1. induction h as [|o h IH]; intros l1 s1 s0 E; cbn [run] in E.
    - inversion E; reflexivity.
    - destruct (step false s0 o) as [sa a]. destruct (run false sa h) as [sb lb] eqn:Eb. inversion E; subst. cbn [length]. f_equal. eapply IH. exact Eb. }
  cbn [run]. cbn [step]. 
  destruct (run false (mkSt View Bk [fit_view d] (st_bk View Bk s1)) q) as [s2 l2] eqn:E2.
  destruct (run false (mkSt View Bk [fit_view d] (st_bk View Bk (init View Bk))) q) as [s3 l3] eqn:E3.
  cbn [snd]. rewrite <- Hl1. rewrite Nat.add_1_r.
  replace (skipn (S (length l1)) (l1 ++ None :: l2)) with l2.
  2:{ clear. induction l1 as [|x l1 IH]; cbn [length app skipn]; [reflexivity|exact IH]. }
  cbn [skipn].
  pose proof (answers_depend_on_views false q (mkSt View Bk [fit_view d] (st_bk View Bk s1)) (mkSt View Bk [fit_view d] (st_bk View Bk (init View Bk))) Hq eq_refl) as H.
  rewrite E2, E3 in H. exact H. Qed.

(* queries are pure: any non-fit sequence in between leaves later answers unchanged *)
Theorem queries_pure (mid q : list op) (s : state) :
  forallb (fun o => negb (is_fit Data Query o)) mid = true -> forallb (fun o => negb (is_fit Data Query o)) q = true ->
  snd (run false (fst (run false s mid)) q) = snd (run false s q).
Proof. intros Hm Hq. apply answers_depend_on_views; [exact Hq|]. apply run_queries_preserve; exact Hm. Qed.

End C14.

(* the defect variant (fit appends, later calls pair the data with the first stored entry): a second fit is
   ignored — concrete two-fit history over View := nat *)
Theorem refit_refuted_when_appending :
  let run' := run nat nat unit unit nat (fun d => d) (fun _ => tt) (fun v _ => v) (fun v _ _ => v) in
  snd (run' true (init nat unit) [OFit nat unit 1; OFit nat unit 2; OQuery nat unit tt]) <>
  snd (run' true (init nat unit) [OFit nat unit 2; OQuery nat unit tt]) /\
  snd (run' true (init nat unit) [OFit nat unit 1; OFit nat unit 2; OQuery nat unit tt]) = [None; None; Some 1].
Proof. split; [cbn; discriminate|reflexivity]. Qed.

