(* scaling with NaN-skipping per-feature statistics commutes with the deletion of fully missing samples and
   features: Scaler-then-Sanitizer hands on the same dense matrix as the Scaler applied to the reduced data *)
From Coq Require Import List Bool Arith Lia.
From XV Require Import Model.Sanitizer Model.OScale Proofs.C06_proofs.
Import ListNotations.

Section OScaleProofs.
Context {F : Type}.
Notation omat := (@omat F).

Lemma flat_map_filter_skip {A B} (f : A -> list B) (q : A -> bool) (l : list A) :
  (forall x, In x l -> q x = false -> f x = []) -> flat_map f (filter q l) = flat_map f l.
Proof. induction l as [|a l IH]; intros H; [reflexivity|]. cbn [filter flat_map].
  destruct (q a) eqn:E; cbn [flat_map]; rewrite IH by (intros x Hx; apply H; right; exact Hx); [reflexivity|].
  rewrite (H a (or_introl eq_refl) E). reflexivity. Qed.

Lemma colvals_rows n p (M : omat) j : owf n p M -> colvals M j = flat_map (fun i => present (oget M i j)) (seq 0 n).
Proof. intros [Hn _]. unfold colvals, oget. subst n.
  rewrite <- (map_nth_seq_id [] M) at 1. rewrite flat_map_concat_map, map_map, <- flat_map_concat_map. reflexivity. Qed.

Lemma oget_omap_cols n p g (M : omat) i j : owf n p M -> i < n -> j < p ->
  oget (omap_cols p g M) i j = option_map (g j (colvals M j)) (oget M i j).
Proof. intros [Hn Hf] Hi Hj. unfold oget, omap_cols.
  rewrite (nth_map_d _ M [] []) by lia. rewrite (nth_map_d _ (seq 0 p) 0 None) by (rewrite seq_length; exact Hj).
  rewrite seq_nth by exact Hj. reflexivity. Qed.

Lemma notnull_omap_cols n p g (M : omat) : owf n p M -> notnull (omap_cols p g M) = notnull M.
Proof. intros [Hn Hf]. unfold notnull, omap_cols. rewrite map_map. apply map_ext_in. intros r Hr.
  rewrite Forall_forall in Hf. specialize (Hf r Hr). rewrite map_map.
  transitivity (map is_some (map (fun j => nth j r None) (seq 0 (length r)))); [|rewrite map_nth_seq_id; reflexivity].
  rewrite Hf, map_map. apply map_ext. intros j. destruct (nth j r None); reflexivity. Qed.

Lemma owf_omap_cols n p g (M : omat) : owf n p M -> owf n p (omap_cols p g M).
Proof. intros [Hn Hf]. split; [unfold omap_cols; rewrite map_length; exact Hn|].
  unfold omap_cols. apply Forall_forall. intros r Hr. apply in_map_iff in Hr. destruct Hr as [r0 [<- _]]. rewrite map_length, seq_length. reflexivity. Qed.

(* fully missing samples carry no present value: deleting them leaves every feature's present values unchanged *)
Lemma colvals_kept_rows n p (M : omat) j : owf n p M -> j < p ->
  flat_map (fun i => present (oget M i j)) (kept_rows M) = colvals M j.
Proof. intros Hwf Hj. rewrite (colvals_rows n p M j Hwf). unfold kept_rows, true_idx.
  assert (Hl : length (valid_samples M) = n) by (unfold valid_samples, valid_samples_b, notnull; rewrite !map_length; apply Hwf).
  rewrite Hl. apply flat_map_filter_skip. intros i Hi Hq. apply in_seq in Hi.
  unfold valid_samples in Hq. rewrite vs_nth in Hq.
  destruct (oget M i j) as [x|] eqn:E; [|reflexivity]. exfalso.
  assert (row_any (nth i (notnull M) []) = true); [|congruence].
  apply (row_any_notnull n p M i Hwf); [lia|]. exists j. split; [exact Hj|rewrite E; reflexivity]. Qed.

Lemma colvals_select (I J : list nat) (M : omat) b : b < length J ->
  colvals (select I J M) b = flat_map (fun i => present (oget M i (nth b J 0))) I.
Proof. intros Hb. unfold colvals, select. rewrite flat_map_concat_map, map_map, <- flat_map_concat_map.
  apply flat_map_ext. intros i. rewrite (nth_map_d _ J 0 None) by exact Hb. reflexivity. Qed.

(* the theorem: for ANY per-feature operation built from the present values of the feature *)
Theorem scale_commutes_with_deletion n p (g : nat -> list F -> F -> F) (M : omat) : owf n p M ->
  let I := kept_rows M in let J := kept_cols p M in
  select I J (omap_cols p g M) = omap_cols (length J) (fun b => g (nth b J 0)) (select I J M).
Proof. intros Hwf I J.
  set (f := fun i => map (fun j => oget M i j) J).
  assert (HR : forall q h, omap_cols q h (map f I) = map (fun i => map (fun b => option_map (h b (colvals (map f I) b)) (nth b (f i) None)) (seq 0 q)) I)
    by (intros q h; unfold omap_cols; rewrite map_map; reflexivity).
  change (select I J M) with (map f I). rewrite HR. unfold select. apply map_ext_in. intros i Hi.
  assert (Hin : i < n) by (apply (In_kept_rows n p M i Hwf) in Hi; tauto).
  rewrite <- (map_nth_seq_id 0 J) at 1. rewrite map_map. apply map_ext_in. intros b Hb. apply in_seq in Hb.
  assert (HJ : nth b J 0 < p).
  { assert (In (nth b J 0) J) by (apply nth_In; lia). apply (In_kept_cols n p M _ Hwf) in H. tauto. }
  rewrite (oget_omap_cols n p g M i (nth b J 0) Hwf Hin HJ).
  unfold f at 2. rewrite (nth_map_d _ J 0 None) by lia.
  change (map f I) with (select I J M). rewrite (colvals_select I J M b) by lia.
  unfold I. rewrite (colvals_kept_rows n p M _ Hwf HJ). reflexivity. Qed.

(* Scaler, then Sanitizer: the dense matrix handed on is the scaled reduced data *)
Theorem sanitize_after_scaling n p g (M : omat) : owf n p M -> isolated_ok p M = true ->
  exists D, sanitize p (omap_cols p g M) = SOk (mkOut D (kept_rows M) (kept_cols p M)) /\
            undense D = omap_cols (length (kept_cols p M)) (fun b => g (nth b (kept_cols p M) 0)) (select (kept_rows M) (kept_cols p M) M).
Proof. intros Hwf Hok.
  pose proof (notnull_omap_cols n p g M Hwf) as Hnn.
  assert (Hok' : isolated_ok p (omap_cols p g M) = true) by (unfold isolated_ok; rewrite (notnull_omap_cols n p g M Hwf); exact Hok).
  assert (HI : kept_rows (omap_cols p g M) = kept_rows M) by (unfold kept_rows, valid_samples; rewrite (notnull_omap_cols n p g M Hwf); reflexivity).
  assert (HJ : kept_cols p (omap_cols p g M) = kept_cols p M) by (unfold kept_cols, valid_features; rewrite (notnull_omap_cols n p g M Hwf); reflexivity).
  destruct (delete_equiv n p (omap_cols p g M) (owf_omap_cols n p g M Hwf) Hok') as [D (HS & HU & _)].
  exists D. rewrite HI, HJ in HS, HU. split; [exact HS|]. rewrite HU. exact (scale_commutes_with_deletion n p g M Hwf). Qed.
End OScaleProofs.
