(* C18 — order of the modes, at the real instance: numpy's argsort(norms)[::-1] (insertion
   argsort, reversed) is a permutation of the modes and puts the norms in descending order. *)
From Coq Require Import ZArith List Bool Reals Lra Lia Arith Permutation Sorting.Sorted.
From XV Require Import Base.Scalar Base.Sum Base.Mat Base.RInst Model.Pop.
Import ListNotations.
Open Scope R_scope.

Section Order.
Variable v : list R.
Definition le_idx (i j : nat) : Prop := vget OR v i <= vget OR v j.

Lemma ins_perm i l : Permutation (ins_idx OR v i l) (i :: l).
Proof. induction l as [|j r IH]; cbn [ins_idx]; [reflexivity|].
  destruct (fleb OR (vget OR v i) (vget OR v j)); [reflexivity|].
  etransitivity; [apply perm_skip; exact IH|apply perm_swap]. Qed.

Lemma argsort_perm q : Permutation (argsort OR q v) (seq 0 q).
Proof. unfold argsort. generalize (seq 0 q). intros l. induction l as [|a l IH]; cbn [fold_right]; [constructor|].
  etransitivity; [apply ins_perm|]. constructor. exact IH. Qed.

Lemma ins_sorted i l : StronglySorted le_idx l -> StronglySorted le_idx (ins_idx OR v i l).
Proof. induction l as [|j r IH]; intros Hs; cbn [ins_idx].
  - constructor; constructor.
  - inversion Hs as [|? ? Hr Hall]; subst.
    destruct (fleb OR (vget OR v i) (vget OR v j)) eqn:E; cbn [fleb OR] in E.
    + apply Rleb_true in E. constructor; [exact Hs|]. constructor; [exact E|].
      eapply Forall_impl; [|exact Hall]. intros a Ha. unfold le_idx in *. lra.
    + apply Rleb_false in E. constructor; [apply IH; exact Hr|].
      apply (Permutation_Forall (Permutation_sym (ins_perm i r))). constructor; [unfold le_idx; lra|exact Hall]. Qed.

Lemma argsort_sorted q : StronglySorted le_idx (argsort OR q v).
Proof. unfold argsort. generalize (seq 0 q). intros l. induction l as [|a l IH]; cbn [fold_right]; [constructor|].
  apply ins_sorted. exact IH. Qed.

Lemma ss_nth l : StronglySorted le_idx l -> forall a b, (a < b)%nat -> (b < length l)%nat -> le_idx (nth a l O) (nth b l O).
Proof. induction 1 as [|x l Hs IH Hall]; intros a b Hab Hb; cbn [length] in Hb; [lia|].
  destruct b as [|b]; [lia|]. destruct a as [|a]; cbn [nth].
  - rewrite Forall_forall in Hall. apply Hall. apply nth_In. lia.
  - apply IH; lia. Qed.

Lemma argsort_desc_ok q : let idx := argsort_desc OR q v in
  Permutation idx (seq 0 q) /\
  forall i j, (i <= j)%nat -> (j < q)%nat -> vget OR (psel OR idx v) j <= vget OR (psel OR idx v) i.
Proof. cbn zeta. unfold argsort_desc.
  assert (Hl : length (argsort OR q v) = q) by (rewrite (Permutation_length (argsort_perm q)), seq_length; reflexivity).
  split; [etransitivity; [symmetry; apply Permutation_rev|apply argsort_perm]|].
  intros i j Hij Hj. unfold psel. rewrite rev_length, Hl. rewrite !vget_vtab by lia.
  rewrite !rev_nth by lia. rewrite Hl.
  destruct (Nat.eq_dec i j) as [->|Hne]; [lra|].
  apply (ss_nth _ (argsort_sorted q)); lia. Qed.
End Order.

(* the model's sorting step with the key the source uses *)
Lemma sorted_norms_descending (n p q : nat) (o : pop_out (F:=R)) :
  let idx := argsort_desc OR q (p_norms o) in
  let s := pop_sort OR n p idx o in
  Permutation idx (seq 0 q) /\
  forall i j, (i <= j)%nat -> (j < q)%nat -> vget OR (p_norms s) j <= vget OR (p_norms s) i.
Proof. cbn zeta. unfold pop_sort. cbn [p_norms]. apply argsort_desc_ok. Qed.

(* any index list that sorts the norms descending does (the implementation's own idx is checked this way) *)
Lemma sorts_desc_selected (v : list R) (idx : list nat) :
  (forall i j, (i <= j)%nat -> (j < length idx)%nat -> vget OR v (nth j idx O) <= vget OR v (nth i idx O)) ->
  forall i j, (i <= j)%nat -> (j < length idx)%nat -> vget OR (psel OR idx v) j <= vget OR (psel OR idx v) i.
Proof. intros H i j Hij Hj. unfold psel. rewrite !vget_vtab by lia. apply H; assumption. Qed.

(* the eigenvalue rho (c + i s), c^2 + s^2 = 1, as a pair of reals: its modulus is rho, so for ANY
   logarithm function the damping time computed from it is -1/log rho *)
Definition cmod (z : R * R) : R := sqrt (fst z * fst z + snd z * snd z).

Lemma recovery_modulus (flog : R -> R) rho c s : 0 <= rho -> c * c + s * s = 1 ->
  let lam := (rho * c, rho * s) in cmod lam = rho /\ -1 / flog (cmod lam) = -1 / flog rho.
Proof. intros Hr Hcs. cbn zeta.
  assert (E : cmod (rho * c, rho * s) = rho).
  { unfold cmod. cbn [fst snd].
    replace (rho * c * (rho * c) + rho * s * (rho * s)) with (rho * rho * (c * c + s * s)) by ring.
    rewrite Hcs, Rmult_1_r. apply sqrt_square. exact Hr. }
  rewrite E. split; reflexivity. Qed.
