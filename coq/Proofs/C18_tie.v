(* ties between the POP model (Model/Pop.v) and the definitions regenerated from
   xeofs/single/pop.py and xeofs/preprocessing/pca.py (Gen/T5pop.v). Closed by computation. *)
From Coq Require Import String ZArith List Bool.
From XV Require Import Base.Scalar Base.Sum Base.Mat Model.Pop Gen.T5pop.
Import ListNotations.

(* the feedback matrix: which slices, which factor is conjugate-transposed, the order of the
   product, and that the inverse is taken of the lag-0 Gram matrix of X[:-1] *)
Lemma tie_feedback : forall (F : Type) (K : Ops F) (n q : nat) (inv : list (list F) -> list (list F)) (X : list (list F)),
  feedback K n q X (inv (lag0 K n q X)) = pop_feedback_src K n q inv X.
Proof. reflexivity. Qed.

Lemma tie_feedback_chain : pop_feedback_chain = [FTailH; FHead; FInv [FHeadH; FHead]] /\ pop_eig_of_feedback = true.
Proof. split; reflexivity. Qed.

Lemma tie_tau_period : forall (F : Type) (K : Ops F) (flog farg : F -> F) (pi lam : F),
  pop_tau K flog lam = pop_tau_src K flog lam /\ pop_period K pi farg lam = pop_period_src K pi farg lam.
Proof. intros. split; reflexivity. Qed.

Lemma tie_coeff : forall (F : Type) (K : Ops F) (iu zr zi : F),
  coeff_combine K iu zr zi = pop_coeff_combine_src K iu zr zi.
Proof. reflexivity. Qed.

Lemma tie_coeff_layout :
  pop_gram_layout = [[GRR; GRI]; [GRI; GII]] /\ pop_gram_dot_conjugated = false /\ pop_minv_is_pinv = true /\
  pop_zri_rows = ["X @ pr"; "X @ pi"]%string.
Proof. repeat split; reflexivity. Qed.

Lemma tie_norms : forall (F : Type) (K : Ops F) (n : nat) (Zc : list (list F)) (j : nat) (v : F),
  col_var K n Zc j = col_var_ddof K pop_var_ddof n Zc j /\ norm_of_var K v = pop_norm_of_var_src K v.
Proof. intros. split; reflexivity. Qed.

Lemma tie_sort :
  pop_sort_key_is_reversed_argsort_of_norms = true /\ pop_sort_all_mode_arrays = true /\
  pop_mode_arrays = ["components"; "scores"; "norms"; "eigenvalues"; "damping_times"; "periods"]%string /\
  pop_store = [("input_data", "X"); ("components", "P"); ("scores", "Z"); ("norms", "norms"); ("eigenvalues", "lbda");
               ("damping_times", "tau"); ("periods", "T"); ("idx_modes_sorted", "idx_modes_sorted"); ("total_variance", "var_tot")]%string.
Proof. repeat split; reflexivity. Qed.

Lemma tie_transform :
  pop_transform_steps = [TStoredComponents; TTransformComponents; TPcaTransform; TCoeffs; TInverseScoresIdentity] /\
  pop_transform_same_coefficient_function = true /\ pop_pca_inverse_transform_scores_identity = true /\
  pop_pca_disabled_is_identity = true.
Proof. repeat split; reflexivity. Qed.

Lemma tie_pca : forall (F : Type) (K : Ops F) (m p q c : nat) (V X C P : list (list F)),
  pca_transform K m p q V X = pop_pca_transform_src K m p q V X /\
  pca_transform_components K p q c V C = pop_pca_transform_components_src K p q c V C /\
  pca_inverse_transform_components K p q c V P = pop_pca_inverse_transform_components_src K p q c V P.
Proof. intros. repeat split; reflexivity. Qed.

(* the model's transform is the composition the source performs *)
Lemma tie_transform_model : forall (F : Type) (K : Ops F) (re im : F -> F) (iu : F) (m p q : nat)
  (V comps : list (list F)) (Minvs : list (quad (F:=F))) (Xn : list (list F)),
  pop_transform K re im iu m p q V comps Minvs Xn
  = pop_coeffs K re im iu m q (pop_pca_transform_src K m p q V Xn) (pop_pca_transform_components_src K p q q V comps) Minvs.
Proof. reflexivity. Qed.
