(* C03 — full-mode inverse_transform restores the data; transform o inverse_transform = id;
   the `normalized` switches. *)
From Coq Require Import ZArith List Bool Ring Field Setoid Lia Arith.
From XV Require Import Base.Scalar Base.Sum Base.Mat Base.MatAlg Model.ScalerLib Model.Eof Gen.T4 Proofs.C01_proofs.
Import ListNotations.

Section C03.
Context {F : Type} (K : Ops F).
Hypothesis FL : FieldLaws K.
Add Field Ffc03 : (FL_field K FL).
Notation "0" := (f0 K).

Definition params_ok (fl : sflags) (ps : sparams) : Prop :=
  (with_std fl = true -> p_std ps <> 0) /\ (with_coslat fl = true -> p_coslat ps <> 0) /\ p_weights ps <> 0.

(* the generated inverse list undoes the generated forward list, for all 8 flag combinations *)
Lemma scaler_roundtrip fl ps x : params_ok fl ps ->
  run_ops K fl ps scaler_inv (run_ops K fl ps scaler_fwd x) = x.
Proof. intros (Hs & Hc & Hw). destruct fl as [c sd cl]. destruct ps as [m s l w].
  cbn [with_std with_coslat p_std p_coslat p_weights] in *.
  unfold scaler_fwd, scaler_inv, run_ops. cbn [fold_left guard_on with_center with_std with_coslat apply_op param p_mean p_std p_coslat p_weights].
  destruct c, sd, cl; cbn [apply_op]; field; auto. Qed.

Lemma scaler_roundtrip' fl ps y : params_ok fl ps ->
  run_ops K fl ps scaler_fwd (run_ops K fl ps scaler_inv y) = y.
Proof. intros (Hs & Hc & Hw). destruct fl as [c sd cl]. destruct ps as [m s l w].
  cbn [with_std with_coslat p_std p_coslat p_weights] in *.
  unfold scaler_fwd, scaler_inv, run_ops. cbn [fold_left guard_on with_center with_std with_coslat apply_op param p_mean p_std p_coslat p_weights].
  destruct c, sd, cl; cbn [apply_op]; field; auto. Qed.

Lemma scale_mat_roundtrip n p fl ps X : wf K n p X -> (forall j, (j < p)%nat -> params_ok fl (ps j)) ->
  scale_mat K n p fl ps scaler_inv (scale_mat K n p fl ps scaler_fwd X) = X.
Proof. intros HX Hp. rewrite HX at 2. unfold scale_mat. apply tab_ext. intros i j Hi Hj.
  rewrite get_tab by assumption. apply scaler_roundtrip. apply Hp; exact Hj. Qed.

(* the forward list is exactly (x - mean)/std * coslat * weights *)
Lemma scaler_fwd_formula ps x :
  run_ops K (mkFlags true true true) ps scaler_fwd x =
  fmul K (fmul K (fdiv K (fsub K x (p_mean ps)) (p_std ps)) (p_coslat ps)) (p_weights ps).
Proof. reflexivity. Qed.

(* `normalized` switches differ from the default exactly by the per-mode norms *)
Lemma norm_switches x nrm : nrm <> 0 ->
  fmul K (norm_apply K norm_switch_scores true x nrm) nrm = norm_apply K norm_switch_scores false x nrm /\
  fmul K (norm_apply K norm_switch_transform true x nrm) nrm = norm_apply K norm_switch_transform false x nrm /\
  norm_apply K norm_switch_components false x nrm = fmul K (norm_apply K norm_switch_components true x nrm) nrm /\
  norm_apply K norm_switch_inverse_transform true (norm_apply K norm_switch_scores true x nrm) nrm
    = norm_apply K norm_switch_inverse_transform false (norm_apply K norm_switch_scores false x nrm) nrm.
Proof. intros Hn. unfold norm_apply, norm_switch_scores, norm_switch_transform, norm_switch_components, norm_switch_inverse_transform.
  cbn [fst snd Bool.eqb apply_op]. repeat split; try field; auto. Qed.

(* transform (inverse_transform S) = S for every score matrix S (any number of samples) *)
Lemma transform_inverse_id n p r k X U Vt s m S :
  svd_ok K n p r X (U, s, Vt) -> (k <= r)%nat -> wf K m k S ->
  let out := eof_fit K n p r k X (U, s, Vt) in
  eof_transform K m p k out (eof_inverse K m p k out S) = S.
Proof. intros OK Hk HS out. unfold eof_transform, eof_inverse. rewrite (mmul_assoc K FL).
  unfold out. rewrite (fit_components_orthonormal K FL n p r k X U Vt s OK Hk).
  apply (mmul_I_r K FL). exact HS. Qed.

End C03.
