(* the parameters extracted from the current source are the faithful ones, and every public inverse uses the
   reference the theorems are stated for *)
From Coq Require Import String List Bool.
From XV Require Import Model.Mic Gen.T7mic.
Import ListNotations.
Open Scope string_scope.

Lemma src_is_faithful : src_params = faithful.
Proof. reflexivity. Qed.

Lemma wrappers_as_expected : wrapper_refs =
  [("inverse_transform_data", RefFit); ("inverse_transform_components", RefFit); ("inverse_transform_scores", RefFit);
   ("inverse_transform_scores_unseen", RefTransform)].
Proof. reflexivity. Qed.

Lemma wrappers_split : In ("inverse_transform_scores_unseen", RefTransform) wrapper_refs /\ In ("inverse_transform_scores", RefFit) wrapper_refs.
Proof. rewrite wrappers_as_expected. cbn. tauto. Qed.
