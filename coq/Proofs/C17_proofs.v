(* C17 — unusable input is refused.  Lemmas about the generated validators (Gen/T1.v) and about
   their composition into entry points (Model/Validate.v). *)
From Coq Require Import String ZArith List Bool PrimFloat Lia Reals Lra.
From XV Require Import Base.Scalar Base.Instances Base.RInst Model.DecompLib Model.ValidateLib Gen.T3 Gen.T1
  Model.Validate Proofs.C15_proofs.
Import ListNotations.
Open Scope bool_scope.

Definition refused {A} (r : result A) : Prop := exists k, r = Err k.

(* ------------------------------------------------------------------ plumbing *)
Lemma refused_not_ok {A} (r : result A) : refused r <-> forall a, r <> Ok a.
Proof.
  split.
  - intros [k ->] a; discriminate.
  - intros H. destruct r as [a|k]; [exfalso; now apply (H a)|now exists k].
Qed.

Lemma not_ok_refused (r : result unit) : r <> Ok tt -> refused r.
Proof. intros H. apply refused_not_ok. intros []. exact H. Qed.

Lemma seq_ok {B} (r : result unit) (k : result B) v : r ;; k = Ok v -> r = Ok tt /\ k = Ok v.
Proof. destruct r as [[]|e]; cbn [seq_res bind]; intros H; [now split|discriminate]. Qed.

Lemma seq_err_l {B} (r : result unit) (k : result B) e : r = Err e -> r ;; k = Err e.
Proof. now intros ->. Qed.

Lemma bind_ok {A B} (r : result A) (f : A -> result B) v : bind r f = Ok v -> exists a, r = Ok a /\ f a = Ok v.
Proof. destruct r as [a|e]; cbn [bind]; intros H; [now exists a|discriminate]. Qed.

Lemma void_ok {A} (r : result A) : void r = Ok tt -> exists a, r = Ok a.
Proof. unfold void. intros H. apply bind_ok in H as [a [H _]]. now exists a. Qed.

Lemma first_err_ok l : first_err l = Ok tt -> forall r, In r l -> r = Ok tt.
Proof.
  induction l as [|r l IH]; cbn [first_err]; intros H q Hq; [destruct Hq|].
  destruct r as [[]|e]; [|discriminate]. destruct Hq as [<-|Hq]; [reflexivity|now apply IH].
Qed.

Lemma first_err_all_ok l : (forall r, In r l -> r = Ok tt) -> first_err l = Ok tt.
Proof.
  induction l as [|r l IH]; cbn [first_err]; intros H; [reflexivity|].
  rewrite (H r (or_introl eq_refl)). apply IH. intros q Hq. apply H. now right.
Qed.

Lemma first_err_map_ok {A} (f : A -> result unit) l : first_err (map f l) = Ok tt -> forall a, In a l -> f a = Ok tt.
Proof. intros H a Ha. apply (first_err_ok _ H). now apply in_map. Qed.

Lemma map_res_ok {A B} (f : A -> result B) l bs :
  map_res f l = Ok bs -> length bs = length l /\ forall a, In a l -> exists b, f a = Ok b.
Proof.
  revert bs; induction l as [|a l IH]; cbn [map_res]; intros bs H.
  - injection H as <-. split; [reflexivity|intros ? []].
  - destruct (f a) as [b|e] eqn:Hfa; [|discriminate].
    destruct (map_res f l) as [bs'|e] eqn:Hr; [|discriminate]. injection H as <-.
    destruct (IH bs' eq_refl) as [Hl Hall]. split; [cbn [length]; now rewrite Hl|].
    intros a' [<-|Ha']; [now exists b|now apply Hall].
Qed.

(* a stage that only checks hands its items on unchanged *)
Lemma map_res_snd {A B} (f : A * B -> result B) l bs :
  (forall p b, f p = Ok b -> b = snd p) -> map_res f l = Ok bs -> bs = map snd l.
Proof.
  intros Hf. revert bs; induction l as [|a l IH]; cbn [map_res map]; intros bs H.
  - now injection H as <-.
  - destruct (f a) as [b|e] eqn:Hfa; [|discriminate].
    destruct (map_res f l) as [bs'|e] eqn:Hr; [|discriminate]. injection H as <-.
    rewrite (Hf _ _ Hfa). f_equal. now apply IH.
Qed.

Lemma map_res_map {A B} (f : A -> result B) (g : A -> B) l bs :
  (forall a b, f a = Ok b -> b = g a) -> map_res f l = Ok bs -> bs = map g l.
Proof.
  intros Hf. revert bs; induction l as [|a l IH]; cbn [map_res map]; intros bs H.
  - now injection H as <-.
  - destruct (f a) as [b|e] eqn:Hfa; [|discriminate].
    destruct (map_res f l) as [bs'|e] eqn:Hr; [|discriminate]. injection H as <-.
    rewrite (Hf _ _ Hfa). f_equal. now apply IH.
Qed.

Lemma combine_map_combine {A B C} (g : A * B -> C) (l : list A) (m : list B) :
  combine l (map g (combine l m)) = map (fun p => (fst p, g p)) (combine l m).
Proof.
  revert m; induction l as [|a l IH]; intros m; cbn [combine map]; [reflexivity|].
  destruct m as [|b m]; cbn [combine map]; [reflexivity|]. cbn [fst]. f_equal. apply IH.
Qed.

Lemma combine_map_snd {A B} (l : list A) (m : list B) : combine l (map snd (combine l m)) = combine l m.
Proof.
  revert m; induction l as [|a l IH]; intros m; cbn [combine map]; [reflexivity|].
  destruct m as [|b m]; cbn [combine map]; [reflexivity|]. cbn [snd]. f_equal. apply IH.
Qed.

(* ------------------------------------------------------------------ type tags *)
Lemma ty_of_val_of_ty t : ty_of (val_of_ty t) = t.
Proof. now destruct t. Qed.

Lemma isinstance_xr t : pyty_isinstance t [TDataArray; TDataset] = is_xr t.
Proof. now destruct t. Qed.

Lemma isinstance_seq t : pyty_isinstance t [TList; TTuple] = is_seq t.
Proof. now destruct t. Qed.

Lemma forallb_ext' {A} (p q : A -> bool) l : (forall a, p a = q a) -> forallb p l = forallb q l.
Proof. intros H. induction l as [|a l IH]; cbn [forallb]; [reflexivity|now rewrite H, IH]. Qed.

Lemma forallb_id_map {A} (p : A -> bool) l : forallb (fun b : bool => b) (map p l) = forallb p l.
Proof. induction l as [|a l IH]; cbn [map forallb]; [reflexivity|now rewrite IH]. Qed.

(* ------------------------------------------------------------------ validate_input_type *)
Lemma validate_input_type_spec X :
  validate_input_type X =
  if is_xr (ty_of X) then Ok tt
  else if is_seq (ty_of X) && forallb (fun v => is_xr (ty_of v)) (items_of X) then Ok tt else Err ETypeError.
Proof.
  unfold validate_input_type. rewrite isinstance_xr, isinstance_seq, forallb_id_map.
  destruct (is_xr (ty_of X)); [reflexivity|]. destruct (is_seq (ty_of X)); cbn [andb]; [|reflexivity].
  assert (E : forallb (fun x => pyty_isinstance (ty_of x) [TDataArray; TDataset]) (items_of X)
              = forallb (fun v => is_xr (ty_of v)) (items_of X)).
  { apply forallb_ext'. intros v. apply isinstance_xr. }
  rewrite E. destruct (forallb (fun v => is_xr (ty_of v)) (items_of X)); reflexivity.
Qed.

Lemma validate_input_type_kinds X : validate_input_type X = Ok tt \/ validate_input_type X = Err ETypeError.
Proof.
  rewrite validate_input_type_spec. destruct (is_xr _); [now left|]. destruct (_ && _); [now left|now right].
Qed.

(* the argument is neither an xarray object nor a list / tuple, or it is a sequence with a foreign element *)
Definition wrong_type (x : input) : Prop :=
  (is_xr (in_ty x) = false /\ is_seq (in_ty x) = false) \/
  (is_seq (in_ty x) = true /\ exists it, In it (in_items x) /\ is_xr (it_ty it) = false).

Lemma items_of_input_val x : is_seq (in_ty x) = true -> items_of (input_val x) = map item_val (in_items x).
Proof. unfold input_val. destruct (in_ty x); cbn [is_seq]; intros H; try discriminate; reflexivity. Qed.

Lemma ty_of_input_val x : ty_of (input_val x) = in_ty x.
Proof. unfold input_val. destruct (in_ty x); reflexivity. Qed.

Lemma wrong_type_refused_by_validator x : wrong_type x -> validate_input_type (input_val x) = Err ETypeError.
Proof.
  intros [[Hx Hs]|[Hs [it [Hin Hit]]]]; rewrite validate_input_type_spec, ty_of_input_val.
  - now rewrite Hx, Hs.
  - assert (Hx : is_xr (in_ty x) = false) by (destruct (in_ty x); cbn in Hs |- *; congruence).
    rewrite Hx, Hs, (items_of_input_val _ Hs). cbn [andb].
    assert (E : forallb (fun v => is_xr (ty_of v)) (map item_val (in_items x)) = false).
    { apply not_true_is_false. intros Hall. rewrite forallb_forall in Hall.
      specialize (Hall (item_val it) (in_map item_val _ _ Hin)). unfold item_val in Hall.
      rewrite ty_of_val_of_ty in Hall. congruence. }
    now rewrite E.
Qed.

Lemma wrong_type_fit cfg x dim : wrong_type x -> fit_outcome cfg x dim = Err ETypeError.
Proof.
  intros H. unfold fit_outcome, fit_state. now rewrite (wrong_type_refused_by_validator _ H).
Qed.

Lemma wrong_type_transform vd vc f x : wrong_type x -> transform_outcome vd vc f x = Err ETypeError.
Proof.
  intros H. unfold transform_outcome. now rewrite (wrong_type_refused_by_validator _ H).
Qed.

(* ------------------------------------------------------------------ n_modes *)
Lemma n_modes_int_nonpositive z : (z <= 0)%Z -> sanity_check_n_modes (VInt z) = Err EValueError.
Proof. intros H. cbn [sanity_check_n_modes]. destruct (Z.ltb_spec z 1); [reflexivity|lia]. Qed.

Lemma n_modes_int_positive z : (1 <= z)%Z -> sanity_check_n_modes (VInt z) = Ok tt.
Proof. intros H. cbn [sanity_check_n_modes]. destruct (Z.ltb_spec z 1); [lia|reflexivity]. Qed.

(* bool is an int: True counts as one mode, False as zero *)
Lemma n_modes_bool : sanity_check_n_modes (VBool false) = Err EValueError /\ sanity_check_n_modes (VBool true) = Ok tt.
Proof. split; reflexivity. Qed.

(* 0 < f <= 1.0 in binary64 comparisons (false for nan) *)
Definition in_unit_interval (f : float) : bool := (PrimFloat.ltb 0 f && PrimFloat.leb f 1)%float.
Definition floats_outside : list float := [0; 1.5; -0.5; nan; infinity; neg_infinity; 0x1.0000000000001p+0; -0]%float.
Definition floats_inside : list float := [1; 0.5; 0x1p-1074; 0.999]%float.

Lemma n_modes_float_outside f : in_unit_interval f = false -> sanity_check_n_modes (VFloat f) = Err EValueError.
Proof.
  unfold in_unit_interval. intros H. cbn [sanity_check_n_modes].
  change (float_ofZ 0) with 0%float. change (0x1.0000000000000p+0)%float with 1%float.
  now rewrite H.
Qed.

Lemma n_modes_float_inside f : in_unit_interval f = true -> sanity_check_n_modes (VFloat f) = Ok tt.
Proof.
  unfold in_unit_interval. intros H. cbn [sanity_check_n_modes].
  change (float_ofZ 0) with 0%float. change (0x1.0000000000000p+0)%float with 1%float.
  now rewrite H.
Qed.

Lemma n_modes_float_examples :
  (forall f, In f floats_outside -> sanity_check_n_modes (VFloat f) = Err EValueError) /\
  (forall f, In f floats_inside -> sanity_check_n_modes (VFloat f) = Ok tt).
Proof.
  split; intros f Hf; cbn [floats_outside floats_inside In] in Hf;
    repeat (destruct Hf as [<-|Hf]; [vm_compute; reflexivity|]); destruct Hf.
Qed.

Lemma n_modes_string s : s <> "all"%string -> sanity_check_n_modes (VStr s) = Err EValueError.
Proof.
  intros H. cbn [sanity_check_n_modes existsb]. destruct (String.eqb_spec s "all"); [contradiction|reflexivity].
Qed.

Lemma n_modes_non_numeric v :
  pyty_isinstance (ty_of v) [TInt; TFloat; TStr] = false -> sanity_check_n_modes v = Err ETypeError.
Proof. destruct v; cbn; intros H; try discriminate; reflexivity. Qed.

(* ------------------------------------------------------------------ sample dimensions *)
Lemma dim_wrong_type v :
  pyty_isinstance (ty_of v) [TStr; TTuple; TList] = false -> convert_to_dim_type v = Err ETypeError.
Proof. intros H. unfold convert_to_dim_type. now rewrite H. Qed.

Lemma dim_non_string_element v :
  is_seq (ty_of v) = true -> (exists e, In e (items_of v) /\ ty_of e <> TStr) -> convert_to_dim_type v = Err ETypeError.
Proof.
  intros Hs [e [Hin Hne]]. unfold convert_to_dim_type.
  assert (H1 : pyty_isinstance (ty_of v) [TStr; TTuple; TList] = true) by (destruct (ty_of v); cbn in Hs |- *; congruence).
  assert (H2 : pyty_isinstance (ty_of v) [TTuple; TList] = true) by (destruct (ty_of v); cbn in Hs |- *; congruence).
  rewrite H1, H2. cbn [negb andb]. rewrite forallb_id_map.
  assert (E : forallb (fun item => pyty_isinstance (ty_of item) [TStr]) (items_of v) = false).
  { apply not_true_is_false. intros Hall. rewrite forallb_forall in Hall. specialize (Hall e Hin).
    apply Hne. destruct (ty_of e); cbn in Hall; try discriminate; reflexivity. }
  now rewrite E.
Qed.

Lemma dim_empty : convert_to_dim_type (VTuple []) = Ok [] /\ convert_to_dim_type (VList []) = Ok [].
Proof. split; reflexivity. Qed.

Lemma dim_string s : convert_to_dim_type (VStr s) = Ok [s].
Proof. reflexivity. Qed.

Lemma stacker_dims_empty_sample xt fd : stacker_validate_dims xt [] fd = Err EValueError.
Proof. reflexivity. Qed.

Lemma stacker_dims_empty_feature xt sd : is_xr xt = true -> sd <> [] -> stacker_validate_dims xt sd [] = Err EValueError.
Proof.
  intros Hx Hs. unfold stacker_validate_dims. destruct sd as [|s sd]; [contradiction|].
  cbn [length]. destruct (Z.ltb_spec (Z.of_nat (S (length sd))) 1); [lia|].
  cbn [length Z.of_nat Z.ltb Z.compare]. destruct xt; cbn in Hx; try discriminate; reflexivity.
Qed.

Lemma stacker_dims_ok xt sd fd : stacker_validate_dims xt sd fd = Ok tt -> sd <> [] /\ fd <> [].
Proof.
  unfold stacker_validate_dims. destruct sd as [|s sd]; [discriminate|].
  destruct fd as [|g fd]; [|intros _; split; discriminate].
  cbn [length]. destruct (Z.ltb_spec (Z.of_nat (S (length sd))) 1); [lia|].
  cbn [length Z.of_nat Z.ltb Z.compare]. destruct xt; discriminate.
Qed.

(* ------------------------------------------------------------------ transform-time validators *)
Lemma transform_dims_spec s f x :
  stacker_validate_transform_dimensions s f x = if set_eqb (s ++ f) x then Ok tt else Err EValueError.
Proof. unfold stacker_validate_transform_dimensions, set_union. now destruct (set_eqb (s ++ f) x). Qed.

Lemma transform_coords_spec fd fc xc :
  stacker_validate_transform_feature_coords fd fc xc =
  if forallb (fun d => coord_equals (xc d) (fc d)) fd then Ok tt else Err EValueError.
Proof.
  unfold stacker_validate_transform_feature_coords. rewrite forallb_id_map.
  now destruct (forallb (fun d => coord_equals (xc d) (fc d)) fd).
Qed.

Lemma item_count_spec a b : preprocessor_check_item_count a b = if (a =? b)%Z then Ok tt else Err EValueError.
Proof. unfold preprocessor_check_item_count. now destruct (a =? b)%Z. Qed.

Lemma sanitizer_coords_spec a b :
  sanitizer_check_input_coords a b = if scoord_identical a b then Ok tt else Err EValueError.
Proof. unfold sanitizer_check_input_coords. now destruct (scoord_identical a b). Qed.

(* ------------------------------------------------------------------ what the Scaler hands on *)
Lemma lookup_app d (a b : dimmap) :
  lookup d (a ++ b) = if str_mem d (dnames a) then lookup d a else lookup d b.
Proof.
  induction a as [|[k c] a IH]; cbn [app lookup dnames map fst str_mem existsb]; [reflexivity|].
  destruct (String.eqb d k); cbn [orb]; [reflexivity|]. exact IH.
Qed.

Lemma lookup_notin d (m : dimmap) : str_mem d (dnames m) = false -> lookup d m = [].
Proof.
  induction m as [|[k c] m IH]; cbn [lookup dnames map fst str_mem existsb]; [reflexivity|].
  destruct (String.eqb d k); cbn [orb]; [discriminate|]. exact IH.
Qed.

Section Scaled.
Variables (F : list string) (M : dimmap).
Let g := fun dc : string * coord => if str_mem (fst dc) F then (fst dc, inner_join (snd dc) (lookup (fst dc) M)) else dc.

Lemma dnames_map_g l : dnames (map g l) = dnames l.
Proof.
  unfold dnames. rewrite map_map. apply map_ext. intros [k c]. unfold g. cbn [fst snd]. now destruct (str_mem k F).
Qed.

Lemma lookup_map_g d l :
  lookup d (map g l) = if str_mem d F then inner_join (lookup d l) (lookup d M) else lookup d l.
Proof.
  induction l as [|[k c] l IH]; cbn [map lookup].
  - destruct (str_mem d F); reflexivity.
  - unfold g at 1. cbn [fst snd]. destruct (String.eqb_spec d k) as [->|Hne].
    + destruct (str_mem k F) eqn:Hk; cbn [lookup]; rewrite String.eqb_refl; reflexivity.
    + destruct (str_mem k F); cbn [lookup]; (destruct (String.eqb_spec d k); [contradiction|]); exact IH.
Qed.

Lemma lookup_recreated d (ds : list string) :
  lookup d (map (fun d' => (d', lookup d' M)) ds) = if str_mem d ds then lookup d M else [].
Proof.
  induction ds as [|k ds IH]; cbn [map lookup str_mem existsb]; [reflexivity|].
  destruct (String.eqb_spec d k) as [->|Hne]; cbn [orb]; [reflexivity|]. exact IH.
Qed.
End Scaled.

Lemma dnames_scaled fi it :
  dnames (scaled_dims fi it) =
  dnames (it_dims it) ++ filter (fun d => negb (str_mem d (dnames (it_dims it)))) (fi_feature_dims fi).
Proof.
  unfold scaled_dims. unfold dnames at 1. rewrite map_app. f_equal.
  - apply (dnames_map_g (fi_feature_dims fi) (fi_dims fi)).
  - rewrite map_map. cbn [fst]. apply map_id.
Qed.

Lemma str_mem_filter d p (l : list string) : str_mem d (filter p l) = str_mem d l && p d.
Proof.
  induction l as [|k l IH]; cbn [filter str_mem existsb]; [reflexivity|].
  destruct (p k) eqn:Hp; cbn [str_mem existsb]; fold (str_mem d l); fold (str_mem d (filter p l)); rewrite IH.
  - destruct (String.eqb_spec d k) as [->|Hne]; cbn [orb]; [now rewrite Hp|reflexivity].
  - destruct (String.eqb_spec d k) as [->|Hne]; cbn [orb]; [rewrite Hp; now destruct (str_mem k l)|reflexivity].
Qed.

(* the labels of every dimension after scaling *)
Lemma lookup_scaled fi it d :
  lookup d (scaled_dims fi it) =
  if str_mem d (dnames (it_dims it))
  then (if str_mem d (fi_feature_dims fi) then inner_join (lookup d (it_dims it)) (lookup d (fi_dims fi))
        else lookup d (it_dims it))
  else (if str_mem d (fi_feature_dims fi) then lookup d (fi_dims fi) else []).
Proof.
  unfold scaled_dims. rewrite lookup_app.
  rewrite (dnames_map_g (fi_feature_dims fi) (fi_dims fi)), (lookup_map_g (fi_feature_dims fi) (fi_dims fi)).
  destruct (str_mem d (dnames (it_dims it))) eqn:Hd; [reflexivity|].
  rewrite lookup_recreated, str_mem_filter, Hd. cbn [negb]. now rewrite andb_true_r.
Qed.

Lemma prodlen_ext dims m1 m2 : (forall d, In d dims -> lookup d m1 = lookup d m2) -> prodlen dims m1 = prodlen dims m2.
Proof.
  unfold prodlen. induction dims as [|d dims IH]; cbn [fold_right]; intros H; [reflexivity|].
  rewrite (H d (or_introl eq_refl)), IH; [reflexivity|]. intros d' Hd'. apply H. now right.
Qed.

Lemma forallb_coord_equals (xc fc : string -> coord) fd :
  forallb (fun d => coord_equals (xc d) (fc d)) fd = true <-> forall d, In d fd -> xc d = fc d.
Proof.
  rewrite forallb_forall. split; intros H d Hd; specialize (H d Hd).
  - now apply zlist_eqb_eq. - now apply zlist_eqb_eq.
Qed.

Lemma scoord_identical_refl a : scoord_identical a a = true.
Proof. induction a as [|x a IH]; cbn [scoord_identical]; [reflexivity|]. now rewrite zlist_eqb_refl, IH. Qed.

Lemma scoord_identical_length a b : scoord_identical a b = true -> length a = length b.
Proof.
  revert b; induction a as [|x a IH]; intros [|y b]; cbn [scoord_identical length]; intros H; try discriminate; [reflexivity|].
  apply andb_true_iff in H as [_ H]. f_equal. now apply IH.
Qed.

Lemma zrange_length n : length (zrange n) = Z.to_nat n.
Proof. unfold zrange. now rewrite map_length, seq_length. Qed.

(* ------------------------------------------------------------------ transform: what a result implies *)
Definition scaled_item (p : fitem * item) : item :=
  mkItem (scaled_ty (fst p) (snd p)) (scaled_dims (fst p) (snd p)) (scaled_vars (fst p) (snd p)).

Definition renamer_chk (p : fitem * item) : result unit :=
  if str_subset (dnames (fi_dims (fst p))) (dnames (it_dims (snd p))) then Ok tt else Err renamer_transform_error.
Definition stacker_chk (p : fitem * item) : result unit :=
  stacker_validate_transform_dimensions (fi_sample_dims (fst p)) (fi_feature_dims (fst p)) (dnames (it_dims (snd p))) ;;
  stacker_validate_transform_feature_coords (fi_feature_dims (fst p))
    (fun d => lookup d (fi_dims (fst p))) (fun d => lookup d (it_dims (snd p))).
Definition sanitizer_chk (p : fitem * item) : result unit :=
  sanitizer_check_input_coords
    (stacked_coords (fst p) (it_ty (snd p)) (it_dims (snd p)) (it_vars (snd p)))
    (stacked_coords (fst p) (fi_ty (fst p)) (fi_dims (fst p)) (fi_vars (fst p))).

Lemma t_scaler_eq p : t_scaler p = scaler_verify_input (it_ty (snd p)) ;; Ok (scaled_item p).
Proof. now destruct p. Qed.
Lemma t_renamer_eq p : t_renamer p = renamer_chk p ;; Ok (snd p).
Proof. destruct p as [fi it]. unfold t_renamer, renamer_chk. cbn [fst snd]. now destruct (str_subset _ _). Qed.
Lemma t_stacker_eq p : t_stacker p = stacker_chk p ;; Ok (snd p).
Proof.
  destruct p as [fi it]. unfold t_stacker, stacker_chk. cbn [fst snd].
  destruct (stacker_validate_transform_dimensions _ _ _) as [[]|e]; cbn [seq_res bind]; [|reflexivity].
  now destruct (stacker_validate_transform_feature_coords _ _ _) as [[]|e].
Qed.
Lemma sanitizer_dims_ok s f : sanitizer_check_input_dims s f [s; f] = Ok tt.
Proof. unfold sanitizer_check_input_dims. now rewrite set_eqb_refl. Qed.
Lemma t_sanitizer_eq cfg p : t_sanitizer cfg p = sanitizer_chk p ;; Ok (snd p).
Proof.
  destruct p as [fi it]. unfold t_sanitizer, sanitizer_chk. rewrite sanitizer_dims_ok. cbn [fst snd].
  change (assert_single_dataarray TDataArray) with (@Ok unit tt). cbn [seq_res bind].
  now destruct (sanitizer_check_input_coords _ _) as [[]|e].
Qed.

Lemma map_res_ext {A B} (f g : A -> result B) l : (forall a, f a = g a) -> map_res f l = map_res g l.
Proof. intros H. induction l as [|a l IH]; cbn [map_res]; [reflexivity|]. now rewrite H, IH. Qed.

Lemma map_res_stage {A B} (chk : A -> result unit) (out : A -> B) l s :
  map_res (fun a => chk a ;; Ok (out a)) l = Ok s <-> (s = map out l /\ forall a, In a l -> chk a = Ok tt).
Proof.
  revert s; induction l as [|a l IH]; intros s; cbn [map_res map].
  - split; [intros H; injection H as <-; split; [reflexivity|intros ? []]|intros [-> _]; reflexivity].
  - destruct (chk a) as [[]|e] eqn:Ha; cbn [seq_res bind].
    + destruct (map_res _ l) as [s'|e] eqn:Hr.
      * destruct (proj1 (IH s') eq_refl) as [-> Hall]. split.
        -- intros H; injection H as <-. split; [reflexivity|]. intros a' [<-|Ha']; [exact Ha|now apply Hall].
        -- intros [-> _]. reflexivity.
      * split; [discriminate|]. intros [-> Hall].
        assert (Hx : @Err (list B) e = Ok (map out l)); [|discriminate].
        apply IH. split; [reflexivity|]. intros a' Ha'. apply Hall. now right.
    + split; [discriminate|]. intros [_ Hall]. specialize (Hall a (or_introl eq_refl)). congruence.
Qed.

(* every list item, paired with its fitted transformer state, passes every stage *)
Definition pair_passes (vd vc : bool) (p : fitem * item) : Prop :=
  pre_validate vd vc p = Ok tt /\
  scaler_verify_input (it_ty (snd p)) = Ok tt /\
  renamer_chk (fst p, scaled_item p) = Ok tt /\
  stacker_chk (fst p, scaled_item p) = Ok tt /\
  sanitizer_chk (fst p, scaled_item p) = Ok tt.

Lemma preprocess_transform_ok_iff vd vc f x :
  preprocess_transform vd vc f x = Ok tt <->
  (length (in_items x) = length (f_items f) /\
   forall p, In p (combine (f_items f) (in_items x)) -> pair_passes vd vc p).
Proof.
  unfold preprocess_transform.
  set (fis := f_items f). set (P := combine fis (in_items x)).
  rewrite (map_res_ext _ _ P t_scaler_eq).
  assert (HP1 : combine fis (map scaled_item P) = map (fun p => (fst p, scaled_item p)) P) by apply combine_map_combine.
  split.
  - intros H. apply seq_ok in H as [Hc H]. apply seq_ok in H as [Hpre H].
    apply bind_ok in H as [s1 [H1 H]]. apply map_res_stage in H1 as [-> Hv].
    apply bind_ok in H as [s2 [H2 H]]. rewrite (map_res_ext _ _ _ t_renamer_eq) in H2.
    apply map_res_stage in H2 as [-> Hr].
    apply bind_ok in H as [s3 [H3 H]]. rewrite combine_map_snd in H3.
    rewrite (map_res_ext _ _ _ t_stacker_eq) in H3. apply map_res_stage in H3 as [-> Hs].
    rewrite combine_map_snd in H. apply void_ok in H as [s4 H4].
    rewrite (map_res_ext _ _ _ (t_sanitizer_eq (f_cfg f))) in H4. apply map_res_stage in H4 as [_ Hz].
    rewrite HP1 in Hr, Hs, Hz. split.
    + rewrite item_count_spec in Hc. destruct (Z.eqb_spec (Z.of_nat (length (in_items x))) (Z.of_nat (length fis))) as [E|E]; [lia|discriminate].
    + intros p Hp. unfold pair_passes. repeat split.
      * now apply (first_err_map_ok _ _ Hpre).
      * now apply Hv.
      * apply Hr. now apply (in_map (fun p => (fst p, scaled_item p))).
      * apply Hs. now apply (in_map (fun p => (fst p, scaled_item p))).
      * apply Hz. now apply (in_map (fun p => (fst p, scaled_item p))).
  - intros [Hl Hall].
    rewrite item_count_spec. fold fis. rewrite Hl, Z.eqb_refl. cbn [seq_res bind].
    assert (Hpre : first_err (map (pre_validate vd vc) P) = Ok tt).
    { apply first_err_all_ok. intros r Hr. apply in_map_iff in Hr as [p [<- Hp]]. apply (Hall p Hp). }
    rewrite Hpre. cbn [seq_res bind].
    assert (H1 : map_res (fun a => scaler_verify_input (it_ty (snd a)) ;; Ok (scaled_item a)) P = Ok (map scaled_item P)).
    { apply map_res_stage. split; [reflexivity|]. intros p Hp. apply (Hall p Hp). }
    rewrite H1. cbn [bind]. rewrite HP1.
    set (P1 := map (fun p => (fst p, scaled_item p)) P).
    assert (HinP1 : forall q, In q P1 -> exists p, In p P /\ q = (fst p, scaled_item p)).
    { intros q Hq. apply in_map_iff in Hq as [p [<- Hp]]. now exists p. }
    assert (HsndP1 : combine fis (map snd P1) = P1).
    { unfold P1. rewrite <- HP1. apply combine_map_snd. }
    assert (H2 : map_res t_renamer P1 = Ok (map snd P1)).
    { rewrite (map_res_ext _ _ _ t_renamer_eq). apply map_res_stage. split; [reflexivity|].
      intros q Hq. destruct (HinP1 q Hq) as [p [Hp ->]]. apply (Hall p Hp). }
    rewrite H2. cbn [bind]. rewrite HsndP1.
    assert (H3 : map_res t_stacker P1 = Ok (map snd P1)).
    { rewrite (map_res_ext _ _ _ t_stacker_eq). apply map_res_stage. split; [reflexivity|].
      intros q Hq. destruct (HinP1 q Hq) as [p [Hp ->]]. apply (Hall p Hp). }
    rewrite H3. cbn [bind]. rewrite HsndP1.
    assert (H4 : map_res (t_sanitizer (f_cfg f)) P1 = Ok (map snd P1)).
    { rewrite (map_res_ext _ _ _ (t_sanitizer_eq (f_cfg f))). apply map_res_stage. split; [reflexivity|].
      intros q Hq. destruct (HinP1 q Hq) as [p [Hp ->]]. apply (Hall p Hp). }
    rewrite H4. reflexivity.
Qed.

Lemma transform_ok_iff vd vc f x :
  transform_outcome vd vc f x = Ok tt <->
  (validate_input_type (input_val x) = Ok tt /\ length (in_items x) = length (f_items f) /\
   forall p, In p (combine (f_items f) (in_items x)) -> pair_passes vd vc p).
Proof.
  unfold transform_outcome. split.
  - intros H. apply seq_ok in H as [Hv H]. apply preprocess_transform_ok_iff in H. tauto.
  - intros [Hv H]. rewrite Hv. cbn [seq_res bind]. now apply preprocess_transform_ok_iff.
Qed.

(* the facts a passing pair establishes, in terms of names and labels *)
Lemma pair_passes_facts vd vc fi it : pair_passes vd vc (fi, it) ->
  is_xr (it_ty it) = true /\
  (forall d, In d (dnames (fi_dims fi)) -> In d (dnames (scaled_dims fi it))) /\
  (forall d, In d (fi_sample_dims fi ++ fi_feature_dims fi) <-> In d (dnames (scaled_dims fi it))) /\
  (forall d, In d (fi_feature_dims fi) -> lookup d (scaled_dims fi it) = lookup d (fi_dims fi)) /\
  scoord_identical (stacked_coords fi (scaled_ty fi it) (scaled_dims fi it) (scaled_vars fi it))
                   (stacked_coords fi (fi_ty fi) (fi_dims fi) (fi_vars fi)) = true /\
  (vd = true -> forall d, In d (fi_sample_dims fi ++ fi_feature_dims fi) <-> In d (dnames (it_dims it))) /\
  (vc = true -> forall d, In d (fi_feature_dims fi) -> lookup d (it_dims it) = lookup d (fi_dims fi)).
Proof.
  intros [Hpre [Hv [Hr [Hs Hz]]]]. cbn [fst snd] in *.
  unfold renamer_chk, stacker_chk, sanitizer_chk, scaled_item in *. cbn [fst snd it_ty it_dims it_vars] in *.
  assert (H1 : is_xr (it_ty it) = true).
  { unfold scaler_verify_input in Hv. rewrite isinstance_xr in Hv. now destruct (is_xr (it_ty it)). }
  assert (H2 : forall d, In d (dnames (fi_dims fi)) -> In d (dnames (scaled_dims fi it))).
  { destruct (str_subset _ _) eqn:E in Hr; [|discriminate]. now apply str_subset_spec. }
  assert (H3 : forall d, In d (fi_sample_dims fi ++ fi_feature_dims fi) <-> In d (dnames (scaled_dims fi it))).
  { apply seq_ok in Hs as [Hs _]. rewrite transform_dims_spec in Hs.
    destruct (set_eqb _ _) eqn:E in Hs; [|discriminate]. exact (proj1 (set_eqb_spec _ _) E). }
  assert (H4 : forall d, In d (fi_feature_dims fi) -> lookup d (scaled_dims fi it) = lookup d (fi_dims fi)).
  { apply seq_ok in Hs as [_ Hs]. rewrite transform_coords_spec in Hs.
    destruct (forallb _ _) eqn:E in Hs; [|discriminate]. exact (proj1 (forallb_coord_equals _ _ _) E). }
  assert (H5 : scoord_identical (stacked_coords fi (scaled_ty fi it) (scaled_dims fi it) (scaled_vars fi it))
                   (stacked_coords fi (fi_ty fi) (fi_dims fi) (fi_vars fi)) = true).
  { rewrite sanitizer_coords_spec in Hz. now destruct (scoord_identical _ _). }
  assert (H6 : vd = true -> forall d, In d (fi_sample_dims fi ++ fi_feature_dims fi) <-> In d (dnames (it_dims it))).
  { intros ->. unfold pre_validate in Hpre. apply seq_ok in Hpre as [Hd _]. rewrite transform_dims_spec in Hd.
    destruct (set_eqb _ _) eqn:E in Hd; [|discriminate]. exact (proj1 (set_eqb_spec _ _) E). }
  assert (H7 : vc = true -> forall d, In d (fi_feature_dims fi) -> lookup d (it_dims it) = lookup d (fi_dims fi)).
  { intros ->. unfold pre_validate in Hpre. apply seq_ok in Hpre as [_ Hc]. rewrite transform_coords_spec in Hc.
    destruct (forallb _ _) eqn:E in Hc; [|discriminate]. exact (proj1 (forallb_coord_equals _ _ _) E). }
  exact (conj H1 (conj H2 (conj H3 (conj H4 (conj H5 (conj H6 H7)))))).
Qed.

(* ------------------------------------------------------------------ transform: fault classes *)
Theorem item_count_refused vd vc f x :
  validate_input_type (input_val x) = Ok tt -> length (in_items x) <> length (f_items f) ->
  transform_outcome vd vc f x = Err EValueError.
Proof.
  intros Hv Hl. unfold transform_outcome. rewrite Hv. cbn [seq_res bind]. unfold preprocess_transform.
  rewrite item_count_spec.
  destruct (Z.eqb_spec (Z.of_nat (length (in_items x))) (Z.of_nat (length (f_items f)))) as [E|E]; [lia|reflexivity].
Qed.

Lemma in_dnames_scaled_l fi it d : In d (dnames (it_dims it)) -> In d (dnames (scaled_dims fi it)).
Proof. intros H. rewrite dnames_scaled. apply in_or_app. now left. Qed.

Lemma in_dnames_scaled_inv fi it d :
  In d (dnames (scaled_dims fi it)) -> In d (dnames (it_dims it)) \/ In d (fi_feature_dims fi).
Proof.
  rewrite dnames_scaled. intros H. apply in_app_or in H as [H|H]; [now left|right]. now apply filter_In in H as [H _].
Qed.

(* a dimension the fitted data does not have: an additional one, or the new name of a renamed one *)
Theorem extra_dim_refused vd vc f x fi it d :
  In (fi, it) (combine (f_items f) (in_items x)) ->
  In d (dnames (it_dims it)) -> ~ In d (fi_sample_dims fi ++ fi_feature_dims fi) ->
  refused (transform_outcome vd vc f x).
Proof.
  intros Hin Hd Hn. apply not_ok_refused. intros Hok. apply transform_ok_iff in Hok as [_ [_ Hall]].
  destruct (pair_passes_facts _ _ _ _ (Hall _ Hin)) as [_ [_ [H3 _]]].
  apply Hn, H3. now apply in_dnames_scaled_l.
Qed.

(* a fitted sample dimension is absent: nothing re-creates it *)
Theorem missing_sample_dim_refused vd vc f x fi it d :
  In (fi, it) (combine (f_items f) (in_items x)) ->
  In d (fi_sample_dims fi) -> ~ In d (fi_feature_dims fi) -> ~ In d (dnames (it_dims it)) ->
  refused (transform_outcome vd vc f x).
Proof.
  intros Hin Hs Hf Hd. apply not_ok_refused. intros Hok. apply transform_ok_iff in Hok as [_ [_ Hall]].
  destruct (pair_passes_facts _ _ _ _ (Hall _ Hin)) as [_ [_ [H3 _]]].
  assert (Hx : In d (dnames (scaled_dims fi it))) by (apply H3, in_or_app; now left).
  apply in_dnames_scaled_inv in Hx as [Hx|Hx]; contradiction.
Qed.

(* any fitted dimension is absent, and the dimensions are validated before scaling *)
Theorem missing_dim_refused_when_validated vc f x fi it d :
  In (fi, it) (combine (f_items f) (in_items x)) ->
  In d (fi_sample_dims fi ++ fi_feature_dims fi) -> ~ In d (dnames (it_dims it)) ->
  refused (transform_outcome true vc f x).
Proof.
  intros Hin Hs Hd. apply not_ok_refused. intros Hok. apply transform_ok_iff in Hok as [_ [_ Hall]].
  destruct (pair_passes_facts _ _ _ _ (Hall _ Hin)) as [_ [_ [_ [_ [_ [H6 _]]]]]].
  apply Hd, (H6 eq_refl). exact Hs.
Qed.

(* same number of labels, different labels (shifted, or re-ordered with different values):
   refused in every variant, because the inner join cannot give the fitted labels back *)
Theorem changed_coord_refused vd vc f x fi it d :
  In (fi, it) (combine (f_items f) (in_items x)) ->
  In d (fi_feature_dims fi) -> In d (dnames (it_dims it)) ->
  length (lookup d (it_dims it)) = length (lookup d (fi_dims fi)) ->
  lookup d (it_dims it) <> lookup d (fi_dims fi) ->
  refused (transform_outcome vd vc f x).
Proof.
  intros Hin Hf Hd Hl Hne. apply not_ok_refused. intros Hok. apply transform_ok_iff in Hok as [_ [_ Hall]].
  destruct (pair_passes_facts _ _ _ _ (Hall _ Hin)) as [_ [_ [_ [H4 _]]]].
  specialize (H4 d Hf). rewrite lookup_scaled in H4.
  rewrite (proj2 (str_mem_In _ _) Hd), (proj2 (str_mem_In _ _) Hf) in H4.
  apply Hne. now apply inner_join_same_length.
Qed.

(* any difference in a feature coordinate, when coordinates are validated before scaling *)
Theorem differing_coord_refused_when_validated vd f x fi it d :
  In (fi, it) (combine (f_items f) (in_items x)) ->
  In d (fi_feature_dims fi) -> lookup d (it_dims it) <> lookup d (fi_dims fi) ->
  refused (transform_outcome vd true f x).
Proof.
  intros Hin Hf Hne. apply not_ok_refused. intros Hok. apply transform_ok_iff in Hok as [_ [_ Hall]].
  destruct (pair_passes_facts _ _ _ _ (Hall _ Hin)) as [_ [_ [_ [_ [_ [_ H7]]]]]].
  apply Hne, (H7 eq_refl). exact Hf.
Qed.

(* a Dataset with fewer variables than the fitted one *)
Lemma prodlen_nonneg dims m : (0 <= prodlen dims m)%Z.
Proof. unfold prodlen. induction dims as [|d dims IH]; cbn [fold_right]; lia. Qed.

Theorem dropped_variable_refused vd vc f x fi it :
  In (fi, it) (combine (f_items f) (in_items x)) ->
  fi_ty fi = TDataset -> it_ty it = TDataset ->
  (length (it_vars it) < length (fi_vars fi))%nat ->
  (0 < prodlen (fi_feature_dims fi) (fi_dims fi))%Z ->
  refused (transform_outcome vd vc f x).
Proof.
  intros Hin Hft Hit Hlen Hpos. apply not_ok_refused. intros Hok. apply transform_ok_iff in Hok as [_ [_ Hall]].
  destruct (pair_passes_facts _ _ _ _ (Hall _ Hin)) as [_ [_ [_ [H4 [H5 _]]]]].
  apply scoord_identical_length in H5. unfold stacked_coords, fit_multi in H5.
  rewrite Hft in H5. cbn [is_dataset] in H5. rewrite orb_true_r in H5. rewrite !zrange_length in H5.
  rewrite (prodlen_ext _ _ _ H4) in H5.
  unfold scaled_ty, scaled_vars, nvars in H5. rewrite Hft, Hit in H5. cbn [is_dataset orb] in H5.
  pose proof (filter_length_le (fun v => z_mem v (fi_vars fi)) (it_vars it)) as Hle.
  set (P := prodlen (fi_feature_dims fi) (fi_dims fi)) in *.
  set (a := length (filter (fun v => z_mem v (fi_vars fi)) (it_vars it))) in *.
  apply Z2Nat.inj in H5; nia.
Qed.

(* ------------------------------------------------------------------ transform: a matching call is answered *)
Definition wf_fitem (fi : fitem) : Prop :=
  is_xr (fi_ty fi) = true /\
  forall d, In d (fi_sample_dims fi ++ fi_feature_dims fi) <-> In d (dnames (fi_dims fi)).

(* same container kind, same dimensions and labels; a Dataset may carry additional variables *)
Definition matches (fi : fitem) (it : item) : Prop :=
  it_ty it = fi_ty fi /\ it_dims it = fi_dims fi /\ inner_join (it_vars it) (fi_vars fi) = fi_vars fi.

Lemma lookup_scaled_same fi it d : it_dims it = fi_dims fi -> lookup d (scaled_dims fi it) = lookup d (fi_dims fi).
Proof.
  intros E. rewrite lookup_scaled, E.
  destruct (str_mem d (dnames (fi_dims fi))) eqn:Hd.
  - destruct (str_mem d (fi_feature_dims fi)); [apply inner_join_self|reflexivity].
  - rewrite (lookup_notin _ _ Hd). now destruct (str_mem d (fi_feature_dims fi)).
Qed.

Lemma matches_passes vd vc fi it : wf_fitem fi -> matches fi it -> pair_passes vd vc (fi, it).
Proof.
  intros [Hx Hwf] [Ht [Hd Hv]]. unfold pair_passes. cbn [fst snd].
  assert (Hset : set_eqb (fi_sample_dims fi ++ fi_feature_dims fi) (dnames (fi_dims fi)) = true)
    by (apply set_eqb_spec; exact Hwf).
  assert (Hco : forall m, (forall d, lookup d m = lookup d (fi_dims fi)) ->
                forallb (fun d => coord_equals (lookup d m) (lookup d (fi_dims fi))) (fi_feature_dims fi) = true).
  { intros m Hm. apply forallb_forall. intros d _. rewrite Hm. apply zlist_eqb_refl. }
  repeat split.
  - unfold pre_validate. rewrite transform_dims_spec, transform_coords_spec, Hd, Hset.
    rewrite (Hco (fi_dims fi) (fun d => eq_refl)). now destruct vd, vc.
  - unfold scaler_verify_input. rewrite isinstance_xr, Ht, Hx. reflexivity.
  - unfold renamer_chk, scaled_item. cbn [fst snd it_dims].
    assert (E : str_subset (dnames (fi_dims fi)) (dnames (scaled_dims fi it)) = true).
    { apply str_subset_spec. intros d Hin. apply in_dnames_scaled_l. now rewrite Hd. }
    now rewrite E.
  - unfold stacker_chk, scaled_item. cbn [fst snd it_dims].
    rewrite transform_dims_spec, transform_coords_spec.
    assert (E : set_eqb (fi_sample_dims fi ++ fi_feature_dims fi) (dnames (scaled_dims fi it)) = true).
    { apply set_eqb_spec. intros d. split.
      - intros Hin. apply in_dnames_scaled_l. rewrite Hd. now apply Hwf.
      - intros Hin. apply in_dnames_scaled_inv in Hin as [Hin|Hin].
        + apply Hwf. now rewrite <- Hd. + apply in_or_app. now right. }
    rewrite E, (Hco _ (fun d => lookup_scaled_same fi it d Hd)). reflexivity.
  - unfold sanitizer_chk, scaled_item. cbn [fst snd it_ty it_dims it_vars]. rewrite sanitizer_coords_spec.
    assert (E : stacked_coords fi (scaled_ty fi it) (scaled_dims fi it) (scaled_vars fi it)
                = stacked_coords fi (fi_ty fi) (fi_dims fi) (fi_vars fi)).
    { unfold stacked_coords.
      rewrite (prodlen_ext _ (scaled_dims fi it) (fi_dims fi) (fun d _ => lookup_scaled_same fi it d Hd)).
      rewrite (lookup_scaled_same fi it _ Hd).
      assert (Ety : scaled_ty fi it = fi_ty fi).
      { unfold scaled_ty. rewrite Ht. destruct (fi_ty fi); cbn in Hx |- *; congruence. }
      assert (Env : nvars (scaled_ty fi it) (scaled_vars fi it) = nvars (fi_ty fi) (fi_vars fi)).
      { rewrite Ety. unfold nvars, scaled_vars. rewrite Ht. destruct (is_dataset (fi_ty fi)); [|reflexivity].
        change (filter (fun v => z_mem v (fi_vars fi)) (it_vars it)) with (inner_join (it_vars it) (fi_vars fi)).
        now rewrite Hv. }
      now rewrite Env, Ety. }
    rewrite E, scoord_identical_refl. reflexivity.
Qed.

Lemma in_combine_forall2 {A B} (R : A -> B -> Prop) l m :
  Forall2 R l m -> forall p, In p (combine l m) -> R (fst p) (snd p).
Proof.
  induction 1 as [|a b l m Hab _ IH]; cbn [combine]; intros p Hp; [destruct Hp|].
  destruct Hp as [<-|Hp]; [exact Hab|now apply IH].
Qed.

Lemma forall2_length {A B} (R : A -> B -> Prop) l m : Forall2 R l m -> length l = length m.
Proof. induction 1; cbn [length]; [reflexivity|now f_equal]. Qed.

Theorem matching_call_answered vd vc f x :
  validate_input_type (input_val x) = Ok tt ->
  Forall wf_fitem (f_items f) -> Forall2 matches (f_items f) (in_items x) ->
  transform_outcome vd vc f x = Ok tt.
Proof.
  intros Hv Hwf Hm. apply transform_ok_iff. split; [exact Hv|]. split.
  - symmetry. exact (forall2_length _ _ _ Hm).
  - intros [fi it] Hin. apply matches_passes.
    + rewrite Forall_forall in Hwf. apply Hwf. now apply in_combine_l in Hin.
    + exact (in_combine_forall2 _ _ _ Hm _ Hin).
Qed.

(* additional Dataset variables do not make a call a fault *)
Lemma inner_join_extra vars extra :
  (forall v, In v extra -> ~ In v vars) -> inner_join (vars ++ extra) vars = vars.
Proof.
  intros H. unfold inner_join. rewrite filter_app.
  change (filter (fun c => z_mem c vars) vars) with (inner_join vars vars). rewrite inner_join_self.
  assert (E : filter (fun c => z_mem c vars) extra = []).
  { induction extra as [|e extra IH]; cbn [filter]; [reflexivity|].
    destruct (z_mem e vars) eqn:He.
    - apply z_mem_In in He. exfalso. apply (H e); [now left|exact He].
    - apply IH. intros v Hv. apply H. now right. }
  rewrite E. apply app_nil_r.
Qed.

Theorem extra_variables_accepted vd vc fi extra :
  wf_fitem fi -> fi_ty fi = TDataset -> (forall v, In v extra -> ~ In v (fi_vars fi)) ->
  forall cfg, transform_outcome vd vc (mkFitted cfg [fi])
                (mkInput TDataset [mkItem TDataset (fi_dims fi) (fi_vars fi ++ extra)]) = Ok tt.
Proof.
  intros Hwf Ht Hex cfg. apply matching_call_answered.
  - reflexivity.
  - cbn [f_items]. now constructor.
  - cbn [f_items in_items]. constructor; [|constructor].
    unfold matches. cbn [it_ty it_dims it_vars]. repeat split; [now rewrite Ht|now apply inner_join_extra].
Qed.

(* ------------------------------------------------------------------ Decomposer: n_modes, rank, solver *)
Lemma solver_names_dec (s : string) : {In s ["auto"; "full"; "randomized"]%string} + {~ In s ["auto"; "full"; "randomized"]%string}.
Proof. apply in_dec, string_dec. Qed.

Lemma decomposer_ok_inv nm irr s c n p npre :
  decomposer_outcome nm irr s c n p = Ok npre ->
  sanity_check_n_modes nm = Ok tt /\
  In s ["auto"; "full"; "randomized"]%string /\
  (forall z, nm = VInt z -> (1 <= z <= Z.min n p)%Z) /\
  (forall str, nm <> VStr str).
Proof.
  unfold decomposer_outcome. intros H.
  apply seq_ok in H as [Hs H]. apply seq_ok in H as [_ H]. apply seq_ok in H as [Hr H]. apply seq_ok in H as [Hp H].
  split; [exact Hs|]. split; [|split].
  - destruct (solver_names_dec s) as [Hin|Hn]; [exact Hin|exfalso].
    destruct (policy_unknown_rejected s (dec_is_small_data n p) c false
      (if dec_is_based_on_variance (ty_of nm) then dec_npre_variance (dec_rank n p) irr
       else match nm with VInt z => z | VBool b => Z.b2z b | _ => 0%Z end) (dec_rank n p) Hn) as [E _].
    rewrite E in Hp. discriminate.
  - intros z ->. cbn [ty_of] in Hr. change (dec_is_based_on_variance TInt) with false in Hr. cbn iota in Hr.
    unfold dec_rank_rejected, dec_rank in Hr. destruct (Z.gtb_spec z (Z.min n p)); [discriminate|].
    cbn [sanity_check_n_modes] in Hs. destruct (Z.ltb_spec z 1); [discriminate|]. lia.
  - intros str ->. discriminate.
Qed.

Theorem bad_n_modes_refused_by_decomposer nm irr s c n p k :
  sanity_check_n_modes nm = Err k -> decomposer_outcome nm irr s c n p = Err k.
Proof. intros H. unfold decomposer_outcome. now rewrite H. Qed.

Theorem too_many_modes_refused z irr s c n p :
  (z > Z.min n p)%Z -> decomposer_outcome (VInt z) irr s c n p = Err EValueError.
Proof.
  intros H. unfold decomposer_outcome. cbn [sanity_check_n_modes].
  destruct (Z.ltb_spec z 1); [reflexivity|]. cbn [seq_res bind ty_of].
  change (dec_is_based_on_variance TInt) with false. cbn [andb seq_res bind].
  unfold dec_rank_rejected, dec_rank. destruct (Z.gtb_spec z (Z.min n p)); [reflexivity|lia].
Qed.

Theorem unknown_solver_refused_by_decomposer nm irr s c n p :
  ~ In s ["auto"; "full"; "randomized"]%string -> refused (decomposer_outcome nm irr s c n p).
Proof.
  intros Hn. apply refused_not_ok. intros npre Hok. apply decomposer_ok_inv in Hok as [_ [Hin _]]. contradiction.
Qed.

(* ------------------------------------------------------------------ fit: what a fitted model implies *)
Lemma preprocess_fit_ok_inv cfg x sd fis : preprocess_fit cfg x sd = Ok fis ->
  in_items x <> [] /\ fis = map (fit_item_state sd) (in_items x) /\
  forall it, In it (in_items x) ->
    fit_scaler cfg sd it = Ok tt /\ fit_renamer sd it = Ok tt /\ fit_stacker cfg sd it = Ok tt.
Proof.
  unfold preprocess_fit. intros H.
  apply seq_ok in H as [H1 H]. apply seq_ok in H as [H2 H]. apply seq_ok in H as [H3 H]. apply seq_ok in H as [H4 H].
  injection H as <-. split; [|split; [reflexivity|]].
  - intros E. rewrite E in H4. discriminate.
  - intros it Hit. repeat split; [exact (first_err_map_ok _ _ H1 it Hit)|exact (first_err_map_ok _ _ H2 it Hit)|
      exact (first_err_map_ok _ _ H3 it Hit)].
Qed.

Lemma fit_state_ok_inv cfg x dim f : fit_state cfg x dim = Ok f ->
  validate_input_type (input_val x) = Ok tt /\
  exists sd, convert_to_dim_type dim = Ok sd /\
    in_items x <> [] /\ f = mkFitted cfg (map (fit_item_state sd) (in_items x)) /\
    (forall it, In it (in_items x) ->
       fit_scaler cfg sd it = Ok tt /\ fit_renamer sd it = Ok tt /\ fit_stacker cfg sd it = Ok tt) /\
    exists npre, decomposer_outcome (c_n_modes cfg) (c_irr cfg) (c_solver cfg) (c_complex cfg)
                   (n_samples (f_items f)) (fold_right Z.add 0%Z (map n_features (f_items f))) = Ok npre.
Proof.
  unfold fit_state. intros H. apply seq_ok in H as [Hv H]. apply bind_ok in H as [sd [Hc H]].
  apply bind_ok in H as [fis [Hp H]]. apply seq_ok in H as [Hd H]. injection H as <-.
  apply preprocess_fit_ok_inv in Hp as [Hne [-> Hall]]. apply void_ok in Hd as [npre Hd].
  split; [exact Hv|]. exists sd. repeat split; try assumption; try (now apply Hall). now exists npre.
Qed.

Lemma fit_outcome_ok cfg x dim : fit_outcome cfg x dim = Ok tt -> exists f, fit_state cfg x dim = Ok f.
Proof. unfold fit_outcome. apply void_ok. Qed.

Theorem bad_n_modes_refused cfg x dim k :
  sanity_check_n_modes (c_n_modes cfg) = Err k -> refused (fit_outcome cfg x dim).
Proof.
  intros Hk. apply not_ok_refused. intros Hok. apply fit_outcome_ok in Hok as [f Hf].
  apply fit_state_ok_inv in Hf as [_ [sd [_ [_ [_ [_ [npre Hd]]]]]]].
  apply decomposer_ok_inv in Hd as [Hs _]. congruence.
Qed.

Theorem unknown_solver_refused cfg x dim :
  ~ In (c_solver cfg) ["auto"; "full"; "randomized"]%string -> refused (fit_outcome cfg x dim).
Proof.
  intros Hn. apply not_ok_refused. intros Hok. apply fit_outcome_ok in Hok as [f Hf].
  apply fit_state_ok_inv in Hf as [_ [sd [_ [_ [_ [_ [npre Hd]]]]]]].
  apply decomposer_ok_inv in Hd as [_ [Hin _]]. contradiction.
Qed.

(* a fitted model with an integer n_modes has no more modes than the rank of its data *)
Theorem fitted_modes_within_rank cfg x dim f z :
  fit_state cfg x dim = Ok f -> c_n_modes cfg = VInt z ->
  (1 <= z <= Z.min (n_samples (f_items f)) (fold_right Z.add 0%Z (map n_features (f_items f))))%Z.
Proof.
  intros Hf Hz. apply fit_state_ok_inv in Hf as [_ [sd [_ [_ [_ [_ [npre Hd]]]]]]].
  apply decomposer_ok_inv in Hd as [_ [_ [Hr _]]]. now apply Hr.
Qed.

Theorem bad_dim_refused cfg x dim k : convert_to_dim_type dim = Err k -> refused (fit_outcome cfg x dim).
Proof.
  intros Hk. apply not_ok_refused. intros Hok. apply fit_outcome_ok in Hok as [f Hf].
  apply fit_state_ok_inv in Hf as [_ [sd [Hc _]]]. congruence.
Qed.

Lemma fit_stacker_ok cfg sd it : fit_stacker cfg sd it = Ok tt ->
  sd <> [] /\ get_feature_dims (dnames (it_dims it)) sd <> [].
Proof. unfold fit_stacker. intros H. apply seq_ok in H as [H _]. now apply stacker_dims_ok in H. Qed.

Theorem empty_sample_dims_refused cfg x dim :
  convert_to_dim_type dim = Ok [] -> refused (fit_outcome cfg x dim).
Proof.
  intros Hc. apply not_ok_refused. intros Hok. apply fit_outcome_ok in Hok as [f Hf].
  apply fit_state_ok_inv in Hf as [_ [sd [Hc' [Hne [_ [Hall _]]]]]].
  assert (sd = []) by congruence. subst sd.
  destruct (in_items x) as [|it r]; [contradiction|].
  destruct (Hall it (or_introl eq_refl)) as [_ [_ Hst]]. apply fit_stacker_ok in Hst as [Hs _]. now apply Hs.
Qed.

Lemma get_feature_dims_nil l sd : (forall d, In d l -> In d sd) -> get_feature_dims l sd = [].
Proof.
  unfold get_feature_dims. induction l as [|d l IH]; cbn [filter]; intros Hsub; [reflexivity|].
  rewrite (proj2 (str_mem_In d sd) (Hsub d (or_introl eq_refl))). cbn [negb]. apply IH. intros d' Hd'. apply Hsub. now right.
Qed.

(* every dimension of some item is a sample dimension: nothing is left to be a feature *)
Theorem no_feature_dims_refused cfg x dim sd it :
  convert_to_dim_type dim = Ok sd -> In it (in_items x) ->
  (forall d, In d (dnames (it_dims it)) -> In d sd) -> refused (fit_outcome cfg x dim).
Proof.
  intros Hc Hit Hsub. apply not_ok_refused. intros Hok. apply fit_outcome_ok in Hok as [f Hf].
  apply fit_state_ok_inv in Hf as [_ [sd' [Hc' [_ [_ [Hall _]]]]]].
  assert (sd' = sd) by congruence. subst sd'.
  destruct (Hall it Hit) as [_ [_ Hst]]. apply fit_stacker_ok in Hst as [_ Hfd]. apply Hfd.
  now apply get_feature_dims_nil.
Qed.

(* a sample dimension that some item does not have *)
Theorem unknown_sample_dim_refused cfg x dim sd it d :
  convert_to_dim_type dim = Ok sd -> In it (in_items x) -> In d sd -> ~ In d (dnames (it_dims it)) ->
  refused (fit_outcome cfg x dim).
Proof.
  intros Hc Hit Hd Hn. apply not_ok_refused. intros Hok. apply fit_outcome_ok in Hok as [f Hf].
  apply fit_state_ok_inv in Hf as [_ [sd' [Hc' [_ [_ [Hall _]]]]]].
  assert (sd' = sd) by congruence. subst sd'.
  destruct (Hall it Hit) as [_ [Hr _]]. unfold fit_renamer in Hr.
  destruct (str_subset sd (dnames (it_dims it))) eqn:E; [|discriminate].
  apply Hn. exact (proj1 (str_subset_spec _ _) E d Hd).
Qed.

(* the state a successful fit leaves is well formed (used by matching_call_answered) *)
Lemma fit_state_wf cfg x dim f : fit_state cfg x dim = Ok f -> Forall wf_fitem (f_items f).
Proof.
  intros Hf. apply fit_state_ok_inv in Hf as [_ [sd [_ [_ [-> [Hall _]]]]]]. cbn [f_items].
  apply Forall_forall. intros fi Hfi. apply in_map_iff in Hfi as [it [<- Hit]].
  destruct (Hall it Hit) as [Hsc [Hr _]]. unfold wf_fitem, fit_item_state. cbn [fi_ty fi_sample_dims fi_feature_dims fi_dims].
  split.
  - unfold fit_scaler in Hsc. apply seq_ok in Hsc as [Hv _]. unfold scaler_verify_input in Hv.
    rewrite isinstance_xr in Hv. now destruct (is_xr (it_ty it)).
  - unfold fit_renamer in Hr. destruct (str_subset sd (dnames (it_dims it))) eqn:E; [|discriminate].
    pose proof (proj1 (str_subset_spec _ _) E) as Hsub. intros d. unfold get_feature_dims. split.
    + intros Hin. apply in_app_or in Hin as [Hin|Hin]; [now apply Hsub|now apply filter_In in Hin].
    + intros Hin. apply in_or_app. destruct (str_mem d sd) eqn:Hm.
      * left. now apply str_mem_In. * right. apply filter_In. split; [exact Hin|now rewrite Hm].
Qed.

(* transforming the data the model was fitted on is answered, in every variant *)
Theorem fitted_data_answered vd vc cfg x dim f :
  fit_state cfg x dim = Ok f -> transform_outcome vd vc f x = Ok tt.
Proof.
  intros Hf. pose proof (fit_state_wf _ _ _ _ Hf) as Hwf.
  apply fit_state_ok_inv in Hf as [Hv [sd [_ [_ [-> _]]]]].
  apply matching_call_answered; [exact Hv|exact Hwf|]. cbn [f_items].
  clear Hwf Hv. induction (in_items x) as [|it l IH]; cbn [map]; [constructor|]. constructor; [|exact IH].
  unfold matches, fit_item_state. cbn [fi_ty fi_dims fi_vars]. repeat split. apply inner_join_self.
Qed.

(* ------------------------------------------------------------------ cross-set models *)
Lemma sample_count_spec n m : cpcca_check_sample_count n m = if (n =? m)%Z then Ok tt else Err EValueError.
Proof. unfold cpcca_check_sample_count. now destruct (n =? m)%Z. Qed.

Theorem sample_count_mismatch_refused_by_check n m : n <> m -> cpcca_check_sample_count n m = Err EValueError.
Proof. intros H. rewrite sample_count_spec. destruct (Z.eqb_spec n m); [contradiction|reflexivity]. Qed.

Theorem sample_count_mismatch_refused cc x y dim k1 k2 sd :
  convert_to_dim_type dim = Ok sd ->
  n_samples (map (fit_item_state sd) (in_items x)) <> n_samples (map (fit_item_state sd) (in_items y)) ->
  refused (cross_fit_outcome cc x y dim k1 k2).
Proof.
  intros Hc Hne. apply not_ok_refused. unfold cross_fit_outcome. intros H.
  apply seq_ok in H as [_ H]. apply seq_ok in H as [_ H]. apply bind_ok in H as [sd' [Hc' H]].
  assert (sd' = sd) by congruence. subst sd'.
  apply bind_ok in H as [f1 [H1 H]]. apply bind_ok in H as [f2 [H2 H]].
  apply bind_ok in H as [m1 [_ H]]. apply bind_ok in H as [m2 [_ H]]. apply seq_ok in H as [Hs _].
  apply preprocess_fit_ok_inv in H1 as [_ [-> _]]. apply preprocess_fit_ok_inv in H2 as [_ [-> _]].
  rewrite sample_count_spec in Hs. destruct (Z.eqb_spec (n_samples (map (fit_item_state sd) (in_items x)))
    (n_samples (map (fit_item_state sd) (in_items y)))); [contradiction|discriminate].
Qed.

Theorem cross_transform_refused_l vd vc f1 f2 x y : refused (transform_outcome vd vc f1 x) -> refused (cross_transform_outcome vd vc f1 f2 x y).
Proof. intros [k E]. exists k. unfold cross_transform_outcome. now rewrite E. Qed.

Theorem cross_transform_refused_r vd vc f1 f2 x y : refused (transform_outcome vd vc f2 y) -> refused (cross_transform_outcome vd vc f1 f2 x y).
Proof.
  intros [k E]. unfold cross_transform_outcome. rewrite E.
  destruct (transform_outcome vd vc f1 x) as [[]|e]; [now exists k|now exists e].
Qed.

(* alpha, over the reals: negative is refused, everything from zero upwards (in particular above one) is accepted *)
Open Scope R_scope.
Theorem alpha_negative_refused (a : R) : a < 0 -> whitener_check_alpha OR a = Err EValueError.
Proof.
  intros H. unfold whitener_check_alpha. cbn [fleb fofZ OR].
  destruct (Rleb 0 a) eqn:E; [apply Rleb_true in E; lra|reflexivity].
Qed.

Theorem alpha_nonnegative_accepted (a : R) : 0 <= a -> whitener_check_alpha OR a = Ok tt.
Proof.
  intros H. unfold whitener_check_alpha. cbn [fleb fofZ OR].
  destruct (Rleb 0 a) eqn:E; [reflexivity|apply Rleb_false in E; lra].
Qed.

Theorem alpha_above_one_accepted (a : R) : 1 < a -> whitener_check_alpha OR a = Ok tt.
Proof. intros H. apply alpha_nonnegative_accepted. lra. Qed.

Theorem cross_ctor_negative_alpha_refused lens fn1 fn2 (a1 a2 : R) :
  a1 < 0 \/ a2 < 0 -> refused (cross_ctor_outcome (whitener_check_alpha OR) lens fn1 fn2 a1 a2).
Proof.
  intros H. apply not_ok_refused. unfold cross_ctor_outcome. intros Hok.
  apply seq_ok in Hok as [_ Hok]. apply seq_ok in Hok as [_ Hok]. apply seq_ok in Hok as [H1 H2].
  destruct H as [H|H]; [rewrite (alpha_negative_refused _ H) in H1|rewrite (alpha_negative_refused _ H) in H2]; discriminate.
Qed.

Theorem cross_ctor_wrong_length_refused {A} (chk : A -> result unit) lens fn1 fn2 a1 a2 n :
  In n lens -> n <> 2%Z -> refused (cross_ctor_outcome chk lens fn1 fn2 a1 a2).
Proof.
  intros Hin Hn. apply not_ok_refused. unfold cross_ctor_outcome. intros Hok. apply seq_ok in Hok as [H _].
  pose proof (first_err_map_ok _ _ H n Hin) as E. unfold cross_check_parameter_number in E.
  destruct (Z.eqb_spec n 2); [contradiction|discriminate].
Qed.

Theorem cross_ctor_valid lens fn1 fn2 (a1 a2 : R) :
  (forall n, In n lens -> n = 2%Z) -> fn1 <> fn2 -> 0 <= a1 -> 0 <= a2 ->
  cross_ctor_outcome (whitener_check_alpha OR) lens fn1 fn2 a1 a2 = Ok tt.
Proof.
  intros Hl Hf H1 H2. unfold cross_ctor_outcome.
  assert (E : first_err (map cross_check_parameter_number lens) = Ok tt).
  { apply first_err_all_ok. intros r Hr. apply in_map_iff in Hr as [n [<- Hn]]. now rewrite (Hl n Hn). }
  rewrite E. unfold cross_check_feature_names. destruct (String.eqb_spec fn1 fn2); [contradiction|].
  now rewrite (alpha_nonnegative_accepted _ H1), (alpha_nonnegative_accepted _ H2).
Qed.
Close Scope R_scope.

(* ------------------------------------------------------------------ inverse_transform *)
Theorem unknown_mode_refused k dims modes m :
  In m modes -> (m < 1 \/ k < m)%Z -> inverse_outcome k (mkScores TDataArray dims modes) = Err EKeyError.
Proof.
  intros Hin Hm. unfold inverse_outcome. cbn [sc_ty sc_modes].
  change eof_inverse_selects_by_label with true. cbn [andb].
  assert (E : forallb (fun m => (1 <=? m)%Z && (m <=? k)%Z) modes = false).
  { apply not_true_is_false. intros Hall. rewrite forallb_forall in Hall. specialize (Hall m Hin).
    apply andb_true_iff in Hall as [H1 H2]. apply Z.leb_le in H1, H2. lia. }
  now rewrite E.
Qed.

(* additional dimensions of the score array do not matter *)
Theorem extra_score_dims_accepted k dims modes :
  (forall m, In m modes -> (1 <= m <= k)%Z) -> inverse_outcome k (mkScores TDataArray dims modes) = Ok tt.
Proof.
  intros H. unfold inverse_outcome. cbn [sc_ty sc_modes].
  assert (E : forallb (fun m => (1 <=? m)%Z && (m <=? k)%Z) modes = true).
  { apply forallb_forall. intros m Hm. specialize (H m Hm). apply andb_true_iff. split; apply Z.leb_le; lia. }
  rewrite E. now destruct eof_inverse_selects_by_label.
Qed.

Theorem foreign_scores_refused k t dims modes : t <> TDataArray -> refused (inverse_outcome k (mkScores t dims modes)).
Proof. intros H. unfold inverse_outcome. cbn [sc_ty]. destruct t; try contradiction; now exists EOther. Qed.

(* ------------------------------------------------------------------ rotators *)
Theorem rotator_too_few_refused chk z avail : (z <= 1)%Z -> refused (rotator_fit_outcome chk (VInt z) avail).
Proof.
  intros H. unfold rotator_fit_outcome, rotator_selected.
  destruct (chk (VInt z)) as [[]|e]; cbn [seq_res bind]; [|now exists e].
  destruct (Z.ltb_spec (Z.max 0 (Z.min z avail)) 2); [now exists EValueError|lia].
Qed.

Theorem rotator_ctor_check_refuses chk v avail k : chk v = Err k -> rotator_fit_outcome chk v avail = Err k.
Proof. intros H. unfold rotator_fit_outcome. now rewrite H. Qed.

(* without a constructor check, a stop label that is not a number does not bound the slice:
   every mode is rotated and numbers come back *)
Theorem rotator_non_numeric_refuted :
  exists v avail, pyty_isinstance (ty_of v) [TInt; TFloat] = false /\ rotator_fit_outcome no_ctor_check v avail = Ok tt.
Proof. exists (VStr "few"), 4%Z. split; reflexivity. Qed.

(* ------------------------------------------------------------------ concrete calls *)
Open Scope string_scope.
Open Scope Z_scope.
Definition ex_cfg : config := mkConfig (VInt 2) "auto" true false false "sample" "feature" 0.3%float.
Definition ex_data : item :=
  mkItem TDataArray [("time", [0; 1; 2; 3; 4; 5]); ("lat", [10; 20; 30]); ("lon", [0; 5; 10; 15])] [].
Definition ex_input (it : item) : input := mkInput (it_ty it) [it].
Definition ex_fitted : fitted :=
  mkFitted ex_cfg [mkFitem TDataArray ["time"] ["lat"; "lon"]
                     [("time", [0; 1; 2; 3; 4; 5]); ("lat", [10; 20; 30]); ("lon", [0; 5; 10; 15])] []].
(* the fitted data without its "lon" dimension (e.g. X.isel(lon=0, drop=True)) *)
Definition ex_missing_lon : item := mkItem TDataArray [("time", [0; 1; 2; 3; 4; 5]); ("lat", [10; 20; 30])] [].
(* the fitted data with two more labels along "lon" *)
Definition ex_extended_lon : item :=
  mkItem TDataArray [("time", [0; 1; 2; 3; 4; 5]); ("lat", [10; 20; 30]); ("lon", [0; 5; 10; 15; 20; 25])] [].

Lemma ex_fit : fit_state ex_cfg (ex_input ex_data) (VStr "time") = Ok ex_fitted.
Proof. vm_compute. reflexivity. Qed.

(* x is the fitted data with exactly one feature dimension removed *)
Definition single_fault_missing_dim (f : fitted) (x : input) : Prop :=
  exists fi it d, f_items f = [fi] /\ in_items x = [it] /\ in_ty x = fi_ty fi /\ it_ty it = fi_ty fi /\
    it_vars it = fi_vars fi /\ In d (fi_feature_dims fi) /\
    it_dims it = filter (fun dc => negb (String.eqb (fst dc) d)) (fi_dims fi).

(* x is the fitted data with additional labels appended to one feature coordinate *)
Definition single_fault_extended_coord (f : fitted) (x : input) : Prop :=
  exists fi it d extra, f_items f = [fi] /\ in_items x = [it] /\ in_ty x = fi_ty fi /\ it_ty it = fi_ty fi /\
    it_vars it = fi_vars fi /\ In d (fi_feature_dims fi) /\ extra <> [] /\
    it_dims it = map (fun dc => if String.eqb (fst dc) d then (fst dc, (snd dc ++ extra)%list) else dc) (fi_dims fi).

Theorem missing_dim_refuted :
  exists cfg x0 dim f x, fit_state cfg x0 dim = Ok f /\ single_fault_missing_dim f x /\
    transform_outcome false false f x = Ok tt.
Proof.
  exists ex_cfg, (ex_input ex_data), (VStr "time"), ex_fitted, (ex_input ex_missing_lon).
  split; [exact ex_fit|]. split; [|vm_compute; reflexivity].
  eexists _, ex_missing_lon, "lon". repeat split; cbn; auto.
Qed.

Theorem extended_coord_refuted :
  exists cfg x0 dim f x, fit_state cfg x0 dim = Ok f /\ single_fault_extended_coord f x /\
    transform_outcome false false f x = Ok tt.
Proof.
  exists ex_cfg, (ex_input ex_data), (VStr "time"), ex_fitted, (ex_input ex_extended_lon).
  split; [exact ex_fit|]. split; [|vm_compute; reflexivity].
  eexists _, ex_extended_lon, "lon", [20; 25]. repeat split; cbn; auto. discriminate.
Qed.

(* with validation before scaling both are refused (instances of the general theorems) *)
Theorem missing_dim_refused_example : transform_outcome true true ex_fitted (ex_input ex_missing_lon) = Err EValueError.
Proof. vm_compute. reflexivity. Qed.
Theorem extended_coord_refused_example : transform_outcome true true ex_fitted (ex_input ex_extended_lon) = Err EValueError.
Proof. vm_compute. reflexivity. Qed.

(* every single-fault removal of a dimension is refused when the dimensions are validated first *)
Theorem every_missing_dim_refused_when_validated vc f x :
  single_fault_missing_dim f x -> Forall wf_fitem (f_items f) -> refused (transform_outcome true vc f x).
Proof.
  intros [fi [it [d [Hf [Hx [_ [_ [_ [Hd Hdims]]]]]]]]] Hwf.
  apply (missing_dim_refused_when_validated vc f x fi it d).
  - rewrite Hf, Hx. now left.
  - apply in_or_app. now right.
  - rewrite Hdims. unfold dnames. intros Hin. apply in_map_iff in Hin as [[k c] [Hk Hin]]. cbn [fst] in Hk. subst k.
    apply filter_In in Hin as [_ Hneg]. cbn [fst] in Hneg. now rewrite String.eqb_refl in Hneg.
Qed.

(* non-vacuity: the valid calls of the running example are answered *)
Theorem valid_calls_answered :
  fit_outcome ex_cfg (ex_input ex_data) (VStr "time") = Ok tt /\
  (forall vd vc, transform_outcome vd vc ex_fitted (ex_input ex_data) = Ok tt) /\
  inverse_outcome 2 (mkScores TDataArray ["time"; "mode"] [1; 2]) = Ok tt.
Proof.
  split; [vm_compute; reflexivity|]. split; [|reflexivity].
  intros vd vc. exact (fitted_data_answered vd vc _ _ _ _ ex_fit).
Qed.

(* packaged forms used by Props/C17.v *)
Theorem missing_dim_refused_when_validated_first vc f x :
  single_fault_missing_dim f x -> Forall wf_fitem (f_items f) ->
  refused (transform_vbs true f x) /\ refused (transform_outcome true vc f x).
Proof.
  intros H W. split; [exact (every_missing_dim_refused_when_validated true f x H W)|
                      exact (every_missing_dim_refused_when_validated vc f x H W)].
Qed.

Theorem cross_transform_refused vd vc f1 f2 x y :
  refused (transform_outcome vd vc f1 x) \/ refused (transform_outcome vd vc f2 y) ->
  refused (cross_transform_outcome vd vc f1 f2 x y).
Proof. intros [H|H]; [now apply cross_transform_refused_l|now apply cross_transform_refused_r]. Qed.

(* ------------------------------------------------------------------ exact acceptance set of n_modes *)
Definition valid_n_modes (v : pyval) : Prop :=
  match v with
  | VInt z => (1 <= z)%Z
  | VFloat f => in_unit_interval f = true
  | VStr s => s = "all"%string
  | VBool b => b = true
  | _ => False
  end.

Lemma n_modes_accepted_iff v : sanity_check_n_modes v = Ok tt <-> valid_n_modes v.
Proof. destruct v as [z|f|s|b| | | | | | | ]; cbn [valid_n_modes]; try (split; [discriminate|contradiction]).
  - cbn [sanity_check_n_modes]. destruct (Z.ltb_spec z 1); split; intros; try lia; try discriminate; reflexivity.
  - split; intros H.
    + destruct (in_unit_interval f) eqn:E; [reflexivity|]. rewrite (n_modes_float_outside f E) in H. discriminate.
    + apply n_modes_float_inside; exact H.
  - cbn [sanity_check_n_modes existsb]. destruct (String.eqb_spec s "all"); cbn; split; intros; try discriminate; try contradiction; auto.
  - destruct b; cbn; split; intros; try discriminate; reflexivity.
Qed.
