(* every transform / predict implementation back-transforms scores through the unseen-data path,
   which never re-indexes to the fit samples and restores a MultiIndex from the transform call *)
From Coq Require Import String List Bool.
From XV Require Import Gen.T7unseen.
Import ListNotations.

Definition is_unseen (p : score_path) : bool := match p with Unseen => true | FitPath => false end.

Lemma all_sites_unseen : forallb (fun s => is_unseen (snd s)) transform_sites = true.
Proof. vm_compute. reflexivity. Qed.

Lemma sites_unseen : forall site p, In (site, p) transform_sites -> p = Unseen.
Proof. intros site p Hin. pose proof all_sites_unseen as H. rewrite forallb_forall in H. specialize (H (site, p) Hin).
  destruct p; [reflexivity|discriminate]. Qed.

Lemma unseen_never_reindexes : forallb (fun s => match snd s with UReindexToFit => false | _ => true end) unseen_behaviour = true.
Proof. vm_compute. reflexivity. Qed.

Lemma multiindex_from_transform_call : In ("MultiIndexConverter"%string, UTransformReference) unseen_behaviour.
Proof. vm_compute. tauto. Qed.
