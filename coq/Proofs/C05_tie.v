(* every transform / predict implementation back-transforms scores through the unseen-data path,
   which never re-indexes to the fit samples and restores a MultiIndex from the transform call *)
From Coq Require Import String List Bool.
From XV Require Import Gen.T7unseen.
Import ListNotations.

Definition is_unseen (p : score_path) : bool := match p with Unseen => true | FitPath => false end.

Lemma all_sites_unseen : forallb (fun s => is_unseen (snd s)) transform_sites = true.
Proof. vm_compute. reflexivity. Qed.

Lemma sites_unseen : forall site p, In (site, p) transform_sites -> p = Unseen.
Proof. intros site p Hin. pose proof all_sites_unseen as H. rewrite forallb_forall in H. specialize (H (site, p) Hin).
  destruct p; [reflexivity|discriminate]. Qed.

Lemma unseen_never_reindexes : forallb (fun s => match snd s with UReindexToFit => false | _ => true end) unseen_behaviour = true.
Proof. vm_compute. reflexivity. Qed.

Lemma multiindex_from_transform_call : In ("MultiIndexConverter"%string, UTransformReference) unseen_behaviour.
Proof. vm_compute. tauto. Qed.

(* every method that maps scores back through a preprocessor: the methods that answer for NEW data (transform, predict)
   take the unseen path, every accessor of the fitted scores takes the fit path *)
Definition new_data_method (m : String.string) : bool := (String.eqb m "transform" || String.eqb m "predict")%bool.
Definition path_ok (r : String.string * String.string * score_path) : bool :=
  let '(_, m, p) := r in Bool.eqb (new_data_method m) (is_unseen p).
Lemma score_paths_ok : forallb path_ok score_paths = true /\ (13 <= List.length score_paths)%nat.
Proof. split; [vm_compute; reflexivity|vm_compute; repeat constructor]. Qed.
