(* written by tools/mk_text_tie.py: the source text against which the hand-written model parts of C04 were last validated *)
From Coq Require Import String List.
From XV Require Import Gen.T9text.
Import ListNotations.
Open Scope string_scope.

(* xeofs/cross/base_model_cross_set.py: BaseModelCrossSet.transform *)
Lemma text_C04_BaseModelCrossSet_transform_frozen : text_C04_BaseModelCrossSet_transform =
  ["if X is None and Y is None:";
   "raise ValueError('Either X or Y must be provided.')";
   "if X is not None:";
   "validate_input_type(X)";
   "X = self.preprocessor1.transform(X)";
   "X = self.pca1.transform(X)";
   "X = self.whitener1.transform(X)";
   "if Y is not None:";
   "validate_input_type(Y)";
   "Y = self.preprocessor2.transform(Y)";
   "Y = self.pca2.transform(Y)";
   "Y = self.whitener2.transform(Y)";
   "data = self._transform_algorithm(X, Y, normalized=normalized)";
   "data_list = []";
   "if X is not None:";
   "X = self.whitener1.inverse_transform_scores_unseen(data['X'])";
   "X = self.pca1.inverse_transform_scores_unseen(X)";
   "X = self.preprocessor1.inverse_transform_scores_unseen(X)";
   "data_list.append(X)";
   "if Y is not None:";
   "Y = self.whitener2.inverse_transform_scores_unseen(data['Y'])";
   "Y = self.pca2.inverse_transform_scores_unseen(Y)";
   "Y = self.preprocessor2.inverse_transform_scores_unseen(Y)";
   "data_list.append(Y)";
   "if len(data_list) == 1:";
   "return data_list[0]";
   "return data_list"].
Proof. reflexivity. Qed.

(* xeofs/single/base_model_single_set.py: BaseModelSingleSet.transform *)
Lemma text_C04_BaseModelSingleSet_transform_frozen : text_C04_BaseModelSingleSet_transform =
  ["validate_input_type(data)";
   "data2D = self.preprocessor.transform(data)";
   "data2D = self._transform_algorithm(data2D)";
   "if normalized:";
   "data2D = data2D / self.data['norms']";
   "data2D.name = 'scores'";
   "return self.preprocessor.inverse_transform_scores_unseen(data2D)"].
Proof. reflexivity. Qed.

(* xeofs/single/eof_rotator.py: EOFRotator._transform_algorithm *)
Lemma text_C04_EOFRotator__transform_algorithm_frozen : text_C04_EOFRotator__transform_algorithm =
  ["n_modes = self._params['n_modes']";
   "svals = self.model_data['singular_values'].sel(mode=slice(1, self._params['n_modes']))";
   "pseudo_norms = self.data['norms']";
   "components = self.model_data['components'].sel(mode=slice(1, n_modes))";
   "projections = xr.dot(X, components) / svals";
   "projections.name = 'scores'";
   "R = self.data['rotation_matrix']";
   "RinvT = self._compute_rot_mat_inv_trans(R, input_dims=('mode_m', 'mode_n'))";
   "projections = projections.rename({'mode': 'mode_m'})";
   "RinvT = RinvT.rename({'mode_n': 'mode'})";
   "projections = xr.dot(projections, RinvT, dims='mode_m')";
   "if self.sorted:";
   "projections = projections.isel(mode=self.data['idx_modes_sorted'].values).assign_coords(mode=projections.mode)";
   "projections = projections * pseudo_norms";
   "projections = projections * self.data['modes_sign']";
   "return projections"].
Proof. reflexivity. Qed.

Definition all_frozen : Prop :=
  text_C04_BaseModelCrossSet_transform = ["if X is None and Y is None:";
   "raise ValueError('Either X or Y must be provided.')";
   "if X is not None:";
   "validate_input_type(X)";
   "X = self.preprocessor1.transform(X)";
   "X = self.pca1.transform(X)";
   "X = self.whitener1.transform(X)";
   "if Y is not None:";
   "validate_input_type(Y)";
   "Y = self.preprocessor2.transform(Y)";
   "Y = self.pca2.transform(Y)";
   "Y = self.whitener2.transform(Y)";
   "data = self._transform_algorithm(X, Y, normalized=normalized)";
   "data_list = []";
   "if X is not None:";
   "X = self.whitener1.inverse_transform_scores_unseen(data['X'])";
   "X = self.pca1.inverse_transform_scores_unseen(X)";
   "X = self.preprocessor1.inverse_transform_scores_unseen(X)";
   "data_list.append(X)";
   "if Y is not None:";
   "Y = self.whitener2.inverse_transform_scores_unseen(data['Y'])";
   "Y = self.pca2.inverse_transform_scores_unseen(Y)";
   "Y = self.preprocessor2.inverse_transform_scores_unseen(Y)";
   "data_list.append(Y)";
   "if len(data_list) == 1:";
   "return data_list[0]";
   "return data_list"] /\
  text_C04_BaseModelSingleSet_transform = ["validate_input_type(data)";
   "data2D = self.preprocessor.transform(data)";
   "data2D = self._transform_algorithm(data2D)";
   "if normalized:";
   "data2D = data2D / self.data['norms']";
   "data2D.name = 'scores'";
   "return self.preprocessor.inverse_transform_scores_unseen(data2D)"] /\
  text_C04_EOFRotator__transform_algorithm = ["n_modes = self._params['n_modes']";
   "svals = self.model_data['singular_values'].sel(mode=slice(1, self._params['n_modes']))";
   "pseudo_norms = self.data['norms']";
   "components = self.model_data['components'].sel(mode=slice(1, n_modes))";
   "projections = xr.dot(X, components) / svals";
   "projections.name = 'scores'";
   "R = self.data['rotation_matrix']";
   "RinvT = self._compute_rot_mat_inv_trans(R, input_dims=('mode_m', 'mode_n'))";
   "projections = projections.rename({'mode': 'mode_m'})";
   "RinvT = RinvT.rename({'mode_n': 'mode'})";
   "projections = xr.dot(projections, RinvT, dims='mode_m')";
   "if self.sorted:";
   "projections = projections.isel(mode=self.data['idx_modes_sorted'].values).assign_coords(mode=projections.mode)";
   "projections = projections * pseudo_norms";
   "projections = projections * self.data['modes_sign']";
   "return projections"].

Lemma all_frozen_holds : all_frozen.
Proof. exact (conj text_C04_BaseModelCrossSet_transform_frozen (conj text_C04_BaseModelSingleSet_transform_frozen text_C04_EOFRotator__transform_algorithm_frozen)). Qed.
