(* joining the items and cutting them back in insertion order returns every item with its own labels; walking the
   string keys in sorted order does not, as soon as there are more than ten items *)
From Coq Require Import String List Arith ZArith Lia.
From XV Require Import Model.Concat.
Import ListNotations.

Lemma cut_concat (ls : list (list Z)) : cut (map (@length Z) ls) (concat ls) = ls.
Proof. induction ls as [|l ls IH]; cbn [map cut concat]; [reflexivity|].
  rewrite firstn_app, Nat.sub_diag, firstn_all, app_nil_r. rewrite skipn_app, Nat.sub_diag, skipn_all. cbn [skipn app]. rewrite IH. reflexivity. Qed.

Lemma map_nth_seq {A} (d : A) (l : list A) : map (fun k => nth k l d) (seq 0 (length l)) = l.
Proof. induction l as [|a l IH]; [reflexivity|]. cbn [length seq map nth]. f_equal. rewrite <- seq_shift, map_map. exact IH. Qed.

Lemma combine_fst_snd (it : item) : combine (map fst it) (map snd it) = it.
Proof. induction it as [|[a b] it IH]; [reflexivity|]. cbn. rewrite IH. reflexivity. Qed.

Theorem split_concat (items : list item) : split Insertion (coords_in items) (concat_values items) = Some items.
Proof. unfold split, concat_values, coords_in. cbn [block_order]. rewrite map_nth_seq.
  assert (Hc : cut (map (@length Z) (map (map fst) items)) (concat (map (map snd) items)) = map (map snd) items).
  { rewrite <- (cut_concat (map (map snd) items)) at 2. f_equal. rewrite !map_map. apply map_ext. intros it. rewrite !map_length. reflexivity. }
  rewrite Hc.
  assert (Hok : forallb (fun lb : list Z * list Z => Nat.eqb (length (fst lb)) (length (snd lb))) (combine (map (map fst) items) (map (map snd) items)) = true).
  { clear Hc. induction items as [|it items IH]; [reflexivity|]. cbn. rewrite !map_length, Nat.eqb_refl. exact IH. }
  rewrite Hok. f_equal. clear Hc Hok. induction items as [|it items IH]; [reflexivity|]. cbn. rewrite combine_fst_snd, IH. reflexivity. Qed.

(* sorted string keys: "0","1","10","2",... - eleven one-feature items with labels 100+i and values i *)
Definition eleven : list item := map (fun i => [(Z.of_nat (100 + i), Z.of_nat i)]) (seq 0 11).
Example sorted_keys_11 : sorted_keys 11 = [0; 1; 10; 2; 3; 4; 5; 6; 7; 8; 9].
Proof. vm_compute. reflexivity. Qed.
Example sorted_keys_refuted : split SortedKeys (coords_in eleven) (concat_values eleven) <> Some eleven /\
  option_map (fun r => nth 2 r []) (split SortedKeys (coords_in eleven) (concat_values eleven)) = Some [(110%Z, 2%Z)].
Proof. split; [vm_compute; discriminate|vm_compute; reflexivity]. Qed.
Example sorted_keys_fine_up_to_ten : forallb (fun n => Nat.eqb (length (filter (fun p => negb (Nat.eqb (fst p) (snd p))) (combine (sorted_keys n) (seq 0 n)))) 0) (seq 0 11) = true.
Proof. vm_compute. reflexivity. Qed.
