(* written by tools/mk_text_tie.py: the source text against which the hand-written model parts of C03 were last validated *)
From Coq Require Import String List.
From XV Require Import Gen.T9text.
Import ListNotations.
Open Scope string_scope.

(* xeofs/single/base_model_single_set.py: BaseModelSingleSet.inverse_transform *)
Lemma text_C03_BaseModelSingleSet_inverse_transform_frozen : text_C03_BaseModelSingleSet_inverse_transform =
  ["if normalized:";
   "norms = self.data['norms'].sel(mode=scores.mode)";
   "scores = scores * norms";
   "if 'mode' not in scores.dims:";
   "scores = scores.expand_dims('mode')";
   "data_reconstructed = self._inverse_transform_algorithm(scores)";
   "if 'mode' in data_reconstructed.coords:";
   "data_reconstructed = data_reconstructed.drop_vars('mode')";
   "return self.preprocessor.inverse_transform_data(data_reconstructed)"].
Proof. reflexivity. Qed.

(* xeofs/single/base_model_single_set.py: BaseModelSingleSet.transform *)
Lemma text_C03_BaseModelSingleSet_transform_frozen : text_C03_BaseModelSingleSet_transform =
  ["validate_input_type(data)";
   "data2D = self.preprocessor.transform(data)";
   "data2D = self._transform_algorithm(data2D)";
   "if normalized:";
   "data2D = data2D / self.data['norms']";
   "data2D.name = 'scores'";
   "return self.preprocessor.inverse_transform_scores_unseen(data2D)"].
Proof. reflexivity. Qed.

(* xeofs/single/base_model_single_set.py: BaseModelSingleSet.components *)
Lemma text_C03_BaseModelSingleSet_components_frozen : text_C03_BaseModelSingleSet_components =
  ["components = self.data['components']";
   "if not normalized:";
   "name = components.name";
   "components = components * self.data['norms']";
   "components.name = name";
   "return self.preprocessor.inverse_transform_components(components)"].
Proof. reflexivity. Qed.

(* xeofs/single/base_model_single_set.py: BaseModelSingleSet.scores *)
Lemma text_C03_BaseModelSingleSet_scores_frozen : text_C03_BaseModelSingleSet_scores =
  ["scores = self.data['scores'].copy()";
   "if normalized:";
   "name = scores.name";
   "scores = scores / self.data['norms']";
   "scores.name = name";
   "return self.preprocessor.inverse_transform_scores(scores)"].
Proof. reflexivity. Qed.

(* xeofs/single/eof.py: EOF._inverse_transform_algorithm *)
Lemma text_C03_EOF__inverse_transform_algorithm_frozen : text_C03_EOF__inverse_transform_algorithm =
  ["comps = self.data['components'].sel(mode=scores.mode)";
   "reconstructed_data = xr.dot(comps.conj(), scores, dims='mode')";
   "reconstructed_data.name = 'reconstructed_data'";
   "return reconstructed_data"].
Proof. reflexivity. Qed.

(* xeofs/single/eof.py: EOF._transform_algorithm *)
Lemma text_C03_EOF__transform_algorithm_frozen : text_C03_EOF__transform_algorithm =
  ["feature_name = self.preprocessor.feature_name";
   "components = self.data['components']";
   "projections = xr.dot(X, components, dims=feature_name)";
   "projections.name = 'scores'";
   "return projections"].
Proof. reflexivity. Qed.

Definition all_frozen : Prop :=
  text_C03_BaseModelSingleSet_inverse_transform = ["if normalized:";
   "norms = self.data['norms'].sel(mode=scores.mode)";
   "scores = scores * norms";
   "if 'mode' not in scores.dims:";
   "scores = scores.expand_dims('mode')";
   "data_reconstructed = self._inverse_transform_algorithm(scores)";
   "if 'mode' in data_reconstructed.coords:";
   "data_reconstructed = data_reconstructed.drop_vars('mode')";
   "return self.preprocessor.inverse_transform_data(data_reconstructed)"] /\
  text_C03_BaseModelSingleSet_transform = ["validate_input_type(data)";
   "data2D = self.preprocessor.transform(data)";
   "data2D = self._transform_algorithm(data2D)";
   "if normalized:";
   "data2D = data2D / self.data['norms']";
   "data2D.name = 'scores'";
   "return self.preprocessor.inverse_transform_scores_unseen(data2D)"] /\
  text_C03_BaseModelSingleSet_components = ["components = self.data['components']";
   "if not normalized:";
   "name = components.name";
   "components = components * self.data['norms']";
   "components.name = name";
   "return self.preprocessor.inverse_transform_components(components)"] /\
  text_C03_BaseModelSingleSet_scores = ["scores = self.data['scores'].copy()";
   "if normalized:";
   "name = scores.name";
   "scores = scores / self.data['norms']";
   "scores.name = name";
   "return self.preprocessor.inverse_transform_scores(scores)"] /\
  text_C03_EOF__inverse_transform_algorithm = ["comps = self.data['components'].sel(mode=scores.mode)";
   "reconstructed_data = xr.dot(comps.conj(), scores, dims='mode')";
   "reconstructed_data.name = 'reconstructed_data'";
   "return reconstructed_data"] /\
  text_C03_EOF__transform_algorithm = ["feature_name = self.preprocessor.feature_name";
   "components = self.data['components']";
   "projections = xr.dot(X, components, dims=feature_name)";
   "projections.name = 'scores'";
   "return projections"].

Lemma all_frozen_holds : all_frozen.
Proof. exact (conj text_C03_BaseModelSingleSet_inverse_transform_frozen (conj text_C03_BaseModelSingleSet_transform_frozen (conj text_C03_BaseModelSingleSet_components_frozen (conj text_C03_BaseModelSingleSet_scores_frozen (conj text_C03_EOF__inverse_transform_algorithm_frozen text_C03_EOF__transform_algorithm_frozen))))). Qed.
