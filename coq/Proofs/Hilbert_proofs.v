(* the real part of the Hilbert-augmented data is the data itself (with or without padding), and its imaginary
   part has zero mean over the samples *)
From Coq Require Import ZArith List Bool Lia Arith Ring Field.
From XV Require Import Base.Scalar Base.Sum Base.Mat Model.Hilbert.
Import ListNotations.

Section HilbertProofs.
Context {F : Type} (K : Ops F).
Hypothesis FL : FieldLaws K.
Add Field Fhil : (FL_field K FL).
Notation vec := (@vec F).

(* the middle third of the padded series is the series itself when the fit on -n..2n-1 agrees with the fit on 0..n-1 *)
Lemma pad_middle n y yfit yfit_ext pre pos i : (i < n)%nat -> vget K yfit_ext (n + i) = vget K yfit i ->
  vget K (pad_model K n y yfit yfit_ext pre pos) (n + i) = vget K y i.
Proof. intros Hi Hfit. unfold pad_model. rewrite vget_vtab by lia.
  replace (Nat.ltb (n + i) n) with false by (symmetry; apply Nat.ltb_ge; lia).
  replace (Nat.ltb (n + i) (2 * n)) with true by (symmetry; apply Nat.ltb_lt; lia).
  replace (n + i - n)%nat with i by lia. rewrite Hfit. ring. Qed.

(* oracle specification: the real part of the analytic signal is the signal *)
Definition analytic_ok (m : nat) (an : vec -> (vec * vec)%type) (v : vec) : Prop := forall i, (i < m)%nat -> vget K (fst (an v)) i = vget K v i.

Theorem hilbert_real_part n (padding : bool) y yfit yfit_ext pre pos an : vwf K n y ->
  (forall i, (i < n)%nat -> vget K yfit_ext (n + i) = vget K yfit i) ->
  analytic_ok (if padding then 3 * n else n)%nat an (if padding then pad_model K n y yfit yfit_ext pre pos else y) ->
  fst (hilbert_model K n padding y yfit yfit_ext pre pos an) = y.
Proof. intros Hy Hfit Han. unfold hilbert_model. destruct padding.
  - destruct (an (pad_model K n y yfit yfit_ext pre pos)) as [re im] eqn:E. cbn [fst].
    rewrite Hy. apply vtab_ext. intros i Hi. unfold analytic_ok in Han. rewrite E in Han. cbn [fst] in Han.
    rewrite Han by lia. apply pad_middle; [exact Hi|apply Hfit; exact Hi].
  - destruct (an y) as [re im] eqn:E. cbn [fst]. etransitivity; [|symmetry; exact Hy]. apply vtab_ext. intros i Hi.
    unfold analytic_ok in Han. rewrite E in Han. cbn [fst] in Han. apply Han. exact Hi. Qed.

Theorem hilbert_imag_zero_mean n (padding : bool) y yfit yfit_ext pre pos an : fcount K n <> f0 K ->
  sum K n (vget K (snd (hilbert_model K n padding y yfit yfit_ext pre pos an))) = f0 K.
Proof. intros Hn. unfold hilbert_model.
  destruct (an (if padding then pad_model K n y yfit yfit_ext pre pos else y)) as [re im]. cbn [snd].
  set (im1 := if padding then vtab n (fun i => vget K im (n + i)) else vtab n (vget K im)).
  rewrite (sum_ext K n _ (fun i => fsub K (vget K im1 i) (vmean K n im1))) by (intros i Hi; rewrite vget_vtab by exact Hi; reflexivity).
  rewrite (sum_sub K FL). rewrite (sum_ext K n (fun _ => vmean K n im1) (fun i => fmul K (vmean K n im1) (f1 K))) by (intros; ring).
  rewrite (sum_scale_l K FL). fold (fcount K n). unfold vmean. field. exact Hn. Qed.
End HilbertProofs.
