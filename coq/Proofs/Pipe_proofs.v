(* the preprocessing chain undone in reverse order is the identity when every stage is; the renaming stage numbers
   the sample dimensions in the user's order, whatever the layout of the item, and is undone exactly *)
From Coq Require Import List Bool Arith Lia.
From XV Require Import Model.Pipe.
Import ListNotations.

Section Chain.
Variable D : Type.
Notation stage := (stage D).

Lemma run_fwd_snoc (l : list stage) s x : run_fwd D (l ++ [s]) x = fwd D s (run_fwd D l x).
Proof. unfold run_fwd. rewrite fold_left_app. reflexivity. Qed.

Lemma run_bwd_snoc (l : list stage) s y : run_bwd D true (l ++ [s]) y = run_bwd D true l (bwd D s y).
Proof. unfold run_bwd. rewrite rev_app_distr. reflexivity. Qed.

Theorem chain_roundtrip (l : list stage) : (forall s, In s l -> forall x, bwd D s (fwd D s x) = x) ->
  forall x, run_bwd D true l (run_fwd D l x) = x.
Proof. induction l as [|s l IH] using rev_ind; intros H x; [reflexivity|].
  rewrite run_fwd_snoc, run_bwd_snoc. rewrite H by (apply in_or_app; right; left; reflexivity).
  apply IH. intros s0 Hs0. apply H. apply in_or_app. left. exact Hs0. Qed.

Lemma run_bwd_cons (l : list stage) s y : run_bwd D true (s :: l) y = bwd D s (run_bwd D true l y).
Proof. unfold run_bwd. cbn [rev]. rewrite fold_left_app. reflexivity. Qed.

(* with domains: stage i maps the domain P i into P (i+1), and is undone on P i *)
Theorem chain_roundtrip_on (P : nat -> D -> Prop) (l : list stage) : forall o,
  (forall i s x, nth_error l i = Some s -> P (o + i) x -> P (o + S i) (fwd D s x) /\ bwd D s (fwd D s x) = x) ->
  forall x, P o x -> run_bwd D true l (run_fwd D l x) = x.
Proof. induction l as [|s l IH]; intros o H x Hx; [reflexivity|].
  rewrite run_bwd_cons. change (run_fwd D (s :: l) x) with (run_fwd D l (fwd D s x)).
  destruct (H 0 s x eq_refl) as [HP Hb]; [rewrite Nat.add_0_r; exact Hx|].
  rewrite (IH (S o)); [exact Hb| |rewrite Nat.add_1_r in HP; exact HP].
  intros i s0 y Hn Hy. replace (S o + i) with (o + S i) in Hy by lia. replace (S o + S i) with (o + S (S i)) by lia.
  apply (H (S i) s0 y); [exact Hn|exact Hy]. Qed.
End Chain.

(* without the reversal two non-commuting stages are not undone *)
Example forward_order_inverse_refuted :
  let s1 := mkStage nat (fun x => 2 * x) (fun x => Nat.div2 x) in
  let s2 := mkStage nat (fun x => x + 1) (fun x => x - 1) in
  run_bwd nat false [s1; s2] (run_fwd nat [s1; s2] 3) = 2 /\ run_bwd nat true [s1; s2] (run_fwd nat [s1; s2] 3) = 3.
Proof. split; reflexivity. Qed.

(* ---------- DimensionRenamer ---------- *)
Lemma assoc_in d m : In d (map fst m) -> exists v, assoc d m = Some v /\ In (d, v) m.
Proof. induction m as [|[k w] r IH]; cbn; [tauto|]. intros [H|H].
  - subst k. rewrite Nat.eqb_refl. exists w. split; [reflexivity|left; reflexivity].
  - destruct (Nat.eqb_spec k d) as [->|Hne]; [exists w; split; [reflexivity|left; reflexivity]|].
    destruct (IH H) as [v [A B]]. exists v. split; [exact A|right; exact B]. Qed.

Lemma rassoc_in k v m : In (k, v) m -> NoDup (map snd m) -> rassoc v m = Some k.
Proof. induction m as [|[k' w] r IH]; cbn; [tauto|]. intros [H|H] Hn; inversion Hn as [|y l Hnotin Hn']; subst.
  - inversion H; subst. rewrite Nat.eqb_refl. reflexivity.
  - destruct (Nat.eqb_spec w v) as [->|Hne]; [|apply IH; assumption].
    exfalso. apply Hnotin. apply in_map_iff. exists (k, v). split; [reflexivity|exact H]. Qed.

Lemma combine_seq_snd (o : list nat) start : map snd (combine o (seq start (length o))) = seq start (length o).
Proof. revert start. induction o as [|a o IH]; intros start; cbn; [reflexivity|]. rewrite IH. reflexivity. Qed.
Lemma combine_seq_fst (o : list nat) start : map fst (combine o (seq start (length o))) = o.
Proof. revert start. induction o as [|a o IH]; intros start; cbn; [reflexivity|]. rewrite IH. reflexivity. Qed.

Lemma mem_in d l : mem d l = true <-> In d l.
Proof. unfold mem. rewrite existsb_exists. split; [intros [x [Hx He]]; apply Nat.eqb_eq in He; subst; exact Hx|intros H; exists d; split; [exact H|apply Nat.eqb_refl]]. Qed.

Lemma ordered_covers rule sample xdims d : incl sample xdims -> In d xdims -> In d (ordered_dims rule sample xdims).
Proof. intros Hinc Hd. destruct (mem d sample) eqn:E; destruct rule; cbn; apply in_or_app.
  - left. apply mem_in. exact E.
  - left. apply filter_In. split; assumption.
  - right. apply filter_In. split; [exact Hd|rewrite E; reflexivity].
  - right. apply filter_In. split; [exact Hd|rewrite E; reflexivity]. Qed.

(* renaming is undone exactly, for either numbering rule *)
Theorem rename_roundtrip rule start sample xdims : incl sample xdims ->
  let m := dim_mapping rule start sample xdims in unrename m (rename m xdims) = xdims.
Proof. intros Hinc m. unfold unrename, rename. rewrite map_map. rewrite <- (map_id xdims) at 2. apply map_ext_in. intros d Hd.
  assert (Hk : In d (map fst m)) by (unfold m, dim_mapping; rewrite combine_seq_fst; apply ordered_covers; assumption).
  destruct (assoc_in d m Hk) as [v [A B]]. rewrite A. rewrite (rassoc_in d v m B); [reflexivity|].
  unfold m, dim_mapping. rewrite combine_seq_snd. apply seq_NoDup. Qed.

(* numbering in the user's order: the i-th sample dimension gets the number start + i, for every layout of the item *)
Lemma names_prefix (l r : list nat) : NoDup l -> forall start,
  names_after (combine (l ++ r) (seq start (length (l ++ r)))) l = map Some (seq start (length l)).
Proof. induction l as [|a l IH]; intros Hn start; [reflexivity|]. inversion Hn as [|y l' Hnotin Hn']; subst.
  cbn [app length seq combine names_after map assoc]. rewrite Nat.eqb_refl. f_equal.
  specialize (IH Hn' (S start)). unfold names_after in *. rewrite <- IH. apply map_ext_in. intros d Hd.
  destruct (Nat.eqb_spec a d) as [->|Hne]; [contradiction|reflexivity]. Qed.

Theorem sample_names_in_user_order start sample xdims : NoDup sample ->
  names_after (dim_mapping ByUser start sample xdims) sample = map Some (seq start (length sample)).
Proof. intros Hn. unfold dim_mapping, ordered_dims. apply names_prefix. exact Hn. Qed.

(* hence all items of a list input agree on the new names of the shared sample dimensions *)
Theorem items_agree_on_sample_names start sample x1 x2 : NoDup sample ->
  names_after (dim_mapping ByUser start sample x1) sample = names_after (dim_mapping ByUser start sample x2) sample.
Proof. intros Hn. rewrite !sample_names_in_user_order by exact Hn. reflexivity. Qed.

(* numbering in the order of the item's own dimensions: two items laid out differently disagree *)
Example by_data_order_refuted :
  names_after (dim_mapping ByData 0 [0; 1] [0; 1; 2]) [0; 1] = [Some 0; Some 1] /\
  names_after (dim_mapping ByData 0 [0; 1] [1; 0; 3]) [0; 1] = [Some 1; Some 0].
Proof. split; reflexivity. Qed.
