(* written by tools/mk_text_tie.py: the source text against which the hand-written model parts of C19 were last validated *)
From Coq Require Import String List.
From XV Require Import Gen.T9text.
Import ListNotations.
Open Scope string_scope.

(* xeofs/single/opa.py: OPA.components *)
Lemma text_C19_OPA_components_frozen : text_C19_OPA_components =
  ["return super().components()"].
Proof. reflexivity. Qed.

(* xeofs/single/opa.py: OPA.scores *)
Lemma text_C19_OPA_scores_frozen : text_C19_OPA_scores =
  ["return super().scores()"].
Proof. reflexivity. Qed.

(* xeofs/single/opa.py: OPA.decorrelation_time *)
Lemma text_C19_OPA_decorrelation_time_frozen : text_C19_OPA_decorrelation_time =
  ["return self.data['decorrelation_time']"].
Proof. reflexivity. Qed.

(* xeofs/single/opa.py: OPA.filter_patterns *)
Lemma text_C19_OPA_filter_patterns_frozen : text_C19_OPA_filter_patterns =
  ["fps = self.data['filter_patterns']";
   "return self.preprocessor.inverse_transform_components(fps)"].
Proof. reflexivity. Qed.

Definition all_frozen : Prop :=
  text_C19_OPA_components = ["return super().components()"] /\
  text_C19_OPA_scores = ["return super().scores()"] /\
  text_C19_OPA_decorrelation_time = ["return self.data['decorrelation_time']"] /\
  text_C19_OPA_filter_patterns = ["fps = self.data['filter_patterns']";
   "return self.preprocessor.inverse_transform_components(fps)"].

Lemma all_frozen_holds : all_frozen.
Proof. exact (conj text_C19_OPA_components_frozen (conj text_C19_OPA_scores_frozen (conj text_C19_OPA_decorrelation_time_frozen text_C19_OPA_filter_patterns_frozen))). Qed.
