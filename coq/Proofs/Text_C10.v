(* written by tools/mk_text_tie.py: the source text against which the hand-written model parts of C10 were last validated *)
From Coq Require Import String List.
From XV Require Import Gen.T9text.
Import ListNotations.
Open Scope string_scope.

(* xeofs/multi/cca.py: CCABaseModel.fit *)
Lemma text_C10_CCABaseModel_fit_frozen : text_C10_CCABaseModel_fit =
  ["self.n_views_ = len(views)";
   "self.use_coslat = _process_parameter('use_coslat', self.use_coslat, False, self.n_views_)";
   "self.init_pca_modes = _process_parameter('init_pca_modes', self.init_pca_modes, 0.75, self.n_views_)";
   "self.preprocessors = [Preprocessor(with_coslat=self.use_coslat[i], **self._preprocessor_kwargs) for i in range(self.n_views_)]";
   "views2D: list[DataArray] = [preprocessor.fit_transform(data, dim) for preprocessor, data in zip(self.preprocessors, views)]";
   "self._validate_data(views2D)";
   "self.n_features_ = [data.coords[self.feature_name].size for data in views2D]";
   "self.n_samples_ = views2D[0][self.sample_name].size";
   "self.data['input_data'] = views2D";
   "views2D = self._process_data(views2D)";
   "self.data['pca_data'] = views2D";
   "self._fit_algorithm(views2D)";
   "return self"].
Proof. reflexivity. Qed.

(* xeofs/multi/cca.py: CCABaseModel._process_data *)
Lemma text_C10_CCABaseModel__process_data_frozen : text_C10_CCABaseModel__process_data =
  ["if self.pca:";
   "views = self._apply_pca(views)";
   "return views"].
Proof. reflexivity. Qed.

(* xeofs/multi/cca.py: CCABaseModel._apply_pca *)
Lemma text_C10_CCABaseModel__apply_pca_frozen : text_C10_CCABaseModel__apply_pca =
  ["self.pca_models = []";
   "n_pca_modes = self._process_init_pca_modes(self.init_pca_modes)";
   "view_transformed = []";
   "for i, view in enumerate(views):";
   "pca = EOF(n_modes=n_pca_modes[i], compute=self.compute)";
   "pca.fit(view, dim=self.sample_name)";
   "if self.compute:";
   "pca.compute()";
   "self.pca_models.append(pca)";
   "cum_exp_var_ratio = pca.explained_variance_ratio().cumsum()";
   "cum_exp_var_ratio -= 1e-06";
   "max_exp_var_ratio = cum_exp_var_ratio.isel(mode=-1).item()";
   "if max_exp_var_ratio <= self.variance_fraction and max_exp_var_ratio <= 0.9999:";
   "print('Warning: variance fraction {:.4f} is not reached. '.format(self.variance_fraction) + 'Only {:.4f} of variance is explained.'.format(cum_exp_var";
   "n_modes_keep = cum_exp_var_ratio.where(cum_exp_var_ratio <= self.variance_fraction, drop=True).size + 1";
   "n_modes_keep = max(n_modes_keep, 2)";
   "scores = pca.scores(normalized=False).isel(mode=slice(0, n_modes_keep))";
   "scores = scores.rename({'mode': self.feature_name}).transpose(self.sample_name, self.feature_name)";
   "view_transformed.append(scores)";
   "return view_transformed"].
Proof. reflexivity. Qed.

(* xeofs/multi/cca.py: CCA._fit_algorithm *)
Lemma text_C10_CCA__fit_algorithm_frozen : text_C10_CCA__fit_algorithm =
  ["[assert_not_complex(view) for view in views]";
   "self.c = _process_parameter('c', self.c, 0, self.n_views_)";
   "eigvals, eigvecs = self._solve_gevp(views)";
   "self.eigvals = eigvals";
   "self.eigvecs = eigvecs";
   "self._weights(eigvals, eigvecs, views)";
   "self.data['loadings'] = [wght / self._apply_norm(wght, [self.feature_name]) for wght in self.data['weights']]";
   "canonical_variates = self._transform(self.data['input_data'])";
   "self.data['variates'] = canonical_variates";
   "self.data['canonical_loadings'] = [xr.dot(data, vari, dims=self.sample_name, optimize=True) for data, vari in zip(self.data['input_data'], canonical_v";
   "transformed_views = [xr.dot(view, loading, dims=self.feature_name) for view, loading in zip(self.data['input_data'], self.data['loadings'])]";
   "self.data['explained_variance'] = [transformed.var(self.sample_name) for transformed in transformed_views]";
   "self.data['total_variance'] = [view.var(self.sample_name, ddof=1).sum() for view in views]";
   "self.data['explained_variance_ratio'] = [exp_var / total_var for exp_var, total_var in zip(self.data['explained_variance'], self.data['total_variance'";
   "k = self.n_modes";
   "explained_covariance = []";
   "for i in range(k):";
   "transformed_views_k = [view.isel(mode=slice(i, i + 1)) for view in transformed_views]";
   "cov_ = self._apply_compute_covariance(transformed_views_k, dims_in=['sample', 'mode'])";
   "svals = self._compute_singular_values(cov_, dims_in=['mode1', 'mode2'])";
   "explained_covariance.append(svals.isel(mode=0).item())";
   "self.data['explained_covariance'] = xr.DataArray(explained_covariance, dims=['mode'], coords={'mode': range(1, k + 1)})";
   "minimum_dimension = min([view[self.feature_name].size for view in views])";
   "cov = self._apply_compute_covariance(views, dims_in=['sample', 'feature'])";
   "S = self._compute_singular_values(cov, dims_in=['feature1', 'feature2'])";
   "self.data['total_explained_covariance'] = S.isel(mode=slice(0, None, 2)).isel(mode=slice(0, minimum_dimension)).sum()";
   "self.data['explained_covariance_ratio'] = self.data['explained_covariance'] / self.data['total_explained_covariance']";
   "return self"].
Proof. reflexivity. Qed.

(* xeofs/multi/cca.py: CCA._solve_gevp *)
Lemma text_C10_CCA__solve_gevp_frozen : text_C10_CCA__solve_gevp =
  ["C = self._C(views, dims_in=[self.sample_name, self.feature_name])";
   "D = self._D(views, **kwargs)";
   "self.splits = np.cumsum([view.shape[1] for view in views])";
   "p = C.shape[0]";
   "subset_by_index = [p - self.n_modes, p - 1]";
   "[eigvals, eigvecs] = self._apply_eigh(C, D, subset_by_index=subset_by_index)";
   "idx_sorted_modes = eigvals.compute().argsort()[::-1]";
   "idx_sorted_modes = idx_sorted_modes.assign_coords({'mode': range(idx_sorted_modes.mode.size)})";
   "eigvals = eigvals.isel(mode=idx_sorted_modes)";
   "eigvecs = eigvecs.isel(mode=idx_sorted_modes).real";
   "coords_mode = range(1, eigvals.mode.size + 1)";
   "coords_feature = C.coords[self.feature_name + '1'].values";
   "eigvals = eigvals.assign_coords({'mode': coords_mode})";
   "eigvecs = eigvecs.assign_coords({'mode': coords_mode, self.feature_name: coords_feature})";
   "return (eigvals, eigvecs)"].
Proof. reflexivity. Qed.

(* xeofs/multi/cca.py: CCA._apply_norm *)
Lemma text_C10_CCA__apply_norm_frozen : text_C10_CCA__apply_norm =
  ["return xr.apply_ufunc(np.linalg.norm, x, input_core_dims=[dims], output_core_dims=[[]], kwargs={'axis': -1}, vectorize=True, dask='allowed')"].
Proof. reflexivity. Qed.

(* xeofs/multi/cca.py: CCA._D *)
Lemma text_C10_CCA__D_frozen : text_C10_CCA__D =
  ["if self.pca:";
   "blocks = []";
   "for i, view in enumerate(views):";
   "pc = self.pca_models[i]";
   "feature_coords = view.coords[self.feature_name]";
   "n_features = feature_coords.size";
   "expvar = pc.explained_variance().isel(mode=slice(0, n_features))";
   "block = xr.DataArray(da.diag((1 - self.c[i]) * expvar.data + self.c[i]), dims=[self.feature_name + '1', self.feature_name + '2'], coords={self.feature";
   "block = block.compute()";
   "blocks.append(block)";
   "blocks = [self._apply_E(view, c) for view, c in zip(views, self.c)]";
   "D = self._block_diag_dask(blocks, dims_in=['feature1', 'feature2'])";
   "D_smallest_eig = self._apply_smallest_eigval(D, dims=['feature1', 'feature2'])";
   "D_smallest_eig = D_smallest_eig - self.eps";
   "identity_matrix = xr.DataArray(np.eye(D.shape[0]), dims=D.dims, coords=D.coords)";
   "D = D - D_smallest_eig * identity_matrix";
   "return D / len(views)"].
Proof. reflexivity. Qed.

(* xeofs/multi/cca.py: CCA._transform *)
Lemma text_C10_CCA__transform_frozen : text_C10_CCA__transform =
  ["transformed_views = []";
   "for i, view in enumerate(views):";
   "transformed_view = xr.dot(view, self.data['weights'][i], dims='feature')";
   "transformed_views.append(transformed_view)";
   "return transformed_views"].
Proof. reflexivity. Qed.

(* xeofs/multi/cca.py: CCA.transform *)
Lemma text_C10_CCA_transform_frozen : text_C10_CCA_transform =
  ["view_preprocessed = []";
   "for i, view in enumerate(views):";
   "view_preprocessed.append(self.preprocessors[i].transform(view))";
   "transformed_views = self._transform(view_preprocessed)";
   "unstacked_transformed_views = []";
   "for i, view in enumerate(transformed_views):";
   "unstacked_view = self.preprocessors[i].inverse_transform_scores_unseen(view)";
   "unstacked_transformed_views.append(unstacked_view)";
   "return unstacked_transformed_views"].
Proof. reflexivity. Qed.

Definition all_frozen : Prop :=
  text_C10_CCABaseModel_fit = ["self.n_views_ = len(views)";
   "self.use_coslat = _process_parameter('use_coslat', self.use_coslat, False, self.n_views_)";
   "self.init_pca_modes = _process_parameter('init_pca_modes', self.init_pca_modes, 0.75, self.n_views_)";
   "self.preprocessors = [Preprocessor(with_coslat=self.use_coslat[i], **self._preprocessor_kwargs) for i in range(self.n_views_)]";
   "views2D: list[DataArray] = [preprocessor.fit_transform(data, dim) for preprocessor, data in zip(self.preprocessors, views)]";
   "self._validate_data(views2D)";
   "self.n_features_ = [data.coords[self.feature_name].size for data in views2D]";
   "self.n_samples_ = views2D[0][self.sample_name].size";
   "self.data['input_data'] = views2D";
   "views2D = self._process_data(views2D)";
   "self.data['pca_data'] = views2D";
   "self._fit_algorithm(views2D)";
   "return self"] /\
  text_C10_CCABaseModel__process_data = ["if self.pca:";
   "views = self._apply_pca(views)";
   "return views"] /\
  text_C10_CCABaseModel__apply_pca = ["self.pca_models = []";
   "n_pca_modes = self._process_init_pca_modes(self.init_pca_modes)";
   "view_transformed = []";
   "for i, view in enumerate(views):";
   "pca = EOF(n_modes=n_pca_modes[i], compute=self.compute)";
   "pca.fit(view, dim=self.sample_name)";
   "if self.compute:";
   "pca.compute()";
   "self.pca_models.append(pca)";
   "cum_exp_var_ratio = pca.explained_variance_ratio().cumsum()";
   "cum_exp_var_ratio -= 1e-06";
   "max_exp_var_ratio = cum_exp_var_ratio.isel(mode=-1).item()";
   "if max_exp_var_ratio <= self.variance_fraction and max_exp_var_ratio <= 0.9999:";
   "print('Warning: variance fraction {:.4f} is not reached. '.format(self.variance_fraction) + 'Only {:.4f} of variance is explained.'.format(cum_exp_var";
   "n_modes_keep = cum_exp_var_ratio.where(cum_exp_var_ratio <= self.variance_fraction, drop=True).size + 1";
   "n_modes_keep = max(n_modes_keep, 2)";
   "scores = pca.scores(normalized=False).isel(mode=slice(0, n_modes_keep))";
   "scores = scores.rename({'mode': self.feature_name}).transpose(self.sample_name, self.feature_name)";
   "view_transformed.append(scores)";
   "return view_transformed"] /\
  text_C10_CCA__fit_algorithm = ["[assert_not_complex(view) for view in views]";
   "self.c = _process_parameter('c', self.c, 0, self.n_views_)";
   "eigvals, eigvecs = self._solve_gevp(views)";
   "self.eigvals = eigvals";
   "self.eigvecs = eigvecs";
   "self._weights(eigvals, eigvecs, views)";
   "self.data['loadings'] = [wght / self._apply_norm(wght, [self.feature_name]) for wght in self.data['weights']]";
   "canonical_variates = self._transform(self.data['input_data'])";
   "self.data['variates'] = canonical_variates";
   "self.data['canonical_loadings'] = [xr.dot(data, vari, dims=self.sample_name, optimize=True) for data, vari in zip(self.data['input_data'], canonical_v";
   "transformed_views = [xr.dot(view, loading, dims=self.feature_name) for view, loading in zip(self.data['input_data'], self.data['loadings'])]";
   "self.data['explained_variance'] = [transformed.var(self.sample_name) for transformed in transformed_views]";
   "self.data['total_variance'] = [view.var(self.sample_name, ddof=1).sum() for view in views]";
   "self.data['explained_variance_ratio'] = [exp_var / total_var for exp_var, total_var in zip(self.data['explained_variance'], self.data['total_variance'";
   "k = self.n_modes";
   "explained_covariance = []";
   "for i in range(k):";
   "transformed_views_k = [view.isel(mode=slice(i, i + 1)) for view in transformed_views]";
   "cov_ = self._apply_compute_covariance(transformed_views_k, dims_in=['sample', 'mode'])";
   "svals = self._compute_singular_values(cov_, dims_in=['mode1', 'mode2'])";
   "explained_covariance.append(svals.isel(mode=0).item())";
   "self.data['explained_covariance'] = xr.DataArray(explained_covariance, dims=['mode'], coords={'mode': range(1, k + 1)})";
   "minimum_dimension = min([view[self.feature_name].size for view in views])";
   "cov = self._apply_compute_covariance(views, dims_in=['sample', 'feature'])";
   "S = self._compute_singular_values(cov, dims_in=['feature1', 'feature2'])";
   "self.data['total_explained_covariance'] = S.isel(mode=slice(0, None, 2)).isel(mode=slice(0, minimum_dimension)).sum()";
   "self.data['explained_covariance_ratio'] = self.data['explained_covariance'] / self.data['total_explained_covariance']";
   "return self"] /\
  text_C10_CCA__solve_gevp = ["C = self._C(views, dims_in=[self.sample_name, self.feature_name])";
   "D = self._D(views, **kwargs)";
   "self.splits = np.cumsum([view.shape[1] for view in views])";
   "p = C.shape[0]";
   "subset_by_index = [p - self.n_modes, p - 1]";
   "[eigvals, eigvecs] = self._apply_eigh(C, D, subset_by_index=subset_by_index)";
   "idx_sorted_modes = eigvals.compute().argsort()[::-1]";
   "idx_sorted_modes = idx_sorted_modes.assign_coords({'mode': range(idx_sorted_modes.mode.size)})";
   "eigvals = eigvals.isel(mode=idx_sorted_modes)";
   "eigvecs = eigvecs.isel(mode=idx_sorted_modes).real";
   "coords_mode = range(1, eigvals.mode.size + 1)";
   "coords_feature = C.coords[self.feature_name + '1'].values";
   "eigvals = eigvals.assign_coords({'mode': coords_mode})";
   "eigvecs = eigvecs.assign_coords({'mode': coords_mode, self.feature_name: coords_feature})";
   "return (eigvals, eigvecs)"] /\
  text_C10_CCA__apply_norm = ["return xr.apply_ufunc(np.linalg.norm, x, input_core_dims=[dims], output_core_dims=[[]], kwargs={'axis': -1}, vectorize=True, dask='allowed')"] /\
  text_C10_CCA__D = ["if self.pca:";
   "blocks = []";
   "for i, view in enumerate(views):";
   "pc = self.pca_models[i]";
   "feature_coords = view.coords[self.feature_name]";
   "n_features = feature_coords.size";
   "expvar = pc.explained_variance().isel(mode=slice(0, n_features))";
   "block = xr.DataArray(da.diag((1 - self.c[i]) * expvar.data + self.c[i]), dims=[self.feature_name + '1', self.feature_name + '2'], coords={self.feature";
   "block = block.compute()";
   "blocks.append(block)";
   "blocks = [self._apply_E(view, c) for view, c in zip(views, self.c)]";
   "D = self._block_diag_dask(blocks, dims_in=['feature1', 'feature2'])";
   "D_smallest_eig = self._apply_smallest_eigval(D, dims=['feature1', 'feature2'])";
   "D_smallest_eig = D_smallest_eig - self.eps";
   "identity_matrix = xr.DataArray(np.eye(D.shape[0]), dims=D.dims, coords=D.coords)";
   "D = D - D_smallest_eig * identity_matrix";
   "return D / len(views)"] /\
  text_C10_CCA__transform = ["transformed_views = []";
   "for i, view in enumerate(views):";
   "transformed_view = xr.dot(view, self.data['weights'][i], dims='feature')";
   "transformed_views.append(transformed_view)";
   "return transformed_views"] /\
  text_C10_CCA_transform = ["view_preprocessed = []";
   "for i, view in enumerate(views):";
   "view_preprocessed.append(self.preprocessors[i].transform(view))";
   "transformed_views = self._transform(view_preprocessed)";
   "unstacked_transformed_views = []";
   "for i, view in enumerate(transformed_views):";
   "unstacked_view = self.preprocessors[i].inverse_transform_scores_unseen(view)";
   "unstacked_transformed_views.append(unstacked_view)";
   "return unstacked_transformed_views"].

Lemma all_frozen_holds : all_frozen.
Proof. exact (conj text_C10_CCABaseModel_fit_frozen (conj text_C10_CCABaseModel__process_data_frozen (conj text_C10_CCABaseModel__apply_pca_frozen (conj text_C10_CCA__fit_algorithm_frozen (conj text_C10_CCA__solve_gevp_frozen (conj text_C10_CCA__apply_norm_frozen (conj text_C10_CCA__D_frozen (conj text_C10_CCA__transform_frozen text_C10_CCA_transform_frozen)))))))). Qed.
