(* C18 — non-vacuity: a concrete real time series x_{t+1} = diag(2,3) x_t meets the premises of
   the oracle-relative theorems (inverse and eigen-oracle answers exist and satisfy their specs). *)
From Coq Require Import ZArith List Bool Reals Lra Lia Arith.
From XV Require Import Base.Scalar Base.Sum Base.Mat Base.RInst Model.Pop.
Import ListNotations.
Open Scope R_scope.

Definition ex_X : list (list R) := [[1; 1]; [2; 3]; [4; 9]].
Definition ex_C0inv : list (list R) := [[10; -7]; [-7; 5]].
Definition ex_P : list (list R) := [[1; 0]; [0; 1]].
Definition ex_lam : list R := [2; 3].

Lemma premises_example :
  inv_ok OR 2 (lag0 OR 3 2 ex_X) ex_C0inv /\ eig_ok OR 2 (feedback OR 3 2 ex_X ex_C0inv) ex_P ex_lam /\
  real_mat OR 3 2 ex_X.
Proof. unfold inv_ok, eig_ok, wf, vwf, feedback, lag0, lag1, head_rows, tail_rows, real_mat, ex_X, ex_C0inv, ex_P, ex_lam.
  repeat split; try reflexivity;
  unfold mmul, mH, mI, mdiag, tab, vtab;
  cbn [map seq sum get vget nth fmul fadd f0 f1 fconj OR delta Nat.eqb Nat.sub Nat.add];
  repeat (f_equal; try lra). Qed.
