(* C19 — order-dependent part at the real instance: descending own decorrelation times for the
   eigen-oracle variant, Rayleigh bound (no combination of the retained PCs beats the first mode). *)
From Coq Require Import ZArith List Bool Reals Lra Lia Arith.
From XV Require Import Base.Scalar Base.Sum Base.Mat Base.MatAlg Base.RInst Model.Opa Proofs.C19_proofs.
Import ListNotations.
Open Scope R_scope.

Notation FLR := OR_FieldLaws.

Lemma two_nz_R : fadd OR (f1 OR) (f1 OR) <> f0 OR.
Proof. cbn. lra. Qed.

Lemma sum_le_R n (f g : nat -> R) : (forall i, (i < n)%nat -> f i <= g i) -> sum OR n f <= sum OR n g.
Proof. induction n as [|n IH]; intros H; cbn [sum fadd f0 OR]; [lra|].
  assert (H1 := IH (fun i Hi => H i (Nat.lt_lt_succ_r _ _ Hi))). assert (H2 := H n (Nat.lt_succ_diag_r n)).
  cbn [fadd OR] in *. lra. Qed.

Lemma sum_nonneg_R n (f : nat -> R) : (forall i, (i < n)%nat -> 0 <= f i) -> 0 <= sum OR n f.
Proof. induction n as [|n IH]; intros H; cbn [sum fadd f0 OR]; [lra|].
  assert (H1 := IH (fun i Hi => H i (Nat.lt_lt_succ_r _ _ Hi))). assert (H2 := H n (Nat.lt_succ_diag_r n)). lra. Qed.

(* eigen-oracle variant (no SVD): lam arrives descending, so the modes' OWN decorrelation times descend *)
Lemma descending_own_times n q k (S Ci U : list (list R)) (lam : list R) tm :
  mT OR q q Ci = Ci -> whiten_ok OR q (ctau OR n q S 0) Ci -> wf OR q k U ->
  mmul OR k q k (mT OR q k U) U = mI OR k -> mmul OR q q k (opa_target OR n q S Ci tm) U = colscale OR q k U lam ->
  (k <= q)%nat -> order_ok OR false q lam ->
  let P := mmul OR n q k S (mmul OR q q k Ci U) in
  forall i j, (i <= j)%nat -> (j < k)%nat ->
    vget OR (reported OR false k lam) i = own_time OR n tm P i /\
    own_time OR n tm P j <= own_time OR n tm P i.
Proof. intros Hs Hw HU HUU He Hk Ho. cbn zeta. intros i j Hij Hj.
  assert (D := decorrelation_is_trapezoid OR FLR two_nz_R n q k S Ci U lam tm Hs Hw HU HUU He). cbn zeta in D.
  destruct (D i ltac:(lia)) as [_ [_ Ei]]. destruct (D j Hj) as [_ [_ Ej]].
  split.
  - unfold reported. rewrite vget_vtab by lia. cbn [opa_key]. exact Ei.
  - rewrite <- Ei, <- Ej. specialize (Ho i j Hij ltac:(lia)). cbn [opa_key] in Ho. unfold fle in Ho.
    cbn [fleb OR] in Ho. apply Rleb_true in Ho. exact Ho. Qed.

(* Rayleigh bound through sum lam_i w_i <= lam_0 sum w_i, w_i = a_i^2 >= 0, a = U^T x *)
Lemma rayleigh q (T U : list (list R)) (lam : list R) :
  eig_sym_ok OR q T U lam -> (forall i, (i < q)%nat -> vget OR lam i <= vget OR lam 0) ->
  forall x, wf OR q 1 x ->
  let r := get OR (mmul OR 1 q 1 (mT OR q 1 x) (mmul OR q q 1 T x)) 0 0 in
  let d := get OR (mmul OR 1 q 1 (mT OR q 1 x) x) 0 0 in
  r <= vget OR lam 0 * d /\ 0 <= d /\ (0 < d -> r / d <= vget OR lam 0).
Proof. intros [HU [Hl [HUU [HUUt He]]]] Hmax x Hx. cbn zeta.
  set (a := mmul OR q q 1 (mT OR q q U) x).
  assert (Hxa : x = mmul OR q q 1 U a).
  { unfold a. rewrite <- (mmul_assoc OR FLR q q q 1 U (mT OR q q U) x). rewrite HUUt.
    symmetry. apply (mmul_I_l OR FLR q 1 x Hx). }
  assert (Hd : mmul OR 1 q 1 (mT OR q 1 x) x = mmul OR 1 q 1 (mT OR q 1 a) a).
  { rewrite Hxa at 1 2. rewrite (mT_mmul OR FLR q q 1 U a). rewrite (mmul_assoc OR FLR 1 q q 1).
    rewrite <- (mmul_assoc OR FLR q q q 1 (mT OR q q U) U a). rewrite HUU.
    rewrite (mmul_I_l OR FLR q 1 a (wf_mmul OR q q 1 _ _)). reflexivity. }
  assert (Hr : mmul OR 1 q 1 (mT OR q 1 x) (mmul OR q q 1 T x)
               = mmul OR 1 q 1 (mT OR q 1 a) (rowscale OR q 1 lam a)).
  { rewrite Hxa at 1 2. rewrite (mT_mmul OR FLR q q 1 U a). rewrite (mmul_assoc OR FLR 1 q q 1).
    rewrite <- (mmul_assoc OR FLR q q q 1 T U a). rewrite He.
    rewrite <- (mmul_diag_r OR FLR q q U lam). rewrite (mmul_assoc OR FLR q q q 1 U (mdiag OR q lam) a).
    rewrite <- (mmul_assoc OR FLR q q q 1 (mT OR q q U) U). rewrite HUU.
    rewrite (mmul_I_l OR FLR q 1 _ (wf_mmul OR q q 1 _ _)). rewrite (mmul_diag_l OR FLR q 1 lam a). reflexivity. }
  rewrite Hr, Hd.
  assert (Er : get OR (mmul OR 1 q 1 (mT OR q 1 a) (rowscale OR q 1 lam a)) 0 0
               = sum OR q (fun l => vget OR lam l * (get OR a l 0 * get OR a l 0))).
  { mat_unfold. rewrite get_tab by lia. apply (sum_ext OR). intros l Hl'. fold a.
    unfold Mat.mT, Mat.rowscale. rewrite !get_tab by lia. cbn [fmul OR]. ring. }
  assert (Ed : get OR (mmul OR 1 q 1 (mT OR q 1 a) a) 0 0 = sum OR q (fun l => get OR a l 0 * get OR a l 0)).
  { mat_unfold. rewrite get_tab by lia. apply (sum_ext OR). intros l Hl'. fold a.
    unfold Mat.mT. rewrite !get_tab by lia. reflexivity. }
  rewrite Er, Ed.
  assert (B : sum OR q (fun l => vget OR lam l * (get OR a l 0 * get OR a l 0))
              <= vget OR lam 0 * sum OR q (fun l => get OR a l 0 * get OR a l 0)).
  { change (vget OR lam 0 * sum OR q (fun l => get OR a l 0 * get OR a l 0))
      with (fmul OR (vget OR lam 0) (sum OR q (fun l => get OR a l 0 * get OR a l 0))).
    rewrite <- (sum_scale_l OR FLR). apply sum_le_R. intros l Hl'. cbn [fmul OR].
    specialize (Hmax l Hl'). assert (0 <= get OR a l 0 * get OR a l 0) by nra. nra. }
  assert (P0 : 0 <= sum OR q (fun l => get OR a l 0 * get OR a l 0)).
  { apply sum_nonneg_R. intros l Hl'. nra. }
  split; [exact B|]. split; [exact P0|]. intros Hpos.
  apply (Rmult_le_reg_r (sum OR q (fun l => get OR a l 0 * get OR a l 0))); [exact Hpos|].
  unfold Rdiv. rewrite Rmult_assoc, Rinv_l by lra. lra. Qed.

(* no linear combination of the retained PCs has a larger decorrelation time than the first mode *)
Lemma optimal_series n q (S Ci U : list (list R)) (lam : list R) tm :
  mT OR q q Ci = Ci -> whiten_ok OR q (ctau OR n q S 0) Ci ->
  eig_sym_ok OR q (opa_target OR n q S Ci tm) U lam -> order_ok OR false q lam ->
  forall x, wf OR q 1 x -> 0 < get OR (mmul OR 1 q 1 (mT OR q 1 x) x) 0 0 ->
  own_time OR n tm (mmul OR n q 1 S (mmul OR q q 1 Ci x)) 0 <= vget OR lam 0.
Proof. intros Hs Hw He Ho x Hx Hpos.
  rewrite (own_time_rayleigh OR FLR two_nz_R n q S Ci x tm Hs Hw Hx).
  assert (Hmax : forall i, (i < q)%nat -> vget OR lam i <= vget OR lam 0).
  { intros i Hi. specialize (Ho 0%nat i ltac:(lia) Hi). cbn [opa_key] in Ho. unfold fle in Ho.
    cbn [fleb OR] in Ho. apply Rleb_true in Ho. exact Ho. }
  destruct (rayleigh q _ U lam He Hmax x Hx) as [_ [_ H]]. cbn [fdiv OR]. apply H. exact Hpos. Qed.

(* every weight vector v of the retained PCs is Ci x for x = C0_sqrt v, so the bound covers all of them *)
Lemma every_combination q (A Ci v : list (list R)) : opa_inv_ok OR q A Ci -> wf OR q 1 v ->
  v = mmul OR q q 1 Ci (mmul OR q q 1 A v).
Proof. intros [_ [Hl _]] Hv. rewrite <- (mmul_assoc OR FLR q q q 1 Ci A v). rewrite Hl.
  symmetry. apply (mmul_I_l OR FLR q 1 v Hv). Qed.
