(* the stage chains regenerated from the source (Gen/T7chain.v, Gen/T7pipe.v) are the faithful variant of Model/FitChain.v:
   same stages in the same order in fit and in transform, every fit_transform is fit followed by transform of the same data *)
From Coq Require Import String List Bool.
From XV Require Import Gen.T7chain Gen.T7pipe Gen.T5cpcca.
Import ListNotations.
Open Scope string_scope.

Lemma fit_transform_kinds_known : fit_transform_kinds =
  [("Concatenator", FitThenTransform); ("GenericListTransformer", FitThenTransform); ("PCA", FitThenTransform);
   ("Preprocessor", SharedAlgorithm); ("Scaler", FitThenTransform); ("Stacker", FitThenTransform);
   ("Transformer", FitThenTransform); ("Whitener", FitThenTransform)].
Proof. reflexivity. Qed.

(* inside the Preprocessor: fit runs every stage through fit_transform in the order in which transform walks them *)
Lemma preprocessor_chain : map fst preprocessor_fit_calls = declared_order /\
  forallb (fun c => String.eqb (snd c) "fit_transform") preprocessor_fit_calls = true /\
  preprocessor_transform_loops_over_declared_order = true.
Proof. repeat split; reflexivity. Qed.

(* stages applied to one field, in source order: every call maps the field's variable to itself *)
Definition field_stages (f meth : string) (calls : list (string * string * string * string)) : list string :=
  map (fun c => snd (fst (fst c)))
      (filter (fun c => let '(t, _, m, a) := c in String.eqb t f && String.eqb a f && String.eqb m meth) calls).
Definition stage_count (calls : list (string * string * string * string)) : nat :=
  List.length (filter (fun c => let '(_, _, m, _) := c in negb (String.eqb m "call")) calls).

Lemma cross_chain :
  field_stages "X" "fit_transform" cross_fit_calls = ["preprocessor1"; "pca1"; "whitener1"] /\
  field_stages "X" "transform" cross_transform_calls = ["preprocessor1"; "pca1"; "whitener1"] /\
  field_stages "Y" "fit_transform" cross_fit_calls = ["preprocessor2"; "pca2"; "whitener2"] /\
  field_stages "Y" "transform" cross_transform_calls = ["preprocessor2"; "pca2"; "whitener2"] /\
  stage_count cross_fit_calls = 6 /\ stage_count cross_transform_calls = 6 /\
  cross_augment_is_identity = true /\ forallb (fun c => snd c) cross_augmenting_classes = true.
Proof. repeat split; reflexivity. Qed.

Lemma single_chain :
  single_fit_calls = [("data2D", "preprocessor", "fit_transform", "X"); ("-", "_fit_algorithm", "call", "data2D")] /\
  single_transform_calls = [("data2D", "preprocessor", "transform", "data"); ("data2D", "_transform_algorithm", "call", "data2D")].
Proof. split; reflexivity. Qed.

Lemma cpcca_field_tables :
  cpcca_transform_table = [("X", "components1", "norm1"); ("Y", "components2", "norm2")] /\
  cpcca_inverse_table = [("X", "components1"); ("Y", "components2")] /\
  cpcca_accessor_table = [("components1", "components1", "norm1", "mul-if-not-normalized"); ("components2", "components2", "norm2", "mul-if-not-normalized");
                          ("scores1", "scores1", "norm1", "div-if-normalized"); ("scores2", "scores2", "norm2", "div-if-normalized")].
Proof. repeat split; reflexivity. Qed.
