(* the stage chains regenerated from the source (Gen/T7chain.v, Gen/T7pipe.v) are the faithful variant of Model/FitChain.v:
   same stages in the same order in fit and in transform, every fit_transform is fit followed by transform of the same data *)
From Coq Require Import String List Bool.
From XV Require Import Gen.T7chain Gen.T7pipe Gen.T5cpcca.
Import ListNotations.
Open Scope string_scope.

Lemma fit_transform_kinds_known : fit_transform_kinds =
  [("Concatenator", FitThenTransform); ("GenericListTransformer", FitThenTransform); ("PCA", FitThenTransform);
   ("Preprocessor", SharedAlgorithm); ("Scaler", FitThenTransform); ("Stacker", FitThenTransform);
   ("Transformer", FitThenTransform); ("Whitener", FitThenTransform)].
Proof. reflexivity. Qed.

(* inside the Preprocessor: fit runs every stage through fit_transform in the order in which transform walks them *)
Lemma preprocessor_chain : map fst preprocessor_fit_calls = declared_order /\
  forallb (fun c => String.eqb (snd c) "fit_transform") preprocessor_fit_calls = true /\
  preprocessor_transform_loops_over_declared_order = true.
Proof. repeat split; reflexivity. Qed.

(* stages applied to one field, in source order: every call maps the field's variable to itself *)
Definition field_stages (f meth : string) (calls : list (string * string * string * string)) : list string :=
  map (fun c => snd (fst (fst c)))
      (filter (fun c => let '(t, _, m, a) := c in String.eqb t f && String.eqb a f && String.eqb m meth) calls).
Definition stage_count (calls : list (string * string * string * string)) : nat :=
  List.length (filter (fun c => let '(_, _, m, _) := c in negb (String.eqb m "call")) calls).

Lemma cross_chain :
  field_stages "X" "fit_transform" cross_fit_calls = ["preprocessor1"; "pca1"; "whitener1"] /\
  field_stages "X" "transform" cross_transform_calls = ["preprocessor1"; "pca1"; "whitener1"] /\
  field_stages "Y" "fit_transform" cross_fit_calls = ["preprocessor2"; "pca2"; "whitener2"] /\
  field_stages "Y" "transform" cross_transform_calls = ["preprocessor2"; "pca2"; "whitener2"] /\
  stage_count cross_fit_calls = 6 /\ stage_count cross_transform_calls = 6 /\
  cross_augment_is_identity = true /\ forallb (fun c => snd c) cross_augmenting_classes = true.
Proof. repeat split; reflexivity. Qed.

(* the whole order of BaseModelCrossSet.fit: both fields are pre-processed, pre-reduced, THEN augmented (the Hilbert variants build the
   analytic signal here), THEN whitened, and the algorithm sees the whitened augmented data. The whitening matrix is therefore estimated
   from the covariance of the augmented signal - the matrix whose fractional power the property speaks of. *)
Lemma cross_fit_stage_order :
  map (fun c => snd (fst (fst c))) cross_fit_calls =
  ["preprocessor1"; "preprocessor2"; "pca1"; "pca2"; "_augment_data"; "whitener1"; "whitener2"; "_fit_algorithm"].
Proof. reflexivity. Qed.

(* between the stages of fit and of transform the two fields are only handed on: no other statement binds X or Y (no alignment of one field on
   the other, no re-indexing, no selection) - each field's scores are a function of that field alone *)
Lemma cross_fields_only_pass_through_stages : cross_other_field_writes = [].
Proof. reflexivity. Qed.

Lemma single_chain :
  single_fit_calls = [("data2D", "preprocessor", "fit_transform", "X"); ("-", "_fit_algorithm", "call", "data2D")] /\
  single_transform_calls = [("data2D", "preprocessor", "transform", "data"); ("data2D", "_transform_algorithm", "call", "data2D")].
Proof. split; reflexivity. Qed.

Lemma cpcca_field_tables :
  cpcca_transform_table = [("X", "components1", "norm1"); ("Y", "components2", "norm2")] /\
  cpcca_inverse_table = [("X", "components1"); ("Y", "components2")] /\
  cpcca_accessor_table = [("components1", "components1", "norm1", "mul-if-not-normalized"); ("components2", "components2", "norm2", "mul-if-not-normalized");
                          ("scores1", "scores1", "norm1", "div-if-normalized"); ("scores2", "scores2", "norm2", "div-if-normalized")].
Proof. repeat split; reflexivity. Qed.

(* ---- the way back (Gen/T7chain.v: cross_back_calls, single_back_calls) ----
   every inverse stage call of the cross-set base class: the stage belongs to the field of the value it is applied to, its
   method is the one the public method stands for (new data -> the unseen path, fitted scores -> the fit path, ...), and per
   public method and field the stages are undone in the reverse of the forward order: whitener, PCA, preprocessor *)
Definition last_char (s : string) : string :=
  let fix go (s : string) (acc : string) : string := match s with EmptyString => acc | String c r => go r (String c EmptyString) end in go s "".
Definition field_of_var (v : string) : string :=
  if existsb (String.eqb v) ["X"; "Xrec"; "Px"; "Rx"] then "1" else if existsb (String.eqb v) ["Y"; "Yrec"; "Py"; "Ry"] then "2" else "?".
Definition back_method (m : string) : string :=
  if String.eqb m "transform" || String.eqb m "predict" then "inverse_transform_scores_unseen"
  else if String.eqb m "inverse_transform" then "inverse_transform_data"
  else if String.eqb m "components" then "inverse_transform_components"
  else if String.eqb m "scores" then "inverse_transform_scores" else "?".
Definition back_row_ok (r : string * string * string * string * string) : bool :=
  let '(m, t, st, sm, _) := r in
  String.eqb (last_char st) (field_of_var t) && String.eqb sm (back_method m).
Definition stage_kind (st : string) : string :=
  if prefix "whitener" st then "whitener" else if prefix "pca" st then "pca" else if prefix "preprocessor" st then "preprocessor" else "?".
Definition back_order (m f : string) : list string :=
  map (fun r => stage_kind (snd (fst (fst r)))) (filter (fun r => let '(m', t, _, _, _) := r in String.eqb m' m && String.eqb (field_of_var t) f) cross_back_calls).
Fixpoint strlist_eqb (a b : list string) : bool :=
  match a, b with [], [] => true | x :: a', y :: b' => String.eqb x y && strlist_eqb a' b' | _, _ => false end.
Definition back_orders_ok : bool :=
  forallb (fun mf => match back_order (fst mf) (snd mf) with
                     | [] => String.eqb (fst mf) "predict" && String.eqb (snd mf) "1"      (* predict returns the second field only *)
                     | l => strlist_eqb l ["whitener"; "pca"; "preprocessor"] end)
          (list_prod ["transform"; "inverse_transform"; "predict"; "components"; "scores"] ["1"; "2"]).

Lemma cross_back_chain : forallb back_row_ok cross_back_calls = true /\ back_orders_ok = true /\ List.length cross_back_calls = 27.
Proof. repeat split; vm_compute; reflexivity. Qed.

Lemma single_back_chain : single_back_calls =
  [("transform", "inverse_transform_scores_unseen"); ("inverse_transform", "inverse_transform_data");
   ("components", "inverse_transform_components"); ("scores", "inverse_transform_scores")] /\
  single_model_fit_transform_passes_data_dim_weights_to_fit = true.
Proof. split; reflexivity. Qed.

(* ---- every method of every model class that carries a result back to the user's structure takes the inverse path its name stands
   for: results for NEW data (transform, predict) the path of new data, fitted scores the fit path, patterns the component path,
   reconstructions the data path (Gen/T7chain.v: accessor_back_table) ---- *)
Fixpoint has_sub (sub s : string) : bool :=
  match s with EmptyString => prefix sub s | String _ r => prefix sub s || has_sub sub r end.
Definition expected_back (cls m : string) : string :=
  if String.eqb m "transform" || String.eqb m "predict" then "inverse_transform_scores_unseen"
  else if String.eqb m "inverse_transform" then "inverse_transform_data"
  else if String.eqb cls "GWPCA" then "inverse_transform_scores"        (* local statistics along the sample axis; outside the properties *)
  else if has_sub "components" m || has_sub "patterns" m then "inverse_transform_components"
  else if has_sub "scores" m then "inverse_transform_scores"
  else "?".
Definition accessor_row_ok (r : string * string * string * string) : bool :=
  let '(cls, m, _, back) := r in String.eqb back (expected_back cls m).
Lemma accessor_back_paths : forallb accessor_row_ok accessor_back_table = true /\ List.length accessor_back_table = 39.
Proof. split; vm_compute; reflexivity. Qed.

(* the seeded variant: a fitted-scores accessor sent through the path of new data *)
Example accessor_unseen_refuted : accessor_row_ok ("ComplexEOF", "scores_phase", "preprocessor", "inverse_transform_scores_unseen") = false.
Proof. vm_compute. reflexivity. Qed.
