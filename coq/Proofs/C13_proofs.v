(* C13 — a model survives serialisation: the attribute codecs.
   Everything about Python's [ast.literal_eval] enters through three named premises on the oracle:
     [oracle_spec]      literal_eval (str v) = v  for values of the sanitised types in the simple fragment
     [oracle_not_self]  literal_eval s is never the string s itself
     [oracle_errors]    literal_eval rejects a string with ValueError or SyntaxError only
   Neither is an axiom; the harness validates both against Python on every run. *)
From Coq Require Import String Ascii ZArith List Bool Lia.
From XV Require Import Base.Scalar Model.PyVal Gen.T2 Model.Serial.
Import ListNotations.
Open Scope string_scope.

(* ------------------------------------------------------------------ Python indexing facts *)
Lemma get_lt : forall s n, (n < String.length s)%nat -> exists a, String.get n s = Some a.
Proof.
  induction s as [|c s IH]; intros n H; cbn [String.length] in H.
  - lia.
  - destruct n as [|n]; cbn [String.get]; [eauto | apply IH; lia].
Qed.

Lemma py_index_last_nonempty : forall c r, exists a, py_index (String c r) (-1) = Some a.
Proof.
  intros c r. unfold py_index. cbn [Z.leb Z.compare]. cbn [String.length].
  replace (Z.of_nat (S (String.length r)) + -1)%Z with (Z.of_nat (String.length r)) by lia.
  destruct (0 <=? Z.of_nat (String.length r))%Z eqn:E; [|apply Z.leb_gt in E; lia].
  rewrite Nat2Z.id. apply get_lt. cbn [String.length]. lia.
Qed.

Lemma rb_and_ok : forall a b, rb_and (Ok a) (Ok b) = Ok (a && b).
Proof. intros [|] b; reflexivity. Qed.
Lemma rb_or_ok : forall a b, rb_or (Ok a) (Ok b) = Ok (a || b).
Proof. intros [|] b; reflexivity. Qed.

(* ------------------------------------------------------------------ the translated string test *)
(* what `_should_desanitize` recognises, stated on the string itself *)
Definition looks_like_literal (s : string) : Prop :=
  (py_index s 0 = Some "{"%char /\ py_index s (-1) = Some "}"%char) \/
  (py_index s 0 = Some "["%char /\ py_index s (-1) = Some "]"%char) \/
  s = "True" \/ s = "False" \/ s = "None".

Lemma looks_like_literal_nonempty : forall s, looks_like_literal s -> s <> "".
Proof.
  intros s H ->. unfold looks_like_literal in H. rewrite !py_index_empty in H.
  destruct H as [[H _] | [[H _] | [H | [H | H]]]]; discriminate.
Qed.

(* the repaired guard `isinstance(attr, str) and attr`: the empty string is left alone *)
Lemma should_empty : should_desanitize_str "" = Ok false.
Proof. reflexivity. Qed.

Lemma should_nonempty : forall c r,
  exists b, should_desanitize_str (String c r) = Ok b /\ (b = true <-> looks_like_literal (String c r)).
Proof.
  intros c r. destruct (py_index_last_nonempty c r) as [l Hl].
  unfold should_desanitize_str, looks_like_literal, py_idx_eq.
  change (py_str_truthy (String c r)) with true. cbv iota.
  rewrite py_index_first, Hl. rewrite ?rb_and_ok, ?rb_or_ok.
  eexists; split; [reflexivity|].
  cbn [existsb]. rewrite orb_false_r.
  rewrite !orb_true_iff, !andb_true_iff, !Ascii.eqb_eq, !String.eqb_eq.
  intuition congruence.
Qed.

(* the test never raises *)
Lemma should_total : forall s, exists b, should_desanitize_str s = Ok b.
Proof.
  intros [|c r]; [exists false; apply should_empty|].
  destruct (should_nonempty c r) as [b [Hb _]]. now exists b.
Qed.

Lemma should_true_iff : forall s, should_desanitize_str s = Ok true <-> looks_like_literal s.
Proof.
  intros [|c r].
  - rewrite should_empty. split; [discriminate | intros H; now elim (looks_like_literal_nonempty _ H)].
  - destruct (should_nonempty c r) as [b [Hb Hiff]]. rewrite Hb. split.
    + intros [= ->]. now apply Hiff.
    + intros H. apply Hiff in H. now subst.
Qed.

Lemma should_false_iff : forall s, should_desanitize_str s = Ok false <-> ~ looks_like_literal s.
Proof.
  intros [|c r].
  - rewrite should_empty. split; [intros _ H; now elim (looks_like_literal_nonempty _ H) | reflexivity].
  - destruct (should_nonempty c r) as [b [Hb Hiff]]. rewrite Hb. split.
    + intros [= ->] H. apply Hiff in H. discriminate.
    + intros H. destruct b; [elim H; now apply Hiff | reflexivity].
Qed.

Lemma should_bracket_list : forall x, should_desanitize_str ("[" ++ x ++ "]") = Ok true.
Proof.
  intros x. apply should_true_iff. right; left. split; [reflexivity | apply bracket_last].
Qed.

Lemma should_bracket_dict : forall x, should_desanitize_str ("{" ++ x ++ "}") = Ok true.
Proof.
  intros x. apply should_true_iff. left. split; [reflexivity | apply bracket_last].
Qed.

(* ------------------------------------------------------------------ the type test *)
Lemma sanitized_cases : forall v, is_sanitized_type v = true ->
  v = PNone \/ (exists b, v = PBool b) \/ (exists l, v = PList l) \/ (exists d, v = PDict d).
Proof.
  intros v H. destruct v; try (vm_compute in H; discriminate); eauto 6.
Qed.

Lemma sanitized_iff : forall v, is_sanitized_type v = true <->
  pyv_tag v = TNone \/ pyv_tag v = TBool \/ pyv_tag v = TList \/ pyv_tag v = TDict.
Proof.
  intros v. destruct v; vm_compute; intuition congruence.
Qed.

Lemma should_of_sanitized : forall v, is_sanitized_type v = true -> should_desanitize_str (py_str v) = Ok true.
Proof.
  intros v H. destruct (sanitized_cases v H) as [-> | [[b ->] | [[l ->] | [d ->]]]].
  - reflexivity.
  - destruct b; reflexivity.
  - cbn [py_str]. rewrite py_repr_list. apply should_bracket_list.
  - cbn [py_str]. rewrite py_repr_dict. apply should_bracket_dict.
Qed.

(* ------------------------------------------------------------------ one attribute *)
Definition oracle_spec (le : string -> result pyv) : Prop :=
  forall v, is_sanitized_type v = true -> simple v = true -> le (py_str v) = Ok v.
Definition oracle_not_self (le : string -> result pyv) : Prop :=
  forall s, le s <> Ok (PStr s).
(* literal_eval rejects a string with ValueError or SyntaxError, nothing else *)
Definition oracle_errors (le : string -> result pyv) : Prop :=
  forall s k, le s = Err k -> In k [EValueError; ESyntaxError].

Section Attr.
  Variable le : string -> result pyv.

  Lemma literal_action_ok : forall s v, le s = Ok v -> literal_action le s = Ok v.
  Proof. intros s v H. unfold literal_action. now rewrite H. Qed.

  (* the wrapper `except (ValueError, SyntaxError): return attr` *)
  Lemma literal_action_caught : forall s k, le s = Err k -> In k [EValueError; ESyntaxError] ->
    literal_action le s = Ok (PStr s).
  Proof.
    intros s k H Hk. unfold literal_action. rewrite H.
    destruct Hk as [<- | [<- | []]]; reflexivity.
  Qed.

  Lemma desanitize_str : forall s,
    desanitize_attr le (PStr s) =
    match should_desanitize_str s with Err e => Err e | Ok true => literal_action le s | Ok false => Ok (PStr s) end.
  Proof.
    intros s. unfold desanitize_attr, should_desanitize. cbn [pyv_isinstance pyv_tag existsb tag_sub orb].
    destruct (should_desanitize_str s) as [[|]|e]; reflexivity.
  Qed.

  Lemma codec_sanitized : forall v, is_sanitized_type v = true -> codec_attr le v = literal_action le (py_str v).
  Proof.
    intros v H. unfold codec_attr, sanitize_attr. rewrite H, desanitize_str.
    now rewrite (should_of_sanitized v H).
  Qed.

  Theorem codec_structured : oracle_spec le ->
    forall v, is_sanitized_type v = true -> simple v = true -> codec_attr le v = Ok v.
  Proof. intros Hle v Hs Hv. rewrite codec_sanitized by exact Hs. apply literal_action_ok. now apply Hle. Qed.

  Theorem codec_numbers : forall v, pyv_tag v = TInt \/ pyv_tag v = TFloat -> codec_attr le v = Ok v.
  Proof. intros v [H|H]; destruct v; try discriminate H; reflexivity. Qed.

  (* a string attribute: decided by the translated test, then by literal_eval under the wrapper *)
  Theorem codec_string_cases : forall s,
    codec_attr le (PStr s) =
    match should_desanitize_str s with Err e => Err e | Ok true => literal_action le s | Ok false => Ok (PStr s) end.
  Proof. intros s. unfold codec_attr. change (sanitize_attr (PStr s)) with (PStr s). apply desanitize_str. Qed.

  Theorem codec_string_empty : codec_attr le (PStr "") = Ok (PStr "").
  Proof. reflexivity. Qed.

  Theorem codec_string_plain : forall s, ~ looks_like_literal s -> codec_attr le (PStr s) = Ok (PStr s).
  Proof.
    intros s Hl. rewrite codec_string_cases. now rewrite (proj2 (should_false_iff s) Hl).
  Qed.

  Theorem codec_string_literal_like : forall s, looks_like_literal s -> codec_attr le (PStr s) = literal_action le s.
  Proof.
    intros s Hl. rewrite codec_string_cases. now rewrite (proj2 (should_true_iff s) Hl).
  Qed.

  (* no string attribute makes the decoder raise *)
  Theorem codec_string_never_raises : oracle_errors le -> forall s, exists v, codec_attr le (PStr s) = Ok v.
  Proof.
    intros He s. rewrite codec_string_cases.
    destruct (should_total s) as [[|] ->]; [|now exists (PStr s)].
    destruct (le s) as [v|k] eqn:E.
    - exists v. now apply literal_action_ok.
    - exists (PStr s). apply (literal_action_caught s k E). now apply (He s).
  Qed.

  (* the round trip returns the string itself exactly when the translated test is false on it or
     literal_eval rejects it; it never raises; when the test is true and literal_eval accepts the
     string, the value literal_eval made of it comes back, which is never the string *)
  Theorem codec_characterisation : oracle_not_self le -> oracle_errors le -> forall s,
    (codec_attr le (PStr s) = Ok (PStr s) <-> should_desanitize_str s = Ok false \/ exists k, le s = Err k) /\
    (forall e, codec_attr le (PStr s) <> Err e) /\
    (should_desanitize_str s = Ok true -> forall v, le s = Ok v -> codec_attr le (PStr s) = Ok v /\ v <> PStr s).
  Proof.
    intros Hns He s. split; [|split].
    - rewrite codec_string_cases. destruct (should_total s) as [[|] Hb]; rewrite Hb.
      + destruct (le s) as [v|k] eqn:E.
        * rewrite (literal_action_ok s v E). split.
          -- intros [= ->]. now elim (Hns s).
          -- intros [H | [k Hk]]; discriminate.
        * rewrite (literal_action_caught s k E (He s k E)). split; [intros _; right; now exists k | reflexivity].
      + split; [intros _; now left | reflexivity].
    - intros e H. destruct (codec_string_never_raises He s) as [v Hv]. rewrite Hv in H. discriminate.
    - intros Hb v Hv. rewrite codec_string_cases, Hb, (literal_action_ok s v Hv).
      split; [reflexivity|]. intros ->. now elim (Hns s).
  Qed.

  Corollary codec_characterisation_literal : oracle_not_self le -> oracle_errors le -> forall s,
    codec_attr le (PStr s) = Ok (PStr s) <-> ~ looks_like_literal s \/ exists k, le s = Err k.
  Proof.
    intros Hns He s. rewrite (proj1 (codec_characterisation Hns He s)), should_false_iff. tauto.
  Qed.

  (* ---------------------------------------------------------------- one dictionary *)
  Definition string_attr_ok (v : pyv) : Prop :=
    match v with PStr s => should_desanitize_str s = Ok false \/ exists k, le s = Err k | _ => True end.

  Lemma desanitize_attrs_cons : forall k v r k' v' r',
    desanitize_attrs le ((k, v) :: r) = Ok ((k', v') :: r') <->
    k = k' /\ desanitize_attr le v = Ok v' /\ desanitize_attrs le r = Ok r'.
  Proof.
    intros. cbn [desanitize_attrs fst snd].
    destruct (desanitize_attr le v) as [w|e]; [|split; [discriminate | intros [_ [[=] _]]]].
    destruct (desanitize_attrs le r) as [w'|e]; [|split; [discriminate | intros [_ [_ [=]]]]].
    split; [intros [= -> -> ->]; auto | intros [-> [[= ->] [= ->]]]; reflexivity].
  Qed.

  Lemma codec_attr_nonstring : oracle_spec le -> forall v,
    (is_sanitized_type v = true -> simple v = true) ->
    (forall s, v <> PStr s) -> codec_attr le v = Ok v.
  Proof.
    intros Hle v Hsimple Hns. destruct (is_sanitized_type v) eqn:E.
    - apply codec_structured; auto.
    - destruct v; try (vm_compute in E; discriminate E); try reflexivity. now elim (Hns s).
  Qed.

  Theorem codec_attrs_characterisation : oracle_spec le -> oracle_not_self le -> oracle_errors le -> forall d,
    (forall k v, In (k, v) d -> is_sanitized_type v = true -> simple v = true) ->
    (codec_attrs le d = Ok d <-> forall k v, In (k, v) d -> string_attr_ok v).
  Proof.
    intros Hle Hns He d. unfold codec_attrs. induction d as [|[k v] r IH]; intros Hsimple.
    - cbn. split; [intros _ k v [] | reflexivity].
    - cbn [sanitize_attrs map fst snd]. fold (sanitize_attrs r). rewrite desanitize_attrs_cons.
      fold (codec_attr le v).
      assert (Hr : forall k v, In (k, v) r -> is_sanitized_type v = true -> simple v = true)
        by (intros k0 v0 Hin; apply (Hsimple k0 v0); now right).
      specialize (IH Hr). split.
      + intros [_ [Hv Hrest]] k0 v0 [[= <- <-] | Hin].
        * destruct v; cbn [string_attr_ok]; auto.
          now apply (proj1 (codec_characterisation Hns He s)).
        * now apply (proj1 IH Hrest k0 v0).
      + intros Hall. split; [reflexivity|]. split.
        * assert (Hv := Hall k v (or_introl eq_refl)).
          destruct v as [| | | |s| |]; try (apply codec_attr_nonstring; [exact Hle | apply (Hsimple k); now left | discriminate]).
          now apply (proj1 (codec_characterisation Hns He s)).
        * apply IH. intros k0 v0 Hin. apply (Hall k0 v0). now right.
  Qed.
End Attr.

(* ------------------------------------------------------------------ witnesses *)
(* a small concrete partial evaluator: exactly what Python's literal_eval answers on these inputs *)
Definition toy_literal_eval (s : string) : result pyv :=
  if String.eqb s "True" then Ok (PBool true)
  else if String.eqb s "False" then Ok (PBool false)
  else if String.eqb s "None" then Ok PNone
  else if String.eqb s "[1, 2]" then Ok (PList [PInt 1; PInt 2])
  else if String.eqb s "{'a': None}" then Ok (PDict [("a", PNone)])
  else if String.eqb s "[m s-1]" then Err ESyntaxError
  else Err EValueError.   (* "[m/s]", "{a}": ValueError: malformed node or string *)

(* after the repair: "", "[m/s]", "{a}", "[m s-1]" come back as they were; the literal-looking strings
   "True", "None", "[1, 2]" still change type *)
Theorem codec_witnesses :
  codec_attrs toy_literal_eval [("units", PStr "")] = Ok [("units", PStr "")] /\
  codec_attrs toy_literal_eval [("units", PStr "[m/s]")] = Ok [("units", PStr "[m/s]")] /\
  codec_attrs toy_literal_eval [("units", PStr "{a}")] = Ok [("units", PStr "{a}")] /\
  codec_attrs toy_literal_eval [("units", PStr "[m s-1]")] = Ok [("units", PStr "[m s-1]")] /\
  codec_attrs toy_literal_eval [("flag", PStr "True")] = Ok [("flag", PBool true)] /\
  codec_attrs toy_literal_eval [("missing", PStr "None")] = Ok [("missing", PNone)] /\
  codec_attrs toy_literal_eval [("levels", PStr "[1, 2]")] = Ok [("levels", PList [PInt 1; PInt 2])] /\
  codec_attrs toy_literal_eval [("levels", PList [PInt 1; PInt 2]); ("p", PDict [("a", PNone)]); ("name", PStr "abc")]
    = Ok [("levels", PList [PInt 1; PInt 2]); ("p", PDict [("a", PNone)]); ("name", PStr "abc")].
Proof. vm_compute. repeat split. Qed.

(* positive, for every oracle: the empty string round-trips, and so does every string literal_eval rejects *)
Theorem codec_repaired_strings : forall le,
  codec_attrs le [("units", PStr "")] = Ok [("units", PStr "")] /\
  (forall s k, le s = Err k -> In k [EValueError; ESyntaxError] ->
     codec_attrs le [("units", PStr s)] = Ok [("units", PStr s)]).
Proof.
  intros le. split; [reflexivity|]. intros s k Hk Hin.
  unfold codec_attrs. cbn [sanitize_attrs map fst snd desanitize_attrs]. fold (codec_attr le (PStr s)).
  rewrite codec_string_cases. destruct (should_total s) as [[|] ->]; [|reflexivity].
  now rewrite (literal_action_caught le s k Hk Hin).
Qed.

(* still refuted: with Python's literal_eval the strings "True", "None", "[1, 2]" come back as a bool, None, a list,
   so the round trip is not the identity on all attribute dictionaries *)
Theorem codec_refuted : forall le, oracle_spec le ->
  codec_attrs le [("flag", PStr "True")] = Ok [("flag", PBool true)] /\
  codec_attrs le [("missing", PStr "None")] = Ok [("missing", PNone)] /\
  codec_attrs le [("levels", PStr "[1, 2]")] = Ok [("levels", PList [PInt 1; PInt 2])] /\
  ~ (forall d, codec_attrs le d = Ok d).
Proof.
  intros le Hle.
  assert (H : forall v, is_sanitized_type v = true -> simple v = true -> should_desanitize_str (py_str v) = Ok true ->
              codec_attrs le [("k", PStr (py_str v))] = Ok [("k", v)] /\
              forall k, codec_attrs le [(k, PStr (py_str v))] = Ok [(k, v)]).
  { intros v Hs Hv Hb. assert (forall k, codec_attrs le [(k, PStr (py_str v))] = Ok [(k, v)]).
    { intros k. unfold codec_attrs. cbn [sanitize_attrs map fst snd desanitize_attrs].
      fold (codec_attr le (PStr (py_str v))). rewrite codec_string_cases, Hb.
      now rewrite (literal_action_ok le _ v (Hle v Hs Hv)). }
    split; auto. }
  pose proof (proj2 (H (PBool true) eq_refl eq_refl eq_refl) "flag") as H1.
  pose proof (proj2 (H PNone eq_refl eq_refl eq_refl) "missing") as H2.
  pose proof (proj2 (H (PList [PInt 1; PInt 2]) eq_refl eq_refl eq_refl) "levels") as H3.
  split; [exact H1 | split; [exact H2 | split; [exact H3|]]].
  intros Hall. specialize (Hall [("flag", PStr "True")]). change "True" with (py_str (PBool true)) in Hall.
  rewrite H1 in Hall. discriminate.
Qed.

(* ------------------------------------------------------------------ trees *)
Section DtreeInd.
  Variable P : dtree -> Prop.
  Hypothesis HNode : forall a vars ch, Forall (fun c => P (snd c)) ch -> P (DNode a vars ch).
  Fixpoint dtree_ind' (t : dtree) : P t :=
    match t with
    | DNode a vars ch =>
        HNode a vars ch
          ((fix go (ch : list (string * dtree)) : Forall (fun c => P (snd c)) ch :=
              match ch with
              | [] => Forall_nil _
              | c :: r => Forall_cons (P := fun c => P (snd c)) c (dtree_ind' (snd c)) (go r)
              end) ch)
    end.
End DtreeInd.

Section Tree.
  Variable le : string -> result pyv.

  Lemma desanitize_vars_id : forall vars,
    desanitize_vars le (map (fun nv => (fst nv, sanitize_attrs (snd nv))) vars) = Ok vars <->
    Forall (fun a => codec_attrs le a = Ok a) (map snd vars).
  Proof.
    induction vars as [|[n a] r IH]; cbn [map desanitize_vars fst snd].
    - split; [constructor | reflexivity].
    - fold (codec_attrs le a).
      destruct (codec_attrs le a) as [a'|e] eqn:Ea.
      + destruct (desanitize_vars le (map (fun nv => (fst nv, sanitize_attrs (snd nv))) r)) as [r'|e] eqn:Er.
        * split.
          -- intros [= -> ->]. constructor; [exact Ea | now apply IH].
          -- intros H. inversion H as [|? ? Ha Hr]; subst. rewrite Ea in Ha. injection Ha as ->.
             apply IH in Hr. injection Hr as ->. reflexivity.
        * split; [discriminate|]. intros H. inversion H as [|? ? _ Hr]; subst. apply IH in Hr. discriminate.
      + split; [discriminate|]. intros H. inversion H as [|? ? Ha _]; subst. rewrite Ea in Ha. discriminate.
  Qed.

  Theorem codec_tree_characterisation : forall t,
    codec_tree le t = Ok t <-> Forall (fun a => codec_attrs le a = Ok a) (tree_dicts t).
  Proof.
    unfold codec_tree. induction t as [a vars ch IH] using dtree_ind'.
    cbn [sanitize_tree desanitize_tree tree_dicts]. fold (codec_attrs le a).
    set (sgo := fix go (ch : list (string * dtree)) : list (string * dtree) :=
                  match ch with [] => [] | c :: r => (fst c, sanitize_tree (snd c)) :: go r end).
    set (dgo := fix go (ch : list (string * dtree)) : result (list (string * dtree)) :=
                  match ch with
                  | [] => Ok []
                  | c :: r => match desanitize_tree le (snd c) with
                              | Err e => Err e
                              | Ok c' => match go r with Err e => Err e | Ok r' => Ok ((fst c, c') :: r') end
                              end
                  end).
    set (tgo := fix go (ch : list (string * dtree)) : list attrs :=
                  match ch with [] => [] | c :: r => (tree_dicts (snd c) ++ go r)%list end).
    assert (Hch : dgo (sgo ch) = Ok ch <-> Forall (fun a => codec_attrs le a = Ok a) (tgo ch)).
    { induction ch as [|[n c] r IHr]; cbn [sgo dgo tgo fst snd].
      - split; [constructor | reflexivity].
      - inversion IH as [|? ? Hc Hr]; subst. cbn [snd] in Hc. specialize (IHr Hr).
        rewrite Forall_app.
        destruct (desanitize_tree le (sanitize_tree c)) as [c'|e] eqn:Ec.
        + destruct (dgo (sgo r)) as [r'|e] eqn:Er.
          * split.
            -- intros [= -> ->]. split; [now apply Hc | now apply IHr].
            -- intros [H1 H2]. apply Hc in H1. injection H1 as ->. apply IHr in H2. injection H2 as ->. reflexivity.
          * split; [discriminate|]. intros [_ H2]. apply IHr in H2. discriminate.
        + split; [discriminate|]. intros [H1 _]. apply Hc in H1. discriminate. }
    rewrite Forall_cons_iff, Forall_app.
    destruct (codec_attrs le a) as [a'|e] eqn:Ea.
    - destruct (desanitize_vars le (map (fun nv => (fst nv, sanitize_attrs (snd nv))) vars)) as [v'|e] eqn:Ev.
      + destruct (dgo (sgo ch)) as [c'|e] eqn:Ec.
        * split.
          -- intros [= -> -> ->]. split; [reflexivity|]. split; [now apply desanitize_vars_id | now apply Hch].
          -- intros [[= ->] [Hv Hc]]. apply desanitize_vars_id in Hv. rewrite Ev in Hv. injection Hv as ->.
             apply Hch in Hc. injection Hc as ->. reflexivity.
        * split; [discriminate|]. intros [_ [_ Hc]]. apply Hch in Hc. discriminate.
      + split; [discriminate|]. intros [_ [Hv _]]. apply desanitize_vars_id in Hv. rewrite Ev in Hv. discriminate.
    - split; [discriminate|]. intros [[=] _].
  Qed.
End Tree.

(* a tree round-trips through the netCDF codec exactly when every string attribute in it — at node
   level or at variable level — is either not literal-looking or rejected by literal_eval *)
Theorem codec_tree_strings : forall le, oracle_spec le -> oracle_not_self le -> oracle_errors le -> forall t,
  (forall d k v, In d (tree_dicts t) -> In (k, v) d -> is_sanitized_type v = true -> simple v = true) ->
  (codec_tree le t = Ok t <->
   forall d k v, In d (tree_dicts t) -> In (k, v) d -> string_attr_ok le v).
Proof.
  intros le Hle Hns He t Hsimple. rewrite codec_tree_characterisation, Forall_forall. split.
  - intros H d k v Hd Hin. specialize (H d Hd).
    apply (proj1 (codec_attrs_characterisation le Hle Hns He d (fun k v => Hsimple d k v Hd)) H k v Hin).
  - intros H d Hd.
    apply (proj2 (codec_attrs_characterisation le Hle Hns He d (fun k v => Hsimple d k v Hd))).
    intros k v Hin. exact (H d k v Hd Hin).
Qed.

(* ------------------------------------------------------------------ JSON *)
Theorem json_fixed_point : forall v, json_rt v = v.
Proof.
  unfold json_rt. induction v as [ | b | z | t | s | l IH | d IH] using pyv_ind'; try reflexivity.
  - cbn [json_dumps json_loads]. f_equal.
    induction l as [|x r IHr]; [reflexivity|].
    inversion IH as [|? ? Hx Hr]; subst. rewrite Hx. f_equal. now apply IHr.
  - cbn [json_dumps json_loads]. f_equal.
    induction d as [|[k x] r IHr]; [reflexivity|].
    inversion IH as [|? ? Hx Hr]; subst. cbn [fst snd] in *. rewrite Hx. f_equal. now apply IHr.
Qed.

Theorem json_attrs_fixed_point : forall d, json_rt_attrs d = d.
Proof.
  induction d as [|[k v] r IH]; [reflexivity|].
  unfold json_rt_attrs in *. cbn [map fst snd]. now rewrite json_fixed_point, IH.
Qed.

(* ------------------------------------------------------------------ premises are met *)
(* the toy evaluator satisfies the oracle premises: right on every value it knows, only ValueError/SyntaxError *)
Example toy_oracle_errors : oracle_errors toy_literal_eval.
Proof.
  intros s k. unfold toy_literal_eval.
  repeat match goal with |- context [if ?b then _ else _] => destruct b end; intros [= <-]; cbn; auto.
Qed.

Example toy_oracle_on_samples :
  Forall (fun v => is_sanitized_type v = true /\ simple v = true /\ toy_literal_eval (py_str v) = Ok v)
         [PNone; PBool true; PBool false; PList [PInt 1; PInt 2]; PDict [("a", PNone)]].
Proof. repeat constructor. Qed.

Example py_str_samples :
  py_str (PList [PInt 1; PFloatTok "2.5"; PStr "m s-1"; PNone; PBool false; PList []]) = "[1, 2.5, 'm s-1', None, False, []]" /\
  py_str (PDict [("a", PInt (-3)); ("b", PDict [("c", PList [PStr "x"])])]) = "{'a': -3, 'b': {'c': ['x']}}" /\
  py_str (PDict []) = "{}" /\ py_str (PStr "[m/s]") = "[m/s]".
Proof. vm_compute. repeat split. Qed.
