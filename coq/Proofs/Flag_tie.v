(* the `sorted` flag protocol regenerated from the source (Gen/T5flag.v) is the faithful variant of Model/FlagState.v *)
From Coq Require Import String List Bool.
From XV Require Import Gen.T5flag.
Import ListNotations.
Open Scope string_scope.

Lemma flag_protocol_faithful :
  flag_protocol = [("EOFRotator", (true, true)); ("CPCCARotator", (true, true)); ("POP", (true, true))].
Proof. reflexivity. Qed.

(* the flag is written by the constructor, by _fit_algorithm (false) and by _sort_by_variance (true), always as a
   top-level statement, and nowhere else *)
Lemma flag_writes_known : flag_writes =
  [("EOFRotator", "__init__", true, false); ("EOFRotator", "_fit_algorithm", true, false); ("EOFRotator", "_sort_by_variance", true, true);
   ("CPCCARotator", "__init__", true, false); ("CPCCARotator", "_fit_algorithm", true, false); ("CPCCARotator", "_sort_by_variance", true, true);
   ("POP", "__init__", true, false); ("POP", "_fit_algorithm", true, false); ("POP", "_sort_by_variance", true, true)].
Proof. reflexivity. Qed.

(* transform of the rotators consults the flag (once per field); POP's transform projects on the stored arrays only *)
Lemma flag_reads_known : flag_reads = [("EOFRotator", "_transform_algorithm", 1); ("CPCCARotator", "transform", 2)].
Proof. reflexivity. Qed.

Lemma pop_flag_protocol : In ("POP", (true, true)) flag_protocol.
Proof. rewrite flag_protocol_faithful. cbn. tauto. Qed.
