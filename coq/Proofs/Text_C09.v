(* written by tools/mk_text_tie.py: the source text against which the hand-written model parts of C09 were last validated *)
From Coq Require Import String List.
From XV Require Import Gen.T9text.
Import ListNotations.
Open Scope string_scope.

(* xeofs/cross/cpcca.py: CPCCA.cross_correlation_coefficients *)
Lemma text_C09_CPCCA_cross_correlation_coefficients_frozen : text_C09_CPCCA_cross_correlation_coefficients =
  ["Rx = self.data['scores1']";
   "Ry = self.data['scores2']";
   "cross_corr = self._compute_cross_matrix(Rx, Ry, sample_dim=self.sample_name, feature_dim_x='mode', feature_dim_y='mode', method='correlation', diagona";
   "cross_corr = cross_corr.real";
   "cross_corr.name = 'cross_correlation_coefficients'";
   "return cross_corr"].
Proof. reflexivity. Qed.

(* xeofs/cross/cpcca.py: CPCCA.correlation_coefficients_X *)
Lemma text_C09_CPCCA_correlation_coefficients_X_frozen : text_C09_CPCCA_correlation_coefficients_X =
  ["Rx = self.data['scores1']";
   "corr = self._compute_cross_matrix(Rx, Rx, sample_dim=self.sample_name, feature_dim_x='mode', feature_dim_y='mode', method='correlation', diagonal=Fals";
   "corr.name = 'correlation_coefficients_X'";
   "return corr"].
Proof. reflexivity. Qed.

(* xeofs/cross/cpcca.py: CPCCA.correlation_coefficients_Y *)
Lemma text_C09_CPCCA_correlation_coefficients_Y_frozen : text_C09_CPCCA_correlation_coefficients_Y =
  ["Ry = self.data['scores2']";
   "corr = self._compute_cross_matrix(Ry, Ry, sample_dim=self.sample_name, feature_dim_x='mode', feature_dim_y='mode', method='correlation', diagonal=Fals";
   "corr.name = 'correlation_coefficients_Y'";
   "return corr"].
Proof. reflexivity. Qed.

(* xeofs/cross/cpcca.py: CPCCA.fraction_variance_Y_explained_by_X *)
Lemma text_C09_CPCCA_fraction_variance_Y_explained_by_X_frozen : text_C09_CPCCA_fraction_variance_Y_explained_by_X =
  ["def _compute_total_variance_numpy(X, Y):";
   "Cx = X.conj().T @ X / (X.shape[0] - 1)";
   "Tinv = _fractional_matrix_power(Cx, -0.5)";
   "return np.linalg.norm(Tinv @ X.conj().T @ Y / (X.shape[0] - 1)) ** 2";
   "Cx = X.conj().T @ X / (X.shape[0] - 1)";
   "Tinv = _fractional_matrix_power(Cx, -0.5)";
   "return np.linalg.norm(Tinv @ X.conj().T @ Y / (X.shape[0] - 1)) ** 2";
   "def _compute_residual_variance_numpy(X, Y, Xrec, Yrec):";
   "dX = X - Xrec";
   "dY = Y - Yrec";
   "Cx = X.conj().T @ X / (X.shape[0] - 1)";
   "Tinv = _fractional_matrix_power(Cx, -0.5)";
   "return np.linalg.norm(Tinv @ dX.conj().T @ dY / (dX.shape[0] - 1)) ** 2";
   "dX = X - Xrec";
   "dY = Y - Yrec";
   "Cx = X.conj().T @ X / (X.shape[0] - 1)";
   "Tinv = _fractional_matrix_power(Cx, -0.5)";
   "return np.linalg.norm(Tinv @ dX.conj().T @ dY / (dX.shape[0] - 1)) ** 2";
   "sample_name_x = 'sample_dim_x'";
   "sample_name_y = 'sample_dim_y'";
   "Q1 = self.data['components1']";
   "Q2 = self.data['components2']";
   "X1 = self.data['input_data1']";
   "X2 = self.data['input_data2']";
   "X1 = self.whitener1.inverse_transform_data(X1)";
   "X2 = self.whitener2.inverse_transform_data(X2)";
   "X1 = X1.rename({self.sample_name: sample_name_x})";
   "X2 = X2.rename({self.sample_name: sample_name_y})";
   "total_variance: DataArray = xr.apply_ufunc(_compute_total_variance_numpy, X1, X2, input_core_dims=[[sample_name_x, self.feature_name[0]], [sample_name";
   "scores1 = self.data['scores1']";
   "scores2 = self.data['scores2']";
   "fraction_variance_explained: list[DataArray] = []";
   "for mode in scores1.mode.values:";
   "X1r = xr.dot(scores1.sel(mode=[mode]), Q1.sel(mode=[mode]).conj().T, dims='mode')";
   "X2r = xr.dot(scores2.sel(mode=[mode]), Q2.sel(mode=[mode]).conj().T, dims='mode')";
   "X1r = self.whitener1.inverse_transform_data(X1r)";
   "X2r = self.whitener2.inverse_transform_data(X2r)";
   "X1r = X1r.rename({self.sample_name: sample_name_x})";
   "X2r = X2r.rename({self.sample_name: sample_name_y})";
   "res_var: DataArray = xr.apply_ufunc(_compute_residual_variance_numpy, X1, X2, X1r, X2r, input_core_dims=[[sample_name_x, self.feature_name[0]], [sampl";
   "res_var = res_var.expand_dims({'mode': [mode]})";
   "fraction_variance_explained.append(1 - res_var / total_variance)";
   "fve_yx = xr.concat(fraction_variance_explained, dim='mode')";
   "fve_yx.name = 'fraction_variance_Y_explained_by_X'";
   "return fve_yx"].
Proof. reflexivity. Qed.

(* xeofs/cross/cpcca.py: CPCCA._compute_cross_matrix *)
Lemma text_C09_CPCCA__compute_cross_matrix_frozen : text_C09_CPCCA__compute_cross_matrix =
  ["if feature_dim_x == feature_dim_y:";
   "new_feature_dim_x = feature_dim_x + '_x'";
   "new_feature_dim_y = feature_dim_y + '_y'";
   "X = X.rename({feature_dim_x: new_feature_dim_x})";
   "Y = Y.rename({feature_dim_y: new_feature_dim_y})";
   "feature_dim_x = new_feature_dim_x";
   "feature_dim_y = new_feature_dim_y";
   "sample_dim_x = sample_dim + '_x'";
   "sample_dim_y = sample_dim + '_y'";
   "X = X.rename({sample_dim: sample_dim_x})";
   "Y = Y.rename({sample_dim: sample_dim_y})";
   "if method == 'correlation':";
   "X = self._normalize_data(X, sample_dim_x)";
   "Y = self._normalize_data(Y, sample_dim_y)";
   "if diagonal:";
   "return xr.apply_ufunc(self._compute_cross_covariance_diagonal_numpy, X, Y, input_core_dims=[[sample_dim_x, feature_dim_x], [sample_dim_y, feature_dim_";
   "return xr.apply_ufunc(self._compute_cross_covariance_numpy, X, Y, input_core_dims=[[sample_dim_x, feature_dim_x], [sample_dim_y, feature_dim_y]], outp"].
Proof. reflexivity. Qed.

(* xeofs/cross/cpcca.py: CPCCA._compute_total_squared_covariance *)
Lemma text_C09_CPCCA__compute_total_squared_covariance_frozen : text_C09_CPCCA__compute_total_squared_covariance =
  ["C = self.whitener2.inverse_transform_data(C)";
   "C = self.whitener1.inverse_transform_data(C.conj().T)";
   "return (abs(C) ** 2).sum()"].
Proof. reflexivity. Qed.

(* xeofs/cross/cpcca.py: CPCCA._compute_cross_covariance_diagonal_numpy *)
Lemma text_C09_CPCCA__compute_cross_covariance_diagonal_numpy_frozen : text_C09_CPCCA__compute_cross_covariance_diagonal_numpy =
  ["return np.diag(self._compute_cross_covariance_numpy(X, Y))"].
Proof. reflexivity. Qed.

(* xeofs/cross/cpcca.py: CPCCA.homogeneous_patterns *)
Lemma text_C09_CPCCA_homogeneous_patterns_frozen : text_C09_CPCCA_homogeneous_patterns =
  ["from ..utils.optional.statistics import pearson_correlation";
   "input_data1 = self.data['input_data1']";
   "input_data2 = self.data['input_data2']";
   "input_data1 = self.whitener1.inverse_transform_data(input_data1)";
   "input_data2 = self.whitener2.inverse_transform_data(input_data2)";
   "input_data1 = self.pca1.inverse_transform_data(input_data1)";
   "input_data2 = self.pca2.inverse_transform_data(input_data2)";
   "scores1 = self.data['scores1']";
   "scores2 = self.data['scores2']";
   "hom_pat1, pvals1 = pearson_correlation(input_data1, scores1, correction=correction, alpha=alpha, sample_name=self.sample_name, feature_name=self.featu";
   "hom_pat2, pvals2 = pearson_correlation(input_data2, scores2, correction=correction, alpha=alpha, sample_name=self.sample_name, feature_name=self.featu";
   "hom_pat1.name = 'left_homogeneous_patterns'";
   "hom_pat2.name = 'right_homogeneous_patterns'";
   "pvals1.name = 'pvalues_of_left_homogeneous_patterns'";
   "pvals2.name = 'pvalues_of_right_homogeneous_patterns'";
   "hom_pat1 = self.preprocessor1.inverse_transform_components(hom_pat1)";
   "hom_pat2 = self.preprocessor2.inverse_transform_components(hom_pat2)";
   "pvals1 = self.preprocessor1.inverse_transform_components(pvals1)";
   "pvals2 = self.preprocessor2.inverse_transform_components(pvals2)";
   "return ((hom_pat1, hom_pat2), (pvals1, pvals2))"].
Proof. reflexivity. Qed.

(* xeofs/cross/cpcca.py: CPCCA.heterogeneous_patterns *)
Lemma text_C09_CPCCA_heterogeneous_patterns_frozen : text_C09_CPCCA_heterogeneous_patterns =
  ["from ..utils.optional.statistics import pearson_correlation";
   "input_data1 = self.data['input_data1']";
   "input_data2 = self.data['input_data2']";
   "input_data1 = self.whitener1.inverse_transform_data(input_data1)";
   "input_data2 = self.whitener2.inverse_transform_data(input_data2)";
   "input_data1 = self.pca1.inverse_transform_data(input_data1)";
   "input_data2 = self.pca2.inverse_transform_data(input_data2)";
   "scores1 = self.data['scores1']";
   "scores2 = self.data['scores2']";
   "patterns1, pvals1 = pearson_correlation(input_data1, scores2, correction=correction, alpha=alpha, sample_name=self.sample_name, feature_name=self.feat";
   "patterns2, pvals2 = pearson_correlation(input_data2, scores1, correction=correction, alpha=alpha, sample_name=self.sample_name, feature_name=self.feat";
   "patterns1.name = 'left_heterogeneous_patterns'";
   "patterns2.name = 'right_heterogeneous_patterns'";
   "pvals1.name = 'pvalues_of_left_heterogeneous_patterns'";
   "pvals2.name = 'pvalues_of_right_heterogeneous_patterns'";
   "patterns1 = self.preprocessor1.inverse_transform_components(patterns1)";
   "patterns2 = self.preprocessor2.inverse_transform_components(patterns2)";
   "pvals1 = self.preprocessor1.inverse_transform_components(pvals1)";
   "pvals2 = self.preprocessor2.inverse_transform_components(pvals2)";
   "return ((patterns1, patterns2), (pvals1, pvals2))"].
Proof. reflexivity. Qed.

Definition all_frozen : Prop :=
  text_C09_CPCCA_cross_correlation_coefficients = ["Rx = self.data['scores1']";
   "Ry = self.data['scores2']";
   "cross_corr = self._compute_cross_matrix(Rx, Ry, sample_dim=self.sample_name, feature_dim_x='mode', feature_dim_y='mode', method='correlation', diagona";
   "cross_corr = cross_corr.real";
   "cross_corr.name = 'cross_correlation_coefficients'";
   "return cross_corr"] /\
  text_C09_CPCCA_correlation_coefficients_X = ["Rx = self.data['scores1']";
   "corr = self._compute_cross_matrix(Rx, Rx, sample_dim=self.sample_name, feature_dim_x='mode', feature_dim_y='mode', method='correlation', diagonal=Fals";
   "corr.name = 'correlation_coefficients_X'";
   "return corr"] /\
  text_C09_CPCCA_correlation_coefficients_Y = ["Ry = self.data['scores2']";
   "corr = self._compute_cross_matrix(Ry, Ry, sample_dim=self.sample_name, feature_dim_x='mode', feature_dim_y='mode', method='correlation', diagonal=Fals";
   "corr.name = 'correlation_coefficients_Y'";
   "return corr"] /\
  text_C09_CPCCA_fraction_variance_Y_explained_by_X = ["def _compute_total_variance_numpy(X, Y):";
   "Cx = X.conj().T @ X / (X.shape[0] - 1)";
   "Tinv = _fractional_matrix_power(Cx, -0.5)";
   "return np.linalg.norm(Tinv @ X.conj().T @ Y / (X.shape[0] - 1)) ** 2";
   "Cx = X.conj().T @ X / (X.shape[0] - 1)";
   "Tinv = _fractional_matrix_power(Cx, -0.5)";
   "return np.linalg.norm(Tinv @ X.conj().T @ Y / (X.shape[0] - 1)) ** 2";
   "def _compute_residual_variance_numpy(X, Y, Xrec, Yrec):";
   "dX = X - Xrec";
   "dY = Y - Yrec";
   "Cx = X.conj().T @ X / (X.shape[0] - 1)";
   "Tinv = _fractional_matrix_power(Cx, -0.5)";
   "return np.linalg.norm(Tinv @ dX.conj().T @ dY / (dX.shape[0] - 1)) ** 2";
   "dX = X - Xrec";
   "dY = Y - Yrec";
   "Cx = X.conj().T @ X / (X.shape[0] - 1)";
   "Tinv = _fractional_matrix_power(Cx, -0.5)";
   "return np.linalg.norm(Tinv @ dX.conj().T @ dY / (dX.shape[0] - 1)) ** 2";
   "sample_name_x = 'sample_dim_x'";
   "sample_name_y = 'sample_dim_y'";
   "Q1 = self.data['components1']";
   "Q2 = self.data['components2']";
   "X1 = self.data['input_data1']";
   "X2 = self.data['input_data2']";
   "X1 = self.whitener1.inverse_transform_data(X1)";
   "X2 = self.whitener2.inverse_transform_data(X2)";
   "X1 = X1.rename({self.sample_name: sample_name_x})";
   "X2 = X2.rename({self.sample_name: sample_name_y})";
   "total_variance: DataArray = xr.apply_ufunc(_compute_total_variance_numpy, X1, X2, input_core_dims=[[sample_name_x, self.feature_name[0]], [sample_name";
   "scores1 = self.data['scores1']";
   "scores2 = self.data['scores2']";
   "fraction_variance_explained: list[DataArray] = []";
   "for mode in scores1.mode.values:";
   "X1r = xr.dot(scores1.sel(mode=[mode]), Q1.sel(mode=[mode]).conj().T, dims='mode')";
   "X2r = xr.dot(scores2.sel(mode=[mode]), Q2.sel(mode=[mode]).conj().T, dims='mode')";
   "X1r = self.whitener1.inverse_transform_data(X1r)";
   "X2r = self.whitener2.inverse_transform_data(X2r)";
   "X1r = X1r.rename({self.sample_name: sample_name_x})";
   "X2r = X2r.rename({self.sample_name: sample_name_y})";
   "res_var: DataArray = xr.apply_ufunc(_compute_residual_variance_numpy, X1, X2, X1r, X2r, input_core_dims=[[sample_name_x, self.feature_name[0]], [sampl";
   "res_var = res_var.expand_dims({'mode': [mode]})";
   "fraction_variance_explained.append(1 - res_var / total_variance)";
   "fve_yx = xr.concat(fraction_variance_explained, dim='mode')";
   "fve_yx.name = 'fraction_variance_Y_explained_by_X'";
   "return fve_yx"] /\
  text_C09_CPCCA__compute_cross_matrix = ["if feature_dim_x == feature_dim_y:";
   "new_feature_dim_x = feature_dim_x + '_x'";
   "new_feature_dim_y = feature_dim_y + '_y'";
   "X = X.rename({feature_dim_x: new_feature_dim_x})";
   "Y = Y.rename({feature_dim_y: new_feature_dim_y})";
   "feature_dim_x = new_feature_dim_x";
   "feature_dim_y = new_feature_dim_y";
   "sample_dim_x = sample_dim + '_x'";
   "sample_dim_y = sample_dim + '_y'";
   "X = X.rename({sample_dim: sample_dim_x})";
   "Y = Y.rename({sample_dim: sample_dim_y})";
   "if method == 'correlation':";
   "X = self._normalize_data(X, sample_dim_x)";
   "Y = self._normalize_data(Y, sample_dim_y)";
   "if diagonal:";
   "return xr.apply_ufunc(self._compute_cross_covariance_diagonal_numpy, X, Y, input_core_dims=[[sample_dim_x, feature_dim_x], [sample_dim_y, feature_dim_";
   "return xr.apply_ufunc(self._compute_cross_covariance_numpy, X, Y, input_core_dims=[[sample_dim_x, feature_dim_x], [sample_dim_y, feature_dim_y]], outp"] /\
  text_C09_CPCCA__compute_total_squared_covariance = ["C = self.whitener2.inverse_transform_data(C)";
   "C = self.whitener1.inverse_transform_data(C.conj().T)";
   "return (abs(C) ** 2).sum()"] /\
  text_C09_CPCCA__compute_cross_covariance_diagonal_numpy = ["return np.diag(self._compute_cross_covariance_numpy(X, Y))"] /\
  text_C09_CPCCA_homogeneous_patterns = ["from ..utils.optional.statistics import pearson_correlation";
   "input_data1 = self.data['input_data1']";
   "input_data2 = self.data['input_data2']";
   "input_data1 = self.whitener1.inverse_transform_data(input_data1)";
   "input_data2 = self.whitener2.inverse_transform_data(input_data2)";
   "input_data1 = self.pca1.inverse_transform_data(input_data1)";
   "input_data2 = self.pca2.inverse_transform_data(input_data2)";
   "scores1 = self.data['scores1']";
   "scores2 = self.data['scores2']";
   "hom_pat1, pvals1 = pearson_correlation(input_data1, scores1, correction=correction, alpha=alpha, sample_name=self.sample_name, feature_name=self.featu";
   "hom_pat2, pvals2 = pearson_correlation(input_data2, scores2, correction=correction, alpha=alpha, sample_name=self.sample_name, feature_name=self.featu";
   "hom_pat1.name = 'left_homogeneous_patterns'";
   "hom_pat2.name = 'right_homogeneous_patterns'";
   "pvals1.name = 'pvalues_of_left_homogeneous_patterns'";
   "pvals2.name = 'pvalues_of_right_homogeneous_patterns'";
   "hom_pat1 = self.preprocessor1.inverse_transform_components(hom_pat1)";
   "hom_pat2 = self.preprocessor2.inverse_transform_components(hom_pat2)";
   "pvals1 = self.preprocessor1.inverse_transform_components(pvals1)";
   "pvals2 = self.preprocessor2.inverse_transform_components(pvals2)";
   "return ((hom_pat1, hom_pat2), (pvals1, pvals2))"] /\
  text_C09_CPCCA_heterogeneous_patterns = ["from ..utils.optional.statistics import pearson_correlation";
   "input_data1 = self.data['input_data1']";
   "input_data2 = self.data['input_data2']";
   "input_data1 = self.whitener1.inverse_transform_data(input_data1)";
   "input_data2 = self.whitener2.inverse_transform_data(input_data2)";
   "input_data1 = self.pca1.inverse_transform_data(input_data1)";
   "input_data2 = self.pca2.inverse_transform_data(input_data2)";
   "scores1 = self.data['scores1']";
   "scores2 = self.data['scores2']";
   "patterns1, pvals1 = pearson_correlation(input_data1, scores2, correction=correction, alpha=alpha, sample_name=self.sample_name, feature_name=self.feat";
   "patterns2, pvals2 = pearson_correlation(input_data2, scores1, correction=correction, alpha=alpha, sample_name=self.sample_name, feature_name=self.feat";
   "patterns1.name = 'left_heterogeneous_patterns'";
   "patterns2.name = 'right_heterogeneous_patterns'";
   "pvals1.name = 'pvalues_of_left_heterogeneous_patterns'";
   "pvals2.name = 'pvalues_of_right_heterogeneous_patterns'";
   "patterns1 = self.preprocessor1.inverse_transform_components(patterns1)";
   "patterns2 = self.preprocessor2.inverse_transform_components(patterns2)";
   "pvals1 = self.preprocessor1.inverse_transform_components(pvals1)";
   "pvals2 = self.preprocessor2.inverse_transform_components(pvals2)";
   "return ((patterns1, patterns2), (pvals1, pvals2))"].

Lemma all_frozen_holds : all_frozen.
Proof. exact (conj text_C09_CPCCA_cross_correlation_coefficients_frozen (conj text_C09_CPCCA_correlation_coefficients_X_frozen (conj text_C09_CPCCA_correlation_coefficients_Y_frozen (conj text_C09_CPCCA_fraction_variance_Y_explained_by_X_frozen (conj text_C09_CPCCA__compute_cross_matrix_frozen (conj text_C09_CPCCA__compute_total_squared_covariance_frozen (conj text_C09_CPCCA__compute_cross_covariance_diagonal_numpy_frozen (conj text_C09_CPCCA_homogeneous_patterns_frozen text_C09_CPCCA_heterogeneous_patterns_frozen)))))))). Qed.
