(* MultiIndexConverter state machine: labels restored on the unseen path are those of the data just
   transformed; labels restored on the fit path depend on the last fit only. *)
From Coq Require Import List Bool Arith ZArith Lia.
From XV Require Import Model.Mic.
Import ListNotations.

(* ---------- dictionaries ---------- *)
Section DictLemmas.
Context {A : Type}.
Implicit Types m : list (dim * A).

Lemma lookup_update_eq d v m : lookup d (update d v m) = Some v.
Proof. induction m as [|[k w] r IH]; cbn; [rewrite Nat.eqb_refl; reflexivity|].
  destruct (Nat.eqb k d) eqn:E; cbn; rewrite E; [reflexivity|exact IH]. Qed.

Lemma lookup_update_neq d d' v m : d <> d' -> lookup d' (update d v m) = lookup d' m.
Proof. intros H. induction m as [|[k w] r IH]; cbn.
  - destruct (Nat.eqb d d') eqn:E; [apply Nat.eqb_eq in E; contradiction|reflexivity].
  - destruct (Nat.eqb k d) eqn:E; cbn.
    + apply Nat.eqb_eq in E. subst k. destruct (Nat.eqb d d') eqn:E2; [apply Nat.eqb_eq in E2; contradiction|reflexivity].
    + destruct (Nat.eqb k d'); [reflexivity|exact IH]. Qed.

Lemma lookup_in_keys d m : lookup d m <> None <-> In d (map fst m).
Proof. induction m as [|[k w] r IH]; cbn; [split; [congruence|tauto]|].
  destruct (Nat.eqb k d) eqn:E.
  - apply Nat.eqb_eq in E. split; [intros _; left; exact E|intros _; discriminate].
  - apply Nat.eqb_neq in E. rewrite IH. split; [tauto|intros [H|H]; [contradiction|exact H]]. Qed.

Lemma keys_update_present d v m : In d (map fst m) -> map fst (update d v m) = map fst m.
Proof. induction m as [|[k w] r IH]; cbn; [tauto|]. intros H.
  destruct (Nat.eqb k d) eqn:E; cbn; [reflexivity|]. f_equal. apply IH.
  apply Nat.eqb_neq in E. destruct H as [H|H]; [contradiction|exact H]. Qed.

Lemma keys_update d v m : map fst (update d v m) = if existsb (Nat.eqb d) (map fst m) then map fst m else map fst m ++ [d].
Proof. induction m as [|[k w] r IH]; cbn; [reflexivity|].
  rewrite (Nat.eqb_sym d k). destruct (Nat.eqb k d) eqn:E; cbn; [reflexivity|]. rewrite IH.
  destruct (existsb (Nat.eqb d) (map fst r)); reflexivity. Qed.

Lemma keys_update_incl d v m x : In x (map fst (update d v m)) <-> x = d \/ In x (map fst m).
Proof. rewrite keys_update. destruct (existsb (Nat.eqb d) (map fst m)) eqn:E.
  - apply existsb_exists in E. destruct E as [y [Hy Hd]]. apply Nat.eqb_eq in Hd. subst y.
    split; [tauto|intros [->|H]; assumption].
  - rewrite in_app_iff. cbn. split; [intros [H|[H|[]]]; [right; exact H|left; symmetry; exact H]|intros [->|H]; [right; left; reflexivity|left; exact H]]. Qed.

Lemma nodup_snoc (l : list dim) d : NoDup l -> ~ In d l -> NoDup (l ++ [d]).
Proof. induction l as [|x l IH]; cbn; intros H Hn; [constructor; [tauto|constructor]|].
  inversion H as [|y l' Hx Hl]; subst. constructor.
  - rewrite in_app_iff. cbn. intros [H1|[H1|[]]]; [contradiction|subst; tauto].
  - apply IH; [exact Hl|tauto]. Qed.

Lemma keys_update_nodup d v m : NoDup (map fst m) -> NoDup (map fst (update d v m)).
Proof. intros H. rewrite keys_update. destruct (existsb (Nat.eqb d) (map fst m)) eqn:E; [exact H|].
  apply nodup_snoc; [exact H|]. intros Hin.
  assert (existsb (Nat.eqb d) (map fst m) = true) by (apply existsb_exists; exists d; split; [exact Hin|apply Nat.eqb_refl]). congruence. Qed.
End DictLemmas.

(* ---------- transform (faithful source) ---------- *)
Lemma tr_fold_none ds : fold_left (tr_step faithful) ds None = None.
Proof. induction ds as [|d ds IH]; cbn; [reflexivity|exact IH]. Qed.

Lemma transform_fold_spec ds : NoDup ds -> forall s X s' X',
  fold_left (tr_step faithful) ds (Some (s, X)) = Some (s', X') ->
  (forall d, In d ds -> exists c, lookup d X = Some c /\ lookup d (from_tr s') = Some c /\ lookup d X' = Some (Plain (seq 0 (size c)))) /\
  (forall d, ~ In d ds -> lookup d X' = lookup d X /\ lookup d (from_tr s') = lookup d (from_tr s)) /\
  map fst X' = map fst X /\ from_fit s' = from_fit s /\ modified s' = modified s /\
  (forall x, In x (map fst (from_tr s')) <-> In x ds \/ In x (map fst (from_tr s))) /\
  (NoDup (map fst (from_tr s)) -> NoDup (map fst (from_tr s'))).
Proof. induction ds as [|d ds IH]; intros Hnd s X s' X' H.
  - cbn in H. inversion H; subst. split; [intros d []|]. split; [intros d _; split; reflexivity|].
    split; [reflexivity|]. split; [reflexivity|]. split; [reflexivity|]. split; [intros x; cbn; tauto|tauto].
  - inversion Hnd as [|y l Hnotin Hnd']; subst. cbn [fold_left] in H. unfold tr_step at 2 in H.
    destruct (lookup d X) as [c|] eqn:Ec; [|rewrite tr_fold_none in H; discriminate].
    cbn [p_store faithful] in H. fold faithful in H.
    specialize (IH Hnd' _ _ _ _ H). destruct IH as (I1 & I2 & I3 & I4 & I5 & I6 & I7).
    unfold write_tr in *. cbn [p_aliased faithful from_tr from_fit modified] in *.
    assert (Hkey : In d (map fst X)) by (apply lookup_in_keys; congruence).
    split; [|split; [|split; [|split; [|split; [|split]]]]].
    + intros d0 [->|Hin].
      * exists c. destruct (I2 d0 Hnotin) as [A B]. rewrite A, B, !lookup_update_eq. split; [exact Ec|]. split; reflexivity.
      * destruct (I1 d0 Hin) as [c0 (A & B & C0)]. assert (d <> d0) by (intros ->; contradiction).
        rewrite lookup_update_neq in A by assumption. exists c0. split; [exact A|]. split; assumption.
    + intros d0 Hd0. cbn in Hd0. destruct (I2 d0) as [A B]; [tauto|]. rewrite A, B. split; apply lookup_update_neq; tauto.
    + rewrite I3. apply keys_update_present. exact Hkey.
    + exact I4.
    + exact I5.
    + intros x. split.
      * intros Hx. apply I6 in Hx. destruct Hx as [Hx|Hx]; [left; right; exact Hx|]. apply keys_update_incl in Hx.
        destruct Hx as [->|Hx]; [left; left; reflexivity|right; exact Hx].
      * intros [[->|Hx]|Hx]; apply I6; [right; apply keys_update_incl; left; reflexivity|left; exact Hx|right; apply keys_update_incl; right; exact Hx].
    + intros Hn. apply I7. apply keys_update_nodup. exact Hn. Qed.

(* ---------- inverse (faithful source), when every stored coordinate has the size of the current one ---------- *)
Lemma inverse_fold_spec ref : NoDup (map fst ref) -> forall X,
  (forall d c cur, In (d, c) ref -> lookup d X = Some cur -> size c = size cur) ->
  exists R, fold_left (inv_step faithful) ref (Some X) = Some R /\ map fst R = map fst X /\
    forall d, lookup d R = match lookup d ref, lookup d X with Some c, Some _ => Some c | _, o => o end.
Proof. induction ref as [|[k c] ref IH]; intros Hnd X Hs.
  - exists X. cbn. split; [reflexivity|]. split; [reflexivity|]. intros d. reflexivity.
  - cbn [map fst] in Hnd. inversion Hnd as [|y l Hnotin Hnd']; subst. cbn [fold_left]. unfold inv_step at 2. cbn [fst snd].
    destruct (lookup k X) as [cur|] eqn:Ek.
    + rewrite (Hs k c cur (or_introl eq_refl) Ek), Nat.eqb_refl.
      destruct (IH Hnd' (update k c X)) as [R (HR & HK & HL)].
      { intros d c0 cur0 Hin Hl. assert (k <> d). { intros ->. apply Hnotin. apply in_map_iff. exists (d, c0). split; [reflexivity|exact Hin]. }
        rewrite lookup_update_neq in Hl by assumption. eapply Hs; [right; exact Hin|exact Hl]. }
      exists R. split; [exact HR|]. split.
      * rewrite HK. apply keys_update_present. apply lookup_in_keys. congruence.
      * intros d. rewrite HL. cbn [lookup]. destruct (Nat.eqb k d) eqn:E.
        -- apply Nat.eqb_eq in E. subst d. rewrite lookup_update_eq, Ek.
           destruct (lookup k ref) eqn:El; [|reflexivity]. exfalso. apply Hnotin. apply lookup_in_keys. congruence.
        -- apply Nat.eqb_neq in E. rewrite lookup_update_neq by assumption. reflexivity.
    + destruct (IH Hnd' X) as [R (HR & HK & HL)].
      { intros d c0 cur0 Hin Hl. eapply Hs; [right; exact Hin|exact Hl]. }
      exists R. split; [exact HR|]. split; [exact HK|]. intros d. rewrite HL. cbn [lookup].
      destruct (Nat.eqb k d) eqn:E; [|reflexivity]. apply Nat.eqb_eq in E. subst d. rewrite Ek.
      destruct (lookup k ref); reflexivity. Qed.

Lemma lookup_in_pair {A} d (c : A) m : In (d, c) m -> NoDup (map fst m) -> lookup d m = Some c.
Proof. induction m as [|[k w] r IH]; cbn; [tauto|]. intros [H|H] Hn; inversion Hn as [|y l Hnotin Hn']; subst.
  - inversion H; subst. rewrite Nat.eqb_refl. reflexivity.
  - destruct (Nat.eqb k d) eqn:E; [|apply IH; assumption]. apply Nat.eqb_eq in E. subst k. exfalso. apply Hnotin.
    apply in_map_iff. exists (d, c). split; [reflexivity|exact H]. Qed.

(* ---------- invariant of the reachable states ---------- *)
Definition Inv (s : st) : Prop :=
  NoDup (modified s) /\ NoDup (map fst (from_tr s)) /\ (forall d, In d (map fst (from_tr s)) -> In d (modified s)).

Lemma fit_fold_spec X : forall s, from_tr (fold_left (fit_step faithful) X s) = from_tr s /\
  (forall d, In d (modified (fold_left (fit_step faithful) X s)) -> In d (modified s) \/ In d (map fst X)).
Proof. induction X as [|[d c] X IH]; intros s; cbn [fold_left]; [split; [reflexivity|tauto]|].
  destruct (IH (fit_step faithful s (d, c))) as [A B]. split.
  - rewrite A. unfold fit_step. cbn [fst snd]. destruct (is_multi c); reflexivity.
  - intros d0 H. apply B in H. destruct H as [H|H]; [|right; right; exact H].
    unfold fit_step in H. cbn [fst snd] in H. destruct (is_multi c).
    + cbn in H. rewrite in_app_iff in H. cbn in H. destruct H as [H|[H|[]]]; [left; exact H|right; left; exact H].
    + left; exact H. Qed.

Lemma fit_modified_nodup X : NoDup (map fst X) -> forall s, NoDup (modified s) -> (forall d, In d (modified s) -> ~ In d (map fst X)) ->
  NoDup (modified (fold_left (fit_step faithful) X s)).
Proof. induction X as [|[d c] X IH]; intros Hn s Hs Hdis; cbn [fold_left]; [exact Hs|].
  cbn [map fst] in Hn. inversion Hn as [|y l Hnotin Hn']; subst. apply IH; [exact Hn'| |].
  - unfold fit_step. cbn [fst snd]. destruct (is_multi c); [|exact Hs]. cbn. apply nodup_snoc; [exact Hs|].
    intros H. apply (Hdis d H). left. reflexivity.
  - intros d0 H. unfold fit_step in H. cbn [fst snd] in H. destruct (is_multi c).
    + cbn in H. rewrite in_app_iff in H. cbn in H. destruct H as [H|[H|[]]].
      * intros Hin. apply (Hdis d0 H). right. exact Hin.
      * subst d0. exact Hnotin.
    + intros Hin. apply (Hdis d0 H). right. exact Hin. Qed.

Lemma inv_init : Inv init. Proof. repeat split; cbn; try constructor; tauto. Qed.

Lemma inv_fit X : NoDup (map fst X) -> Inv (fit faithful init X).
Proof. intros Hn. unfold Inv, fit. destruct (fit_fold_spec X init) as [A B]. rewrite A. cbn. repeat split; [|constructor|tauto].
  apply fit_modified_nodup; [exact Hn|constructor|cbn; tauto]. Qed.

Lemma inv_transform s X s' X' : Inv s -> transform faithful s X = Some (s', X') -> Inv s'.
Proof. intros (I1 & I2 & I3) H. unfold transform in H. destruct (transform_fold_spec _ I1 _ _ _ _ H) as (_ & _ & _ & _ & Hm & Hk & Hnd).
  unfold Inv. rewrite Hm. repeat split; [exact I1|apply Hnd; exact I2|]. intros d Hd. apply Hk in Hd. destruct Hd as [Hd|Hd]; [exact Hd|apply I3; exact Hd]. Qed.

Definition fits_wf (h : list op) : Prop := forall X, In (OFit X) h -> NoDup (map fst X).

Lemma inv_run h : forall s, Inv s -> fits_wf h -> Inv (fst (run faithful s h)).
Proof. induction h as [|o h IH]; intros s Hs Hw; cbn [run]; [exact Hs|].
  destruct (step faithful s o) as [s1 a] eqn:E1. destruct (run faithful s1 h) as [s2 l] eqn:E2. cbn [fst].
  specialize (IH s1). rewrite E2 in IH. cbn [fst] in IH. apply IH.
  - destruct o as [X|X|r X]; cbn in E1.
    + inversion E1; subst. apply inv_fit. apply Hw. left. reflexivity.
    + destruct (transform faithful s X) as [[s' X']|] eqn:Et; inversion E1; subst; [eapply inv_transform; eassumption|exact Hs].
    + inversion E1; subst. exact Hs.
  - intros X Hin. apply Hw. right. exact Hin. Qed.

(* ---------- the unseen path restores the labels of the data just transformed ---------- *)
Theorem unseen_roundtrip s X s' X' : Inv s -> transform faithful s X = Some (s', X') ->
  exists R, inverse faithful s' RefTransform X' = Some R /\ map fst R = map fst X /\ forall d, lookup d R = lookup d X.
Proof. intros (I1 & I2 & I3) H. unfold transform in H.
  destruct (transform_fold_spec _ I1 _ _ _ _ H) as (T1 & T2 & T3 & T4 & T5 & T6 & T7).
  unfold inverse. cbn [ref_dict].
  destruct (inverse_fold_spec (from_tr s') (T7 I2) X') as [R (HR & HK & HL)].
  { intros d c cur Hin Hl. assert (Hd : In d (modified s)).
    { assert (In d (map fst (from_tr s'))) by (apply in_map_iff; exists (d, c); split; [reflexivity|exact Hin]).
      apply T6 in H0. destruct H0; [assumption|apply I3; assumption]. }
    destruct (T1 d Hd) as [c0 (A & B & C0)]. rewrite (lookup_in_pair d c _ Hin (T7 I2)) in B. inversion B; subst c0.
    rewrite C0 in Hl. inversion Hl; subst cur. cbn. rewrite seq_length. reflexivity. }
  exists R. split; [exact HR|]. split; [congruence|]. intros d. rewrite HL.
  destruct (in_dec Nat.eq_dec d (modified s)) as [Hd|Hd].
  - destruct (T1 d Hd) as [c0 (A & B & C0)]. rewrite B, C0, A. reflexivity.
  - destruct (T2 d Hd) as [A B]. rewrite B, A.
    destruct (lookup d (from_tr s)) eqn:E; [|reflexivity]. exfalso. apply Hd. apply I3. apply lookup_in_keys. congruence. Qed.

(* for every reachable state (any history of fits, transforms and inverse calls on well-formed data) *)
Theorem unseen_labels_from_new_data h X s' X' : fits_wf h ->
  transform faithful (fst (run faithful init h)) X = Some (s', X') ->
  exists R, inverse faithful s' RefTransform X' = Some R /\ map fst R = map fst X /\ forall d, lookup d R = lookup d X.
Proof. intros Hw H. eapply unseen_roundtrip; [|exact H]. apply inv_run; [apply inv_init|exact Hw]. Qed.

(* ---------- the fit path depends on the last fit only ---------- *)
Definition is_fit (o : op) : bool := match o with OFit _ => true | _ => false end.

Lemma step_nonfit_keeps_fit s o : is_fit o = false -> NoDup (modified s) ->
  from_fit (fst (step faithful s o)) = from_fit s /\ modified (fst (step faithful s o)) = modified s.
Proof. destruct o as [X|X|r X]; cbn; intros H Hn; try discriminate; [|split; reflexivity].
  destruct (transform faithful s X) as [[s' X']|] eqn:Et; cbn; [|split; reflexivity].
  unfold transform in Et. destruct (transform_fold_spec _ Hn _ _ _ _ Et) as (_ & _ & _ & A & B & _). split; assumption. Qed.

Theorem fit_reference_history_independent (q : list op) : forall s, forallb (fun o => negb (is_fit o)) q = true -> NoDup (modified s) ->
  from_fit (fst (run faithful s q)) = from_fit s.
Proof. induction q as [|o q IH]; intros s Hq Hn; cbn [run]; [reflexivity|].
  cbn [forallb] in Hq. apply andb_prop in Hq. destruct Hq as [Ho Hq]. apply negb_true_iff in Ho.
  destruct (step faithful s o) as [s1 a] eqn:E1. destruct (run faithful s1 q) as [s2 l] eqn:E2. cbn [fst].
  destruct (step_nonfit_keeps_fit s o Ho Hn) as [A B]. rewrite E1 in A, B. cbn [fst] in A, B.
  specialize (IH s1 Hq). rewrite E2 in IH. cbn [fst] in IH. rewrite IH; [exact A|rewrite B; exact Hn]. Qed.

(* after any history h, a fit on X0 and any further transform / inverse calls q: restoring labels on the fit path
   answers exactly as a fresh converter fitted on X0 *)
Theorem fit_labels_depend_on_last_fit (h q : list op) X0 Y : NoDup (map fst X0) ->
  forallb (fun o => negb (is_fit o)) q = true ->
  inverse faithful (fst (run faithful (fst (run faithful init (h ++ [OFit X0]))) q)) RefFit Y =
  inverse faithful (fit faithful init X0) RefFit Y.
Proof. intros Hn Hq. unfold inverse. cbn [ref_dict].
  assert (Hs : fst (run faithful init (h ++ [OFit X0])) = fit faithful init X0).
  { generalize init at 1. induction h as [|o h IH]; intros s0; cbn [app run].
    - cbn. reflexivity.
    - destruct (step faithful s0 o) as [s1 a]. specialize (IH s1). destruct (run faithful s1 (h ++ [OFit X0])) as [s2 l]. exact IH. }
  rewrite Hs. rewrite fit_reference_history_independent; [reflexivity|exact Hq|]. apply inv_fit. exact Hn. Qed.

(* entries removed after transform (fully missing samples): the remaining positions select their own labels *)
Theorem inverse_after_removal d orig pos X : lookup d X = Some (Plain pos) -> size orig <> length pos ->
  forallb (fun i => Nat.ltb i (size orig)) pos = true ->
  inv_step faithful (Some X) (d, orig) = Some (update d (take_pos orig pos) X).
Proof. intros Hl Hs Hp. unfold inv_step. cbn [fst snd]. rewrite Hl. cbn [size].
  destruct (Nat.eqb (size orig) (length pos)) eqn:E; [apply Nat.eqb_eq in E; contradiction|]. cbn [p_take faithful]. rewrite Hp. reflexivity. Qed.

(* ---------- the two seeded variants are refuted by the model ---------- *)
Definition X0 : data := [(0, Multi [10; 11; 12]%Z); (1, Plain [0; 1])].
Definition X1 : data := [(0, Multi [20; 21; 22]%Z); (1, Plain [0; 1])].

(* one dict for both: labels of the fit data are overwritten by a later transform *)
Example aliased_refuted :
  let p := mkP true StoreAlways TakeWhenShorter in
  snd (run p init [OFit X0; OTransform X1; OInverse RefFit [(0, Plain [0; 1; 2]); (1, Plain [0; 1])]]) =
  [None; Some [(0, Plain [0; 1; 2]); (1, Plain [0; 1])]; Some X1].
Proof. vm_compute. reflexivity. Qed.

(* coordinates only re-recorded when the size differs: new data of equal size gets the previous labels *)
Example store_if_size_differs_refuted :
  let p := mkP false StoreIfSizeDiffers TakeWhenShorter in
  snd (run p init [OFit X0; OTransform X0; OTransform X1; OInverse RefTransform [(0, Plain [0; 1; 2]); (1, Plain [0; 1])]]) =
  [None; Some [(0, Plain [0; 1; 2]); (1, Plain [0; 1])]; Some [(0, Plain [0; 1; 2]); (1, Plain [0; 1])]; Some X0].
Proof. vm_compute. reflexivity. Qed.

(* the faithful source on the same histories *)
Example faithful_on_those_histories :
  snd (run faithful init [OFit X0; OTransform X1; OInverse RefFit [(0, Plain [0; 1; 2]); (1, Plain [0; 1])]]) =
  [None; Some [(0, Plain [0; 1; 2]); (1, Plain [0; 1])]; Some X0] /\
  snd (run faithful init [OFit X0; OTransform X0; OTransform X1; OInverse RefTransform [(0, Plain [0; 1; 2]); (1, Plain [0; 1])]]) =
  [None; Some [(0, Plain [0; 1; 2]); (1, Plain [0; 1])]; Some [(0, Plain [0; 1; 2]); (1, Plain [0; 1])]; Some X1].
Proof. split; vm_compute; reflexivity. Qed.
