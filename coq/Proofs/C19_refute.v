(* C19 — refutation of "the reported decorrelation time is that series' own trapezoidal sum" on the
   faithful model (singular values of the symmetric target taken as eigenvalues), and non-vacuity of
   the oracle premises, on a concrete 5 x 1 series. Closed by computation over the reals. *)
From Coq Require Import ZArith List Bool Reals Lra Lia Arith.
From XV Require Import Base.Scalar Base.Sum Base.Mat Base.RInst Model.Opa.
Import ListNotations.
Open Scope R_scope.

(* one normalised PC, alternating: lag-1 autocovariance -10, lag-0 9; tau_max = 1 *)
Definition ex_S : list (list R) := [[1]; [-3]; [4]; [-3]; [1]].
Definition ex_E : list (list R) := [[1]].
Definition ex_Ci : list (list R) := [[1/3]].
Definition ex_U : list (list R) := [[1]].
Definition ex_lam : list R := [-1/18].

Ltac opa_unfold := unfold opa_fit, opa_target, target, msym, msum, lag_term, lag_weight, half, ctau, ctau_div,
  own_time, col_trapz, col_acov, reported, opa_key, whiten_ok, eig_sym_ok, order_ok, wf, vwf, mmul, madd, mscale,
  mT, mI, mcols, colscale, tab, vtab, ex_S, ex_E, ex_Ci, ex_U, ex_lam.
Ltac listeq := repeat (f_equal; try lra).

Lemma ex_premises :
  mT OR 1 1 ex_Ci = ex_Ci /\ whiten_ok OR 1 (ctau OR 5 1 ex_S 0) ex_Ci /\
  eig_sym_ok OR 1 (opa_target OR 5 1 ex_S ex_Ci 1) ex_U ex_lam /\
  order_ok OR true 1 ex_lam /\ order_ok OR false 1 ex_lam.
Proof. repeat split; try (opa_unfold; cbn -[IZR]; unfold delta; cbn -[IZR]; listeq; fail).
  - intros i j Hij Hj. assert (i = 0%nat) by lia. assert (j = 0%nat) by lia. subst. unfold fle. apply Rleb_true. lra.
  - intros i j Hij Hj. assert (i = 0%nat) by lia. assert (j = 0%nat) by lia. subst. unfold fle. apply Rleb_true. lra. Qed.

(* what each variant reports and what the series' own trapezoidal sum is *)
Lemma ex_values :
  let o := opa_fit OR true 5 1 1 1 ex_S ex_E ex_Ci ex_U ex_lam in
  let o' := opa_fit OR false 5 1 1 1 ex_S ex_E ex_Ci ex_U ex_lam in
  vget OR (o_tau o) 0 = 1/18 /\ vget OR (o_tau o') 0 = -1/18 /\
  own_time OR 5 1 (o_P o) 0 = -1/18 /\ o_P o' = o_P o /\ col_acov OR 5 (o_P o) 0 0 = 1.
Proof. cbn zeta. split; [|split; [|split; [|split]]].
  - opa_unfold. cbn -[IZR Rabs]. unfold Rabs. destruct (Rcase_abs _); lra.
  - opa_unfold. cbn -[IZR]. lra.
  - opa_unfold. cbn -[IZR]. lra.
  - reflexivity.
  - opa_unfold. cbn -[IZR]. lra. Qed.

Lemma decorrelation_refuted :
  exists (n p q k tm : nat) (S E Ci U : list (list R)) (lam : list R),
    mT OR q q Ci = Ci /\ whiten_ok OR q (ctau OR n q S 0) Ci /\
    eig_sym_ok OR q (opa_target OR n q S Ci tm) U lam /\ order_ok OR true q lam /\
    let o := opa_fit OR true n p q k S E Ci U lam in
    vget OR (o_tau o) 0 <> own_time OR n tm (o_P o) 0 /\
    own_time OR n tm (o_P o) 0 < 0 /\ 0 < vget OR (o_tau o) 0.
Proof. exists 5%nat, 1%nat, 1%nat, 1%nat, 1%nat, ex_S, ex_E, ex_Ci, ex_U, ex_lam.
  destruct ex_premises as [H1 [H2 [H3 [H4 _]]]]. destruct ex_values as [V1 [_ [V3 _]]].
  cbn zeta in V1, V3.
  split; [exact H1|]. split; [exact H2|]. split; [exact H3|]. split; [exact H4|]. cbn zeta.
  rewrite V1, V3. split; [lra|]. split; lra. Qed.

(* the variant that clips the reported times at zero (a "decorrelation time is non-negative" guard) reports 0 for this series, whose own trapezoidal sum
   is -1/18: the sum of a truncated autocorrelation function of an oscillating series is negative, and the statement is about that sum *)
Lemma ex_clip_refuted :
  let o' := opa_fit OR false 5 1 1 1 ex_S ex_E ex_Ci ex_U ex_lam in
  Rmax 0 (vget OR (o_tau o') 0) <> own_time OR 5 1 (o_P o') 0.
Proof. cbn zeta. destruct ex_values as (_ & Ht & Ho & HP & _). rewrite Ht, HP, Ho.
  unfold Rmax. destruct (Rle_dec 0 (-1 / 18)); lra. Qed.
