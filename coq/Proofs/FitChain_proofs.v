(* transform of the training data along the fit order reproduces what the fit handed to the model's algorithm *)
From Coq Require Import List Bool Arith Lia ZArith.
From XV Require Import Model.FitChain.
Import ListNotations.

Section FitChainProofs.
Variables D S : Type.
Notation fstage := (fstage D S).
Variable stages : nat -> fstage.

Lemma lookup_fit_run_notin fo : forall x i, ~ In i fo -> lookup S i (fst (fit_run D S stages fo x)) = None.
Proof. induction fo as [|j r IH]; intros x i Hn; [reflexivity|]. cbn [fit_run].
  destruct (fit_run D S stages r (sft D S (stages j) x)) as [st y] eqn:E. cbn [fst lookup].
  destruct (Nat.eqb_spec j i) as [->|Hne]; [exfalso; apply Hn; left; reflexivity|].
  specialize (IH (sft D S (stages j) x) i). rewrite E in IH. apply IH. intros H. apply Hn. right. exact H. Qed.

(* stored states of later stages do not disturb the run over stages that are not among them *)
Lemma transform_run_skip t_o : forall j v st x, ~ In j t_o ->
  transform_run D S stages t_o ((j, v) :: st) x = transform_run D S stages t_o st x.
Proof. induction t_o as [|i r IH]; intros j v st x Hn; [reflexivity|]. cbn [transform_run lookup].
  destruct (Nat.eqb_spec j i) as [->|Hne]; [exfalso; apply Hn; left; reflexivity|].
  apply IH. intros H. apply Hn. right. exact H. Qed.

Theorem transform_training fo : NoDup fo -> (forall i, In i fo -> fit_then_transform D S (stages i)) ->
  forall x, transform_run D S stages fo (fst (fit_run D S stages fo x)) x = snd (fit_run D S stages fo x).
Proof. induction fo as [|i r IH]; intros Hnd Hft x; [reflexivity|].
  inversion Hnd as [|? ? Hni Hnd']; subst. cbn [fit_run].
  destruct (fit_run D S stages r (sft D S (stages i) x)) as [st y] eqn:E. cbn [fst snd transform_run lookup].
  rewrite Nat.eqb_refl. rewrite <- (Hft i (or_introl eq_refl) x).
  rewrite transform_run_skip by exact Hni.
  specialize (IH Hnd' (fun j Hj => Hft j (or_intror Hj)) (sft D S (stages i) x)). rewrite E in IH. exact IH. Qed.

(* the model level: the fit's scores are a function `alg` of what the chain hands on, transform applies the same function *)
Corollary model_transform_training (A : Type) (alg : D -> A) fo : NoDup fo -> (forall i, In i fo -> fit_then_transform D S (stages i)) ->
  forall x, alg (transform_run D S stages fo (fst (fit_run D S stages fo x)) x) = alg (snd (fit_run D S stages fo x)).
Proof. intros Hnd Hft x. rewrite transform_training by assumption. reflexivity. Qed.
End FitChainProofs.

(* ---- variants refuted by computation: data = integers; stage 0 adds what it learnt (its input), stage 1 doubles ---- *)
Definition zstages (good_ft : bool) (i : nat) : FitChain.fstage Z Z :=
  match i with
  | O => {| sfit := fun x => x; sapply := fun s x => (x + s)%Z; sft := fun x => if good_ft then (x + x)%Z else x |}
  | _ => {| sfit := fun _ => 2%Z; sapply := fun s x => (x * s)%Z; sft := fun x => (x * 2)%Z |}
  end.

(* transform applies the stages in another order than the fit did *)
Lemma other_order_refuted :
  let st := fst (fit_run Z Z (zstages true) [0; 1] 5%Z) in
  snd (fit_run Z Z (zstages true) [0; 1] 5%Z) = 20%Z /\ transform_run Z Z (zstages true) [1; 0] st 5%Z = 15%Z.
Proof. vm_compute. split; reflexivity. Qed.

(* a fit_transform that is not fit-then-transform (stage 0 hands its input on unchanged) *)
Lemma other_fit_transform_refuted :
  let st := fst (fit_run Z Z (zstages false) [0; 1] 5%Z) in
  snd (fit_run Z Z (zstages false) [0; 1] 5%Z) = 10%Z /\ transform_run Z Z (zstages false) [0; 1] st 5%Z = 20%Z.
Proof. vm_compute. split; reflexivity. Qed.

Example faithful_chain : let st := fst (fit_run Z Z (zstages true) [0; 1] 5%Z) in
  transform_run Z Z (zstages true) [0; 1] st 5%Z = snd (fit_run Z Z (zstages true) [0; 1] 5%Z) /\
  (forall i, In i [0; 1] -> fit_then_transform Z Z (zstages true i)).
Proof. split; [vm_compute; reflexivity|]. intros i [<-|[<-|[]]] x; cbn; lia. Qed.
