(* C05 — out-of-sample transform is a per-sample (row-wise) map: it commutes with row
   concatenation and with row selection, for the scaler, the projection and the rotator tail. *)
From Coq Require Import ZArith List Bool Lia Arith.
From XV Require Import Base.Scalar Base.Sum Base.Mat Model.ScalerLib Model.Eof Model.Rot.
Import ListNotations.

Section C05.
Context {F : Type} (K : Ops F).
Notation mat := (@mat F).

Lemma get_vstack_top m1 m2 n A B i j : (i < m1)%nat -> (j < n)%nat -> get K (vstack K m1 m2 n A B) i j = get K A i j.
Proof. intros Hi Hj. unfold vstack. rewrite get_tab by lia. replace (Nat.ltb i m1) with true by (symmetry; apply Nat.ltb_lt; exact Hi). reflexivity. Qed.
Lemma get_vstack_bot m1 m2 n A B i j : (i < m2)%nat -> (j < n)%nat -> get K (vstack K m1 m2 n A B) (m1 + i) j = get K B i j.
Proof. intros Hi Hj. unfold vstack. rewrite get_tab by lia. replace (Nat.ltb (m1 + i) m1) with false by (symmetry; apply Nat.ltb_ge; lia).
  f_equal. lia. Qed.

(* any map computed row by row from the row's own entries commutes with vstack *)
Definition rowwise (n q : nat) (T : nat -> mat -> mat) : Prop :=
  exists g : (nat -> F) -> nat -> F, forall m X, T m X = tab m q (fun i j => g (fun l => get K X i l) j).

Lemma rowwise_vstack n q T : rowwise n q T ->
  (forall (g : (nat -> F) -> nat -> F) r r', (forall l, (l < n)%nat -> r l = r' l) -> forall j, (j < q)%nat -> g r j = g r' j) ->
  forall m1 m2 A B, T (m1 + m2)%nat (vstack K m1 m2 n A B) = vstack K m1 m2 q (T m1 A) (T m2 B).
Proof. intros [g Hg] Hloc m1 m2 A B. rewrite !Hg. unfold vstack at 2. apply tab_ext. intros i j Hi Hj.
  destruct (Nat.ltb_spec i m1) as [Hlt|Hge].
  - rewrite get_tab by lia. apply Hloc; [|exact Hj]. intros l Hl. apply get_vstack_top; assumption.
  - rewrite get_tab by lia. apply Hloc; [|exact Hj]. intros l Hl.
    replace i with (m1 + (i - m1))%nat at 1 by lia. apply get_vstack_bot; lia. Qed.

(* concrete instances: projection, scaling, and their composition *)
Lemma mmul_vstack m1 m2 n q A B V :
  mmul K (m1 + m2) n q (vstack K m1 m2 n A B) V = vstack K m1 m2 q (mmul K m1 n q A V) (mmul K m2 n q B V).
Proof. unfold mmul, vstack at 2. apply tab_ext. intros i j Hi Hj. destruct (Nat.ltb_spec i m1) as [Hlt|Hge].
  - rewrite get_tab by lia. apply (sum_ext K). intros l Hl. rewrite get_vstack_top by assumption. reflexivity.
  - rewrite get_tab by lia. apply (sum_ext K). intros l Hl.
    replace i with (m1 + (i - m1))%nat at 1 by lia. rewrite get_vstack_bot by lia. reflexivity. Qed.

Lemma scale_vstack m1 m2 n fl ps ops A B :
  scale_mat K (m1 + m2) n fl ps ops (vstack K m1 m2 n A B) =
  vstack K m1 m2 n (scale_mat K m1 n fl ps ops A) (scale_mat K m2 n fl ps ops B).
Proof. unfold scale_mat, vstack at 2. apply tab_ext. intros i j Hi Hj. destruct (Nat.ltb_spec i m1) as [Hlt|Hge].
  - rewrite get_tab by lia. rewrite get_vstack_top by assumption. reflexivity.
  - rewrite get_tab by lia. replace i with (m1 + (i - m1))%nat at 1 by lia. rewrite get_vstack_bot by lia. reflexivity. Qed.

Lemma mmul_sel_rows m n q (I : list nat) X V : (forall i, (i < length I)%nat -> (nth i I O < m)%nat) ->
  msel_rows K q I (mmul K m n q X V) = mmul K (length I) n q (msel_rows K n I X) V.
Proof. intros HI. unfold msel_rows, mmul. apply tab_ext. intros i j Hi Hj. rewrite get_tab by (try apply HI; lia).
  apply (sum_ext K). intros l Hl. rewrite get_tab by lia. reflexivity. Qed.

Lemma scale_sel_rows m n fl ps ops (I : list nat) X : (forall i, (i < length I)%nat -> (nth i I O < m)%nat) ->
  msel_rows K n I (scale_mat K m n fl ps ops X) = scale_mat K (length I) n fl ps ops (msel_rows K n I X).
Proof. intros HI. unfold msel_rows, scale_mat. apply tab_ext. intros i j Hi Hj. rewrite !get_tab by (try apply HI; lia). reflexivity. Qed.

(* EOF transform of scaled data: concatenation and subset *)
Definition eof_pipeline (m p k : nat) fl ps ops (o : eof_out) (X : mat) : mat :=
  eof_transform K m p k o (scale_mat K m p fl ps ops X).

Theorem pipeline_concat m1 m2 p k fl ps ops o A B :
  eof_pipeline (m1 + m2) p k fl ps ops o (vstack K m1 m2 p A B) =
  vstack K m1 m2 k (eof_pipeline m1 p k fl ps ops o A) (eof_pipeline m2 p k fl ps ops o B).
Proof. unfold eof_pipeline, eof_transform. rewrite scale_vstack. apply mmul_vstack. Qed.

Theorem pipeline_subset m p k fl ps ops o (I : list nat) X : (forall i, (i < length I)%nat -> (nth i I O < m)%nat) ->
  msel_rows K k I (eof_pipeline m p k fl ps ops o X) = eof_pipeline (length I) p k fl ps ops o (msel_rows K p I X).
Proof. intros HI. unfold eof_pipeline, eof_transform. rewrite mmul_sel_rows by exact HI. rewrite scale_sel_rows by exact HI. reflexivity. Qed.

(* cross-set transform of one field: scale with the fitted statistics, project on the PCA basis (p x q1), whiten
   (q1 x q2), project on the singular vectors (q2 x k), optionally divide each column by its norm *)
Definition cross_pipeline (m p q1 q2 k : nat) fl ps ops (Vp T Cm : mat) (nrm : option (@vec F)) (X : mat) : mat :=
  let S := mmul K m q2 k (mmul K m q1 q2 (mmul K m p q1 (scale_mat K m p fl ps ops X) Vp) T) Cm in
  match nrm with None => S | Some d => tab m k (fun i j => fdiv K (get K S i j) (vget K d j)) end.

Theorem cross_pipeline_concat m1 m2 p q1 q2 k fl ps ops Vp T Cm nrm A B :
  cross_pipeline (m1 + m2) p q1 q2 k fl ps ops Vp T Cm nrm (vstack K m1 m2 p A B) =
  vstack K m1 m2 k (cross_pipeline m1 p q1 q2 k fl ps ops Vp T Cm nrm A) (cross_pipeline m2 p q1 q2 k fl ps ops Vp T Cm nrm B).
Proof. unfold cross_pipeline. rewrite scale_vstack, !mmul_vstack. destruct nrm as [d|]; [|reflexivity].
  unfold vstack at 2. apply tab_ext. intros i j Hi Hj. destruct (Nat.ltb_spec i m1) as [Hlt|Hge].
  - rewrite get_tab by lia. rewrite get_vstack_top by assumption. reflexivity.
  - rewrite get_tab by lia. replace i with (m1 + (i - m1))%nat at 1 by lia. rewrite get_vstack_bot by lia. reflexivity. Qed.

Theorem cross_pipeline_subset m p q1 q2 k fl ps ops Vp T Cm nrm (I : list nat) X : (forall i, (i < length I)%nat -> (nth i I O < m)%nat) ->
  msel_rows K k I (cross_pipeline m p q1 q2 k fl ps ops Vp T Cm nrm X) = cross_pipeline (length I) p q1 q2 k fl ps ops Vp T Cm nrm (msel_rows K p I X).
Proof. intros HI. unfold cross_pipeline. destruct nrm as [d|].
  - set (S := mmul K m q2 k (mmul K m q1 q2 (mmul K m p q1 (scale_mat K m p fl ps ops X) Vp) T) Cm).
    assert (E : mmul K (length I) q2 k (mmul K (length I) q1 q2 (mmul K (length I) p q1 (scale_mat K (length I) p fl ps ops (msel_rows K p I X)) Vp) T) Cm
                = msel_rows K k I S).
    { unfold S. rewrite !mmul_sel_rows by exact HI. rewrite scale_sel_rows by exact HI. reflexivity. }
    rewrite E. unfold msel_rows. apply tab_ext. intros i j Hi Hj. rewrite !get_tab by (try apply HI; lia). reflexivity.
  - rewrite !mmul_sel_rows by exact HI. rewrite scale_sel_rows by exact HI. reflexivity. Qed.

(* rotator tail (divide, rotate, sort, rescale, re-sign) is row-wise too *)
(* a stage that computes entry (i,j) from entry (i, c j) of its input *)
Definition ewise (q : nat) (c : nat -> nat) (h : nat -> F -> F) (m : nat) (X : mat) : mat :=
  tab m q (fun i j => h j (get K X i (c j))).

Lemma ewise_vstack n q c h m1 m2 A B : (forall j, (j < q)%nat -> (c j < n)%nat) ->
  ewise q c h (m1 + m2) (vstack K m1 m2 n A B) = vstack K m1 m2 q (ewise q c h m1 A) (ewise q c h m2 B).
Proof. intros Hc. unfold ewise, vstack at 2. apply tab_ext. intros i j Hi Hj. specialize (Hc j Hj).
  destruct (Nat.ltb_spec i m1) as [Hlt|Hge].
  - rewrite get_tab by lia. rewrite get_vstack_top by assumption. reflexivity.
  - rewrite get_tab by lia. replace i with (m1 + (i - m1))%nat at 1 by lia. rewrite get_vstack_bot by lia. reflexivity. Qed.

Lemma colscale_is_ewise m k A d : colscale K m k A d = ewise k (fun j => j) (fun j x => fmul K x (vget K d j)) m A.
Proof. reflexivity. Qed.
Lemma msel_cols_is_ewise m idx A : msel_cols K m idx A = ewise (length idx) (fun j => nth j idx O) (fun _ x => x) m A.
Proof. reflexivity. Qed.

Theorem rot_transform_concat m1 m2 p k Vk sv RinvT idx stored A B :
  (forall j, (j < length idx)%nat -> (nth j idx O < k)%nat) -> length idx = k ->
  forall sorted,
  rot_transform K (m1 + m2) p k Vk sv RinvT sorted idx stored (vstack K m1 m2 p A B) =
  vstack K m1 m2 k (rot_transform K m1 p k Vk sv RinvT sorted idx stored A) (rot_transform K m2 p k Vk sv RinvT sorted idx stored B).
Proof. intros Hidx Hlen sorted. unfold rot_transform. rewrite mmul_vstack.
  change (tab (m1 + m2) k (fun i j => fdiv K (get K (vstack K m1 m2 k (mmul K m1 p k A Vk) (mmul K m2 p k B Vk)) i j) (vget K sv j)))
    with (ewise k (fun j => j) (fun j x => fdiv K x (vget K sv j)) (m1 + m2) (vstack K m1 m2 k (mmul K m1 p k A Vk) (mmul K m2 p k B Vk))).
  rewrite (ewise_vstack k k) by (intros; lia). rewrite mmul_vstack.
  rewrite !colscale_is_ewise. destruct sorted.
  - rewrite !msel_cols_is_ewise. rewrite (ewise_vstack k (length idx)) by exact Hidx. rewrite Hlen.
    rewrite (ewise_vstack k k) by (intros; lia). rewrite (ewise_vstack k k) by (intros; lia). reflexivity.
  - rewrite (ewise_vstack k k) by (intros; lia). rewrite (ewise_vstack k k) by (intros; lia). reflexivity. Qed.

(* dropping entirely missing samples commutes with concatenation (lists of optional rows) *)
Theorem drop_missing_concat {A} (valid : A -> bool) (rows1 rows2 : list A) :
  filter valid (rows1 ++ rows2) = filter valid rows1 ++ filter valid rows2.
Proof. apply filter_app. Qed.

End C05.
