(* the cross-set core commutes with every homomorphism of scalar instances: a Complex cross-set model fed real data
   equals the real model, embedded *)
From Coq Require Import ZArith List Bool Lia Arith Reals.
From Coquelicot Require Import Complex.
From XV Require Import Base.Scalar Base.Sum Base.Mat Base.Hom Base.RInst Base.CInst Model.Eof Model.Cpcca Proofs.Hom_eof.
Import ListNotations.

Section HomCpcca.
Context {F G : Type} (K1 : Ops F) (K2 : Ops G) (h : F -> G).
Hypothesis H : OpsHom K1 K2 h.
Notation mmap := (mmap h). Notation vmaph := (vmaph h).

Lemma frob2_hom m n A : frob2 K2 m n (mmap A) = h (frob2 K1 m n A).
Proof. unfold frob2. rewrite <- (sum_hom K1 K2 h H). apply sum_ext_all. intros i. rewrite <- (sum_hom K1 K2 h H). apply sum_ext_all. intros j.
  rewrite (get_mmap K1 K2 h H), (h_mul _ _ _ H), (h_conj _ _ _ H). reflexivity. Qed.

Lemma cross_cov_hom n p1 p2 X Y : cross_cov K2 n p1 p2 (mmap X) (mmap Y) = mmap (cross_cov K1 n p1 p2 X Y).
Proof. unfold cross_cov. rewrite (mH_hom K1 K2 h H), (mmul_hom K1 K2 h H). rewrite <- (h_ofZ _ _ _ H), <- (h_inv _ _ _ H).
  apply (mscale_hom K1 K2 h H). Qed.

Definition cpmap (o : @cp_out F) : @cp_out G :=
  {| cp_Q1 := mmap (cp_Q1 o); cp_Q2 := mmap (cp_Q2 o); cp_sigma := vmaph (cp_sigma o);
     cp_S1 := mmap (cp_S1 o); cp_S2 := mmap (cp_S2 o); cp_tsc := h (cp_tsc o) |}.

Theorem cpcca_fit_hom n p1 p2 r k X Y a :
  cpcca_fit K2 n p1 p2 r k (mmap X) (mmap Y) (amap h a) = cpmap (cpcca_fit K1 n p1 p2 r k X Y a).
Proof. destruct a as [[U s] Vt]. unfold cpcca_fit, amap, cpcca_fit_sg, cpmap. cbv beta iota zeta.
  cbn [cp_Q1 cp_Q2 cp_sigma cp_S1 cp_S2 cp_tsc].
  rewrite !(mrows_hom K1 K2 h H), (row_signs_hom K1 K2 h H), !(rowscale_hom K1 K2 h H), !(mH_hom K1 K2 h H),
          !(colscale_hom K1 K2 h H), (vfirstn_hom K1 K2 h H), !(mmul_hom K1 K2 h H), cross_cov_hom, frob2_hom. reflexivity. Qed.
End HomCpcca.

Theorem complex_cross_on_real_data n p1 p2 r k (X Y : list (list R)) (a : @svd_answer R) :
  svd_ok OR p1 p2 r (cross_cov OR n p1 p2 X Y) a ->
  svd_ok OCR p1 p2 r (cross_cov OCR n p1 p2 (mmap RtoC X) (mmap RtoC Y)) (amap RtoC a) /\
  cpcca_fit OCR n p1 p2 r k (mmap RtoC X) (mmap RtoC Y) (amap RtoC a) = cpmap RtoC (cpcca_fit OR n p1 p2 r k X Y a).
Proof. intros Hs. split.
  - rewrite (cross_cov_hom OR OCR RtoC RtoC_hom). apply (svd_ok_hom OR OCR RtoC RtoC_hom). exact Hs.
  - apply (cpcca_fit_hom OR OCR RtoC RtoC_hom). Qed.
