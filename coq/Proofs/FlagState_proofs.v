From Coq Require Import List Bool.
From XV Require Import Model.FlagState.
Import ListNotations.

Section FlagProofs.
Variable A : Type.
Variable sortA : list nat -> A -> A.
Notation fstep := (fstep A sortA true true).
Notation frun := (frun A sortA true true).
Notation FlagInv := (FlagInv A sortA).

Lemma finit_inv d idx : FlagInv (finit A d idx).
Proof. reflexivity. Qed.

Lemma fstep_inv s o : FlagInv s -> FlagInv (fstep s o).
Proof. unfold FlagInv. intros H. destruct o as [d idx|]; cbn.
  - reflexivity.
  - destruct (fs_sorted A s) eqn:E; cbn; rewrite H; reflexivity. Qed.

Theorem frun_inv ops : forall s, FlagInv s -> FlagInv (frun s ops).
Proof. induction ops as [|o ops IH]; intros s H; cbn; [exact H|]. apply IH. apply fstep_inv. exact H. Qed.

(* after any history ending in compute, the stored arrays are the LAST fit's arrays sorted by the LAST fit's permutation *)
Theorem after_compute_sorted ops s : FlagInv s ->
  let s' := frun s (ops ++ [FCompute A]) in fs_sorted A s' = true /\ fs_data A s' = sortA (fs_idx A s') (fs_fresh A s').
Proof. intros H s'. assert (Hi : FlagInv s') by (apply frun_inv; exact H).
  assert (Hs : fs_sorted A s' = true) by (unfold s', FlagState.frun; rewrite fold_left_app; reflexivity).
  split; [exact Hs|]. unfold FlagState.FlagInv in Hi. rewrite Hs in Hi. exact Hi. Qed.

(* a fit starts from the state a first fit starts from, whatever came before *)
Theorem fit_forgets_history ops s d idx :
  fstep (frun s ops) (FFit A d idx) = finit A d idx.
Proof. reflexivity. Qed.

(* the ghost field is what the last fit produced *)
Fixpoint last_fit (ops : list (fop A)) (acc : A * list nat) : A * list nat :=
  match ops with [] => acc | FFit _ d idx :: r => last_fit r (d, idx) | FCompute _ :: r => last_fit r acc end.
Lemma fresh_is_last_fit ops : forall s, (fs_fresh A (frun s ops), fs_idx A (frun s ops)) = last_fit ops (fs_fresh A s, fs_idx A s).
Proof. induction ops as [|o ops IH]; intros s; [reflexivity|]. change (frun s (o :: ops)) with (frun (fstep s o) ops). rewrite IH.
  destruct o as [d idx|]; reflexivity. Qed.
End FlagProofs.

(* ---- variants refuted by computation: arrays = list of numbers, sorting = re-indexing ---- *)
Definition reindex (idx : list nat) (l : list nat) : list nat := map (fun i => nth i l 0) idx.
Definition hist : list (fop (list nat)) :=
  [FCompute _; FFit _ [10; 30; 20] [1; 2; 0]; FCompute _].

(* the flag is not reset by a fit: the second fit's arrays stay unsorted although the flag says sorted *)
Lemma no_reset_refuted :
  let s := FlagState.frun (list nat) reindex false true (finit _ [1; 3; 2] [1; 2; 0]) hist in
  fs_sorted _ s = true /\ fs_data _ s = [10; 30; 20] /\ reindex (fs_idx _ s) (fs_fresh _ s) = [30; 20; 10].
Proof. vm_compute. repeat split. Qed.

(* sorting is not guarded by the flag: a second compute() re-indexes again *)
Lemma unguarded_sort_refuted :
  let s := FlagState.frun (list nat) reindex true false (finit _ [1; 3; 2] [1; 2; 0]) [FCompute _; FCompute _] in
  fs_data _ s = [2; 1; 3] /\ reindex (fs_idx _ s) (fs_fresh _ s) = [3; 2; 1].
Proof. vm_compute. repeat split. Qed.

(* and the faithful variant on the same histories *)
Example faithful_on_hist :
  let s := FlagState.frun (list nat) reindex true true (finit _ [1; 3; 2] [1; 2; 0]) hist in
  fs_sorted _ s = true /\ fs_data _ s = [30; 20; 10].
Proof. vm_compute. repeat split. Qed.
