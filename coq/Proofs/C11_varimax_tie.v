(* the matrix whose SVD drives one Varimax iteration, as the source computes it (Gen/T5rot.v: varimax_update_src,
   emitted after a statement-by-statement match of _rotation.py:_varimax), is the matrix the criterion statement of
   Props/C11.v talks about *)
From Coq Require Import String ZArith List Bool Reals Lra Lia.
From XV Require Import Base.Scalar Base.Sum Base.Mat Base.RInst Gen.T5rot.
Import ListNotations.
Open Scope R_scope.

Definition varimax_target_real (p k : nat) (X Rm : list (list R)) : list (list R) :=
  let B := mmul OR p k k X Rm in
  let W := fun j => sum OR p (fun f => ((get OR B f j) ^ 2)%R) in
  mmul OR k p k (mT OR p k X) (tab p k (fun f j => (get OR B f j * ((get OR B f j) ^ 2 - W j / INR p))%R)).

Lemma varimax_update_matches_source (p k : nat) (X Rm : list (list R)) : (0 < p)%nat ->
  varimax_target_real p k X Rm = varimax_update_src OR p k X Rm.
Proof. intros Hp. unfold varimax_target_real, varimax_update_src. cbv zeta.
  assert (Hn : INR p <> 0) by (apply not_0_INR; lia).
  f_equal. apply tab_ext. intros f j Hf Hj. cbn [fmul fsub fdiv fconj fofZ OR].
  rewrite (sum_ext OR p (fun f0 => (get OR (mmul OR p k k X Rm) f0 j ^ 2)%R)
                       (fun f0 => (get OR (mmul OR p k k X Rm) f0 j * get OR (mmul OR p k k X Rm) f0 j)%R)) by (intros; ring).
  rewrite <- INR_IZR_INZ. field. exact Hn. Qed.

Lemma varimax_iteration_shape : varimax_next_is_U_times_VT = true /\ varimax_starts_from_identity = true.
Proof. split; reflexivity. Qed.

(* Kaiser normalisation: every row is divided by (h + eps) before the iteration and multiplied by (h + eps) after it (Gen/T5rot.v:
   kaiser_norm / kaiser_denorm, promax_norm / promax_denorm, translated from the source). The pair is the identity on every row, whatever
   the size of h - the rotated loadings are the loadings times the rotation matrix exactly, in any physical units. *)
Section Kaiser.
Context {F : Type} (K : Ops F) (FL : FieldLaws K).
Add Field Ffkaiser : (FL_field K FL).
Lemma kaiser_pair_is_identity (h eps x : F) : fadd K h eps <> f0 K ->
  fmul K (kaiser_denorm K h eps) (fmul K (kaiser_norm K h eps) x) = x /\
  fmul K (promax_denorm K h eps) (fmul K (promax_norm K h eps) x) = x.
Proof. intros Hne. unfold kaiser_denorm, kaiser_norm, promax_denorm, promax_norm. rewrite (FL_ofZ_1 K FL).
  split; field; exact Hne. Qed.
End Kaiser.

(* the variant that multiplies back with h alone (the source up to the repair of this finding) is not the identity: a row of communality
   h comes back shrunk by h / (h + eps), a relative error eps / h that grows as the units of the data shrink *)
Definition kaiser_denorm_old (h eps : R) : R := h.
Lemma kaiser_old_pair_refuted : exists h eps x : R, (h + eps <> 0 /\ kaiser_denorm_old h eps * (kaiser_norm OR h eps * x) <> x)%R.
Proof. exists 1%R, 1%R, 2%R. unfold kaiser_denorm_old, kaiser_norm. cbn [fdiv fadd fofZ OR]. split; [lra|]. intro H. lra. Qed.
Lemma kaiser_old_relative_error (h eps x : R) : (0 < h -> 0 < eps ->
  x - kaiser_denorm_old h eps * (kaiser_norm OR h eps * x) = x * (eps / (h + eps)))%R.
Proof. intros Hh He. unfold kaiser_denorm_old, kaiser_norm. cbn [fdiv fadd fofZ OR]. field. lra. Qed.
