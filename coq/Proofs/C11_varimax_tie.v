(* the matrix whose SVD drives one Varimax iteration, as the source computes it (Gen/T5rot.v: varimax_update_src,
   emitted after a statement-by-statement match of _rotation.py:_varimax), is the matrix the criterion statement of
   Props/C11.v talks about *)
From Coq Require Import String ZArith List Bool Reals Lra Lia.
From XV Require Import Base.Scalar Base.Sum Base.Mat Base.RInst Gen.T5rot.
Import ListNotations.
Open Scope R_scope.

Definition varimax_target_real (p k : nat) (X Rm : list (list R)) : list (list R) :=
  let B := mmul OR p k k X Rm in
  let W := fun j => sum OR p (fun f => ((get OR B f j) ^ 2)%R) in
  mmul OR k p k (mT OR p k X) (tab p k (fun f j => (get OR B f j * ((get OR B f j) ^ 2 - W j / INR p))%R)).

Lemma varimax_update_matches_source (p k : nat) (X Rm : list (list R)) : (0 < p)%nat ->
  varimax_target_real p k X Rm = varimax_update_src OR p k X Rm.
Proof. intros Hp. unfold varimax_target_real, varimax_update_src. cbv zeta.
  assert (Hn : INR p <> 0) by (apply not_0_INR; lia).
  f_equal. apply tab_ext. intros f j Hf Hj. cbn [fmul fsub fdiv fconj fofZ OR].
  rewrite (sum_ext OR p (fun f0 => (get OR (mmul OR p k k X Rm) f0 j ^ 2)%R)
                       (fun f0 => (get OR (mmul OR p k k X Rm) f0 j * get OR (mmul OR p k k X Rm) f0 j)%R)) by (intros; ring).
  rewrite <- INR_IZR_INZ. field. exact Hn. Qed.

Lemma varimax_iteration_shape : varimax_next_is_U_times_VT = true /\ varimax_starts_from_identity = true.
Proof. split; reflexivity. Qed.
