(* ties between the entry-point model (Model/Validate.v) and what the translator reads off the
   source (Gen/T1.v): the order of calls the model composes the validators in *)
From Coq Require Import String ZArith List Bool.
From XV Require Import Base.Scalar Model.DecompLib Model.ValidateLib Gen.T3 Gen.T1 Model.Validate.
Import ListNotations.

Lemma tie_entry_point_orders :
  single_fit_order = declared_single_fit_order /\
  single_transform_order = declared_single_transform_order /\
  cross_fit_order = declared_cross_fit_order /\
  eof_fit_algorithm_order = ["Decomposer"; "decomposer.fit"]%string /\
  cpcca_fit_algorithm_order = ["self._compute_cross_matrix"; "Decomposer"; "decomposer.fit"]%string /\
  decomposer_init_checks_n_modes_first = true.
Proof. repeat split; reflexivity. Qed.

Lemma tie_preprocessor_orders :
  map fst preprocessor_transformer_order = declared_transformer_order /\
  stacker_transform_order = declared_stacker_transform_order /\
  stacker_sanity_check_order = declared_stacker_sanity_order /\
  stacker_fit_order = ["self._sanity_check"]%string /\
  sanitizer_transform_order = declared_sanitizer_transform_order.
Proof. repeat split; reflexivity. Qed.

(* the broadcasting the faithful model attributes to the Scaler is unconditional: the last operand
   of Scaler.transform is applied under no flag, and DimensionRenamer re-raises as ValueError *)
Lemma tie_scaler_always_broadcasts :
  existsb (fun fa => String.eqb (fst fa) "always" && String.eqb (snd fa) "weights_") scaler_transform_operands = true /\
  renamer_transform_error = EValueError /\ dec_rank_error = EValueError /\
  eof_inverse_selects_by_label = true.
Proof. repeat split; reflexivity. Qed.

Lemma tie_orders_summary :
  single_fit_order = declared_single_fit_order /\ single_transform_order = declared_single_transform_order /\
  map fst preprocessor_transformer_order = declared_transformer_order /\
  stacker_transform_order = declared_stacker_transform_order.
Proof. repeat split; reflexivity. Qed.
