(* C18 — POP modes are eigen-pairs of the lag-1 feedback matrix: algebra over an abstract
   field with involution. *)
From Coq Require Import ZArith List Bool Ring Field Setoid Lia Arith Permutation.
From XV Require Import Base.Scalar Base.Sum Base.Mat Base.MatAlg Base.Perm Model.Pop.
Import ListNotations.

Section C18.
Context {F : Type} (K : Ops F).
Hypothesis FL : FieldLaws K.
Add Field Ffc18 : (FL_field K FL).
Notation "0" := (f0 K). Notation "1" := (f1 K).
Infix "+" := (fadd K). Infix "*" := (fmul K). Infix "-" := (fsub K). Infix "/" := (fdiv K).
Notation "- x" := (fopp K x).
Notation cj := (fconj K).
Notation mat := (@mat F). Notation vec := (@vec F).
Notation get := (get K). Notation vget := (vget K).
Notation mmul := (mmul K). Notation mH := (mH K). Notation mI := (mI K). Notation mdiag := (mdiag K).
Notation mconj := (mconj K). Notation mscale := (mscale K). Notation colscale := (colscale K).
Notation msel_cols := (msel_cols K). Notation wf := (wf K). Notation vwf := (vwf K).
Notation sum := (sum K).
Notation inv_ok := (inv_ok K). Notation eig_ok := (eig_ok K). Notation real_mat := (real_mat K).
Notation lag0 := (lag0 K). Notation lag1 := (lag1 K). Notation feedback := (feedback K).
Notation psel := (psel K).

Ltac mx := mat_unfold; apply tab_ext; intros i j Hi Hj; get_simpl.
Ltac sx := apply (sum_ext K); (let l := fresh "l" in let H := fresh "Hl" in intros l H); get_simpl.

(* ------------------------------------------------------------------ inverse oracle *)
Lemma inv_unique q C B B' : inv_ok q C B -> inv_ok q C B' -> B = B'.
Proof. intros (WB & _ & HBC) (WB' & HCB' & _).
  rewrite <- (mmul_I_r K FL q q B WB). rewrite <- HCB'. rewrite <- (mmul_assoc K FL). rewrite HBC.
  apply (mmul_I_l K FL). exact WB'. Qed.

Lemma inv_scale q C Ci c : c <> 0 -> inv_ok q C Ci -> inv_ok q (mscale q q c C) (mscale q q (finv K c) Ci).
Proof. intros Hc (W & H1 & H2). split; [apply wf_mscale|]. split.
  - rewrite (mmul_mscale_l K FL), (mmul_mscale_r K FL), H1. mx. field. exact Hc.
  - rewrite (mmul_mscale_l K FL), (mmul_mscale_r K FL), H2. mx. field. exact Hc. Qed.

Lemma mul_scale_cancel q C1 Ci c : c <> 0 ->
  mmul q q q (mscale q q c C1) (mscale q q (finv K c) Ci) = mmul q q q C1 Ci.
Proof. intros Hc. rewrite (mmul_mscale_l K FL), (mmul_mscale_r K FL). mx. field. exact Hc. Qed.

(* the translated expression with lag covariances under ANY common non-zero normalisation c
   (1/(N-1), 1/N, ...) is C1 C0^{-1}, whatever inverse the oracle returns *)
Lemma feedback_normalisation n q X C0inv c : c <> 0 -> inv_ok q (lag0 n q X) C0inv ->
  inv_ok q (mscale q q c (lag0 n q X)) (mscale q q (finv K c) C0inv) /\
  mmul q q q (mscale q q c (lag1 n q X)) (mscale q q (finv K c) C0inv) = feedback n q X C0inv /\
  (forall B, inv_ok q (mscale q q c (lag0 n q X)) B -> mmul q q q (mscale q q c (lag1 n q X)) B = feedback n q X C0inv) /\
  (forall B, inv_ok q (lag0 n q X) B -> feedback n q X B = feedback n q X C0inv).
Proof. intros Hc Hi. pose proof (inv_scale q _ _ c Hc Hi) as Hs. split; [exact Hs|]. split; [|split].
  - apply mul_scale_cancel; exact Hc.
  - intros B HB. rewrite (inv_unique _ _ _ _ HB Hs). apply mul_scale_cancel; exact Hc.
  - intros B HB. rewrite (inv_unique _ _ _ _ HB Hi). reflexivity. Qed.

(* ------------------------------------------------------------------ eigen-pairs *)
(* PC space -> physical space: V has orthonormal columns *)
Lemma eigen_lift p q V A P lam : mmul q p q (mH p q V) V = mI q -> eig_ok q A P lam ->
  mmul p p q (mmul p q p (mmul p q q V A) (mH p q V)) (mmul p q q V P)
  = mmul p q q (mmul p q q V P) (mdiag q lam).
Proof. intros HVV (WP & _ & He).
  rewrite (mmul_assoc K FL p q p q). rewrite <- (mmul_assoc K FL q p q q). rewrite HVV.
  rewrite (mmul_I_l K FL q q P WP). rewrite (mmul_assoc K FL p q q q). rewrite He.
  rewrite <- (mmul_assoc K FL p q q q). reflexivity. Qed.

Lemma mmul_colscale_r m n o A B d : mmul m n o A (colscale n o B d) = colscale m o (mmul m n o A B) d.
Proof. mx. rewrite <- (sum_scale_r K FL). sx. ring. Qed.

(* rescaling the columns of P (e.g. by the norms) keeps every column an eigenvector of the same eigenvalue *)
Lemma eigen_colscale q A P lam d : mmul q q q A P = mmul q q q P (mdiag q lam) ->
  mmul q q q A (colscale q q P d) = mmul q q q (colscale q q P d) (mdiag q lam).
Proof. intros He. rewrite (mmul_diag_r K FL) in *. rewrite mmul_colscale_r, He. mx. ring. Qed.

Lemma eigen_pointwise q A P lam : mmul q q q A P = mmul q q q P (mdiag q lam) ->
  forall i j, (i < q)%nat -> (j < q)%nat -> sum q (fun k => get A i k * get P k j) = get P i j * vget lam j.
Proof. intros He i j Hi Hj. rewrite (mmul_diag_r K FL) in He.
  assert (H := f_equal (fun M => get M i j) He). cbn beta in H. unfold Mat.mmul, Mat.colscale in H.
  rewrite !get_tab in H by lia. exact H. Qed.

(* ------------------------------------------------------------------ conjugation *)
Lemma mconj_mmul m n o A B : mconj m o (mmul m n o A B) = mmul m n o (mconj m n A) (mconj n o B).
Proof. mx. rewrite (sum_conj K FL). sx. apply (FL_conj_mul K FL). Qed.

Lemma mconj_colscale m n A d : mconj m n (colscale m n A d) = colscale m n (mconj m n A) (vmap K n cj d).
Proof. mx. apply (FL_conj_mul K FL). Qed.

Lemma mconj_I n : mconj n n (mI n) = mI n.
Proof. mx. apply (cj_delta K FL). Qed.

Lemma mconj_of_real m n A : wf m n A -> real_mat m n A -> mconj m n A = A.
Proof. intros W Hr. rewrite W at 2. mx. apply Hr; assumption. Qed.

Lemma real_of_mconj m n A : mconj m n A = A -> real_mat m n A.
Proof. intros H i j Hi Hj. rewrite <- H at 2. unfold Mat.mconj. rewrite get_tab by assumption. reflexivity. Qed.

Lemma real_mmul m n o A B : real_mat m n A -> real_mat n o B -> real_mat m o (mmul m n o A B).
Proof. intros HA HB i j Hi Hj. unfold Mat.mmul. rewrite get_tab by assumption. rewrite (sum_conj K FL).
  apply (sum_ext K). intros k Hk. rewrite (FL_conj_mul K FL), HA, HB by assumption. reflexivity. Qed.

Lemma real_mH m n A : real_mat m n A -> real_mat n m (mH m n A).
Proof. intros HA i j Hi Hj. unfold Mat.mH. rewrite get_tab by assumption. rewrite (FL_conj_invol K FL).
  symmetry. apply HA; assumption. Qed.

Lemma real_head n q X : real_mat n q X -> real_mat (n - 1) q (head_rows K n q X).
Proof. intros HX i j Hi Hj. unfold head_rows. rewrite get_tab by assumption. apply HX; lia. Qed.
Lemma real_tail n q X : real_mat n q X -> real_mat (n - 1) q (tail_rows K n q X).
Proof. intros HX i j Hi Hj. unfold tail_rows. rewrite get_tab by assumption. apply HX; lia. Qed.

(* the inverse of a real matrix is real (by uniqueness of the inverse) *)
Lemma real_inverse q C Ci : wf q q C -> real_mat q q C -> inv_ok q C Ci -> real_mat q q Ci.
Proof. intros WC HC Hi. apply real_of_mconj. apply (inv_unique q C); [|exact Hi].
  destruct Hi as (W & H1 & H2). split; [apply wf_mconj|]. split.
  - rewrite <- (mconj_of_real q q C WC HC) at 1. rewrite <- mconj_mmul, H1. apply mconj_I.
  - rewrite <- (mconj_of_real q q C WC HC) at 1. rewrite <- mconj_mmul, H2. apply mconj_I. Qed.

(* ------------------------------------------------------------------ noise-free linear system *)
(* x_{t+1} = A x_t for every step of the series  =>  C1 = conj(A) C0, so the feedback matrix IS
   (the conjugate of) A: for real A the recovered matrix, hence its eigenvalues, are the true ones *)
Lemma lag1_of_linear n q X A :
  (forall t j, (S t < n)%nat -> (j < q)%nat -> get X (S t) j = sum q (fun k => get A j k * get X t k)) ->
  lag1 n q X = mmul q q q (mconj q q A) (lag0 n q X).
Proof. intros HX. unfold Pop.lag1, Pop.lag0, tail_rows, head_rows. mx.
  rewrite (sum_ext K (n - 1) _ (fun t => sum q (fun k => cj (get A i k) * (cj (get X t k) * get X t j)))).
  2:{ intros t Ht. get_simpl. cbn [Nat.add]. rewrite HX by lia. rewrite (sum_conj K FL). rewrite <- (sum_scale_r K FL).
      apply (sum_ext K). intros k Hk. rewrite (FL_conj_mul K FL). ring. }
  rewrite (sum_swap K FL). sx. rewrite <- (sum_scale_l K FL). apply (sum_ext K). intros t Ht. get_simpl. reflexivity. Qed.

Lemma feedback_recovers n q X A C0inv : wf q q A -> real_mat q q A ->
  (forall t j, (S t < n)%nat -> (j < q)%nat -> get X (S t) j = sum q (fun k => get A j k * get X t k)) ->
  inv_ok q (lag0 n q X) C0inv ->
  feedback n q X C0inv = A /\ forall P lam, eig_ok q (feedback n q X C0inv) P lam -> eig_ok q A P lam.
Proof. intros WA HA HX (W & H1 & H2).
  assert (E : feedback n q X C0inv = A).
  { unfold Pop.feedback. rewrite (lag1_of_linear n q X A HX). rewrite (mmul_assoc K FL). rewrite H1.
    rewrite (mmul_I_r K FL) by apply wf_mconj. apply mconj_of_real; assumption. }
  split; [exact E|]. intros P lam He. rewrite E in He. exact He. Qed.

(* real time series -> real feedback matrix *)
Lemma feedback_real n q X C0inv : real_mat n q X -> inv_ok q (lag0 n q X) C0inv -> real_mat q q (feedback n q X C0inv).
Proof. intros HX Hi. unfold Pop.feedback. apply real_mmul.
  - unfold Pop.lag1. apply real_mmul; [apply real_mH, real_tail, HX|apply real_head, HX].
  - apply (real_inverse q (lag0 n q X)); [apply wf_mmul| |exact Hi].
    unfold Pop.lag0. apply real_mmul; [apply real_mH, real_head, HX|apply real_head, HX]. Qed.

(* A real: (conj lam, conj p) is an eigen-pair whenever (lam, p) is *)
Lemma conjugate_closed q A P lam : wf q q A -> real_mat q q A -> eig_ok q A P lam ->
  eig_ok q A (mconj q q P) (vmap K q cj lam).
Proof. intros WA HA (WP & Wl & He). split; [apply wf_mconj|]. split; [apply vwf_vtab|].
  assert (H := f_equal (mconj q q) He). rewrite mconj_mmul in H. rewrite (mconj_of_real q q A WA HA) in H.
  rewrite H. rewrite !(mmul_diag_r K FL). apply mconj_colscale. Qed.

Lemma conjugate_closed_feedback n q X C0inv P lam : real_mat n q X -> inv_ok q (lag0 n q X) C0inv ->
  eig_ok q (feedback n q X C0inv) P lam -> eig_ok q (feedback n q X C0inv) (mconj q q P) (vmap K q cj lam).
Proof. intros HX Hi He. apply conjugate_closed; [apply wf_mmul|apply feedback_real; assumption|exact He]. Qed.

(* ------------------------------------------------------------------ common column selection / sorting *)
Lemma mmul_msel_cols m n o A B (idx : list nat) : (forall j, (j < length idx)%nat -> (nth j idx O < o)%nat) ->
  mmul m n (length idx) A (msel_cols n idx B) = msel_cols m idx (mmul m n o A B).
Proof. intros Hin. mx. rewrite get_tab by (try apply Hin; lia). sx. reflexivity. Qed.

Lemma eigen_select q A P lam (idx : list nat) : (forall j, (j < length idx)%nat -> (nth j idx O < q)%nat) ->
  mmul q q q A P = mmul q q q P (mdiag q lam) ->
  mmul q q (length idx) A (msel_cols q idx P)
  = mmul q (length idx) (length idx) (msel_cols q idx P) (mdiag (length idx) (psel idx lam)).
Proof. intros Hin He. rewrite (mmul_diag_r K FL). pose proof (eigen_pointwise q A P lam He) as Hp.
  unfold Pop.psel. mx. rewrite <- (Hp i (nth j idx O) Hi (Hin j Hj)). sx. reflexivity. Qed.

Lemma perm_idx_lt q (idx : list nat) : Permutation idx (seq 0 q) ->
  length idx = q /\ forall j, (j < length idx)%nat -> (nth j idx O < q)%nat.
Proof. intros Hp. split; [rewrite (Permutation_length Hp), seq_length; reflexivity|].
  intros j Hj. assert (In (nth j idx O) (seq 0 q)) by (eapply Permutation_in; [exact Hp|apply nth_In; exact Hj]).
  apply in_seq in H. lia. Qed.

Lemma eigen_sorted q A P lam (idx : list nat) : Permutation idx (seq 0 q) -> eig_ok q A P lam ->
  eig_ok q A (msel_cols q idx P) (psel idx lam).
Proof. intros Hp (WP & Wl & He). destruct (perm_idx_lt q idx Hp) as [Hl Hin].
  split; [rewrite <- Hl at 2; apply wf_tab|]. split; [rewrite <- Hl at 1; apply vwf_vtab|].
  pose proof (eigen_select q A P lam idx Hin He) as H. rewrite Hl in H. exact H. Qed.

(* ------------------------------------------------------------------ damping times and periods *)
Section TauT.
Variables (flog farg : F -> F) (pi : F).

Lemma tau_conj lam : fabs K (cj lam) = fabs K lam -> pop_tau K flog (cj lam) = pop_tau K flog lam.
Proof. intros H. unfold pop_tau. rewrite H. reflexivity. Qed.

Lemma period_conj lam : farg (cj lam) = - farg lam -> farg lam <> 0 ->
  pop_period K pi farg (cj lam) = - pop_period K pi farg lam.
Proof. intros H Hnz. unfold pop_period. rewrite H. field. split; [exact Hnz|].
  intros E. apply Hnz. replace (farg lam) with (- - farg lam) by ring. rewrite E. ring. Qed.
End TauT.

(* ------------------------------------------------------------------ coefficients *)
Section Coeff.
Variables (re im : F -> F) (iu : F).
Notation pop_coeff := (pop_coeff K re im iu). Notation pop_coeffs := (pop_coeffs K re im iu).
Notation gram2 := (gram2 K re im).

Lemma pop_coeff_ext q X P P' Mi t j j' : (forall f, (f < q)%nat -> get P f j = get P' f j') ->
  pop_coeff q X P Mi t j = pop_coeff q X P' Mi t j'.
Proof. intros H. unfold Pop.pop_coeff. destruct Mi as [[[a b] c] d].
  rewrite (sum_ext K q (fun f => get X t f * re (get P f j)) (fun f => get X t f * re (get P' f j')))
    by (intros f Hf; rewrite H by exact Hf; reflexivity).
  rewrite (sum_ext K q (fun f => get X t f * im (get P f j)) (fun f => get X t f * im (get P' f j')))
    by (intros f Hf; rewrite H by exact Hf; reflexivity).
  reflexivity. Qed.

Lemma nth_lsel {A} (d : A) (idx : list nat) (l : list A) j : (j < length idx)%nat ->
  nth j (lsel d idx l) d = nth (nth j idx O) l d.
Proof. intros Hj. unfold lsel. rewrite (nth_indep _ d (nth O l d)) by (rewrite map_length; exact Hj).
  rewrite (map_nth (fun i => nth i l d) idx O j). reflexivity. Qed.

(* the coefficient function acts column by column: it commutes with a common re-indexing of the modes *)
Lemma pop_coeffs_select n q X P Minvs (idx : list nat) : length idx = q ->
  (forall j, (j < length idx)%nat -> (nth j idx O < q)%nat) ->
  pop_coeffs n q X (msel_cols q idx P) (lsel (q0 K) idx Minvs) = msel_cols n idx (pop_coeffs n q X P Minvs).
Proof. intros Hl Hin. unfold Pop.pop_coeffs, Mat.msel_cols. rewrite Hl. apply tab_ext. intros t j Ht Hj.
  rewrite get_tab by (try apply Hin; lia). rewrite nth_lsel by lia.
  apply pop_coeff_ext. intros f Hf. rewrite get_tab by lia. reflexivity. Qed.

(* PCA round trip of the components: V^H (V P) = P *)
Lemma pca_components_roundtrip p q c V P : mmul q p q (mH p q V) V = mI q -> wf q c P ->
  pca_transform_components K p q c V (pca_inverse_transform_components K p q c V P) = P.
Proof. intros HVV WP. unfold pca_transform_components, pca_inverse_transform_components.
  rewrite <- (mmul_assoc K FL). rewrite HVV. apply (mmul_I_l K FL). exact WP. Qed.

Section Training.
Variables (flog farg : F -> F) (pi : F).
Notation pop_fit := (pop_fit K re im iu flog farg pi).

(* transform(training data) recomputes exactly the fitted coefficients: before sorting ... *)
Lemma transform_training_unsorted n p q V P lam Minvs Xn : mmul q p q (mH p q V) V = mI q -> wf q q P ->
  let fitted := pop_fit n p q (pca_transform K n p q V Xn) V P lam Minvs in
  pop_transform K re im iu n p q V (p_comps fitted) Minvs Xn = p_scores fitted.
Proof. intros HVV WP. cbn zeta. unfold pop_transform, Pop.pop_fit. cbn [p_comps p_scores].
  rewrite (pca_components_roundtrip p q q V P HVV WP). reflexivity. Qed.

(* ... and after every mode-indexed array was re-ordered by idx (the oracle answers for the
   re-ordered columns are the re-ordered answers) *)
Lemma transform_training n p q V P lam Minvs Xn (idx : list nat) :
  mmul q p q (mH p q V) V = mI q -> wf q q P -> Permutation idx (seq 0 q) ->
  let fitted := pop_sort K n p idx (pop_fit n p q (pca_transform K n p q V Xn) V P lam Minvs) in
  pop_transform K re im iu n p q V (p_comps fitted) (lsel (q0 K) idx Minvs) Xn = p_scores fitted.
Proof. intros HVV WP Hp. destruct (perm_idx_lt q idx Hp) as [Hl Hin]. cbn zeta.
  unfold pop_transform, pop_sort, Pop.pop_fit. cbn [p_comps p_scores].
  unfold pca_transform_components, pca_inverse_transform_components.
  assert (H : mmul q p q (mH p q V) (msel_cols p idx (mmul p q q V P)) = msel_cols q idx P).
  { pose proof (mmul_msel_cols q p q (mH p q V) (mmul p q q V P) idx Hin) as H1. rewrite Hl in H1. rewrite H1.
    rewrite <- (mmul_assoc K FL). rewrite HVV. rewrite (mmul_I_l K FL q q P WP). reflexivity. }
  rewrite H. apply pop_coeffs_select; assumption. Qed.

(* tau and T are functions of the very eigenvalue stored beside them, before and after sorting *)
Lemma tau_T_aligned n p q X V P lam Minvs (idx : list nat) :
  (forall j, (j < length idx)%nat -> (nth j idx O < q)%nat) ->
  let o := pop_sort K n p idx (pop_fit n p q X V P lam Minvs) in
  forall j, (j < length idx)%nat ->
    vget (p_tau o) j = pop_tau K flog (vget (p_lam o) j) /\ vget (p_T o) j = pop_period K pi farg (vget (p_lam o) j) /\
    vget (p_lam o) j = vget lam (nth j idx O).
Proof. intros Hin o j Hj. subst o. unfold pop_sort, Pop.pop_fit. cbn [p_tau p_T p_lam]. unfold Pop.psel, vmap.
  rewrite !vget_vtab by (try apply Hin; lia). repeat split; reflexivity. Qed.
End Training.

(* least-squares recovery: if sample t is alpha Re p + beta Im p and the oracle inverts the Gram
   matrix, the coefficient is alpha + i beta *)
Lemma coeff_recovers q X P Mi t j alpha beta :
  q_mul K Mi (gram2 q P j) = q_I K ->
  (forall f, (f < q)%nat -> get X t f = alpha * re (get P f j) + beta * im (get P f j)) ->
  pop_coeff q X P Mi t j = coeff_combine K iu alpha beta.
Proof. intros HM HX. unfold Pop.pop_coeff. destruct Mi as [[[a b] c] d].
  unfold Pop.gram2, dot, colre, colim, q_mul, q_I in HM.
  set (m00 := sum q (fun f => re (get P f j) * re (get P f j))).
  set (m01 := sum q (fun f => re (get P f j) * im (get P f j))).
  set (m11 := sum q (fun f => im (get P f j) * im (get P f j))).
  assert (E00 : sum q (fun f => vget (vtab q (fun f0 => re (get P f0 j))) f * vget (vtab q (fun f0 => re (get P f0 j))) f) = m00)
    by (apply (sum_ext K); intros f Hf; get_simpl; reflexivity).
  assert (E01 : sum q (fun f => vget (vtab q (fun f0 => re (get P f0 j))) f * vget (vtab q (fun f0 => im (get P f0 j))) f) = m01)
    by (apply (sum_ext K); intros f Hf; get_simpl; reflexivity).
  assert (E11 : sum q (fun f => vget (vtab q (fun f0 => im (get P f0 j))) f * vget (vtab q (fun f0 => im (get P f0 j))) f) = m11)
    by (apply (sum_ext K); intros f Hf; get_simpl; reflexivity).
  rewrite E00, E01, E11 in HM. injection HM as H1 H2 H3 H4.
  assert (Xr : sum q (fun f => get X t f * re (get P f j)) = alpha * m00 + beta * m01).
  { unfold m00, m01. rewrite <- !(sum_scale_l K FL), <- (sum_add K FL). apply (sum_ext K). intros f Hf.
    rewrite HX by exact Hf. ring. }
  assert (Xi : sum q (fun f => get X t f * im (get P f j)) = alpha * m01 + beta * m11).
  { unfold m01, m11. rewrite <- !(sum_scale_l K FL), <- (sum_add K FL). apply (sum_ext K). intros f Hf.
    rewrite HX by exact Hf. ring. }
  rewrite Xr, Xi. unfold coeff_combine. f_equal; [|f_equal].
  - replace (a * (alpha * m00 + beta * m01) + b * (alpha * m01 + beta * m11))
      with (alpha * (a * m00 + b * m01) + beta * (a * m01 + b * m11)) by ring. rewrite H1, H2. ring.
  - replace (c * (alpha * m00 + beta * m01) + d * (alpha * m01 + beta * m11))
      with (alpha * (c * m00 + d * m01) + beta * (c * m01 + d * m11)) by ring. rewrite H3, H4. ring.
Qed.
End Coeff.

End C18.
