(* C20 — the POSITIVE name obligation: the bootstrapper addresses no dimension by a string
   literal, i.e. it works for every sample_name / feature_name of the model.
   EXPECTED TO FAIL on a tree where xeofs/validation/bootstrapper.py still says "sample"
   (defect F-07); it is therefore NOT imported by Props/C20.v, which carries the refutation
   C20_names_refuted instead.  After a repair: this file compiles, Proofs/C20_tie.v
   (tie_names_refuted, tie_literal_sites) stops compiling; replace the refutation in
   Props/C20.v by  Theorem C20_names : boot_literal_dims = [] /\ ... . Proof. exact tie_names. Qed. *)
From Coq Require Import String List.
From XV Require Import Gen.T5boot.
Import ListNotations.

Lemma tie_names : boot_literal_dims = [] /\ boot_member_names_forwarded = ["sample_name"; "feature_name"]%string.
Proof. split; reflexivity. Qed.
