(* C20 — the name obligation: the bootstrapper addresses no dimension by the string literals
   "sample"/"feature" and builds its member EOF with the model's own sample_name / feature_name,
   i.e. it works for every naming of the model.  (Was refuted before the repair of defect F-07 in
   xeofs/validation/bootstrapper.py; a reintroduced literal makes [boot_literal_dims] non-empty and
   breaks this proof.) *)
From Coq Require Import String List.
From XV Require Import Gen.T5boot.
Import ListNotations.

Lemma tie_names : boot_literal_dims = [] /\ boot_member_names_forwarded = ["sample_name"; "feature_name"]%string.
Proof. split; reflexivity. Qed.
