(* C08 — the latitude-name lookup regenerated from the source: exactly one accepted name => that
   dimension; none or several => refused. *)
From Coq Require Import String List Bool Lia Permutation.
From XV Require Import Gen.T6lat.
Import ListNotations.

Definition accepted (d : string) : bool := existsb (String.eqb d) valid_latitude_names.

Lemma accepted_In d : accepted d = true <-> In d valid_latitude_names.
Proof. unfold accepted. rewrite existsb_exists. split.
  - intros [x [Hx He]]. apply String.eqb_eq in He. subst. exact Hx.
  - intros H. exists d. split; [exact H|apply String.eqb_refl]. Qed.

Lemma filter_singleton {A} (f : A -> bool) l d : filter f l = [d] ->
  In d l /\ f d = true /\ forall x, In x l -> f x = true -> In x [d].
Proof. intros H. assert (Hd : In d (filter f l)) by (rewrite H; left; reflexivity). apply filter_In in Hd. destruct Hd as [H1 H2].
  split; [exact H1|]. split; [exact H2|]. intros x Hx Hfx. rewrite <- H. apply filter_In. split; assumption. Qed.

Theorem lat_lookup_some dims d : extract_latitude_dimension dims = Some d ->
  In d dims /\ In d valid_latitude_names /\ forall x, In x dims -> In x valid_latitude_names -> x = d.
Proof. unfold extract_latitude_dimension, lat_candidates. fold accepted.
  destruct (filter accepted dims) as [|a [|b r]] eqn:E; try discriminate. intros H. injection H as ->.
  destruct (filter_singleton accepted dims d E) as (H1 & H2 & H3). split; [exact H1|]. split; [apply accepted_In; exact H2|].
  intros x Hx Hv. destruct (H3 x Hx (proj2 (accepted_In x) Hv)) as [->|[]]. reflexivity. Qed.

Theorem lat_lookup_none dims : extract_latitude_dimension dims = None ->
  (forall x, In x dims -> ~ In x valid_latitude_names) \/
  (exists x y r, filter accepted dims = x :: y :: r).
Proof. unfold extract_latitude_dimension, lat_candidates. fold accepted.
  destruct (filter accepted dims) as [|a [|b r]] eqn:E; try discriminate; intros _.
  - left. intros x Hx Hv. assert (In x (filter accepted dims)) by (apply filter_In; split; [exact Hx|apply accepted_In; exact Hv]).
    rewrite E in H. destruct H.
  - right. exists a, b, r. reflexivity. Qed.

Example lat_lookup_examples :
  extract_latitude_dimension ["lon"; "lat"]%string = Some "lat"%string /\
  extract_latitude_dimension ["lon"; "x"]%string = None /\
  extract_latitude_dimension ["lat"; "latitude"]%string = None.
Proof. repeat split; reflexivity. Qed.

Lemma coslat_steps : coslat_weight_steps = [WDeg2Rad; WCos; WClip01; WSqrt].
Proof. reflexivity. Qed.

(* the lookup depends on which feature dimensions there are, not on the order they are named in *)
Lemma filter_perm {A} (f : A -> bool) l l' : Permutation l l' -> Permutation (filter f l) (filter f l').
Proof. induction 1 as [|x l l' H IH|x y l|l l' l'' H1 IH1 H2 IH2]; cbn [filter].
  - constructor.
  - destruct (f x); [constructor|]; exact IH.
  - destruct (f x), (f y); try apply Permutation_refl. apply perm_swap.
  - eapply perm_trans; eassumption. Qed.
Lemma lat_lookup_perm dims dims' : Permutation dims dims' ->
  extract_latitude_dimension dims = extract_latitude_dimension dims'.
Proof. intros H. unfold extract_latitude_dimension, lat_candidates.
  pose proof (filter_perm (fun d => existsb (String.eqb d) valid_latitude_names) _ _ H) as Hp.
  set (a := filter _ dims) in *. set (b := filter _ dims') in *. clearbody a b.
  pose proof (Permutation_length Hp) as Hl.
  destruct a as [|x [|y a]]; destruct b as [|u [|v b]]; try discriminate Hl; try reflexivity.
  apply Permutation_length_1 in Hp. subst; reflexivity. Qed.
