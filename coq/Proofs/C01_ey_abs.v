(* the core of Eckart-Young, abstracted from where the "right singular vectors" come from: rows x_i of R^P whose energy
   in any direction y is sum_a w_a (v_a . y)^2 for an orthonormal family v and descending non-negative weights w *)
From Coq Require Import ZArith List Bool Reals Lra Lia Arith.
From XV Require Import Base.Scalar Base.Sum Base.RInst Proofs.C01_order Proofs.C01_ey.
Import ListNotations.
Open Scope R_scope.

Lemma abstract_factor_bound (N P Rk K k : nat) (xrow vrow : nat -> nat -> R) (w : nat -> R) (q cA : nat -> nat -> R) :
  (K <= k)%nat -> (k <= Rk)%nat -> orthonormal P Rk vrow -> orthonormal P K q ->
  (forall a, (a < Rk)%nat -> 0 <= w a) -> (forall a b, (a <= b)%nat -> (b < Rk)%nat -> w b <= w a) ->
  (forall y, rsum N (fun i => dot P (xrow i) y * dot P (xrow i) y) = rsum Rk (fun a => w a * (dot P (vrow a) y * dot P (vrow a) y))) ->
  rsum N (fun i => dot P (xrow i) (xrow i)) = rsum Rk w ->
  rsum Rk w - rsum k w <= rsum N (fun i => dot P (resid q (cA i) (xrow i) K) (resid q (cA i) (xrow i) K)).
Proof. intros HK Hk ONv ON Hpos Hdesc Henergy Htotal.
  assert (H1 : rsum N (fun i => dot P (xrow i) (xrow i) - rsum K (fun j => dot P (xrow i) (q j) * dot P (xrow i) (q j))) <=
               rsum N (fun i => dot P (resid q (cA i) (xrow i) K) (resid q (cA i) (xrow i) K))).
  { apply rsum_le. intros i Hi. apply projection_bound. exact ON. }
  rewrite rsum_minus in H1.
  set (c := fun a => rsum K (fun j => dot P (vrow a) (q j) * dot P (vrow a) (q j))).
  assert (H3 : rsum N (fun i => rsum K (fun j => dot P (xrow i) (q j) * dot P (xrow i) (q j))) = rsum Rk (fun a => w a * c a)).
  { rewrite rsum_swap. rewrite (rsum_ext K _ (fun j => rsum Rk (fun a => w a * (dot P (vrow a) (q j) * dot P (vrow a) (q j))))) by (intros j Hj; apply Henergy).
    rewrite rsum_swap. apply rsum_ext. intros a Ha. unfold c. rewrite rsum_scal. reflexivity. }
  assert (Hc : forall a, (a < Rk)%nat -> 0 <= c a <= 1).
  { intros a Ha. split; [apply sum_R_nonneg; intros j Hj; cbv beta; apply Rle_0_sqr|].
    pose proof (bessel P K q (vrow a) ON) as HB. rewrite (ONv a a Ha Ha), Nat.eqb_refl in HB. exact HB. }
  assert (Hs : rsum Rk c <= INR k).
  { unfold c. rewrite rsum_swap. apply Rle_trans with (INR K); [|apply le_INR; exact HK].
    rewrite <- (Rmult_1_r (INR K)), <- rsum_const. apply rsum_le. intros j Hj.
    pose proof (bessel P Rk vrow (q j) ONv) as HB. rewrite (ON j j Hj Hj), Nat.eqb_refl in HB.
    rewrite (rsum_ext Rk (fun a => dot P (vrow a) (q j) * dot P (vrow a) (q j)) (fun a => dot P (q j) (vrow a) * dot P (q j) (vrow a)))
      by (intros a Ha; rewrite (dot_sym P (vrow a) (q j)); reflexivity). exact HB. }
  pose proof (weighted_le_leading w c Rk k Hk Hpos Hdesc Hc Hs) as HW.
  lra. Qed.
