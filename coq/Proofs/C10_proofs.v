(* C10 — named methods coincide with the general method at their special parameter values. *)
From Coq Require Import String ZArith List Bool Ring Field Setoid Lia Arith QArith.
From XV Require Import Base.Scalar Base.Sum Base.Mat Base.MatAlg Model.Eof Model.Cpcca Model.Eeof Gen.T5cpcca
  Proofs.C01_proofs.
Import ListNotations.

(* MCA / CCA / RDA pin alpha to (1,1) / (0,0) / (0,1) and add nothing to the algorithms of CPCCA *)
Lemma named_methods_alpha :
  mca_alpha = (1 # 1, 1 # 1)%Q /\ cca_alpha = (0 # 1, 0 # 1)%Q /\ rda_alpha = (0 # 1, 1 # 1)%Q /\
  complex_mca_alpha = mca_alpha /\ hilbert_mca_alpha = mca_alpha /\
  complex_cca_alpha = cca_alpha /\ hilbert_cca_alpha = cca_alpha /\
  complex_rda_alpha = rda_alpha /\ hilbert_rda_alpha = rda_alpha.
Proof. repeat split; reflexivity. Qed.

Lemma named_methods_no_override :
  mca_overrides = [] /\ cca_overrides = [] /\ rda_overrides = [] /\ complex_mca_overrides = [] /\ complex_cca_overrides = [] /\
  complex_rda_overrides = [] /\ hilbert_mca_overrides = [] /\ hilbert_cca_overrides = [] /\ hilbert_rda_overrides = [].
Proof. repeat split; reflexivity. Qed.

Section C10.
Context {F : Type} (K : Ops F).
Hypothesis FL : FieldLaws K.
Add Field Ffc10 : (FL_field K FL).
Notation mat := (@mat F). Notation vec := (@vec F).

(* ExtendedEOF with a single embedding is the identity on the data matrix *)
Lemma embed_one n p tau X : wf K n p X -> embed K n p tau 1 X = X.
Proof. intros HX. rewrite HX at 2. unfold embed, embed_rows. replace (n - (1 - 1) * tau)%nat with n by lia. rewrite Nat.mul_1_l.
  apply tab_ext. intros i j Hi Hj. rewrite Nat.div_small by exact Hj. rewrite Nat.mod_small by exact Hj. f_equal. lia. Qed.

Lemma embed_get n p tau e X t j f : (t < embed_rows n tau e)%nat -> (j < e)%nat -> (f < p)%nat ->
  get K (embed K n p tau e X) t (j * p + f) = get K X (t + j * tau) f.
Proof. intros Ht Hj Hf. unfold embed. rewrite get_tab by (try exact Ht; nia).
  rewrite Nat.div_add_l by lia. rewrite Nat.div_small by exact Hf. rewrite Nat.add_0_r.
  rewrite (Nat.add_comm (j * p) f), Nat.mod_add by lia. rewrite Nat.mod_small by exact Hf. reflexivity. Qed.

(* MCA of a field with itself: (V, s^2/(n-1), Vt) is an admissible SVD answer for the cross-covariance
   X^H X/(n-1), so its singular values are EOF's explained variances and both pattern sets are EOF's components *)
Lemma mca_self_is_eof n p r X U s Vt :
  fconj K (finv K (fofZ K (Z.of_nat n - 1))) = finv K (fofZ K (Z.of_nat n - 1)) ->   (* 1/(n-1) is a real scalar *)
  svd_ok K n p r X (U, s, Vt) ->
  svd_ok K p p r (cross_cov K n p p X X) (mH K r p Vt, vmap K r (sq_over K n) s, Vt).
Proof. intros Hn OK. pose proof OK as (HX & HU & HVt & Hs & Hfac & HUU & HVV & Hreal).
  unfold svd_ok. repeat split.
  - apply wf_mscale.
  - apply wf_mH.
  - exact HVt.
  - apply vwf_vtab.
  - unfold cross_cov. rewrite (gram_spectral K FL n p r X U Vt s OK).
    rewrite <- (mmul_mscale_l K FL p r p). f_equal. rewrite <- (mmul_mscale_r K FL p r r). f_equal.
    rewrite (mdiag_mul K FL). unfold mscale, mdiag, vmap, vmap2, sq_over. apply tab_ext. intros i j Hi Hj.
    rewrite get_tab by assumption. rewrite !vget_vtab by assumption.
    assert (Hd : forall a b, fdiv K a b = fmul K a (finv K b)) by (intros a b; destruct (FL_field K FL) as [_ _ Fdiv _]; apply Fdiv).
    rewrite Hd. ring.
  - unfold unitary_cols. rewrite (mH_invol K FL r p Vt HVt). exact HVV.
  - exact HVV.
  - intros i Hi. unfold vmap, sq_over. rewrite vget_vtab by exact Hi.
    assert (Hd : forall a b, fdiv K a b = fmul K a (finv K b)) by (intros a b; destruct (FL_field K FL) as [_ _ Fdiv _]; apply Fdiv).
    rewrite Hd. rewrite !(FL_conj_mul K FL). rewrite (Hreal i Hi). rewrite Hn. reflexivity. Qed.
End C10.
