(* C19 — OPA: algebra of the whitened lag-sum eigenproblem over an abstract field (real data:
   plain transposes; the source asserts not-complex). *)
From Coq Require Import ZArith List Bool Ring Field Setoid Lia Arith.
From XV Require Import Base.Scalar Base.Sum Base.Mat Base.MatAlg Model.Opa.
Import ListNotations.

Section C19.
Context {F : Type} (K : Ops F).
Hypothesis FL : FieldLaws K.
Add Field Fc19 : (FL_field K FL).
Notation "0" := (f0 K). Notation "1" := (f1 K).
Infix "+" := (fadd K). Infix "*" := (fmul K). Infix "-" := (fsub K).
Notation "- x" := (fopp K x).
Notation sum := (sum K).
Notation delta := (delta K).
Notation mat := (@mat F). Notation vec := (@vec F).
Notation get := (get K). Notation vget := (vget K).
Notation mmul := (mmul K). Notation madd := (madd K). Notation mscale := (mscale K).
Notation mT := (mT K). Notation mI := (mI K). Notation wf := (wf K). Notation vwf := (vwf K).
Notation colscale := (colscale K). Notation mcols := (mcols K).

Ltac mx := mat_unfold; apply tab_ext; intros i j Hi Hj; get_simpl.

Lemma fdiv_mul x d : fdiv K x d = x * finv K d.
Proof. apply (Fdiv_def (FL_field K FL)). Qed.

Lemma sum_peel n f : sum (S n) f = f O + sum n (fun i => f (S i)).
Proof. induction n as [|n IH]; [cbn [Sum.sum]; ring|].
  change (sum (S (S n)) f) with (sum (S n) f + f (S n)). rewrite IH. cbn [Sum.sum]. ring. Qed.

Lemma mT_I n : mT n n (mI n) = mI n.
Proof. mx. apply (delta_sym K). Qed.

Lemma get_mT_diag n A j : (j < n)%nat -> get (mT n n A) j j = get A j j.
Proof. intros Hj. mat_unfold. get_simpl. reflexivity. Qed.

(* ------------------------------------------------------------------ whitening *)
(* the quadratic form V^T M V *)
Definition Qf (q k : nat) (V M : mat) : mat := mmul k q k (mT q k V) (mmul q q k M V).

Lemma Qf_add q k V A B : Qf q k V (madd q q A B) = madd k k (Qf q k V A) (Qf q k V B).
Proof. unfold Qf. rewrite (mmul_madd_l K FL), (mmul_madd_r K FL). reflexivity. Qed.

Lemma Qf_scale q k V c A : Qf q k V (mscale q q c A) = mscale k k c (Qf q k V A).
Proof. unfold Qf. rewrite (mmul_mscale_l K FL), (mmul_mscale_r K FL). reflexivity. Qed.

Lemma Qf_T q k V M : wf q k V -> Qf q k V (mT q q M) = mT k k (Qf q k V M).
Proof. intros HV. unfold Qf. rewrite (mT_mmul K FL k q k). rewrite (mT_mmul K FL q q k).
  rewrite (mT_invol K q k V HV). rewrite (mmul_assoc K FL). reflexivity. Qed.

Lemma whitened_gram q k C0 Ci U : whiten_ok K q C0 Ci -> wf q k U ->
  Qf q k (mmul q q k Ci U) C0 = mmul k q k (mT q k U) U.
Proof. intros [HCi Hw] HU. unfold Qf. rewrite (mT_mmul K FL q q k Ci U).
  rewrite (mmul_assoc K FL k q q k).
  rewrite <- (mmul_assoc K FL q q q k (mT q q Ci) C0 (mmul q q k Ci U)).
  rewrite <- (mmul_assoc K FL q q q k (mmul q q q (mT q q Ci) C0) Ci U).
  rewrite Hw. rewrite (mmul_I_l K FL q k U HU). reflexivity. Qed.

(* scores P = S (Ci U): P^T P = c I when S^T S = c C0 — uncorrelated, equal norms *)
Lemma scores_uncorrelated n q k (S C0 Ci U : mat) (c : F) :
  mmul q n q (mT n q S) S = mscale q q c C0 -> whiten_ok K q C0 Ci -> wf q k U ->
  mmul k q k (mT q k U) U = mI k ->
  let P := mmul n q k S (mmul q q k Ci U) in
  mmul k n k (mT n k P) P = mscale k k c (mI k).
Proof. intros HS Hw HU HUU. cbn zeta. set (V := mmul q q k Ci U).
  rewrite (mT_mmul K FL n q k S V). rewrite (mmul_assoc K FL k q n k).
  rewrite <- (mmul_assoc K FL q n q k (mT n q S) S V). rewrite HS.
  rewrite (mmul_mscale_l K FL), (mmul_mscale_r K FL).
  change (mmul k q k (mT q k V) (mmul q q k C0 V)) with (Qf q k V C0). unfold V.
  rewrite (whitened_gram q k C0 Ci U Hw HU), HUU. reflexivity. Qed.

(* filter patterns V = Ci U and optimally persistent patterns W = C0 V are bi-orthogonal *)
Lemma biorthogonal q k (C0 Ci U : mat) :
  whiten_ok K q C0 Ci -> wf q k U -> mmul k q k (mT q k U) U = mI k ->
  let V := mmul q q k Ci U in let W := mmul q q k C0 V in
  mmul k q k (mT q k V) W = mI k.
Proof. intros Hw HU HUU. cbn zeta.
  change (mmul k q k (mT q k (mmul q q k Ci U)) (mmul q q k C0 (mmul q q k Ci U))) with (Qf q k (mmul q q k Ci U) C0).
  rewrite (whitened_gram q k C0 Ci U Hw HU). exact HUU. Qed.

(* the whitening property from what the source computes: C0 = U0 diag(s0) U0^T, C0_sqrt = U0 sqrt(s0),
   Ci its two-sided inverse — provided Ci is symmetric (the source contracts the wrong index otherwise) *)
Lemma c0sqrt_square q C0 U0 s0 : psd_factor_ok K q C0 U0 s0 ->
  mmul q q q (c0sqrt K q U0 s0) (mT q q (c0sqrt K q U0 s0)) = C0.
Proof. intros [HU0 [HC Hs]]. rewrite <- HC. unfold c0sqrt. mx. apply (sum_ext K). intros l Hl. get_simpl.
  rewrite <- (Hs l Hl) at 3. ring. Qed.

Lemma whitening_from_inverse q C0 A Ci : mmul q q q A (mT q q A) = C0 -> opa_inv_ok K q A Ci ->
  mT q q Ci = Ci -> whiten_ok K q C0 Ci.
Proof. intros HA [HCi [Hl Hr]] Hsym. split; [exact HCi|]. rewrite Hsym. rewrite <- HA.
  rewrite <- (mmul_assoc K FL q q q q Ci A (mT q q A)). rewrite Hl.
  rewrite (mmul_assoc K FL q q q q (mI q) (mT q q A) Ci).
  assert (E : mmul q q q (mT q q A) Ci = mI q).
  { rewrite <- Hsym at 1. rewrite <- (mT_mmul K FL q q q Ci A). rewrite Hl. apply mT_I. }
  rewrite E. apply (mmul_I_l K FL). apply wf_mI. Qed.

Lemma whitening_from_svd q C0 U0 s0 Ci : psd_factor_ok K q C0 U0 s0 -> opa_inv_ok K q (c0sqrt K q U0 s0) Ci ->
  mT q q Ci = Ci -> whiten_ok K q C0 Ci.
Proof. intros Hp Hi Hs. apply (whitening_from_inverse q C0 (c0sqrt K q U0 s0) Ci); try assumption.
  apply c0sqrt_square; exact Hp. Qed.

(* ------------------------------------------------------------------ lagged covariances of projected series *)
Definition shead (n q tau : nat) (S : mat) : mat := tab (n - tau) q (fun t i => get S t i).
Definition stail (n q tau : nat) (S : mat) : mat := tab (n - tau) q (fun t i => get S (t + tau) i).

Lemma ctau_as_product n q S tau :
  ctau K n q S tau = mscale q q (finv K (ctau_div K n tau))
                       (mmul q (n - tau) q (mT (n - tau) q (shead n q tau S)) (stail n q tau S)).
Proof. unfold ctau, shead, stail. mx. rewrite fdiv_mul.
  replace (sum (n - tau) (fun k => get (tab q (n - tau) (fun i0 j0 => get (tab (n - tau) q (fun t i1 => get S t i1)) j0 i0)) i k *
                                    get (tab (n - tau) q (fun t i0 => get S (t + tau) i0)) k j))
    with (sum (n - tau) (fun t => get S t i * get S (t + tau) j)); [ring|].
  apply (sum_ext K). intros t Ht. get_simpl. reflexivity. Qed.

Lemma rows_head_mmul n q k S V tau :
  shead n k tau (mmul n q k S V) = mmul (n - tau) q k (shead n q tau S) V.
Proof. unfold shead. mx. apply (sum_ext K). intros l Hl. get_simpl. reflexivity. Qed.

Lemma rows_tail_mmul n q k S V tau :
  stail n k tau (mmul n q k S V) = mmul (n - tau) q k (stail n q tau S) V.
Proof. unfold stail. mx. apply (sum_ext K). intros l Hl. get_simpl. reflexivity. Qed.

Lemma col_acov_as_product n k P tau j : (j < k)%nat ->
  col_acov K n P j tau = finv K (ctau_div K n tau) *
    get (mmul k (n - tau) k (mT (n - tau) k (shead n k tau P)) (stail n k tau P)) j j.
Proof. intros Hj. unfold col_acov, shead, stail. rewrite fdiv_mul. mat_unfold. get_simpl.
  replace (sum (n - tau) (fun k0 => get (tab k (n - tau) (fun i j0 => get (tab (n - tau) k (fun t i0 => get P t i0)) j0 i)) j k0 *
                                     get (tab (n - tau) k (fun t i => get P (t + tau) i)) k0 j))
    with (sum (n - tau) (fun t => get P t j * get P (t + tau) j)); [ring|].
  apply (sum_ext K). intros t Ht. get_simpl. reflexivity. Qed.

(* lag-tau autocovariance of the j-th series of S V = (V^T C_tau V)[j, j] *)
Lemma acov_projected n q k S V tau j : (j < k)%nat ->
  col_acov K n (mmul n q k S V) j tau = get (Qf q k V (ctau K n q S tau)) j j.
Proof. intros Hj. rewrite (col_acov_as_product n k _ tau j Hj).
  rewrite rows_head_mmul, rows_tail_mmul. rewrite ctau_as_product. rewrite Qf_scale. unfold Qf.
  rewrite (mT_mmul K FL (n - tau) q k). rewrite (mmul_assoc K FL k q (n - tau) k).
  rewrite <- (mmul_assoc K FL q (n - tau) q k (mT (n - tau) q (shead n q tau S)) (stail n q tau S) V).
  unfold Mat.mscale at 1. rewrite get_tab by assumption. reflexivity. Qed.

(* ------------------------------------------------------------------ the lag sum is linear *)
Lemma fold_linear q (phi : mat -> F) (w : nat -> F) (g : nat -> mat) :
  (forall A B, phi (madd q q A B) = phi A + phi B) -> (forall c A, phi (mscale q q c A) = c * phi A) ->
  forall len a acc,
  phi (fold_left (fun M tau => madd q q M (mscale q q (w tau) (g tau))) (seq a len) acc)
  = phi acc + sum len (fun l => w (a + l)%nat * phi (g (a + l)%nat)).
Proof. intros Hadd Hsc. induction len as [|len IH]; intros a acc.
  - cbn [seq fold_left Sum.sum]. ring.
  - cbn [seq fold_left]. rewrite IH. rewrite Hadd, Hsc. rewrite sum_peel. rewrite Nat.add_0_r.
    rewrite (sum_ext K len (fun l => w (S a + l)%nat * phi (g (S a + l)%nat)) (fun i => w (a + S i)%nat * phi (g (a + S i)%nat))).
    + ring.
    + intros l Hl. replace (a + S l)%nat with (S a + l)%nat by lia. reflexivity. Qed.

Lemma msum_linear n q S tm (phi : mat -> F) :
  (forall A B, phi (madd q q A B) = phi A + phi B) -> (forall c A, phi (mscale q q c A) = c * phi A) ->
  phi (msum K n q S tm) = sum (Datatypes.S tm) (fun tau => lag_weight K tm tau * phi (ctau K n q S tau)).
Proof. intros Hadd Hsc. unfold msum, lag_term.
  rewrite (fold_linear q phi (lag_weight K tm) (ctau K n q S) Hadd Hsc tm 1%nat). rewrite Hsc.
  rewrite sum_peel. reflexivity. Qed.

(* entries of the lag sum, with the generated weights *)
Lemma msum_entries n q S tm i j : (i < q)%nat -> (j < q)%nat ->
  get (msum K n q S tm) i j = sum (Datatypes.S tm) (fun tau => lag_weight K tm tau * get (ctau K n q S tau) i j).
Proof. intros Hi Hj. apply (msum_linear n q S tm (fun M => get M i j)).
  - intros A B. mat_unfold. get_simpl. reflexivity.
  - intros c A. mat_unfold. get_simpl. reflexivity. Qed.

(* trapezoidal lag sum of the j-th series of S V = (V^T M V)[j, j] *)
Lemma trapz_projected n q k S V tm j : (j < k)%nat ->
  col_trapz K n tm (mmul n q k S V) j = get (Qf q k V (msum K n q S tm)) j j.
Proof. intros Hj. unfold col_trapz.
  rewrite (msum_linear n q S tm (fun M => get (Qf q k V M) j j)).
  - apply (sum_ext K). intros tau Ht. rewrite (acov_projected n q k S V tau j Hj). reflexivity.
  - intros A B. rewrite Qf_add. mat_unfold. get_simpl. reflexivity.
  - intros c A. rewrite Qf_scale. unfold Mat.mscale at 1. rewrite get_tab by assumption. reflexivity. Qed.

Lemma Qf_sym_diag q k V M j : wf q k V -> (j < k)%nat ->
  get (Qf q k V (msym K q M)) j j = (1 + 1) * get (Qf q k V M) j j.
Proof. intros HV Hj. unfold msym. rewrite Qf_add. rewrite (Qf_T q k V M HV).
  unfold Mat.madd at 1. rewrite get_tab by assumption. rewrite (get_mT_diag k _ j Hj). ring. Qed.

(* U^T target U = 0.5 (Ci U)^T Ms (Ci U) when Ci is symmetric *)
Lemma target_quadratic q k Ci Ms U : mT q q Ci = Ci ->
  mmul k q k (mT q k U) (mmul q q k (target K q Ci Ms) U) = mscale k k (half K) (Qf q k (mmul q q k Ci U) Ms).
Proof. intros Hs. unfold target, Qf. rewrite (mT_mmul K FL q q k Ci U), Hs.
  rewrite (mmul_assoc K FL q q q k (mscale q q (half K) (mmul q q q Ci Ms)) Ci U).
  rewrite (mmul_mscale_l K FL). rewrite (mmul_mscale_r K FL).
  rewrite (mmul_assoc K FL q q q k Ci Ms (mmul q q k Ci U)).
  rewrite (mmul_assoc K FL k q q k (mT q k U) Ci). reflexivity. Qed.

Hypothesis two_nz : 1 + 1 <> 0.

Lemma half_two : half K * (1 + 1) = 1.
Proof. unfold half. field. exact two_nz. Qed.

(* (A) for ANY coefficient matrix U: (U^T target U)[j,j] is the trapezoidal lag sum of the series S Ci u_j *)
Lemma quad_target_trapz n q k S Ci U tm j : mT q q Ci = Ci -> wf q q Ci -> (j < k)%nat ->
  get (mmul k q k (mT q k U) (mmul q q k (opa_target K n q S Ci tm) U)) j j
  = col_trapz K n tm (mmul n q k S (mmul q q k Ci U)) j.
Proof. intros Hs HCi Hj. unfold opa_target. rewrite (target_quadratic q k Ci _ U Hs).
  unfold Mat.mscale at 1. rewrite get_tab by assumption.
  rewrite (Qf_sym_diag q k _ _ j (wf_mmul K q q k Ci U) Hj).
  rewrite (trapz_projected n q k S _ tm j Hj).
  replace (half K * ((1 + 1) * get (Qf q k (mmul q q k Ci U) (msum K n q S tm)) j j))
    with ((half K * (1 + 1)) * get (Qf q k (mmul q q k Ci U) (msum K n q S tm)) j j) by ring.
  rewrite half_two. ring. Qed.

(* (B) its lag-0 autocovariance is (U^T U)[j,j] *)
Lemma acov0_whitened n q k S Ci U j : whiten_ok K q (ctau K n q S 0) Ci -> wf q k U -> (j < k)%nat ->
  col_acov K n (mmul n q k S (mmul q q k Ci U)) j 0 = get (mmul k q k (mT q k U) U) j j.
Proof. intros Hw HU Hj. rewrite (acov_projected n q k S _ 0 j Hj).
  rewrite (whitened_gram q k _ Ci U Hw HU). reflexivity. Qed.

(* eigen-relation on k orthonormal columns: U^T (T U) = diag(lam) *)
Lemma mT_colscale q k U lam :
  mmul k q k (mT q k U) (colscale q k U lam) = colscale k k (mmul k q k (mT q k U) U) lam.
Proof. mx. rewrite <- (sum_scale_r K FL). apply (sum_ext K). intros l Hl. get_simpl. ring. Qed.

Lemma eig_diag q k T U lam m : mmul q q k T U = colscale q k U lam -> mmul k q k (mT q k U) U = mI k -> (m < k)%nat ->
  get (mmul k q k (mT q k U) (mmul q q k T U)) m m = vget lam m.
Proof. intros He HUU Hm. rewrite He. rewrite mT_colscale, HUU. mat_unfold. get_simpl. rewrite (delta_same K). ring. Qed.

(* the reported value of an eigen-oracle mode IS the trapezoidal sum of that very series' lagged
   autocovariance over its lag-0 value *)
Lemma decorrelation_is_trapezoid n q k S Ci U lam tm :
  mT q q Ci = Ci -> whiten_ok K q (ctau K n q S 0) Ci -> wf q k U ->
  mmul k q k (mT q k U) U = mI k -> mmul q q k (opa_target K n q S Ci tm) U = colscale q k U lam ->
  forall j, (j < k)%nat ->
  let P := mmul n q k S (mmul q q k Ci U) in
  col_acov K n P j 0 = 1 /\ vget lam j = col_trapz K n tm P j /\ vget lam j = own_time K n tm P j.
Proof. intros Hs Hw HU HUU He j Hj. cbn zeta.
  assert (H0 : col_acov K n (mmul n q k S (mmul q q k Ci U)) j 0 = 1).
  { rewrite (acov0_whitened n q k S Ci U j Hw HU Hj), HUU. mat_unfold. get_simpl. apply (delta_same K). }
  assert (H1 : vget lam j = col_trapz K n tm (mmul n q k S (mmul q q k Ci U)) j).
  { rewrite <- (quad_target_trapz n q k S Ci U tm j Hs (proj1 Hw) Hj). symmetry. apply eig_diag; assumption. }
  split; [exact H0|]. split; [exact H1|]. unfold own_time. rewrite H0, <- H1. rewrite fdiv_mul. field.
  apply (F_1_neq_0 (FL_field K FL)). Qed.

(* decorrelation time of ANY combination x (q x 1, in whitened coordinates) of the retained PCs is the
   Rayleigh quotient of the target *)
Lemma own_time_rayleigh n q S Ci x tm :
  mT q q Ci = Ci -> whiten_ok K q (ctau K n q S 0) Ci -> wf q 1 x ->
  own_time K n tm (mmul n q 1 S (mmul q q 1 Ci x)) 0
  = fdiv K (get (mmul 1 q 1 (mT q 1 x) (mmul q q 1 (opa_target K n q S Ci tm) x)) 0 0)
           (get (mmul 1 q 1 (mT q 1 x) x) 0 0).
Proof. intros Hs Hw Hx. unfold own_time.
  rewrite (quad_target_trapz n q 1 S Ci x tm 0 Hs (proj1 Hw)) by lia.
  rewrite (acov0_whitened n q 1 S Ci x 0 Hw Hx) by lia. reflexivity. Qed.

(* the first k columns of a full eigen-oracle answer *)
Lemma eig_truncate q k T U lam : (k <= q)%nat -> eig_sym_ok K q T U lam ->
  wf q k (mcols q k U) /\ mmul k q k (mT q k (mcols q k U)) (mcols q k U) = mI k /\
  mmul q q k T (mcols q k U) = colscale q k (mcols q k U) lam.
Proof. intros Hk [HU [Hl [HUU [_ He]]]]. split; [apply wf_mcols|]. split.
  - assert (E : mmul k q k (mT q k (mcols q k U)) (mcols q k U) = Mat.mrows K k k (mcols q k (mmul q q q (mT q q U) U))).
    { mx. apply (sum_ext K). intros l Hl'. get_simpl. reflexivity. }
    rewrite E, HUU. apply (mcols_I K q k Hk).
  - rewrite <- (mcols_mmul K q q q k T U Hk). rewrite He. mx. reflexivity. Qed.

End C19.
