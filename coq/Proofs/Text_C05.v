(* written by tools/mk_text_tie.py: the source text against which the hand-written model parts of C05 were last validated *)
From Coq Require Import String List.
From XV Require Import Gen.T9text.
Import ListNotations.
Open Scope string_scope.

(* xeofs/multi/cca.py: CCA._transform *)
Lemma text_C05_CCA__transform_frozen : text_C05_CCA__transform =
  ["transformed_views = []";
   "for i, view in enumerate(views):";
   "transformed_view = xr.dot(view, self.data['weights'][i], dims='feature')";
   "transformed_views.append(transformed_view)";
   "return transformed_views"].
Proof. reflexivity. Qed.

(* xeofs/multi/cca.py: CCA.transform *)
Lemma text_C05_CCA_transform_frozen : text_C05_CCA_transform =
  ["view_preprocessed = []";
   "for i, view in enumerate(views):";
   "view_preprocessed.append(self.preprocessors[i].transform(view))";
   "transformed_views = self._transform(view_preprocessed)";
   "unstacked_transformed_views = []";
   "for i, view in enumerate(transformed_views):";
   "unstacked_view = self.preprocessors[i].inverse_transform_scores_unseen(view)";
   "unstacked_transformed_views.append(unstacked_view)";
   "return unstacked_transformed_views"].
Proof. reflexivity. Qed.

(* xeofs/cross/base_model_cross_set.py: BaseModelCrossSet.predict *)
Lemma text_C05_BaseModelCrossSet_predict_frozen : text_C05_BaseModelCrossSet_predict =
  ["validate_input_type(X)";
   "X = self.preprocessor1.transform(X)";
   "X = self.pca1.transform(X)";
   "X = self.whitener1.transform(X)";
   "Y = self._predict_algorithm(X)";
   "Y = self.whitener2.inverse_transform_scores_unseen(Y)";
   "Y = self.pca2.inverse_transform_scores_unseen(Y)";
   "Y = self.preprocessor2.inverse_transform_scores_unseen(Y)";
   "return Y"].
Proof. reflexivity. Qed.

(* xeofs/cross/cpcca.py: CPCCA._predict_algorithm *)
Lemma text_C05_CPCCA__predict_algorithm_frozen : text_C05_CPCCA__predict_algorithm =
  ["sample_name_fit_x = 'sample_fit_dim_x'";
   "sample_name_fit_y = 'sample_fit_dim_y'";
   "Qx = self.data['components1']";
   "Rx = self.data['scores1'].rename({self.sample_name: sample_name_fit_x})";
   "Ry = self.data['scores2'].rename({self.sample_name: sample_name_fit_y})";
   "def _predict_numpy(X, Qx, Rx, Ry):";
   "G = Rx.conj().T @ Ry / np.linalg.norm(Rx, axis=0) ** 2";
   "return X @ Qx @ G";
   "G = Rx.conj().T @ Ry / np.linalg.norm(Rx, axis=0) ** 2";
   "return X @ Qx @ G";
   "Ry_pred = xr.apply_ufunc(_predict_numpy, X, Qx, Rx, Ry, input_core_dims=[[self.sample_name, self.feature_name[0]], [self.feature_name[0], 'mode'], [sa";
   "Ry_pred.name = 'pseudo_scores_Y'";
   "return Ry_pred"].
Proof. reflexivity. Qed.

Definition all_frozen : Prop :=
  text_C05_CCA__transform = ["transformed_views = []";
   "for i, view in enumerate(views):";
   "transformed_view = xr.dot(view, self.data['weights'][i], dims='feature')";
   "transformed_views.append(transformed_view)";
   "return transformed_views"] /\
  text_C05_CCA_transform = ["view_preprocessed = []";
   "for i, view in enumerate(views):";
   "view_preprocessed.append(self.preprocessors[i].transform(view))";
   "transformed_views = self._transform(view_preprocessed)";
   "unstacked_transformed_views = []";
   "for i, view in enumerate(transformed_views):";
   "unstacked_view = self.preprocessors[i].inverse_transform_scores_unseen(view)";
   "unstacked_transformed_views.append(unstacked_view)";
   "return unstacked_transformed_views"] /\
  text_C05_BaseModelCrossSet_predict = ["validate_input_type(X)";
   "X = self.preprocessor1.transform(X)";
   "X = self.pca1.transform(X)";
   "X = self.whitener1.transform(X)";
   "Y = self._predict_algorithm(X)";
   "Y = self.whitener2.inverse_transform_scores_unseen(Y)";
   "Y = self.pca2.inverse_transform_scores_unseen(Y)";
   "Y = self.preprocessor2.inverse_transform_scores_unseen(Y)";
   "return Y"] /\
  text_C05_CPCCA__predict_algorithm = ["sample_name_fit_x = 'sample_fit_dim_x'";
   "sample_name_fit_y = 'sample_fit_dim_y'";
   "Qx = self.data['components1']";
   "Rx = self.data['scores1'].rename({self.sample_name: sample_name_fit_x})";
   "Ry = self.data['scores2'].rename({self.sample_name: sample_name_fit_y})";
   "def _predict_numpy(X, Qx, Rx, Ry):";
   "G = Rx.conj().T @ Ry / np.linalg.norm(Rx, axis=0) ** 2";
   "return X @ Qx @ G";
   "G = Rx.conj().T @ Ry / np.linalg.norm(Rx, axis=0) ** 2";
   "return X @ Qx @ G";
   "Ry_pred = xr.apply_ufunc(_predict_numpy, X, Qx, Rx, Ry, input_core_dims=[[self.sample_name, self.feature_name[0]], [self.feature_name[0], 'mode'], [sa";
   "Ry_pred.name = 'pseudo_scores_Y'";
   "return Ry_pred"].

Lemma all_frozen_holds : all_frozen.
Proof. exact (conj text_C05_CCA__transform_frozen (conj text_C05_CCA_transform_frozen (conj text_C05_BaseModelCrossSet_predict_frozen text_C05_CPCCA__predict_algorithm_frozen))). Qed.
