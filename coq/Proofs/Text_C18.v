(* written by tools/mk_text_tie.py: the source text against which the hand-written model parts of C18 were last validated *)
From Coq Require Import String List.
From XV Require Import Gen.T9text.
Import ListNotations.
Open Scope string_scope.

(* xeofs/single/pop.py: POP.components *)
Lemma text_C18_POP_components_frozen : text_C18_POP_components =
  ["return super().components(normalized=False)"].
Proof. reflexivity. Qed.

(* xeofs/single/pop.py: POP.scores *)
Lemma text_C18_POP_scores_frozen : text_C18_POP_scores =
  ["return super().scores(normalized=normalized)"].
Proof. reflexivity. Qed.

(* xeofs/single/pop.py: POP.scores_amplitude *)
Lemma text_C18_POP_scores_amplitude_frozen : text_C18_POP_scores_amplitude =
  ["scores = self.data['scores'].copy()";
   "if normalized:";
   "scores = scores / self.data['norms']";
   "amplitudes = abs(scores)";
   "amplitudes.name = 'scores_amplitude'";
   "return self.preprocessor.inverse_transform_scores(amplitudes)"].
Proof. reflexivity. Qed.

(* xeofs/single/pop.py: POP.components_amplitude *)
Lemma text_C18_POP_components_amplitude_frozen : text_C18_POP_components_amplitude =
  ["amplitudes = abs(self.data['components'])";
   "amplitudes.name = 'components_amplitude'";
   "return self.preprocessor.inverse_transform_components(amplitudes)"].
Proof. reflexivity. Qed.

(* xeofs/single/pop.py: POP.eigenvalues *)
Lemma text_C18_POP_eigenvalues_frozen : text_C18_POP_eigenvalues =
  ["return self.data['eigenvalues']"].
Proof. reflexivity. Qed.

(* xeofs/single/pop.py: POP.damping_times *)
Lemma text_C18_POP_damping_times_frozen : text_C18_POP_damping_times =
  ["return self.data['damping_times']"].
Proof. reflexivity. Qed.

(* xeofs/single/pop.py: POP.periods *)
Lemma text_C18_POP_periods_frozen : text_C18_POP_periods =
  ["return self.data['periods']"].
Proof. reflexivity. Qed.

Definition all_frozen : Prop :=
  text_C18_POP_components = ["return super().components(normalized=False)"] /\
  text_C18_POP_scores = ["return super().scores(normalized=normalized)"] /\
  text_C18_POP_scores_amplitude = ["scores = self.data['scores'].copy()";
   "if normalized:";
   "scores = scores / self.data['norms']";
   "amplitudes = abs(scores)";
   "amplitudes.name = 'scores_amplitude'";
   "return self.preprocessor.inverse_transform_scores(amplitudes)"] /\
  text_C18_POP_components_amplitude = ["amplitudes = abs(self.data['components'])";
   "amplitudes.name = 'components_amplitude'";
   "return self.preprocessor.inverse_transform_components(amplitudes)"] /\
  text_C18_POP_eigenvalues = ["return self.data['eigenvalues']"] /\
  text_C18_POP_damping_times = ["return self.data['damping_times']"] /\
  text_C18_POP_periods = ["return self.data['periods']"].

Lemma all_frozen_holds : all_frozen.
Proof. exact (conj text_C18_POP_components_frozen (conj text_C18_POP_scores_frozen (conj text_C18_POP_scores_amplitude_frozen (conj text_C18_POP_components_amplitude_frozen (conj text_C18_POP_eigenvalues_frozen (conj text_C18_POP_damping_times_frozen text_C18_POP_periods_frozen)))))). Qed.
