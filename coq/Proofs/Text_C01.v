(* written by tools/mk_text_tie.py: the source text against which the hand-written model parts of C01 were last validated *)
From Coq Require Import String List.
From XV Require Import Gen.T9text.
Import ListNotations.
Open Scope string_scope.

(* xeofs/single/base_model_single_set.py: BaseModelSingleSet.components *)
Lemma text_C01_BaseModelSingleSet_components_frozen : text_C01_BaseModelSingleSet_components =
  ["components = self.data['components']";
   "if not normalized:";
   "name = components.name";
   "components = components * self.data['norms']";
   "components.name = name";
   "return self.preprocessor.inverse_transform_components(components)"].
Proof. reflexivity. Qed.

(* xeofs/single/base_model_single_set.py: BaseModelSingleSet.scores *)
Lemma text_C01_BaseModelSingleSet_scores_frozen : text_C01_BaseModelSingleSet_scores =
  ["scores = self.data['scores'].copy()";
   "if normalized:";
   "name = scores.name";
   "scores = scores / self.data['norms']";
   "scores.name = name";
   "return self.preprocessor.inverse_transform_scores(scores)"].
Proof. reflexivity. Qed.

(* xeofs/single/eof.py: EOF.explained_variance *)
Lemma text_C01_EOF_explained_variance_frozen : text_C01_EOF_explained_variance =
  ["return self.data['explained_variance']"].
Proof. reflexivity. Qed.

(* xeofs/single/eof.py: EOF.explained_variance_ratio *)
Lemma text_C01_EOF_explained_variance_ratio_frozen : text_C01_EOF_explained_variance_ratio =
  ["exp_var_ratio = self.data['explained_variance'] / self.data['total_variance']";
   "exp_var_ratio.attrs.update(self.data['explained_variance'].attrs)";
   "exp_var_ratio.name = 'explained_variance_ratio'";
   "return exp_var_ratio"].
Proof. reflexivity. Qed.

(* xeofs/single/eof.py: EOF.singular_values *)
Lemma text_C01_EOF_singular_values_frozen : text_C01_EOF_singular_values =
  ["return self.data['norms']"].
Proof. reflexivity. Qed.

(* xeofs/utils/xarray_utils.py: total_variance *)
Lemma text_C01_module_total_variance_frozen : text_C01_module_total_variance =
  ["return data.var(dim, ddof=1).sum()"].
Proof. reflexivity. Qed.

Definition all_frozen : Prop :=
  text_C01_BaseModelSingleSet_components = ["components = self.data['components']";
   "if not normalized:";
   "name = components.name";
   "components = components * self.data['norms']";
   "components.name = name";
   "return self.preprocessor.inverse_transform_components(components)"] /\
  text_C01_BaseModelSingleSet_scores = ["scores = self.data['scores'].copy()";
   "if normalized:";
   "name = scores.name";
   "scores = scores / self.data['norms']";
   "scores.name = name";
   "return self.preprocessor.inverse_transform_scores(scores)"] /\
  text_C01_EOF_explained_variance = ["return self.data['explained_variance']"] /\
  text_C01_EOF_explained_variance_ratio = ["exp_var_ratio = self.data['explained_variance'] / self.data['total_variance']";
   "exp_var_ratio.attrs.update(self.data['explained_variance'].attrs)";
   "exp_var_ratio.name = 'explained_variance_ratio'";
   "return exp_var_ratio"] /\
  text_C01_EOF_singular_values = ["return self.data['norms']"] /\
  text_C01_module_total_variance = ["return data.var(dim, ddof=1).sum()"].

Lemma all_frozen_holds : all_frozen.
Proof. exact (conj text_C01_BaseModelSingleSet_components_frozen (conj text_C01_BaseModelSingleSet_scores_frozen (conj text_C01_EOF_explained_variance_frozen (conj text_C01_EOF_explained_variance_ratio_frozen (conj text_C01_EOF_singular_values_frozen text_C01_module_total_variance_frozen))))). Qed.
