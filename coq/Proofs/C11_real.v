(* C11 — sorting leaves the reconstruction unchanged; real-instance discharge of the
   square-root hypotheses of [rot_recon]. *)
From Coq Require Import ZArith List Bool Reals Lra Lia Arith Permutation.
From XV Require Import Base.Scalar Base.Sum Base.Mat Base.MatAlg Base.Perm Base.RInst Model.Eof Model.Rot
  Proofs.C01_proofs Proofs.C11_proofs.
Import ListNotations.

Section SortInv.
Context {F : Type} (K : Ops F).
Hypothesis FL : FieldLaws K.

Lemma rot_sort_recon n p k (idx : list nat) (o : rot_out) :
  Permutation idx (seq 0 k) ->
  rot_inverse K n p k (rot_sort K n p idx o) (r_scores (rot_sort K n p idx o)) = rot_inverse K n p k o (r_scores o).
Proof. intros Hp. assert (Hl : length idx = k) by (rewrite (Permutation_length Hp), seq_length; reflexivity).
  assert (Hin : forall j, (j < k)%nat -> (nth j idx O < k)%nat).
  { intros j Hj. assert (In (nth j idx O) (seq 0 k)) by (eapply Permutation_in; [exact Hp|apply nth_In; lia]).
    apply in_seq in H. lia. }
  unfold rot_inverse, rot_sort. cbn [r_comps r_scores]. unfold mmul, mH, msel_cols. rewrite Hl.
  apply tab_ext. intros i j Hi Hj.
  rewrite (sum_ext K k _ (fun l => (fun m => fmul K (get K (r_scores o) i m) (fconj K (get K (r_comps o) j m))) (nth l idx O))).
  2:{ intros l Hl'. rewrite !get_tab by lia. reflexivity. }
  etransitivity; [apply (sum_perm K FL k idx (fun m => fmul K (get K (r_scores o) i m) (fconj K (get K (r_comps o) j m))) Hp)|].
  apply (sum_ext K). intros l Hl'. rewrite get_tab by lia. reflexivity. Qed.
End SortInv.

Open Scope R_scope.

(* real data: the rotated reconstruction equals the unrotated k-mode reconstruction
   U_k diag(s_k) V_k^T, for any invertible R with RinvT = R^{-T}, any power *)
Lemma rot_recon_real n p k (Vk Uk : list (list R)) (s lam : list R) (Rm RinvT : list (list R)) :
  (2 <= n)%nat ->
  mmul OR k k k RinvT (mH OR k k Rm) = mI OR k ->
  (forall i, (i < k)%nat -> 0 <= vget OR s i /\ vget OR lam i = vget OR s i * vget OR s i / IZR (Z.of_nat n - 1)) ->
  let out := rot_fit OR n p k Vk Uk lam Rm RinvT in
  (forall j, (j < k)%nat -> 0 < vget OR (r_expvar out) j) ->
  rot_inverse OR n p k out (r_scores out) = mmul OR n k p (colscale OR n k Uk s) (mH OR p k Vk).
Proof. intros Hn HR Hs out HD.
  assert (Hpos : 0 < IZR (Z.of_nat n - 1)) by (apply IZR_lt; lia).
  set (c := sqrt (IZR (Z.of_nat n - 1))).
  assert (Hcpos : 0 < c) by (apply sqrt_lt_R0; exact Hpos).
  unfold out. rewrite (rot_recon OR OR_FieldLaws n p k Vk Uk lam Rm RinvT c HR).
  - unfold mscale, mmul, mH, colscale. apply tab_ext. intros i j Hi Hj. rewrite get_tab by assumption.
    cbn [fmul OR]. rewrite <- (sum_scale_l OR OR_FieldLaws). apply (sum_ext OR). intros l Hl.
    rewrite !get_tab by lia. unfold vmap. rewrite vget_vtab by lia. cbn [fmul fconj fsqrt OR].
    destruct (Hs l Hl) as [Hs0 Hlam]. rewrite Hlam.
    replace (sqrt (vget OR s l * vget OR s l / IZR (Z.of_nat n - 1))) with (vget OR s l / c).
    + field. lra.
    + unfold Rdiv. rewrite sqrt_mult_alt by nra. rewrite sqrt_square by exact Hs0.
      rewrite (sqrt_inv (IZR (Z.of_nat n - 1))). reflexivity.
  - intros j Hj. specialize (HD j Hj). cbn [fsqrt fconj f0 OR]. split; [|reflexivity].
    apply Rgt_not_eq. apply sqrt_lt_R0. exact HD.
  - intros j Hj. specialize (HD j Hj). cbn [fsqrt fmul fofZ OR]. unfold c.
    unfold out in HD. set (d := vget OR (r_expvar (rot_fit OR n p k Vk Uk lam Rm RinvT)) j) in *. clearbody d.
    rewrite sqrt_mult_alt by lra. ring. Qed.
