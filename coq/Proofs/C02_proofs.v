(* C02 — stacking to the sample-by-feature matrix and back attaches every value to its own
   multi-index, for any number of dimensions, any sizes, any dimension order. *)
From Coq Require Import ZArith List Bool Lia Arith Permutation.
From XV Require Import Base.Scalar Base.Mat Model.NdArr.
Import ListNotations.

Lemma size_pos sh : Forall (fun s => 0 < s) sh -> 0 < size sh.
Proof. induction 1 as [|s sh Hs Hall IH]; cbn [size fold_right]; [lia|]. fold (size sh). nia. Qed.

Lemma inb_length sh idx : inb sh idx -> length idx = length sh.
Proof. revert idx; induction sh as [|s sh IH]; intros [|i idx] H; cbn in *; try tauto. f_equal. apply IH; tauto. Qed.

Lemma inb_pos sh idx : inb sh idx -> Forall (fun s => 0 < s) sh.
Proof. revert idx; induction sh as [|s sh IH]; intros idx H; [constructor|]. destruct idx as [|i idx]; cbn [inb] in H; [tauto|].
  destruct H as [Hi H]. constructor; [lia|]. eapply IH; exact H. Qed.

Lemma flatten_lt sh idx : inb sh idx -> flatten sh idx < size sh.
Proof. revert idx; induction sh as [|s sh IH]; intros idx H; destruct idx as [|i idx]; cbn [inb] in H; try tauto.
  - cbn; lia.
  - destruct H as [Hi H]. specialize (IH idx H). cbn [flatten size fold_right]. fold (size sh). nia. Qed.

(* mixed-radix round trips *)
Lemma unflatten_flatten sh idx : inb sh idx -> unflatten sh (flatten sh idx) = idx.
Proof. revert idx; induction sh as [|s sh IH]; intros idx H; destruct idx as [|i idx]; cbn [inb] in H; try tauto.
  destruct H as [Hi H]. pose proof (flatten_lt sh idx H) as Hlt. cbn [flatten unflatten].
  assert (Hp : 0 < size sh) by lia.
  rewrite Nat.div_add_l by lia. rewrite (Nat.div_small (flatten sh idx)) by exact Hlt.
  rewrite (Nat.add_comm (i * size sh)), Nat.mod_add by lia. rewrite Nat.mod_small by exact Hlt.
  rewrite IH by exact H. f_equal. lia. Qed.

Lemma unflatten_inb sh j : Forall (fun s => 0 < s) sh -> j < size sh -> inb sh (unflatten sh j).
Proof. revert j; induction sh as [|s sh IH]; intros j Hp Hj; cbn [unflatten inb]; [exact I|].
  inversion Hp as [|? ? Hs Hrest]; subst. pose proof (size_pos sh Hrest) as Hsz.
  cbn [size fold_right] in Hj. fold (size sh) in Hj. split.
  - apply Nat.div_lt_upper_bound; lia.
  - apply IH; [exact Hrest|]. apply Nat.mod_upper_bound; lia. Qed.

Lemma flatten_unflatten sh j : Forall (fun s => 0 < s) sh -> j < size sh -> flatten sh (unflatten sh j) = j.
Proof. revert j; induction sh as [|s sh IH]; intros j Hp Hj; cbn [unflatten flatten].
  - cbn in Hj; lia.
  - inversion Hp as [|? ? Hs Hrest]; subst. pose proof (size_pos sh Hrest) as Hsz.
    rewrite IH by (try exact Hrest; apply Nat.mod_upper_bound; lia).
    rewrite (Nat.div_mod j (size sh)) at 3 by lia. lia. Qed.

Lemma flatten_unflatten_inb sh j :
  Forall (fun s => 0 < s) sh -> j < size sh -> flatten sh (unflatten sh j) = j /\ inb sh (unflatten sh j).
Proof. intros Hp Hj. exact (conj (flatten_unflatten sh j Hp Hj) (unflatten_inb sh j Hp Hj)). Qed.

(* gather / scatter along a permutation of the dimension positions *)
Lemma index_of_nth x l : In x l -> nth (index_of x l) l 0 = x.
Proof. induction l as [|y r IH]; intros H; [destruct H|]. cbn [index_of]. destruct (Nat.eqb_spec x y) as [->|Hne]; [reflexivity|].
  cbn [nth]. apply IH. destruct H as [->|H]; [congruence|exact H]. Qed.

Lemma index_of_lt x l : In x l -> index_of x l < length l.
Proof. induction l as [|y r IH]; intros H; [destruct H|]. cbn [index_of length]. destruct (Nat.eqb_spec x y); [lia|].
  destruct H as [->|H]; [congruence|]. specialize (IH H). lia. Qed.

Lemma nth_map_in {A B} (f : A -> B) l i d d' : i < length l -> nth i (map f l) d = f (nth i l d').
Proof. intros Hi. rewrite (nth_indep _ d (f d')) by (rewrite map_length; exact Hi). apply map_nth. Qed.

Lemma scatter_gather order idx : Permutation order (seq 0 (length idx)) -> scatter order (gather order idx) = idx.
Proof. intros Hp. assert (Hl : length order = length idx) by (rewrite (Permutation_length Hp), seq_length; reflexivity).
  unfold scatter, gather. rewrite Hl. apply nth_ext with (d := 0) (d' := 0).
  - rewrite map_length, seq_length. reflexivity.
  - intros pos Hpos. rewrite map_length, seq_length in Hpos.
    rewrite (nth_map_in _ _ _ 0 0) by (rewrite seq_length; exact Hpos). rewrite seq_nth by exact Hpos. cbn [Nat.add].
    assert (Hin : In pos order) by (eapply Permutation_in; [apply Permutation_sym; exact Hp|apply in_seq; lia]).
    rewrite (nth_map_in _ _ _ 0 0) by (apply index_of_lt; exact Hin). rewrite index_of_nth by exact Hin. reflexivity. Qed.

Lemma gather_length order l : length (gather order l) = length order.
Proof. unfold gather. apply map_length. Qed.

Lemma inb_gather sh idx order : inb sh idx -> Forall (fun k => k < length sh) order -> inb (gather order sh) (gather order idx).
Proof. intros Hin Hord. induction Hord as [|k order Hk Hall IH]; cbn [gather map inb]; [exact I|]. split; [|exact IH].
  clear IH Hall. revert idx k Hin Hk. induction sh as [|s sh IHs]; intros [|i idx] k Hin Hk; cbn [inb] in Hin; try tauto; cbn [length] in Hk; [lia|].
  destruct k as [|k]; cbn [nth]; [tauto|]. apply IHs; [tauto|lia]. Qed.

Lemma inb_app sh1 sh2 i1 i2 : inb sh1 i1 -> inb sh2 i2 -> inb (sh1 ++ sh2) (i1 ++ i2).
Proof. revert i1; induction sh1 as [|s sh IH]; intros [|i i1] H1 H2; cbn [inb app] in *; try tauto. split; [tauto|]. apply IH; tauto. Qed.

Lemma inb_firstn sh idx n : inb sh idx -> inb (firstn n sh) (firstn n idx).
Proof. revert sh idx; induction n as [|n IH]; intros [|s sh] [|i idx] H; cbn [firstn inb] in *; try tauto. split; [tauto|]. apply IH; tauto. Qed.
Lemma inb_skipn sh idx n : inb sh idx -> inb (skipn n sh) (skipn n idx).
Proof. revert sh idx; induction n as [|n IH]; intros [|s sh] [|i idx] H; cbn [skipn inb] in *; try tauto. apply IH; tauto. Qed.

Section RoundTrip.
Context {F : Type} (K : Ops F).

(* every value of the stacked matrix is the value of the array at the multi-index the model names,
   and unstacking reads it back at that multi-index: for every in-range multi-index *)
Theorem stack_unstack (A : nd) (order : list nat) (ns : nat) (idx : list nat) :
  Permutation order (seq 0 (length (nd_shape A))) -> inb (nd_shape A) idx ->
  unstack_get K (stack2d K A order ns) (nd_shape A) order ns idx = nd_get K A idx.
Proof. intros Hp Hin. unfold unstack_get, stack2d.
  set (sh := nd_shape A) in *. set (shg := gather order sh). set (g := gather order idx).
  assert (Hord : Forall (fun k => k < length sh) order).
  { apply Forall_forall. intros k Hk. assert (In k (seq 0 (length sh))) by (eapply Permutation_in; eassumption). apply in_seq in H. lia. }
  assert (Hg : inb shg g) by (apply inb_gather; assumption).
  assert (Hg1 : inb (firstn ns shg) (firstn ns g)) by (apply inb_firstn; exact Hg).
  assert (Hg2 : inb (skipn ns shg) (skipn ns g)) by (apply inb_skipn; exact Hg).
  rewrite get_tab by (apply flatten_lt; assumption).
  rewrite !unflatten_flatten by assumption. rewrite firstn_skipn.
  unfold g. rewrite scatter_gather; [reflexivity|]. rewrite (inb_length sh idx Hin). exact Hp. Qed.

(* concatenating feature blocks and splitting by the recorded sizes is the identity *)
Lemma hsplit_hcat_aux n (blocks : list (nat * list (list F))) :
  Forall (fun b => wf K n (fst b) (snd b)) blocks ->
  forall (pre : nat) (M : list (list F)),
  (forall i j, i < n -> j < total_width blocks -> get K M i (pre + j) = get K (hcat K n blocks) i j) ->
  hsplit K n (map fst blocks) pre M = map snd blocks.
Proof. induction 1 as [|[p B] rest HB Hrest IH]; intros pre M HM; cbn [map hsplit]; [reflexivity|]. cbn [fst snd] in *. f_equal.
  - rewrite HB. apply tab_ext. intros i j Hi Hj. rewrite HM by (cbn [total_width fold_right fst]; lia).
    cbn [hcat]. unfold hstack. rewrite get_tab by (cbn [fst]; lia).
    replace (Nat.ltb j p) with true by (symmetry; apply Nat.ltb_lt; exact Hj). reflexivity.
  - apply IH. intros i j Hi Hj.
    replace (pre + p + j) with (pre + (p + j)) by lia. rewrite HM by (cbn [total_width fold_right fst]; unfold total_width in Hj; lia).
    cbn [hcat]. unfold hstack. rewrite get_tab by (unfold total_width in Hj; cbn [fst]; lia).
    replace (Nat.ltb (p + j) p) with false by (symmetry; apply Nat.ltb_ge; lia). f_equal. lia. Qed.

Theorem hsplit_hcat n (blocks : list (nat * list (list F))) :
  Forall (fun b => wf K n (fst b) (snd b)) blocks ->
  hsplit K n (map fst blocks) 0 (hcat K n blocks) = map snd blocks.
Proof. intros H. apply hsplit_hcat_aux; [exact H|]. intros i j Hi Hj. reflexivity. Qed.
End RoundTrip.
