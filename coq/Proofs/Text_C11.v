(* written by tools/mk_text_tie.py: the source text against which the hand-written model parts of C11 were last validated *)
From Coq Require Import String List.
From XV Require Import Gen.T9text.
Import ListNotations.
Open Scope string_scope.

(* xeofs/linalg/_numpy/_rotation.py: _promax *)
Lemma text_C11_module__promax_frozen : text_C11_module__promax =
  ["X = X.copy()";
   "X, rot_mat = _varimax(X=X, max_iter=max_iter, rtol=rtol, compute=compute)";
   "h = np.sqrt(np.sum(X * X.conj(), axis=1))";
   "eps = np.finfo(X.dtype).eps";
   "X = (1.0 / (h + eps))[:, np.newaxis] * X";
   "Xnorm = X / np.max(abs(X), axis=0)";
   "P = Xnorm * np.abs(Xnorm) ** (power - 1)";
   "L = np.linalg.inv(X.conj().T @ X) @ X.conj().T @ P";
   "try:";
   "sigma_inv = np.diag(np.diag(np.linalg.inv(L.conj().T @ L)))";
   "sigma_inv = np.diag(np.diag(np.linalg.pinv(L.conj().T @ L)))";
   "L = L @ np.sqrt(sigma_inv)";
   "Xrot = X @ L";
   "Xrot = (h + eps)[:, np.newaxis] * Xrot";
   "rot_mat = rot_mat @ L";
   "L_inv = np.linalg.inv(L)";
   "phi = L_inv @ L_inv.conj().T";
   "return (Xrot, rot_mat, phi)"].
Proof. reflexivity. Qed.

(* xeofs/preprocessing/whitener.py: Whitener.transform_components *)
Lemma text_C11_Whitener_transform_components_frozen : text_C11_Whitener_transform_components =
  ["if self.is_identity:";
   "return X";
   "dummy_dim = 'dummy_dim'";
   "VS = self.T.conj().T";
   "VS = VS.rename({'mode': dummy_dim})";
   "transformed = xr.dot(VS, X, dims=self.feature_name)";
   "transformed.name = X.name";
   "return transformed.rename({dummy_dim: self.feature_name})"].
Proof. reflexivity. Qed.

(* xeofs/preprocessing/whitener.py: Whitener.inverse_transform_components *)
Lemma text_C11_Whitener_inverse_transform_components_frozen : text_C11_Whitener_inverse_transform_components =
  ["if self.is_identity:";
   "return X";
   "dummy_dim = 'dummy_dim'";
   "comps_pc_space = X.rename({self.feature_name: dummy_dim})";
   "VS = self.Tinv.conj().T";
   "VS = VS.rename({'mode': dummy_dim})";
   "transformed = xr.dot(VS, comps_pc_space, dims=dummy_dim)";
   "transformed.name = X.name";
   "return transformed"].
Proof. reflexivity. Qed.

Definition all_frozen : Prop :=
  text_C11_module__promax = ["X = X.copy()";
   "X, rot_mat = _varimax(X=X, max_iter=max_iter, rtol=rtol, compute=compute)";
   "h = np.sqrt(np.sum(X * X.conj(), axis=1))";
   "eps = np.finfo(X.dtype).eps";
   "X = (1.0 / (h + eps))[:, np.newaxis] * X";
   "Xnorm = X / np.max(abs(X), axis=0)";
   "P = Xnorm * np.abs(Xnorm) ** (power - 1)";
   "L = np.linalg.inv(X.conj().T @ X) @ X.conj().T @ P";
   "try:";
   "sigma_inv = np.diag(np.diag(np.linalg.inv(L.conj().T @ L)))";
   "sigma_inv = np.diag(np.diag(np.linalg.pinv(L.conj().T @ L)))";
   "L = L @ np.sqrt(sigma_inv)";
   "Xrot = X @ L";
   "Xrot = (h + eps)[:, np.newaxis] * Xrot";
   "rot_mat = rot_mat @ L";
   "L_inv = np.linalg.inv(L)";
   "phi = L_inv @ L_inv.conj().T";
   "return (Xrot, rot_mat, phi)"] /\
  text_C11_Whitener_transform_components = ["if self.is_identity:";
   "return X";
   "dummy_dim = 'dummy_dim'";
   "VS = self.T.conj().T";
   "VS = VS.rename({'mode': dummy_dim})";
   "transformed = xr.dot(VS, X, dims=self.feature_name)";
   "transformed.name = X.name";
   "return transformed.rename({dummy_dim: self.feature_name})"] /\
  text_C11_Whitener_inverse_transform_components = ["if self.is_identity:";
   "return X";
   "dummy_dim = 'dummy_dim'";
   "comps_pc_space = X.rename({self.feature_name: dummy_dim})";
   "VS = self.Tinv.conj().T";
   "VS = VS.rename({'mode': dummy_dim})";
   "transformed = xr.dot(VS, comps_pc_space, dims=dummy_dim)";
   "transformed.name = X.name";
   "return transformed"].

Lemma all_frozen_holds : all_frozen.
Proof. exact (conj text_C11_module__promax_frozen (conj text_C11_Whitener_transform_components_frozen text_C11_Whitener_inverse_transform_components_frozen)). Qed.
