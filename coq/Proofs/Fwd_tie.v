(* what the constructors of the model classes do with their own parameters when they call a parent constructor (Gen/T8fwd.v):
   every parameter is forwarded under its own name, used locally, or - for the named special cases - replaced by a pinned literal;
   none is dropped and none is replaced by anything else *)
From Coq Require Import String List Bool.
From XV Require Import Gen.T8fwd.
Import ListNotations.
Open Scope string_scope.

Definition how_ok (h : string) : bool := String.eqb h "local" || prefix "pinned:" h.
Lemma ctor_nothing_dropped_or_replaced : forallb (fun r => how_ok (snd r)) ctor_special = true.
Proof. vm_compute. reflexivity. Qed.

(* the pinned keywords are the whitening degrees of the named methods and CPCCA's centring *)
Lemma ctor_pinned_known : filter (fun r => prefix "pinned:" (snd r)) ctor_special =
  [("CCA", "CPCCA.__init__", "alpha", "pinned:[0.0, 0.0]"); ("ComplexCCA", "ComplexCPCCA.__init__", "alpha", "pinned:[0.0, 0.0]");
   ("HilbertCCA", "HilbertCPCCA.__init__", "alpha", "pinned:[0.0, 0.0]"); ("CPCCA", "super().__init__", "center", "pinned:True");
   ("MCA", "CPCCA.__init__", "alpha", "pinned:[1.0, 1.0]"); ("ComplexMCA", "ComplexCPCCA.__init__", "alpha", "pinned:[1.0, 1.0]");
   ("HilbertMCA", "HilbertCPCCA.__init__", "alpha", "pinned:[1.0, 1.0]"); ("RDA", "CPCCA.__init__", "alpha", "pinned:[0.0, 1.0]");
   ("ComplexRDA", "ComplexCPCCA.__init__", "alpha", "pinned:[0.0, 1.0]"); ("HilbertRDA", "HilbertCPCCA.__init__", "alpha", "pinned:[0.0, 1.0]")].
Proof. vm_compute. reflexivity. Qed.

(* the variants of two seeded changes, refuted by the same predicate *)
Example dropped_refuted : how_ok "dropped" = false /\ how_ok "replaced:False" = false.
Proof. split; vm_compute; reflexivity. Qed.

(* ---- objects built inside the model classes (Gen/T8fwd.v: cross_stage_field_indices, inner_objects) *)

(* every stage of field k of a cross-set model takes element k of every per-field parameter: 22 per-field values, none crossed *)
Lemma cross_stages_take_their_own_field :
  forallb (fun r => let '(_, _, fld, idx) := r in Nat.eqb fld (S idx)) cross_stage_field_indices = true /\
  List.length cross_stage_field_indices = 22.
Proof. split; vm_compute; reflexivity. Qed.
Example crossed_index_refuted : (let '(_, _, fld, idx) := ("pca2", "n_modes", 2, 0) in Nat.eqb fld (S idx)) = false.
Proof. reflexivity. Qed.

Definition obj_kw (owner meth callee kw : string) : list string :=
  map (fun r => let '(_, _, _, _, _, v) := r in v)
      (filter (fun r => let '(o, m, _, c, k, _) := r in String.eqb o owner && String.eqb m meth && String.eqb c callee && String.eqb k kw) inner_objects).

(* the decomposition steps that models run inside themselves are built lazily and without a NaN scan of their own: they receive the model's
   `compute` and check_nans=False (the model's Preprocessor has dealt with missing values already) *)
Lemma inner_steps_stay_lazy :
  obj_kw "ExtendedEOF" "__init__" "EOF" "check_nans" = ["False"] /\ obj_kw "ExtendedEOF" "_fit_algorithm" "EOF" "check_nans" = ["False"] /\
  obj_kw "OPA" "_fit_algorithm" "EOF" "check_nans" = ["False"] /\
  obj_kw "ExtendedEOF" "__init__" "EOF" "compute" = ["self._params['compute']"] /\ obj_kw "ExtendedEOF" "_fit_algorithm" "EOF" "compute" = ["self._params['compute']"] /\
  obj_kw "OPA" "_fit_algorithm" "EOF" "compute" = ["self._params['compute']"] /\ obj_kw "OPA" "_fit_algorithm" "Decomposer" "compute" = ["self._params['compute']"] /\
  obj_kw "POP" "__init__" "PCA" "compute_eagerly" = ["compute"] /\ obj_kw "PCA" "fit" "SVD" "compute" = ["self.compute_eagerly"] /\
  obj_kw "BaseModelCrossSet" "__init__" "Preprocessor" "compute" = ["compute"; "compute"] /\ obj_kw "BaseModelSingleSet" "__init__" "Preprocessor" "compute" = ["compute"].
Proof. repeat split; vm_compute; reflexivity. Qed.

(* every decomposition step built inside a model that takes a seed receives the model's seed *)
Lemma inner_steps_are_seeded :
  obj_kw "ExtendedEOF" "__init__" "EOF" "random_state" = ["self._params['random_state']"] /\
  obj_kw "ExtendedEOF" "_fit_algorithm" "EOF" "random_state" = ["self._params['random_state']"] /\
  obj_kw "OPA" "_fit_algorithm" "EOF" "random_state" = ["self._params['random_state']"] /\
  obj_kw "POP" "__init__" "PCA" "random_state" = ["random_state"] /\
  obj_kw "BaseModelCrossSet" "__init__" "PCA" "random_state" = ["random_state"; "random_state"] /\
  obj_kw "PCA" "fit" "SVD" "random_state" = ["self.random_state"].
Proof. repeat split; vm_compute; reflexivity. Qed.
