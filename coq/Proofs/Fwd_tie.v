(* what the constructors of the model classes do with their own parameters when they call a parent constructor (Gen/T8fwd.v):
   every parameter is forwarded under its own name, used locally, or - for the named special cases - replaced by a pinned literal;
   none is dropped and none is replaced by anything else *)
From Coq Require Import String List Bool.
From XV Require Import Gen.T8fwd.
Import ListNotations.
Open Scope string_scope.

Definition how_ok (h : string) : bool := String.eqb h "local" || prefix "pinned:" h.
Lemma ctor_nothing_dropped_or_replaced : forallb (fun r => how_ok (snd r)) ctor_special = true.
Proof. vm_compute. reflexivity. Qed.

(* the pinned keywords are the whitening degrees of the named methods and CPCCA's centring *)
Lemma ctor_pinned_known : filter (fun r => prefix "pinned:" (snd r)) ctor_special =
  [("CCA", "CPCCA.__init__", "alpha", "pinned:[0.0, 0.0]"); ("ComplexCCA", "ComplexCPCCA.__init__", "alpha", "pinned:[0.0, 0.0]");
   ("HilbertCCA", "HilbertCPCCA.__init__", "alpha", "pinned:[0.0, 0.0]"); ("CPCCA", "super().__init__", "center", "pinned:True");
   ("MCA", "CPCCA.__init__", "alpha", "pinned:[1.0, 1.0]"); ("ComplexMCA", "ComplexCPCCA.__init__", "alpha", "pinned:[1.0, 1.0]");
   ("HilbertMCA", "HilbertCPCCA.__init__", "alpha", "pinned:[1.0, 1.0]"); ("RDA", "CPCCA.__init__", "alpha", "pinned:[0.0, 1.0]");
   ("ComplexRDA", "ComplexCPCCA.__init__", "alpha", "pinned:[0.0, 1.0]"); ("HilbertRDA", "HilbertCPCCA.__init__", "alpha", "pinned:[0.0, 1.0]")].
Proof. vm_compute. reflexivity. Qed.

(* the variants of two seeded changes, refuted by the same predicate *)
Example dropped_refuted : how_ok "dropped" = false /\ how_ok "replaced:False" = false.
Proof. split; vm_compute; reflexivity. Qed.
