(* ties between the rotation model (Model/Rot.v) and the formulas regenerated from eof_rotator.py *)
From Coq Require Import String ZArith List Bool.
From XV Require Import Base.Scalar Model.Rot Gen.T5rot.
Import ListNotations.

Lemma tie_rot_formulas : forall (F : Type) (K : Ops F) (v lam rl d : F) (n : nat),
  rot_loading K v lam = fmul K v (fsqrt K lam) /\
  rot_component K rl d = fdiv K rl (fsqrt K d) /\
  rot_pseudo_norm K d (Z.of_nat n) = fsqrt K (fmul K d (fofZ K (Z.of_nat n - 1))).
Proof. intros. repeat split; reflexivity. Qed.

Lemma tie_rot_steps :
  rot_fit_score_steps = [SDivSvals; SRotate; SMulNorms; SMulSign] /\
  rot_transform_steps = [SDivSvals; SRotate; SSortIfSorted; SMulNorms; SMulSign] /\
  rot_sign_from_components_applied_to_both = true /\ rot_sort_all_mode_arrays = true /\
  rot_expvar_is_sum_abs2_over_features = true /\ rot_inv_trans_threshold_power = 1%Z.
Proof. repeat split; reflexivity. Qed.

(* the cross-set rotator: steps of the stored scores in fit and of transform, per field (Gen/T5rot.v) *)
Lemma tie_cross_rotator_steps :
  cpcca_rot_fit_score_steps = [FDivSqrtSvals; FRotate; FMulNorm; FMulSign] /\
  cpcca_rot_transform_steps = [XProject; XDivSqrtSvals; XRotate; XSortIfSorted; XMulSign; XMulNormUnlessNormalized; XBackWithOwnPreprocessor] /\
  cpcca_rot_transform_fields = [("X", "components1", "norm1", "preprocessor1"); ("Y", "components2", "norm2", "preprocessor2")]%string.
Proof. repeat split; reflexivity. Qed.
