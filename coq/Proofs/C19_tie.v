(* ties between the OPA model (Model/Opa.v) and the definitions regenerated from xeofs/single/opa.py and
   xeofs/linalg/decomposer.py (Gen/T5opa.v). Closed by computation. *)
From Coq Require Import String ZArith List Bool.
From XV Require Import Base.Scalar Base.Sum Base.Mat Model.Opa Gen.T5opa.
Import ListNotations.

(* _Ctau: shift direction, which factor carries which index, divisor (n_samples AFTER shift/dropna) - 1 *)
Lemma tie_ctau : forall (F : Type) (K : Ops F) (n q : nat) (S : list (list F)) (tau : nat),
  ctau K n q S tau = opa_ctau_src K n q S tau /\ ctau_div K n tau = fofZ K (opa_ctau_divisor_src n tau) /\
  opa_ctau_nsamples_after_dropna = true /\ opa_ctau_divisor_src n tau = (Z.of_nat (n - tau) - 1)%Z.
Proof. intros. repeat split; reflexivity. Qed.

(* scores / sqrt(n_samples - 1), components * sqrt(n_samples - 1) *)
Lemma tie_scaling : forall (F : Type) (K : Ops F) (n : nat) (x : F),
  pc_scale K n x = opa_pc_scale_src K n x /\ eof_scale K n x = opa_eof_scale_src K n x.
Proof. intros. split; reflexivity. Qed.

(* lag weights 1/2 at lag 0 and at tau_max, 1 in between; loop over 1..tau_max inclusive; the same fold *)
Lemma tie_lag_sum : forall (F : Type) (K : Ops F) (n q : nat) (S : list (list F)) (tau_max tau : nat),
  lag_weight K tau_max tau = opa_lag_weight_src K tau_max tau /\
  msum K n q S tau_max = opa_msum_src K n q S tau_max /\
  opa_lag_loop_first = 1%nat /\ opa_lag_loop_includes_tau_max = true.
Proof. intros. repeat split; reflexivity. Qed.

(* M + M^T, and the target with the source's contractions and its factor 1/2 *)
Lemma tie_target : forall (F : Type) (K : Ops F) (q : nat) (M Ci Ms : list (list F)),
  msym K q M = opa_symmetrise_src K q M /\ target K q Ci Ms = opa_target_src K q Ci Ms /\
  opa_ci_dims = ["mode"; "feature1"]%string.
Proof. intros. repeat split; reflexivity. Qed.

Lemma tie_ci : forall (F : Type) (K : Ops F) (q : nat) (U0 : list (list F)) (s0 : list F),
  ci_sym K q U0 s0 = opa_ci_src K q U0 s0.
Proof. reflexivity. Qed.

(* the decompositions run without sign flipping through the exact solver; whether the eigen-problem of the
   target goes through an SVD (singular values taken as eigenvalues) is the generated flag: the variant of
   the model that corresponds to the source as it stands is the one selected by that flag *)
Lemma tie_decomposition :
  opa_decomposer_flip_signs = false /\ opa_decomposer_solver = "full"%string /\ opa_real_data_only = true.
Proof. repeat split; reflexivity. Qed.

Definition opa_fit_src {F : Type} (K : Ops F) := opa_fit K opa_eigen_via_svd.

Lemma tie_variant : forall (F : Type) (K : Ops F) (n p q k : nat) (S E Ci U : list (list F)) (lam : list F),
  o_tau (opa_fit_src K n p q k S E Ci U lam) = reported K opa_eigen_via_svd k lam.
Proof. reflexivity. Qed.

(* filter patterns, patterns, series, back-projection: the products of the fitted record *)
Lemma tie_products : forall (F : Type) (K : Ops F) (svd : bool) (n p q k : nat) (S E Ci U : list (list F)) (lam : list F),
  let o := opa_fit K svd n p q k S E Ci U lam in
  o_V o = opa_V_src K q k Ci (mcols K q k U) /\
  o_W o = opa_W_src K q k (opa_ctau_src K n q S 0) (o_V o) /\
  o_P o = opa_P_src K n q k S (o_V o) /\
  o_Vphys o = opa_Vphys_src K p q k E (o_V o) /\
  o_Wphys o = opa_Wphys_src K p q k E (o_W o).
Proof. intros. repeat split; reflexivity. Qed.

Lemma tie_store :
  opa_store = [("input_data", "scores"); ("components", "W"); ("scores", "P"); ("norms", "norms");
               ("filter_patterns", "V"); ("decorrelation_time", "lbda")]%string /\
  opa_norms_are_l2_of_series = true /\ opa_decorrelation_time_accessor = "decorrelation_time"%string.
Proof. repeat split; reflexivity. Qed.

Lemma model_matches_source :
  (forall (F : Type) (K : Ops F) (n q : nat) (S : list (list F)) (tau_max tau : nat),
     ctau K n q S tau = opa_ctau_src K n q S tau /\
     lag_weight K tau_max tau = opa_lag_weight_src K tau_max tau /\
     msum K n q S tau_max = opa_msum_src K n q S tau_max) /\
  (forall (F : Type) (K : Ops F) (q : nat) (M Ci Ms : list (list F)),
     msym K q M = opa_symmetrise_src K q M /\ target K q Ci Ms = opa_target_src K q Ci Ms) /\
  (forall (F : Type) (K : Ops F) (n : nat) (x : F),
     pc_scale K n x = opa_pc_scale_src K n x /\ eof_scale K n x = opa_eof_scale_src K n x) /\
  (forall n tau : nat, opa_ctau_divisor_src n tau = (Z.of_nat (n - tau) - 1)%Z) /\
  opa_decomposer_flip_signs = false /\ opa_lag_loop_includes_tau_max = true /\
  opa_store = [("input_data", "scores"); ("components", "W"); ("scores", "P"); ("norms", "norms");
               ("filter_patterns", "V"); ("decorrelation_time", "lbda")]%string.
Proof. repeat split; reflexivity. Qed.
