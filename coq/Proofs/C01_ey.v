(* C01 — Eckart-Young (Frobenius norm), in full: no n x k times k x p product approximates X better than the
   first k modes.  Real instance.  Part 1 works with vectors as functions nat -> R. *)
From Coq Require Import ZArith List Bool Reals Lra Lia Arith.
From XV Require Import Base.Scalar Base.Sum Base.Mat Base.MatAlg Base.RInst Model.Eof Proofs.C01_proofs Proofs.C01_order.
Import ListNotations.
Open Scope R_scope.

Notation rsum := (sum OR).

Lemma rsum_S n f : rsum (S n) f = rsum n f + f n.
Proof. reflexivity. Qed.

Lemma rsum_le n f g : (forall i, (i < n)%nat -> f i <= g i) -> rsum n f <= rsum n g.
Proof. induction n as [|n IH]; intros H; [cbn; lra|]. rewrite !rsum_S.
  assert (rsum n f <= rsum n g) by (apply IH; intros; apply H; lia). specialize (H n ltac:(lia)). lra. Qed.

Lemma rsum_const n c : rsum n (fun _ => c) = INR n * c.
Proof. induction n as [|n IH]; [cbn; lra|]. rewrite rsum_S, IH, S_INR. lra. Qed.

Lemma rsum_plus n f g : rsum n (fun i => f i + g i) = rsum n f + rsum n g.
Proof. induction n as [|n IH]; [cbn; lra|]. rewrite !rsum_S, IH. lra. Qed.

Lemma rsum_minus n f g : rsum n (fun i => f i - g i) = rsum n f - rsum n g.
Proof. induction n as [|n IH]; [cbn; lra|]. rewrite !rsum_S, IH. lra. Qed.

Lemma rsum_scal n c f : rsum n (fun i => c * f i) = c * rsum n f.
Proof. induction n as [|n IH]; [cbn; lra|]. rewrite !rsum_S, IH. lra. Qed.

Lemma rsum_ext n f g : (forall i, (i < n)%nat -> f i = g i) -> rsum n f = rsum n g.
Proof. apply (sum_ext OR). Qed.

Lemma rsum_split m n f : rsum (m + n) f = rsum m f + rsum n (fun i => f (m + i)%nat).
Proof. induction n as [|n IH]; [rewrite Nat.add_0_r; cbn; lra|]. rewrite Nat.add_succ_r, !rsum_S, IH. lra. Qed.

Lemma rsum_swap m n (f : nat -> nat -> R) : rsum m (fun i => rsum n (fun j => f i j)) = rsum n (fun j => rsum m (fun i => f i j)).
Proof. induction m as [|m IH]; [cbn; induction n as [|n IHn]; [reflexivity|rewrite rsum_S, <- IHn; cbn; lra]|].
  rewrite rsum_S, IH. rewrite <- rsum_plus. apply rsum_ext. intros j Hj. rewrite rsum_S. reflexivity. Qed.

Lemma rsum_sq_zero n f : rsum n (fun i => f i * f i) = 0 -> forall i, (i < n)%nat -> f i = 0.
Proof. induction n as [|n IH]; intros H i Hi; [lia|]. rewrite rsum_S in H.
  assert (H0 : 0 <= rsum n (fun i => f i * f i)) by (apply sum_R_nonneg; intros j0 Hj0; cbv beta; apply Rle_0_sqr).
  assert (H1 : 0 <= f n * f n) by nra.
  destruct (Nat.eq_dec i n) as [->|Hne]; [nra|]. apply IH; [lra|lia]. Qed.

(* ---------- dot products ---------- *)
Definition dot (p : nat) (x y : nat -> R) : R := rsum p (fun l => x l * y l).

Lemma dot_sym p x y : dot p x y = dot p y x.
Proof. unfold dot. apply rsum_ext. intros; lra. Qed.
Lemma dot_sub_scal_l p x y z c : dot p (fun l => x l - c * y l) z = dot p x z - c * dot p y z.
Proof. unfold dot. rewrite <- rsum_scal, <- rsum_minus. apply rsum_ext. intros; lra. Qed.
Lemma dot_nonneg p x : 0 <= dot p x x.
Proof. unfold dot. apply sum_R_nonneg. intros; nra. Qed.
Lemma dot_ext p x x' y y' : (forall l, (l < p)%nat -> x l = x' l) -> (forall l, (l < p)%nat -> y l = y' l) -> dot p x y = dot p x' y'.
Proof. intros H1 H2. unfold dot. apply rsum_ext. intros l Hl. rewrite H1, H2 by exact Hl. reflexivity. Qed.

(* k vectors q 0 .. q (k-1) of R^p, orthonormal *)
Definition orthonormal (p k : nat) (q : nat -> nat -> R) : Prop :=
  forall a b, (a < k)%nat -> (b < k)%nat -> dot p (q a) (q b) = if Nat.eqb a b then 1 else 0.

(* x minus the combination sum_{j<k} c_j q_j, built one term at a time *)
Fixpoint resid (q : nat -> nat -> R) (c : nat -> R) (x : nat -> R) (k : nat) : nat -> R :=
  match k with O => x | S k' => fun l => resid q c x k' l - c k' * q k' l end.

Lemma resid_eq q c x k l : resid q c x k l = x l - rsum k (fun j => c j * q j l).
Proof. induction k as [|k IH]; cbn [resid]; [cbn; lra|]. rewrite IH, rsum_S. lra. Qed.

Section Resid.
Variables (p K : nat) (q : nat -> nat -> R).
Hypothesis ON : orthonormal p K q.
Variables (c x : nat -> R).

Lemma resid_dot_q k m : (k <= K)%nat -> (m < K)%nat ->
  dot p (resid q c x k) (q m) = dot p x (q m) - (if Nat.ltb m k then c m else 0).
Proof. induction k as [|k IH]; intros Hk Hm; cbn [resid]; [cbn; lra|].
  rewrite dot_sub_scal_l, IH by lia. rewrite ON by lia.
  destruct (Nat.eqb_spec k m) as [->|Hne].
  - replace (Nat.ltb m m) with false by (symmetry; apply Nat.ltb_irrefl).
    replace (Nat.ltb m (S m)) with true by (symmetry; apply Nat.ltb_lt; lia). lra.
  - destruct (Nat.ltb_spec m k); destruct (Nat.ltb_spec m (S k)); try lia; lra. Qed.

(* |x - sum_{j<k} c_j q_j|^2 = |x|^2 - 2 sum c_j (x.q_j) + sum c_j^2 *)
Lemma resid_norm k : (k <= K)%nat ->
  dot p (resid q c x k) (resid q c x k) =
  dot p x x - 2 * rsum k (fun j => c j * dot p x (q j)) + rsum k (fun j => c j * c j).
Proof. induction k as [|k IH]; intros Hk; cbn [resid]; [cbn; lra|].
  set (Rk := resid q c x k) in *. set (Z := fun l => Rk l - c k * q k l).
  assert (E1 : dot p Z Z = dot p Rk Z - c k * dot p (q k) Z) by (unfold Z at 1; apply dot_sub_scal_l).
  assert (E2 : dot p Rk Z = dot p Rk Rk - c k * dot p (q k) Rk) by (rewrite dot_sym; unfold Z; apply dot_sub_scal_l).
  assert (E3 : dot p (q k) Z = dot p Rk (q k) - c k * dot p (q k) (q k)) by (rewrite dot_sym; unfold Z; apply dot_sub_scal_l).
  assert (E4 : dot p Rk (q k) = dot p x (q k)).
  { unfold Rk. rewrite resid_dot_q by lia. replace (Nat.ltb k k) with false by (symmetry; apply Nat.ltb_irrefl). lra. }
  assert (E5 : dot p (q k) (q k) = 1) by (rewrite (ON k k) by lia; rewrite Nat.eqb_refl; reflexivity).
  rewrite E1, E2, E3, (dot_sym p (q k) Rk), E4, E5, IH by lia. rewrite !rsum_S. lra. Qed.
End Resid.

(* the best coefficients are the projections: every combination leaves at least |x|^2 - sum (x.q_j)^2 *)
Lemma projection_bound p K q c x : orthonormal p K q ->
  dot p x x - rsum K (fun j => dot p x (q j) * dot p x (q j)) <= dot p (resid q c x K) (resid q c x K).
Proof. intros ON. rewrite (resid_norm p K q ON c x K) by lia.
  assert (H : 0 <= rsum K (fun j => (c j - dot p x (q j)) * (c j - dot p x (q j)))) by (apply sum_R_nonneg; intros j0 Hj0; cbv beta; apply Rle_0_sqr).
  assert (E : rsum K (fun j => (c j - dot p x (q j)) * (c j - dot p x (q j))) =
              rsum K (fun j => c j * c j) - 2 * rsum K (fun j => c j * dot p x (q j)) + rsum K (fun j => dot p x (q j) * dot p x (q j))).
  { rewrite <- rsum_scal, <- rsum_minus, <- rsum_plus. apply rsum_ext. intros; lra. }
  lra. Qed.

(* Bessel's inequality *)
Lemma bessel p K q x : orthonormal p K q -> rsum K (fun j => dot p x (q j) * dot p x (q j)) <= dot p x x.
Proof. intros ON. pose proof (resid_norm p K q ON (fun j => dot p x (q j)) x K (le_n K)) as H.
  pose proof (dot_nonneg p (resid q (fun j => dot p x (q j)) x K)) as H0. lra. Qed.

(* |sum_j g_j u_j|^2 = sum g_j^2 for orthonormal u *)
Lemma isometry p K u g : orthonormal p K u ->
  dot p (fun l => rsum K (fun j => g j * u j l)) (fun l => rsum K (fun j => g j * u j l)) = rsum K (fun j => g j * g j).
Proof. intros ON. pose proof (resid_norm p K u ON g (fun _ => 0) K (le_n K)) as H.
  assert (E : dot p (resid u g (fun _ => 0) K) (resid u g (fun _ => 0) K) =
              dot p (fun l => rsum K (fun j => g j * u j l)) (fun l => rsum K (fun j => g j * u j l))).
  { unfold dot. apply rsum_ext. intros l Hl. rewrite !resid_eq. lra. }
  rewrite <- E, H. unfold dot at 1. rewrite (rsum_ext p _ (fun _ => 0)) by (intros; lra).
  rewrite rsum_const. rewrite (rsum_ext K (fun j => g j * dot p (fun _ => 0) (u j)) (fun _ => 0)).
  - rewrite rsum_const. lra.
  - intros j Hj. unfold dot. rewrite (rsum_ext p _ (fun _ => 0)) by (intros; lra). rewrite rsum_const. lra. Qed.

(* ---------- the weighted-sum inequality ---------- *)
Lemma weighted_le_leading (a c : nat -> R) (r k : nat) : (k <= r)%nat ->
  (forall i, (i < r)%nat -> 0 <= a i) -> (forall i j, (i <= j)%nat -> (j < r)%nat -> a j <= a i) ->
  (forall i, (i < r)%nat -> 0 <= c i <= 1) -> rsum r c <= INR k ->
  rsum r (fun i => a i * c i) <= rsum k a.
Proof. intros Hk Hpos Hdesc Hc Hs.
  replace r with (k + (r - k))%nat in * by lia. set (m := (r - k)%nat) in *. clearbody m.
  rewrite rsum_split. rewrite rsum_split in Hs.
  (* threshold t: the weight at position k (0 when there is none) *)
  destruct m as [|m].
  - cbn [sum f0 fadd OR]. assert (rsum k (fun i => a i * c i) <= rsum k a).
    { apply rsum_le. intros i Hi. specialize (Hpos i ltac:(lia)). specialize (Hc i ltac:(lia)). nra. }
    lra.
  - set (t := a k).
    assert (Ht : 0 <= t) by (apply Hpos; lia).
    assert (H1 : rsum (S m) (fun i => a (k + i)%nat * c (k + i)%nat) <= t * rsum (S m) (fun i => c (k + i)%nat)).
    { rewrite <- rsum_scal. apply rsum_le. intros i Hi. specialize (Hc (k + i)%nat ltac:(lia)).
      assert (a (k + i)%nat <= t) by (apply Hdesc; lia). assert (0 <= a (k + i)%nat) by (apply Hpos; lia). nra. }
    assert (H2 : t * (INR k - rsum k c) <= rsum k a - rsum k (fun i => a i * c i)).
    { rewrite <- rsum_minus. replace (INR k - rsum k c) with (rsum k (fun i => 1 - c i)) by (rewrite rsum_minus, rsum_const; lra).
      rewrite <- rsum_scal. apply rsum_le. intros i Hi. specialize (Hc i ltac:(lia)).
      assert (t <= a i) by (apply Hdesc; lia). nra. }
    assert (H3 : t * rsum (S m) (fun i => c (k + i)%nat) <= t * (INR k - rsum k c)) by (apply Rmult_le_compat_l; lra).
    lra. Qed.

(* ---------- Gram-Schmidt: any k vectors are combinations of at most k orthonormal ones ---------- *)
Lemma dot_div_l p x y b : dot p (fun l => x l / b) y = dot p x y / b.
Proof. unfold dot, Rdiv. rewrite <- (Rmult_comm (/ b)), <- rsum_scal. apply rsum_ext. intros; lra. Qed.

Lemma gram_schmidt p : forall k (w : nat -> nat -> R), exists k' q T, (k' <= k)%nat /\ orthonormal p k' q /\
  forall j l, (j < k)%nat -> (l < p)%nat -> w j l = rsum k' (fun m => T j m * q m l).
Proof. induction k as [|k IH]; intros w.
  - exists O, (fun _ _ => 0), (fun _ _ => 0). split; [lia|]. split; [intros a b Ha; lia|intros j l Hj; lia].
  - destruct (IH w) as (k' & q & T & Hk' & ON & Hw).
    set (x := w k). set (d := fun m => dot p x (q m)). set (u := resid q d x k'). set (nu := dot p u u).
    assert (Hux : forall l, x l = u l + rsum k' (fun m => d m * q m l)) by (intros l; unfold u; rewrite resid_eq; lra).
    destruct (Req_dec nu 0) as [Hz|Hnz].
    + (* w_k already lies in the span *)
      exists k', q, (fun j m => if Nat.eqb j k then d m else T j m). split; [lia|]. split; [exact ON|].
      intros j l Hj Hl. destruct (Nat.eqb_spec j k) as [->|Hne].
      * fold x. rewrite Hux. assert (u l = 0) by (apply (rsum_sq_zero p u Hz l Hl)). lra.
      * apply Hw; lia.
    + pose proof (dot_nonneg p u) as Hpos. fold nu in Hpos. assert (Hnu : 0 < nu) by lra.
      set (beta := sqrt nu). assert (Hb : 0 < beta) by (apply sqrt_lt_R0; exact Hnu).
      assert (Hbb : beta * beta = nu) by (apply sqrt_sqrt; lra).
      set (q' := fun m => if Nat.eqb m k' then (fun l => u l / beta) else q m).
      exists (S k'), q', (fun j m => if Nat.eqb j k then (if Nat.eqb m k' then beta else d m) else (if Nat.eqb m k' then 0 else T j m)).
      split; [lia|]. split.
      * assert (Huq : forall b, (b < k')%nat -> dot p u (q b) = 0).
        { intros b Hb'. unfold u. rewrite (resid_dot_q p k' q ON d x k' b) by lia.
          replace (Nat.ltb b k') with true by (symmetry; apply Nat.ltb_lt; lia). unfold d. lra. }
        intros a b Ha Hb'. unfold q'. destruct (Nat.eqb_spec a k') as [Ea|Ea]; destruct (Nat.eqb_spec b k') as [Eb|Eb].
        -- subst. rewrite Nat.eqb_refl. rewrite dot_div_l, dot_sym, dot_div_l. fold nu. rewrite <- Hbb. field. lra.
        -- subst a. replace (Nat.eqb k' b) with false by (symmetry; apply Nat.eqb_neq; lia).
           rewrite dot_div_l, Huq by lia. unfold Rdiv. lra.
        -- subst b. replace (Nat.eqb a k') with false by (symmetry; apply Nat.eqb_neq; lia).
           rewrite dot_sym, dot_div_l, Huq by lia. unfold Rdiv. lra.
        -- apply ON; lia.
      * intros j l Hj Hl. rewrite rsum_S. rewrite Nat.eqb_refl. unfold q' at 2. rewrite Nat.eqb_refl.
        destruct (Nat.eqb_spec j k) as [->|Hne].
        -- fold x. rewrite Hux. rewrite (rsum_ext k' (fun m => (if Nat.eqb m k' then beta else d m) * q' m l) (fun m => d m * q m l)).
           ++ field. lra.
           ++ intros m Hm. unfold q'. replace (Nat.eqb m k') with false by (symmetry; apply Nat.eqb_neq; lia). reflexivity.
        -- rewrite (Hw j l) by lia. rewrite (rsum_ext k' (fun m => (if Nat.eqb m k' then 0 else T j m) * q' m l) (fun m => T j m * q m l)).
           ++ lra.
           ++ intros m Hm. unfold q'. replace (Nat.eqb m k') with false by (symmetry; apply Nat.eqb_neq; lia). reflexivity. Qed.

(* ---------- Part 2: matrices ---------- *)
Section EckartYoung.
Variables (n p r : nat) (X U Vt : list (list R)) (s : list R).
Hypothesis OK : svd_ok OR n p r X (U, s, Vt).
Hypothesis Hord : desc_nonneg r s.

Definition xrow (i : nat) : nat -> R := fun l => get OR X i l.
Definition vrow (a : nat) : nat -> R := fun l => get OR Vt a l.
Definition ucol (a : nat) : nat -> R := fun i => get OR U i a.
Definition sv (a : nat) : R := vget OR s a.

Lemma vrow_orthonormal : orthonormal p r vrow.
Proof. destruct OK as (_ & _ & _ & _ & _ & _ & HVV & _). intros a b Ha Hb.
  unfold unitary_rows in HVV. apply (f_equal (fun M => get OR M a b)) in HVV.
  unfold mmul, mH, mI in HVV. rewrite !get_tab in HVV by assumption.
  change (if Nat.eqb a b then 1 else 0) with (delta OR a b). rewrite <- HVV. unfold dot, vrow. apply rsum_ext. intros l Hl. rewrite get_tab by assumption. reflexivity. Qed.

Lemma ucol_orthonormal : orthonormal n r ucol.
Proof. destruct OK as (_ & _ & _ & _ & _ & HUU & _ & _). intros a b Ha Hb.
  unfold unitary_cols in HUU. apply (f_equal (fun M => get OR M a b)) in HUU.
  unfold mmul, mH, mI in HUU. rewrite !get_tab in HUU by assumption.
  change (if Nat.eqb a b then 1 else 0) with (delta OR a b). rewrite <- HUU. unfold dot, ucol. apply rsum_ext. intros i Hi. rewrite get_tab by assumption. reflexivity. Qed.

Lemma xrow_expand i l : (i < n)%nat -> (l < p)%nat -> xrow i l = rsum r (fun a => ucol a i * sv a * vrow a l).
Proof. intros Hi Hl. destruct OK as (_ & _ & _ & _ & Hfac & _ & _ & _). unfold xrow. rewrite Hfac at 1.
  rewrite (mmul_diag_r OR OR_FieldLaws). unfold mmul, colscale. rewrite get_tab by assumption.
  apply rsum_ext. intros a Ha. rewrite get_tab by assumption. reflexivity. Qed.

(* sum over the rows of X of the squared projection on a vector y: sum_a s_a^2 (v_a . y)^2 *)
Lemma proj_energy (y : nat -> R) :
  rsum n (fun i => dot p (xrow i) y * dot p (xrow i) y) = rsum r (fun a => sv a * sv a * (dot p (vrow a) y * dot p (vrow a) y)).
Proof. set (g := fun a => sv a * dot p (vrow a) y).
  assert (E : forall i, (i < n)%nat -> dot p (xrow i) y = rsum r (fun a => g a * ucol a i)).
  { intros i Hi. unfold dot at 1. rewrite (rsum_ext p _ (fun l => rsum r (fun a => ucol a i * sv a * vrow a l * y l))).
    - rewrite rsum_swap. apply rsum_ext. intros a Ha. unfold g, dot.
      rewrite <- !rsum_scal. rewrite (Rmult_comm _ (ucol a i)), <- rsum_scal. apply rsum_ext. intros; lra.
    - intros l Hl. rewrite xrow_expand by assumption. rewrite (Rmult_comm _ (y l)), <- rsum_scal. apply rsum_ext. intros; lra. }
  rewrite (rsum_ext n _ (fun i => rsum r (fun a => g a * ucol a i) * rsum r (fun a => g a * ucol a i))) by (intros i Hi; rewrite E by exact Hi; reflexivity).
  pose proof (isometry n r ucol g ucol_orthonormal) as H. unfold dot in H at 1. rewrite H.
  apply rsum_ext. intros a Ha. unfold g. lra. Qed.

(* approximation by combinations of K orthonormal vectors: at least the energy outside the first K modes is missed *)
Lemma orthonormal_factor_bound (K k : nat) (q : nat -> nat -> R) (cA : nat -> nat -> R) : (K <= k)%nat -> (k <= r)%nat ->
  orthonormal p K q ->
  rsum r (fun a => sv a * sv a) - rsum k (fun a => sv a * sv a) <=
  rsum n (fun i => dot p (resid q (cA i) (xrow i) K) (resid q (cA i) (xrow i) K)).
Proof. intros HK Hk ON.
  (* row by row: the projection bound *)
  assert (H1 : rsum n (fun i => dot p (xrow i) (xrow i) - rsum K (fun j => dot p (xrow i) (q j) * dot p (xrow i) (q j))) <=
               rsum n (fun i => dot p (resid q (cA i) (xrow i) K) (resid q (cA i) (xrow i) K))).
  { apply rsum_le. intros i Hi. apply projection_bound. exact ON. }
  rewrite rsum_minus in H1.
  (* total energy *)
  assert (H2 : rsum n (fun i => dot p (xrow i) (xrow i)) = rsum r (fun a => sv a * sv a)).
  { pose proof (frob2_X OR OR_FieldLaws n p r X U Vt s OK) as HF. unfold frob2 in HF. cbn [fmul fconj OR] in HF. exact HF. }
  (* energy captured by the q's *)
  set (c := fun a => rsum K (fun j => dot p (vrow a) (q j) * dot p (vrow a) (q j))).
  assert (H3 : rsum n (fun i => rsum K (fun j => dot p (xrow i) (q j) * dot p (xrow i) (q j))) = rsum r (fun a => sv a * sv a * c a)).
  { rewrite rsum_swap. rewrite (rsum_ext K _ (fun j => rsum r (fun a => sv a * sv a * (dot p (vrow a) (q j) * dot p (vrow a) (q j))))) by (intros j Hj; apply proj_energy).
    rewrite rsum_swap. apply rsum_ext. intros a Ha. unfold c. rewrite rsum_scal. reflexivity. }
  (* 0 <= c_a <= 1 and sum c_a <= K *)
  assert (Hc : forall a, (a < r)%nat -> 0 <= c a <= 1).
  { intros a Ha. split; [apply sum_R_nonneg; intros j Hj; cbv beta; apply Rle_0_sqr|].
    pose proof (bessel p K q (vrow a) ON) as HB. rewrite (vrow_orthonormal a a Ha Ha), Nat.eqb_refl in HB. exact HB. }
  assert (Hs : rsum r c <= INR k).
  { unfold c. rewrite rsum_swap. apply Rle_trans with (INR K); [|apply le_INR; exact HK].
    rewrite <- (Rmult_1_r (INR K)), <- rsum_const. apply rsum_le. intros j Hj.
    pose proof (bessel p r vrow (q j) vrow_orthonormal) as HB. rewrite (ON j j Hj Hj), Nat.eqb_refl in HB.
    rewrite (rsum_ext r (fun a => dot p (vrow a) (q j) * dot p (vrow a) (q j)) (fun a => dot p (q j) (vrow a) * dot p (q j) (vrow a)))
      by (intros a Ha; rewrite (dot_sym p (vrow a) (q j)); reflexivity). exact HB. }
  destruct Hord as [Hpos Hdesc].
  pose proof (weighted_le_leading (fun a => sv a * sv a) c r k Hk) as HW.
  assert (HW' : rsum r (fun a => sv a * sv a * c a) <= rsum k (fun a => sv a * sv a)).
  { apply HW; [| |exact Hc|exact Hs].
    - intros i Hi. cbv beta. apply Rle_0_sqr.
    - intros i j Hij Hj. unfold sv. assert (0 <= vget OR s j) by (apply Hpos; lia). assert (vget OR s j <= vget OR s i) by (apply Hdesc; lia). nra. }
  lra. Qed.
End EckartYoung.

(* ---------- Eckart-Young: no product of an n x k and a k x p matrix is closer to X than the first k modes ---------- *)
Theorem eckart_young_full (n p r k : nat) (X U Vt : list (list R)) (s : list R) (A B : list (list R)) :
  svd_ok OR n p r X (U, s, Vt) -> desc_nonneg r s -> (k <= r)%nat ->
  let out := eof_fit OR n p r k X (U, s, Vt) in
  frob2 OR n p (msub OR n p X (eof_inverse OR n p k out (e_scores out))) <=
  frob2 OR n p (msub OR n p X (mmul OR n k p A B)).
Proof. intros OK Hord Hk. cbv zeta.
  eapply Rle_trans; [apply Req_le; exact (fit_recon_error OR OR_FieldLaws n p r k X U Vt s OK Hk)|].
  cbn [f0 fmul OR].
  (* left: total minus leading *)
  assert (HL : rsum r (fun i => if Nat.ltb i k then 0 else vget OR s i * vget OR s i) =
               rsum r (fun a => sv s a * sv s a) - rsum k (fun a => sv s a * sv s a)).
  { replace r with (k + (r - k))%nat by lia. rewrite !rsum_split.
    rewrite (rsum_ext k _ (fun _ => 0)) by (intros i Hi; replace (Nat.ltb i k) with true by (symmetry; apply Nat.ltb_lt; lia); reflexivity).
    rewrite rsum_const.
    rewrite (rsum_ext (r - k) (fun i => if Nat.ltb (k + i) k then 0 else vget OR s (k + i) * vget OR s (k + i)) (fun i => sv s (k + i) * sv s (k + i)))
      by (intros i Hi; replace (Nat.ltb (k + i) k) with false by (symmetry; apply Nat.ltb_ge; lia); reflexivity).
    lra. }
  rewrite HL.
  (* right: rows of A B are combinations of at most k orthonormal vectors *)
  destruct (gram_schmidt p k (fun j l => get OR B j l)) as (k' & q & T & Hk' & ON & HB).
  set (cA := fun i m => rsum k (fun j => get OR A i j * T j m)).
  assert (HR : frob2 OR n p (msub OR n p X (mmul OR n k p A B)) =
               rsum n (fun i => dot p (resid q (cA i) (xrow X i) k') (resid q (cA i) (xrow X i) k'))).
  { unfold frob2. cbn [fmul fconj OR]. apply rsum_ext. intros i Hi. unfold dot. apply rsum_ext. intros l Hl.
    assert (E : get OR (msub OR n p X (mmul OR n k p A B)) i l = resid q (cA i) (xrow X i) k' l).
    { unfold msub, mmul. rewrite !get_tab by assumption. cbn [fsub fmul OR]. rewrite resid_eq. unfold xrow. f_equal.
      rewrite (rsum_ext k _ (fun j => rsum k' (fun m => get OR A i j * T j m * q m l))).
      - rewrite rsum_swap. apply rsum_ext. intros m Hm. unfold cA. rewrite (Rmult_comm _ (q m l)), <- rsum_scal. apply rsum_ext. intros; lra.
      - intros j Hj. rewrite (HB j l Hj Hl). rewrite <- rsum_scal. apply rsum_ext. intros; lra. }
    rewrite E. reflexivity. }
  rewrite HR. apply (orthonormal_factor_bound n p r X U Vt s OK Hord k' k q cA Hk' Hk ON). Qed.
