(* the stage orders and the numbering rule extracted from the current source are the ones the theorems are about *)
From Coq Require Import String List Bool.
From XV Require Import Model.Pipe Model.Concat Gen.T7pipe.
Import ListNotations.
Open Scope string_scope.

Lemma fitted_in_declared_order : fitted_order = declared_order.
Proof. reflexivity. Qed.

Lemma declared_stages : declared_classes =
  ["Scaler"; "DimensionRenamer"; "MultiIndexConverter"; "Stacker"; "MultiIndexConverter"; "Sanitizer"; "Concatenator"].
Proof. reflexivity. Qed.

(* transform walks the stages forwards, every inverse walks them backwards and calls its own counterpart on each stage *)
Definition loop_ok (l : string * bool * string) : bool :=
  let '(name, rev, called) := l in
  String.eqb name called && (if String.eqb name "transform" then negb rev else rev).
Lemma loops_as_expected : forallb loop_ok loops = true /\
  map (fun l => fst (fst l)) loops = ["transform"; "inverse_transform_data"; "inverse_transform_components";
                                      "inverse_transform_scores"; "inverse_transform_scores_unseen"].
Proof. split; reflexivity. Qed.

Lemma renamer_numbers_in_user_order : renamer_rule = ByUser.
Proof. reflexivity. Qed.

(* cross-set models: every stage of field 1 is built from position 0 of the per-field parameters, every stage of field 2
   from position 1, and each keyword is fed by the parameter of that meaning *)
Definition wiring_ok (w : string * string * string * nat) : bool :=
  let '(obj, kw, param, idx) := w in
  let field2 := orb (orb (String.eqb obj "preprocessor2") (String.eqb obj "pca2")) (String.eqb obj "whitener2") in
  Nat.eqb idx (if field2 then 1 else 0) &&
  existsb (fun e => String.eqb (fst e) kw && String.eqb (snd e) param)
    [("feature_name", "feature_name"); ("with_center", "center"); ("with_std", "standardize"); ("with_coslat", "use_coslat");
     ("check_nans", "check_nans"); ("n_modes", "n_pca_modes"); ("init_rank_reduction", "pca_init_rank_reduction");
     ("use_pca", "use_pca"); ("alpha", "alpha")].
Lemma cross_wiring_ok : forallb wiring_ok cross_wiring = true /\ concat_rule = Insertion.
Proof. split; reflexivity. Qed.
