(* the stage orders and the numbering rule extracted from the current source are the ones the theorems are about *)
From Coq Require Import String List Bool.
From XV Require Import Model.Pipe Gen.T7pipe.
Import ListNotations.
Open Scope string_scope.

Lemma fitted_in_declared_order : fitted_order = declared_order.
Proof. reflexivity. Qed.

Lemma declared_stages : declared_classes =
  ["Scaler"; "DimensionRenamer"; "MultiIndexConverter"; "Stacker"; "MultiIndexConverter"; "Sanitizer"; "Concatenator"].
Proof. reflexivity. Qed.

(* transform walks the stages forwards, every inverse walks them backwards and calls its own counterpart on each stage *)
Definition loop_ok (l : string * bool * string) : bool :=
  let '(name, rev, called) := l in
  String.eqb name called && (if String.eqb name "transform" then negb rev else rev).
Lemma loops_as_expected : forallb loop_ok loops = true /\
  map (fun l => fst (fst l)) loops = ["transform"; "inverse_transform_data"; "inverse_transform_components";
                                      "inverse_transform_scores"; "inverse_transform_scores_unseen"].
Proof. split; reflexivity. Qed.

Lemma renamer_numbers_in_user_order : renamer_rule = ByUser.
Proof. reflexivity. Qed.
