(* written by tools/mk_text_tie.py: the source text against which the hand-written model parts of C16 were last validated *)
From Coq Require Import String List.
From XV Require Import Gen.T9text.
Import ListNotations.
Open Scope string_scope.

(* xeofs/preprocessing/whitener.py: Whitener.transform *)
Lemma text_C16_Whitener_transform_frozen : text_C16_Whitener_transform =
  ["self._sanity_check_input(X)";
   "if self.is_identity:";
   "return X";
   "transformed = xr.dot(X, self.T, dims=self.feature_name)";
   "transformed.name = X.name";
   "return transformed.rename({'mode': self.feature_name})"].
Proof. reflexivity. Qed.

(* xeofs/preprocessing/whitener.py: Whitener.inverse_transform_data *)
Lemma text_C16_Whitener_inverse_transform_data_frozen : text_C16_Whitener_inverse_transform_data =
  ["if self.is_identity:";
   "return X";
   "X = X.rename({self.feature_name: 'mode'})";
   "return xr.dot(X, self.Tinv, dims='mode')"].
Proof. reflexivity. Qed.

(* xeofs/preprocessing/whitener.py: Whitener.inverse_transform_scores *)
Lemma text_C16_Whitener_inverse_transform_scores_frozen : text_C16_Whitener_inverse_transform_scores =
  ["return X"].
Proof. reflexivity. Qed.

(* xeofs/preprocessing/whitener.py: Whitener.inverse_transform_scores_unseen *)
Lemma text_C16_Whitener_inverse_transform_scores_unseen_frozen : text_C16_Whitener_inverse_transform_scores_unseen =
  ["return X"].
Proof. reflexivity. Qed.

(* xeofs/preprocessing/pca.py: PCA.transform *)
Lemma text_C16_PCA_transform_frozen : text_C16_PCA_transform =
  ["self._sanity_check_input(X)";
   "if self.use_pca:";
   "transformed = xr.dot(X, self.V, dims=self.feature_name)";
   "transformed.name = X.name";
   "return transformed.rename({'mode': self.feature_name})";
   "return X"].
Proof. reflexivity. Qed.

(* xeofs/preprocessing/pca.py: PCA.inverse_transform_data *)
Lemma text_C16_PCA_inverse_transform_data_frozen : text_C16_PCA_inverse_transform_data =
  ["if self.use_pca:";
   "X = X.rename({self.feature_name: 'mode'})";
   "return xr.dot(X, self.V.conj().T, dims='mode')";
   "return X"].
Proof. reflexivity. Qed.

(* xeofs/preprocessing/pca.py: PCA.transform_components *)
Lemma text_C16_PCA_transform_components_frozen : text_C16_PCA_transform_components =
  ["if self.use_pca:";
   "dummy_dim = 'dummy_dim'";
   "Tinv = self.V.conj().T";
   "Tinv = Tinv.rename({'mode': dummy_dim})";
   "transformed = xr.dot(Tinv, X, dims=self.feature_name)";
   "transformed.name = X.name";
   "return transformed.rename({dummy_dim: self.feature_name})";
   "return X"].
Proof. reflexivity. Qed.

(* xeofs/preprocessing/pca.py: PCA.inverse_transform_components *)
Lemma text_C16_PCA_inverse_transform_components_frozen : text_C16_PCA_inverse_transform_components =
  ["if self.use_pca:";
   "dummy_dim = 'dummy_dim'";
   "comps_pc_space = X.rename({self.feature_name: dummy_dim})";
   "V = self.V";
   "V = V.rename({'mode': dummy_dim})";
   "transformed = xr.dot(V, comps_pc_space, dims=dummy_dim)";
   "transformed.name = X.name";
   "return transformed";
   "return X"].
Proof. reflexivity. Qed.

(* xeofs/linalg/_numpy/_utils.py: _fractional_matrix_power *)
Lemma text_C16_module__fractional_matrix_power_frozen : text_C16_module__fractional_matrix_power =
  ["if C.shape[0] != C.shape[1]:";
   "raise ValueError('Matrix must be square.')";
   "svd = _SVD(n_modes='all', **kwargs)";
   "_, s, V = svd.fit_transform(C)";
   "is_above_zero = s > np.finfo(s.dtype).eps * C.shape[0] * s.max()";
   "V = V[:, is_above_zero]";
   "s = s[is_above_zero]";
   "C_scaled = V @ np.diag(s ** power) @ V.conj().T";
   "if np.iscomplexobj(C):";
   "return C_scaled";
   "return C_scaled.real"].
Proof. reflexivity. Qed.

Definition all_frozen : Prop :=
  text_C16_Whitener_transform = ["self._sanity_check_input(X)";
   "if self.is_identity:";
   "return X";
   "transformed = xr.dot(X, self.T, dims=self.feature_name)";
   "transformed.name = X.name";
   "return transformed.rename({'mode': self.feature_name})"] /\
  text_C16_Whitener_inverse_transform_data = ["if self.is_identity:";
   "return X";
   "X = X.rename({self.feature_name: 'mode'})";
   "return xr.dot(X, self.Tinv, dims='mode')"] /\
  text_C16_Whitener_inverse_transform_scores = ["return X"] /\
  text_C16_Whitener_inverse_transform_scores_unseen = ["return X"] /\
  text_C16_PCA_transform = ["self._sanity_check_input(X)";
   "if self.use_pca:";
   "transformed = xr.dot(X, self.V, dims=self.feature_name)";
   "transformed.name = X.name";
   "return transformed.rename({'mode': self.feature_name})";
   "return X"] /\
  text_C16_PCA_inverse_transform_data = ["if self.use_pca:";
   "X = X.rename({self.feature_name: 'mode'})";
   "return xr.dot(X, self.V.conj().T, dims='mode')";
   "return X"] /\
  text_C16_PCA_transform_components = ["if self.use_pca:";
   "dummy_dim = 'dummy_dim'";
   "Tinv = self.V.conj().T";
   "Tinv = Tinv.rename({'mode': dummy_dim})";
   "transformed = xr.dot(Tinv, X, dims=self.feature_name)";
   "transformed.name = X.name";
   "return transformed.rename({dummy_dim: self.feature_name})";
   "return X"] /\
  text_C16_PCA_inverse_transform_components = ["if self.use_pca:";
   "dummy_dim = 'dummy_dim'";
   "comps_pc_space = X.rename({self.feature_name: dummy_dim})";
   "V = self.V";
   "V = V.rename({'mode': dummy_dim})";
   "transformed = xr.dot(V, comps_pc_space, dims=dummy_dim)";
   "transformed.name = X.name";
   "return transformed";
   "return X"] /\
  text_C16_module__fractional_matrix_power = ["if C.shape[0] != C.shape[1]:";
   "raise ValueError('Matrix must be square.')";
   "svd = _SVD(n_modes='all', **kwargs)";
   "_, s, V = svd.fit_transform(C)";
   "is_above_zero = s > np.finfo(s.dtype).eps * C.shape[0] * s.max()";
   "V = V[:, is_above_zero]";
   "s = s[is_above_zero]";
   "C_scaled = V @ np.diag(s ** power) @ V.conj().T";
   "if np.iscomplexobj(C):";
   "return C_scaled";
   "return C_scaled.real"].

Lemma all_frozen_holds : all_frozen.
Proof. exact (conj text_C16_Whitener_transform_frozen (conj text_C16_Whitener_inverse_transform_data_frozen (conj text_C16_Whitener_inverse_transform_scores_frozen (conj text_C16_Whitener_inverse_transform_scores_unseen_frozen (conj text_C16_PCA_transform_frozen (conj text_C16_PCA_inverse_transform_data_frozen (conj text_C16_PCA_transform_components_frozen (conj text_C16_PCA_inverse_transform_components_frozen text_C16_module__fractional_matrix_power_frozen)))))))). Qed.
