(* C16 — fractional whitening and PCA reduction are exact, invertible changes of basis:
   algebra over an abstract field with involution (real data: conj = id). *)
From Coq Require Import ZArith List Bool Ring Field Setoid Lia Arith.
From XV Require Import Base.Scalar Base.Sum Base.Mat Base.MatAlg Model.Eof Model.Whiten Proofs.C01_proofs.
Import ListNotations.

Section C16.
Context {F : Type} (K : Ops F).
Hypothesis FL : FieldLaws K.
Add Field Ffc16 : (FL_field K FL).
Notation "0" := (f0 K). Notation "1" := (f1 K).
Infix "+" := (fadd K). Infix "*" := (fmul K). Infix "-" := (fsub K). Infix "/" := (fdiv K).
Notation cj := (fconj K).
Notation mat := (@mat F). Notation vec := (@vec F).
Notation get := (get K). Notation vget := (vget K).
Notation mmul := (mmul K). Notation mH := (mH K). Notation mI := (mI K). Notation mdiag := (mdiag K).
Notation mrows := (mrows K). Notation mcols := (mcols K). Notation wf := (wf K). Notation vwf := (vwf K).
Notation colscale := (colscale K). Notation rowscale := (rowscale K). Notation mscale := (mscale K).
Notation sum := (sum K). Notation delta := (delta K).
Notation pw := (fpow K).

Ltac mx := mat_unfold; apply tab_ext; intros i j Hi Hj; get_simpl.

Lemma fdiv_def a b : a / b = a * finv K b.
Proof. destruct (FL_field K FL) as [_ _ Fdiv _]. apply Fdiv. Qed.

(* ---------- powers ---------- *)
Lemma fpow_add x a b : pw x (a + b) = pw x a * pw x b.
Proof. induction a as [|a IH]; cbn [fpow Nat.add]; [ring|]. rewrite IH. ring. Qed.

Lemma fpow_mul_base x y e : pw (x * y) e = pw x e * pw y e.
Proof. induction e as [|e IH]; cbn [fpow]; [ring|]. rewrite IH. ring. Qed.

(* alpha = a / b: from d^(2b) * lam^(b-a) = 1 (the power oracle's answer d = lam^((alpha-1)/2)) the
   whitened eigenvalue e = d^2 lam satisfies e^b = lam^a, i.e. it is a b-th root of lam^a *)
Lemma power_law (a b : nat) (d lam : F) : (a <= b)%nat ->
  pw d (2 * b) * pw lam (b - a) = 1 -> pw (d * d * lam) b = pw lam a.
Proof. intros Hab H. rewrite fpow_mul_base, fpow_mul_base. rewrite <- fpow_add.
  replace (b + b)%nat with (2 * b)%nat by lia.
  replace (pw lam b) with (pw lam (b - a) * pw lam a) by (rewrite <- fpow_add; f_equal; lia).
  replace (pw d (2 * b) * (pw lam (b - a) * pw lam a)) with ((pw d (2 * b) * pw lam (b - a)) * pw lam a) by ring.
  rewrite H. ring. Qed.

(* ---------- V diag(a) V^H for unitary V ---------- *)
Section Sandwich.
Variables (p : nat) (V : mat).
Hypothesis HV : wf p p V.
Hypothesis HVV : mmul p p p (mH p p V) V = mI p.
Hypothesis HVVt : mmul p p p V (mH p p V) = mI p.
Notation Vh := (mH p p V).
Notation sw := (sandwich K p V).

Lemma sandwich_ext a b : (forall i, (i < p)%nat -> vget a i = vget b i) -> sw a = sw b.
Proof. intros H. unfold sandwich. f_equal. f_equal. mx. rewrite H by lia. reflexivity. Qed.

Lemma sandwich_mul a b : mmul p p p (sw a) (sw b) = sw (vmap2 K p (fmul K) a b).
Proof. unfold sandwich.
  rewrite (mmul_assoc K FL p p p p (mmul p p p V (mdiag p a)) Vh).
  rewrite <- (mmul_assoc K FL p p p p Vh (mmul p p p V (mdiag p b)) Vh).
  rewrite <- (mmul_assoc K FL p p p p Vh V (mdiag p b)). rewrite HVV.
  rewrite (mmul_I_l K FL p p (mdiag p b)) by apply wf_mdiag.
  rewrite <- (mmul_assoc K FL p p p p (mmul p p p V (mdiag p a)) (mdiag p b) Vh).
  rewrite (mmul_assoc K FL p p p p V (mdiag p a) (mdiag p b)). rewrite (mdiag_mul K FL). reflexivity. Qed.

Lemma sandwich_one a : (forall i, (i < p)%nat -> vget a i = 1) -> sw a = mI p.
Proof. intros H. unfold sandwich.
  assert (HD : mdiag p a = mI p). { mx. rewrite H by lia. ring. }
  rewrite HD. rewrite (mmul_I_r K FL p p V HV). exact HVVt. Qed.

Lemma sandwich_H a : real_vec K p a -> mH p p (sw a) = sw a.
Proof. intros Ha. unfold sandwich. rewrite (mH_mmul K FL p p p), (mH_mmul K FL p p p).
  rewrite (mH_invol K FL p p V HV). rewrite (mH_diag K FL p a Ha).
  rewrite (mmul_assoc K FL p p p p). reflexivity. Qed.

Lemma wf_sandwich a : wf p p (sw a).
Proof. apply wf_mmul. Qed.

(* ---------- the whitening matrices ---------- *)
Variables (thr : F) (lam d dinv : vec).
Hypothesis Hkeep : forall i, (i < p)%nat -> whiten_keep K (vget lam i) thr = true.
Hypothesis Hd : real_vec K p d.
Hypothesis Hinv : forall i, (i < p)%nat -> vget d i * vget dinv i = 1.

Notation T := (whiten_T K p thr V lam d).
Notation Tinv := (whiten_Tinv K p thr V lam dinv).

Lemma mask_all a : sw (whiten_mask K p thr lam a) = sw a.
Proof. apply sandwich_ext. intros i Hi. unfold whiten_mask. rewrite vget_vtab by exact Hi.
  rewrite Hkeep by exact Hi. reflexivity. Qed.

Lemma T_eq : T = sw d. Proof. apply mask_all. Qed.
Lemma Tinv_eq : Tinv = sw dinv. Proof. apply mask_all. Qed.

(* (a) *)
Lemma T_hermitian : mH p p T = T.
Proof. rewrite T_eq. apply sandwich_H. exact Hd. Qed.

(* (b) *)
Lemma T_Tinv : mmul p p p T Tinv = mI p.
Proof. rewrite T_eq, Tinv_eq, sandwich_mul. apply sandwich_one. intros i Hi. unfold vmap2.
  rewrite vget_vtab by exact Hi. apply Hinv; exact Hi. Qed.

Lemma Tinv_T : mmul p p p Tinv T = mI p.
Proof. rewrite T_eq, Tinv_eq, sandwich_mul. apply sandwich_one. intros i Hi. unfold vmap2.
  rewrite vget_vtab by exact Hi. rewrite <- (Hinv i Hi). ring. Qed.

(* (c) *)
Lemma unwhiten n X : wf n p X -> whiten_inverse_data K n p Tinv (whiten_transform K n p T X) = X.
Proof. intros HX. unfold whiten_inverse_data, whiten_transform. rewrite (mmul_assoc K FL n p p p). rewrite T_Tinv.
  apply (mmul_I_r K FL); exact HX. Qed.

Lemma rewhiten n X : wf n p X -> whiten_transform K n p T (whiten_inverse_data K n p Tinv X) = X.
Proof. intros HX. unfold whiten_inverse_data, whiten_transform. rewrite (mmul_assoc K FL n p p p). rewrite Tinv_T.
  apply (mmul_I_r K FL); exact HX. Qed.

(* (d) *)
Lemma components_roundtrip m P : wf p m P ->
  whiten_inverse_components K p m Tinv (whiten_transform_components K p m T P) = P.
Proof. intros HP. unfold whiten_inverse_components, whiten_transform_components.
  rewrite <- (mmul_assoc K FL p p p m). rewrite <- (mH_mmul K FL p p p T Tinv). rewrite T_Tinv, (mH_I K FL).
  apply (mmul_I_l K FL); exact HP. Qed.

Lemma components_roundtrip' m P : wf p m P ->
  whiten_transform_components K p m T (whiten_inverse_components K p m Tinv P) = P.
Proof. intros HP. unfold whiten_inverse_components, whiten_transform_components.
  rewrite <- (mmul_assoc K FL p p p m). rewrite <- (mH_mmul K FL p p p Tinv T). rewrite Tinv_T, (mH_I K FL).
  apply (mmul_I_l K FL); exact HP. Qed.

(* (e) T^H C T for C = V diag(lam) V^H *)
Lemma whitened_gram C : C = sw lam -> mmul p p p (mmul p p p (mH p p T) C) T = sw (whitened_eigs K p lam d).
Proof. intros HC. rewrite T_hermitian, T_eq, HC. rewrite !sandwich_mul. apply sandwich_ext. intros i Hi.
  unfold whitened_eigs, vmap2. rewrite !vget_vtab by exact Hi. ring. Qed.

End Sandwich.

(* ---------- the covariance of the whitened data ---------- *)
Lemma whiten_cov_scale n p X :
  whiten_cov K n p X = mscale p p (finv K (fofZ K (Z.of_nat n))) (mmul p n p (mH n p X) X).
Proof. unfold whiten_cov, whiten_divisor. mx. rewrite fdiv_def. ring. Qed.

Lemma whiten_cov_transform n p T X :
  whiten_cov K n p (whiten_transform K n p T X) = mmul p p p (mmul p p p (mH p p T) (whiten_cov K n p X)) T.
Proof. rewrite !whiten_cov_scale. unfold whiten_transform.
  rewrite (mmul_mscale_r K FL), (mmul_mscale_l K FL). f_equal.
  rewrite (mH_mmul K FL n p p). rewrite (mmul_assoc K FL p p n p). rewrite <- (mmul_assoc K FL p n p p (mH n p X) X T).
  rewrite <- (mmul_assoc K FL p p p p). reflexivity. Qed.

Section Fit.
Variables (n p : nat) (X V : mat) (alpha eps thr : F) (lam d dinv : vec).
Hypothesis EIG : eig_ok K p (whiten_cov K n p X) V lam.
Hypothesis Hkeep : forall i, (i < p)%nat -> whiten_keep K (vget lam i) thr = true.
Hypothesis Hd : real_vec K p d.
Hypothesis Hinv : forall i, (i < p)%nat -> vget d i * vget dinv i = 1.

Let HV : wf p p V. Proof. apply EIG. Qed.
Let HVV : mmul p p p (mH p p V) V = mI p. Proof. apply EIG. Qed.
Let HVVt : mmul p p p V (mH p p V) = mI p. Proof. apply EIG. Qed.
Let HC : whiten_cov K n p X = sandwich K p V lam. Proof. apply EIG. Qed.

Notation T := (whiten_T K p thr V lam d).
Notation Tinv := (whiten_Tinv K p thr V lam dinv).
Notation w := (whiten_fit K p alpha eps thr V lam d dinv).
Notation eigs := (whitened_eigs K p lam d).

Lemma whitened_cov : whiten_cov K n p (whiten_transform K n p T X) = sandwich K p V eigs.
Proof. rewrite whiten_cov_transform. apply (whitened_gram p V HV HVV thr lam d Hkeep Hd). exact HC. Qed.

(* alpha = 0 at full rank: d_i^2 lam_i = 1 *)
Lemma whitened_cov_identity : (forall i, (i < p)%nat -> vget d i * vget d i * vget lam i = 1) ->
  whiten_cov K n p (whiten_transform K n p T X) = mI p.
Proof. intros H1. rewrite whitened_cov. apply (sandwich_one p V HV HVVt). intros i Hi.
  unfold whitened_eigs. rewrite vget_vtab by exact Hi. apply H1; exact Hi. Qed.

(* d_i = 1 (what the power oracle answers for exponent 0): nothing changes *)
Lemma whitened_cov_unchanged : (forall i, (i < p)%nat -> vget d i = 1) ->
  whiten_cov K n p (whiten_transform K n p T X) = whiten_cov K n p X.
Proof. intros H1. rewrite whitened_cov, HC. apply sandwich_ext. intros i Hi.
  unfold whitened_eigs. rewrite vget_vtab by exact Hi. rewrite H1 by exact Hi. ring. Qed.

(* rational alpha = a/b: the whitened eigenvalues are b-th roots of lam^a *)
Lemma whitened_eigs_power (a b : nat) : (a <= b)%nat ->
  (forall i, (i < p)%nat -> pw (vget d i) (2 * b) * pw (vget lam i) (b - a) = 1) ->
  forall i, (i < p)%nat -> pw (vget eigs i) b = pw (vget lam i) a.
Proof. intros Hab H i Hi. unfold whitened_eigs. rewrite vget_vtab by exact Hi. apply power_law; [exact Hab|apply H; exact Hi]. Qed.

(* the fitted object, both branches of the alpha = 1 test *)
Lemma fit_T_hermitian : w_identity w = false -> mH p p (w_T w) = w_T w.
Proof. unfold whiten_fit. destruct (whiten_is_identity K alpha eps); cbn [w_identity w_T]; [discriminate|].
  intros _. apply (T_hermitian p V HV thr lam d Hkeep Hd). Qed.

Lemma fit_T_Tinv : w_identity w = false ->
  mmul p p p (w_T w) (w_Tinv w) = mI p /\ mmul p p p (w_Tinv w) (w_T w) = mI p.
Proof. unfold whiten_fit. destruct (whiten_is_identity K alpha eps); cbn [w_identity w_T w_Tinv]; [discriminate|].
  intros _. split; [apply (T_Tinv p V HV HVV HVVt thr lam d dinv Hkeep Hinv)|apply (Tinv_T p V HV HVV HVVt thr lam d dinv Hkeep Hinv)]. Qed.

Lemma fit_unwhiten m Y : wf m p Y -> w_inverse_data K m p w (w_transform K m p w Y) = Y.
Proof. intros HY. unfold w_inverse_data, w_transform, whiten_fit.
  destruct (whiten_is_identity K alpha eps); cbn [w_identity w_T w_Tinv]; [reflexivity|].
  apply (unwhiten p V HV HVV HVVt thr lam d dinv Hkeep Hinv); exact HY. Qed.

Lemma fit_components_roundtrip m P : wf p m P ->
  w_inverse_components K p m w (w_transform_components K p m w P) = P /\
  w_transform_components K p m w (w_inverse_components K p m w P) = P.
Proof. intros HP. unfold w_inverse_components, w_transform_components, whiten_fit.
  destruct (whiten_is_identity K alpha eps); cbn [w_identity w_T w_Tinv]; [split; reflexivity|].
  split; [apply (components_roundtrip p V HV HVV HVVt thr lam d dinv Hkeep Hinv)
         |apply (components_roundtrip' p V HV HVV HVVt thr lam d dinv Hkeep Hinv)]; exact HP. Qed.

Lemma fit_whitened_cov :
  whiten_cov K n p (w_transform K n p w X) =
  if w_identity w then whiten_cov K n p X else sandwich K p V eigs.
Proof. unfold w_transform, whiten_fit. destruct (whiten_is_identity K alpha eps); cbn [w_identity w_T]; [reflexivity|].
  exact whitened_cov. Qed.

End Fit.

(* ---------- PCA: any basis with orthonormal columns ---------- *)
Section PcaGeneric.
Variables (p k : nat) (V : mat).
Hypothesis HVo : mmul k p k (mH p k V) V = mI k.

Lemma pca_components_roundtrip m Q : wf k m Q ->
  pca_transform_components K p k m V (pca_inverse_components K p k m V Q) = Q.
Proof. intros HQ. unfold pca_transform_components, pca_inverse_components.
  rewrite <- (mmul_assoc K FL k p k m). rewrite HVo. apply (mmul_I_l K FL); exact HQ. Qed.

Lemma pca_components_roundtrip_span m P Q : wf k m Q -> P = mmul p k m V Q ->
  pca_inverse_components K p k m V (pca_transform_components K p k m V P) = P.
Proof. intros HQ HP. rewrite HP. fold (pca_inverse_components K p k m V Q).
  rewrite (pca_components_roundtrip m Q HQ). reflexivity. Qed.

Lemma pca_data_roundtrip_span n X Y : wf n k Y -> X = mmul n k p Y (mH p k V) ->
  pca_inverse_data K n p k V (pca_transform K n p k V X) = X.
Proof. intros HY HX. unfold pca_inverse_data, pca_transform. rewrite HX.
  rewrite (mmul_assoc K FL n k p k). rewrite HVo. rewrite (mmul_I_r K FL n k Y HY). reflexivity. Qed.
End PcaGeneric.

(* ---------- PCA: the basis fitted from an SVD answer ---------- *)
Section PcaFit.
Variables (n p r : nat) (X U Vt : mat) (s : vec).
Hypothesis OK : svd_ok K n p r X (U, s, Vt).
Variables (k : nat) (sg : vec).
Hypothesis Hk : (k <= r)%nat.
Hypothesis Hsg : sign_vec K k sg.
Notation Vb := (pca_basis_sg K p k Vt sg).

Lemma pca_basis_comps : Vb = comps K n p r X U Vt s k sg.
Proof. unfold pca_basis_sg, comps, eof_fit_sg. cbn [e_comps]. mx. rewrite (FL_conj_mul K FL).
  destruct (Hsg j Hj) as [Hr _]. rewrite Hr. ring. Qed.

Lemma pca_orthonormal : mmul k p k (mH p k Vb) Vb = mI k.
Proof. rewrite pca_basis_comps. exact (comps_orthonormal K FL n p r X U Vt s OK k sg Hk Hsg). Qed.

(* the columns are eigenvectors of the Gram matrix for the first k squared singular values *)
Lemma pca_gram_eigen :
  mmul p p k (mmul p n p (mH n p X) X) Vb = colscale p k Vb (vmap2 K k (fmul K) (vfirstn K k s) (vfirstn K k s)).
Proof. rewrite pca_basis_comps. rewrite (gram_eigen K FL n p r X U Vt s OK k sg Hk Hsg).
  rewrite (mdiag_mul K FL). apply (mmul_diag_r K FL). Qed.

Lemma pca_cov_eigen : let lamk := vmap K k (fun x => x * x / fofZ K (Z.of_nat n)) (vfirstn K k s) in
  mmul p p k (whiten_cov K n p X) Vb = colscale p k Vb lamk.
Proof. intros lamk. rewrite whiten_cov_scale. rewrite (mmul_mscale_l K FL). rewrite pca_gram_eigen. mx.
  unfold lamk, vmap, vmap2, vfirstn. rewrite !vget_vtab by lia. rewrite fdiv_def. ring. Qed.

Lemma pca_transform_eof Y m : pca_transform K m p k Vb Y = eof_transform K m p k (eof_fit_sg K n p r k X (U, s, Vt) sg) Y.
Proof. unfold pca_transform, eof_transform. rewrite pca_basis_comps. reflexivity. Qed.

Lemma pca_inverse_eof Y m : pca_inverse_data K m p k Vb Y = eof_inverse K m p k (eof_fit_sg K n p r k X (U, s, Vt) sg) Y.
Proof. unfold pca_inverse_data, eof_inverse. rewrite pca_basis_comps. reflexivity. Qed.
End PcaFit.

Section PcaAll.
Variables (n p r : nat) (X U Vt : mat) (s : vec).
Hypothesis OK : svd_ok K n p r X (U, s, Vt).
Variable (sg : vec).
Hypothesis Hsg : sign_vec K r sg.

(* all modes kept: projecting and coming back restores the data *)
Lemma pca_data_roundtrip_all :
  pca_inverse_data K n p r (pca_basis_sg K p r Vt sg) (pca_transform K n p r (pca_basis_sg K p r Vt sg) X) = X.
Proof. rewrite (pca_transform_eof n p r X U Vt s r sg (le_n r) Hsg), (pca_inverse_eof n p r X U Vt s r sg (le_n r) Hsg).
  rewrite (transform_training K FL n p r X U Vt s OK r sg (le_n r) Hsg).
  rewrite (recon_eq K FL n p r X U Vt s r sg (le_n r) Hsg).
  destruct OK as (HX & HU & HVt & Hs & Hfac & _).
  rewrite Hfac. f_equal; [f_equal|].
  - rewrite HU at 2. reflexivity.
  - f_equal. rewrite Hs at 2. reflexivity.
  - rewrite HVt at 2. reflexivity. Qed.
End PcaAll.

End C16.

(* the sign vector computed by the model from the columns of V is a vector of real units *)
Section Signs.
Context {F : Type} (K : Ops F).
Hypothesis FL : FieldLaws K.

Lemma col_signs_sign_vec p k V : sign_vec K k (col_signs K p k V).
Proof. intros i Hi. unfold col_signs. rewrite vget_vtab by exact Hi. apply (sign_rule_unit K FL). Qed.
End Signs.

(* ---------- statements for [pca_fit] ---------- *)
Section Final.
Context {F : Type} (K : Ops F).
Hypothesis FL : FieldLaws K.
Variables (n p r k : nat) (X U Vt : @mat F) (s : @vec F).
Hypothesis OK : svd_ok K n p r X (U, s, Vt).
Hypothesis Hk : (k <= r)%nat.
Notation Vb := (pca_fit K p k (U, s, Vt)).
Notation sgv := (col_signs K p k (mH K k p (mrows K k p Vt))).

Lemma pca_fit_orthonormal : mmul K k p k (mH K p k Vb) Vb = mI K k.
Proof. exact (pca_orthonormal K FL n p r X U Vt s OK k sgv Hk (col_signs_sign_vec K FL p k _)). Qed.

Lemma pca_fit_cov_eigen :
  mmul K p p k (whiten_cov K n p X) Vb =
  colscale K p k Vb (vmap K k (fun x => fdiv K (fmul K x x) (fofZ K (Z.of_nat n))) (vfirstn K k s)).
Proof. exact (pca_cov_eigen K FL n p r X U Vt s OK k sgv Hk (col_signs_sign_vec K FL p k _)). Qed.

Lemma pca_fit_components_roundtrip m Q : wf K k m Q ->
  pca_transform_components K p k m Vb (pca_inverse_components K p k m Vb Q) = Q.
Proof. apply (pca_components_roundtrip K FL p k Vb pca_fit_orthonormal). Qed.

Lemma pca_fit_components_roundtrip_span m P Q : wf K k m Q -> P = mmul K p k m Vb Q ->
  pca_inverse_components K p k m Vb (pca_transform_components K p k m Vb P) = P.
Proof. apply (pca_components_roundtrip_span K FL p k Vb pca_fit_orthonormal). Qed.

Lemma pca_fit_data_roundtrip_span m Y Z : wf K m k Z -> Y = mmul K m k p Z (mH K p k Vb) ->
  pca_inverse_data K m p k Vb (pca_transform K m p k Vb Y) = Y.
Proof. apply (pca_data_roundtrip_span K FL p k Vb pca_fit_orthonormal). Qed.
End Final.

Section FinalAll.
Context {F : Type} (K : Ops F).
Hypothesis FL : FieldLaws K.
Variables (n p r : nat) (X U Vt : @mat F) (s : @vec F).
Hypothesis OK : svd_ok K n p r X (U, s, Vt).
Notation Vb := (pca_fit K p r (U, s, Vt)).

Lemma pca_fit_data_roundtrip_all : pca_inverse_data K n p r Vb (pca_transform K n p r Vb X) = X.
Proof. exact (pca_data_roundtrip_all K FL n p r X U Vt s OK _ (col_signs_sign_vec K FL p r _)). Qed.
End FinalAll.
