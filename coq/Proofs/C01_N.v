(* C01 — the divisor of the explained variance is the number of samples of the matrix that was decomposed (minus one): with k > 0 entirely missing samples
   dropped beforehand, dividing by the length of the sample axis as given (n - 1 instead of n - k - 1) makes every explained variance strictly smaller, and
   the ratios against a total variance computed with the right N no longer sum to one *)
From Coq Require Import Reals Lra.
Open Scope R_scope.

Lemma expvar_with_the_longer_axis_is_smaller (s2 a b : R) : 0 < s2 -> 0 < b -> b < a -> s2 / a < s2 / b.
Proof. intros Hs Hb Hab. unfold Rdiv. apply Rmult_lt_compat_l; [exact Hs|]. apply Rinv_lt_contravar; [|exact Hab].
  apply Rmult_lt_0_compat; lra. Qed.

Lemma ratios_with_the_longer_axis_fall_short (tot a b : R) : 0 < tot -> 0 < b -> b < a -> (tot * b / a) / tot < 1.
Proof. intros Ht Hb Hab. unfold Rdiv. replace (tot * b * / a * / tot) with (b * / a) by (field; lra).
  apply (Rmult_lt_reg_r a); [lra|]. rewrite Rmult_assoc, Rinv_l by lra. lra. Qed.
