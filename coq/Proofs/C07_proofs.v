(* C07 — results do not depend on layout: permuting features (columns) or samples (rows) of the
   decomposed matrix maps admissible SVD answers to admissible answers and permutes the outputs
   accordingly; the sign rule is permutation invariant (real instance). *)
From Coq Require Import ZArith List Bool Ring Field Setoid Lia Arith Permutation Reals Lra.
From XV Require Import Base.Scalar Base.Sum Base.Mat Base.MatAlg Base.Perm Base.RInst Model.Eof Proofs.C01_proofs Proofs.C15_proofs.
Import ListNotations.

Section C07.
Context {F : Type} (K : Ops F).
Hypothesis FL : FieldLaws K.
Add Field Ffc07 : (FL_field K FL).
Notation mat := (@mat F). Notation vec := (@vec F).

Definition is_perm (p : nat) (pi : list nat) : Prop := Permutation pi (seq 0 p).

Lemma perm_len p pi : is_perm p pi -> length pi = p.
Proof. intros H. rewrite (Permutation_length H), seq_length. reflexivity. Qed.
Lemma perm_lt p pi j : is_perm p pi -> (j < p)%nat -> (nth j pi O < p)%nat.
Proof. intros H Hj. assert (In (nth j pi O) (seq 0 p)) by (eapply Permutation_in; [exact H|apply nth_In; rewrite (perm_len p pi H); exact Hj]).
  apply in_seq in H0. lia. Qed.

Lemma msel_cols_mmul m n p pi A B : is_perm p pi ->
  msel_cols K m pi (mmul K m n p A B) = mmul K m n p A (msel_cols K n pi B).
Proof. intros Hp. unfold msel_cols, mmul. rewrite (perm_len p pi Hp). apply tab_ext. intros i j Hi Hj.
  rewrite get_tab by (try apply perm_lt; assumption). apply (sum_ext K). intros l Hl. rewrite get_tab by lia. reflexivity. Qed.

Lemma msel_rows_mmul m n p sg A B : is_perm m sg ->
  msel_rows K p sg (mmul K m n p A B) = mmul K m n p (msel_rows K n sg A) B.
Proof. intros Hp. unfold msel_rows, mmul. rewrite (perm_len m sg Hp). apply tab_ext. intros i j Hi Hj.
  rewrite get_tab by (try apply perm_lt; assumption). apply (sum_ext K). intros l Hl. rewrite get_tab by lia. reflexivity. Qed.

Lemma unitary_rows_perm r p pi Vt : is_perm p pi -> unitary_rows K r p Vt -> unitary_rows K r p (msel_cols K r pi Vt).
Proof. intros Hp HU. unfold unitary_rows in *. rewrite <- HU. unfold mmul, mH, msel_cols. rewrite (perm_len p pi Hp).
  apply tab_ext. intros i j Hi Hj.
  rewrite (sum_ext K p _ (fun l => (fun c => fmul K (get K Vt i c) (fconj K (get K Vt j c))) (nth l pi O))).
  2:{ intros l Hl. rewrite !get_tab by lia. rewrite ?get_tab by lia. reflexivity. }
  etransitivity; [apply (sum_perm K FL p pi (fun c => fmul K (get K Vt i c) (fconj K (get K Vt j c))) Hp)|].
  apply (sum_ext K). intros l Hl. rewrite get_tab by lia. reflexivity. Qed.

Lemma unitary_cols_perm n r sg U : is_perm n sg -> unitary_cols K n r U -> unitary_cols K n r (msel_rows K r sg U).
Proof. intros Hp HU. unfold unitary_cols in *. rewrite <- HU. unfold mmul, mH, msel_rows. rewrite (perm_len n sg Hp).
  apply tab_ext. intros i j Hi Hj.
  rewrite (sum_ext K n _ (fun l => (fun c => fmul K (fconj K (get K U c i)) (get K U c j)) (nth l sg O))).
  2:{ intros l Hl. rewrite !get_tab by lia. rewrite ?get_tab by lia. reflexivity. }
  etransitivity; [apply (sum_perm K FL n sg (fun c => fmul K (fconj K (get K U c i)) (get K U c j)) Hp)|].
  apply (sum_ext K). intros l Hl. rewrite get_tab by lia. reflexivity. Qed.

(* permuting the features: (U, s, Vt Pi) is an admissible answer for X Pi *)
Theorem svd_ok_col_perm n p r X U s Vt pi : is_perm p pi ->
  svd_ok K n p r X (U, s, Vt) -> svd_ok K n p r (msel_cols K n pi X) (U, s, msel_cols K r pi Vt).
Proof. intros Hp (HX & HU & HVt & Hs & Hfac & HUU & HVV & Hreal). pose proof (perm_len p pi Hp) as Hl.
  unfold svd_ok. repeat split; try assumption.
  - unfold msel_cols. rewrite Hl. apply wf_tab.
  - unfold msel_cols. rewrite Hl. apply wf_tab.
  - rewrite Hfac at 1. apply msel_cols_mmul. exact Hp.
  - apply unitary_rows_perm; assumption. Qed.

(* permuting the samples: (Sigma U, s, Vt) is an admissible answer for Sigma X *)
Theorem svd_ok_row_perm n p r X U s Vt sg : is_perm n sg ->
  svd_ok K n p r X (U, s, Vt) -> svd_ok K n p r (msel_rows K p sg X) (msel_rows K r sg U, s, Vt).
Proof. intros Hp (HX & HU & HVt & Hs & Hfac & HUU & HVV & Hreal). pose proof (perm_len n sg Hp) as Hl.
  unfold svd_ok. repeat split; try assumption.
  - unfold msel_rows. rewrite Hl. apply wf_tab.
  - unfold msel_rows. rewrite Hl. apply wf_tab.
  - rewrite Hfac at 1. rewrite (msel_rows_mmul n r p sg _ Vt Hp). f_equal. apply (msel_rows_mmul n r r sg U _ Hp).
  - apply unitary_cols_perm; assumption. Qed.

(* with the same sign vector, the fitted outputs are related exactly as the property says *)
Theorem eof_fit_col_perm n p r k X U s Vt sgn pi : is_perm p pi -> (k <= r)%nat ->
  let o := eof_fit_sg K n p r k X (U, s, Vt) sgn in
  let o' := eof_fit_sg K n p r k (msel_cols K n pi X) (U, s, msel_cols K r pi Vt) sgn in
  e_scores o' = e_scores o /\ e_norms o' = e_norms o /\ e_expvar o' = e_expvar o /\
  e_comps o' = msel_rows K k pi (e_comps o).
Proof. intros Hp Hk o o'. pose proof (perm_len p pi Hp) as Hl. unfold o, o', eof_fit_sg. cbn [e_scores e_norms e_expvar e_comps].
  repeat split. unfold mH, rowscale, mrows, msel_rows, msel_cols. rewrite Hl. apply tab_ext. intros i j Hi Hj.
  pose proof (perm_lt p pi i Hp Hi) as Hpi.
  rewrite !get_tab by lia. rewrite ?get_tab by lia. reflexivity. Qed.

Theorem eof_fit_row_perm n p r k X U s Vt sgn sg : is_perm n sg -> (k <= r)%nat ->
  let o := eof_fit_sg K n p r k X (U, s, Vt) sgn in
  let o' := eof_fit_sg K n p r k (msel_rows K p sg X) (msel_rows K r sg U, s, Vt) sgn in
  e_scores o' = msel_rows K k sg (e_scores o) /\ e_norms o' = e_norms o /\ e_expvar o' = e_expvar o /\ e_comps o' = e_comps o.
Proof. intros Hp Hk o o'. pose proof (perm_len n sg Hp) as Hl. unfold o, o', eof_fit_sg. cbn [e_scores e_norms e_expvar e_comps].
  repeat split. unfold colscale, mcols, msel_rows. rewrite Hl. apply tab_ext. intros i j Hi Hj.
  pose proof (perm_lt n sg i Hp Hi) as Hpi.
  rewrite !get_tab by lia. rewrite ?get_tab by lia. reflexivity. Qed.

End C07.

(* ---- the sign rule only sees the maximum and minimum of a row: permutation invariant ---- *)
Open Scope R_scope.

Lemma vmax_is_lmax (l : list R) : vmax OR l = lmax (hd 0 l) (tl l).
Proof. unfold vmax. cbn [f0 OR]. generalize (hd 0 l). induction (tl l) as [|x r IH]; intros a; cbn [fold_left lmax]; [reflexivity|].
  rewrite IH. f_equal. cbn [fleb OR]. unfold Rleb, Rmax. destruct (Rle_dec a x); reflexivity. Qed.

Lemma vmin_is_lmin (l : list R) : vmin OR l = lmin (hd 0 l) (tl l).
Proof. unfold vmin. cbn [f0 OR]. generalize (hd 0 l). induction (tl l) as [|x r IH]; intros a; cbn [fold_left lmin]; [reflexivity|].
  rewrite IH. f_equal. cbn [fleb OR]. unfold Rleb, Rmin. destruct (Rle_dec x a); destruct (Rle_dec a x); try reflexivity; lra. Qed.

Lemma vmax_perm (l1 l2 : list R) : l1 <> [] -> Permutation l1 l2 -> vmax OR l1 = vmax OR l2.
Proof. intros Hne Hp. rewrite !vmax_is_lmax.
  destruct l1 as [|a1 r1]; [congruence|]. destruct l2 as [|a2 r2]; [apply Permutation_sym, Permutation_nil in Hp; discriminate|].
  cbn [hd tl]. destruct (lmax_spec a1 r1) as [U1 I1]. destruct (lmax_spec a2 r2) as [U2 I2].
  apply Rle_antisym.
  - apply U2. eapply Permutation_in; [exact Hp|exact I1].
  - apply U1. eapply Permutation_in; [apply Permutation_sym; exact Hp|exact I2]. Qed.

Lemma vmin_perm (l1 l2 : list R) : l1 <> [] -> Permutation l1 l2 -> vmin OR l1 = vmin OR l2.
Proof. intros Hne Hp. rewrite !vmin_is_lmin.
  destruct l1 as [|a1 r1]; [congruence|]. destruct l2 as [|a2 r2]; [apply Permutation_sym, Permutation_nil in Hp; discriminate|].
  cbn [hd tl]. destruct (lmin_spec a1 r1) as [U1 I1]. destruct (lmin_spec a2 r2) as [U2 I2].
  apply Rle_antisym.
  - apply U1. eapply Permutation_in; [apply Permutation_sym; exact Hp|exact I2].
  - apply U2. eapply Permutation_in; [exact Hp|exact I1]. Qed.

Theorem sign_rule_perm (l1 l2 : list R) : l1 <> [] -> Permutation l1 l2 ->
  sign_rule OR (vmax OR l1) (vmin OR l1) = sign_rule OR (vmax OR l2) (vmin OR l2).
Proof. intros Hne Hp. rewrite (vmax_perm l1 l2 Hne Hp), (vmin_perm l1 l2 Hne Hp). reflexivity. Qed.
