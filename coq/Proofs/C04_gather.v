(* C04 — re-ordering the modes of a transform by the stored argsort is a GATHER (new column k = old column idx[k], Mat.msel_cols); reading the same numbers as
   ranks and scattering (new column idx[j] = old column j) applies the inverse permutation: the two agree only for permutations that are their own inverse
   (the identity, swaps), and differ on every cycle of length three or more. *)
From Coq Require Import ZArith List Bool Reals Lra Lia.
From XV Require Import Base.Scalar Base.Mat Base.RInst.
Import ListNotations.
Open Scope R_scope.

Definition inv3 : list nat := [2; 0; 1]%nat.      (* the inverse of the 3-cycle [1; 2; 0] *)
Example gather_cycle : msel_cols OR 1 [1; 2; 0]%nat [[10; 20; 30]] = [[20; 30; 10]].
Proof. reflexivity. Qed.
Example scatter_cycle_is_gather_by_inverse : msel_cols OR 1 inv3 [[10; 20; 30]] = [[30; 10; 20]].
Proof. reflexivity. Qed.
Lemma scatter_refuted : msel_cols OR 1 inv3 [[10; 20; 30]] <> msel_cols OR 1 [1; 2; 0]%nat [[10; 20; 30]].
Proof. rewrite gather_cycle, scatter_cycle_is_gather_by_inverse. intro H. inversion H. lra. Qed.
Example swap_is_its_own_inverse : msel_cols OR 1 [1; 0; 2]%nat (msel_cols OR 1 [1; 0; 2]%nat [[10; 20; 30]]) = [[10; 20; 30]].
Proof. reflexivity. Qed.
