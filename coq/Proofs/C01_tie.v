(* C01 — obligations tying the hand-written EOF model to the definitions regenerated
   from the source (Gen/T5eof.v, Gen/T3.v, Gen/T3b.v). Each is closed by computation: a
   change of the source that alters a generated constant breaks the proof. *)
From Coq Require Import String ZArith List Bool.
From XV Require Import Base.Scalar Base.Mat Model.DecompLib Model.Eof Gen.T3 Gen.T3b Gen.T5eof.
Import ListNotations.

Lemma tie_expvar : forall (F : Type) (K : Ops F) (n : nat) (x : F), sq_over K n x = eof_expvar K x (Z.of_nat n).
Proof. reflexivity. Qed.

Lemma tie_totvar_ddof : eof_totvar_ddof = 1%Z /\ eof_totvar_after_augmentation = true.
Proof. split; reflexivity. Qed.

Lemma tie_store : eof_store = [("input_data", "X"); ("components", "components"); ("scores", "scores");
  ("norms", "singular_values"); ("explained_variance", "exp_var"); ("total_variance", "total_variance")]%string.
Proof. reflexivity. Qed.

Lemma tie_conj_flags :
  eof_transform_conj_components = false /\ eof_inverse_conj_components = true /\ eof_inverse_conj_scores = false /\
  dec_V_conj = true /\ dec_V_transposed = true.
Proof. repeat split; reflexivity. Qed.

Lemma tie_sign_rule : forall (F : Type) (K : Ops F) (mx mn : F), sign_rule K mx mn = dec_sign_rule K mx mn.
Proof. reflexivity. Qed.

Lemma tie_post_order : dec_post_order = [PTruncate; PFlip] /\ dec_sign_source = "VT"%string /\
  dec_sign_applied_to = ["U"; "VT"]%string.
Proof. repeat split; reflexivity. Qed.
