(* C15 — solver choice and variance thresholds: lemmas about the generated definitions
   of Gen/T3.v (regenerated from decomposer.py / _svd.py on every run). *)
From Coq Require Import String ZArith List Bool Reals Lra Lia Sorting.Sorted.
From XV Require Import Base.Scalar Base.RInst Base.Instances Model.DecompLib Gen.T3 Gen.T8.
Import ListNotations.
Open Scope R_scope.

(* ---------- threshold truncation ---------- *)

(* number of leading elements that do not reach x *)
Fixpoint lead_below (l : list R) (x : R) : nat :=
  match l with [] => O | c :: r => if Rleb x c then O else S (lead_below r x) end.

Lemma count_ge_sorted l x : StronglySorted Rle l ->
  (count_ge OR l x + lead_below l x = length l)%nat.
Proof. induction l as [|c r IH]; intros Hs; [reflexivity|].
  inversion Hs as [|? ? Hs' Hall]; subst. unfold count_ge in *. cbn [filter lead_below fleb OR length].
  destruct (Rleb x c) eqn:E.
  - (* everything from here on reaches x *)
    assert (H : filter (fun c0 => Rleb x c0) r = r).
    { apply Rleb_true in E. clear IH Hs Hs'. induction r as [|d r IHr]; [reflexivity|].
      inversion Hall; subst. cbn [filter]. replace (Rleb x d) with true by (symmetry; apply Rleb_true; lra).
      f_equal. apply IHr; assumption. }
    cbn [length]. cbn in H. rewrite H. lia.
  - specialize (IH Hs'). cbn in IH. cbn [length]. lia. Qed.

Lemma lead_below_spec l x : StronglySorted Rle l ->
  (forall j, (j < lead_below l x)%nat -> nth j l 0 < x) /\
  ((lead_below l x < length l)%nat -> x <= nth (lead_below l x) l 0) /\
  (lead_below l x <= length l)%nat.
Proof. induction l as [|c r IH]; intros Hs.
  - cbn. repeat split; intros; lia.
  - inversion Hs as [|? ? Hs' Hall]; subst. cbn [lead_below]. destruct (Rleb x c) eqn:E.
    + split; [intros j Hj; lia|]. split; [intros _; cbn [nth]; apply Rleb_true; exact E | cbn [length]; lia].
    + destruct (IH Hs') as (H1 & H2 & H3). repeat split.
      * intros [|j] Hj; cbn [nth]. apply Rleb_false; exact E. apply H1; lia.
      * cbn [length nth]. intros Hl. apply H2; lia.
      * cbn [length]; lia. Qed.

(* cumulative sums of non-negative numbers are sorted *)
Lemma cumsum_from_sorted acc l : Forall (fun x => 0 <= x) l ->
  StronglySorted Rle (cumsum_from OR acc l) /\ Forall (Rle acc) (cumsum_from OR acc l).
Proof. revert acc; induction l as [|x r IH]; intros acc Hp; cbn [cumsum_from].
  - split; constructor.
  - inversion Hp; subst. destruct (IH (fadd OR acc x) H2) as [Hs Hf]. cbn [fadd OR] in *. split.
    + constructor; assumption.
    + constructor; [lra|]. eapply Forall_impl; [|exact Hf]. intros a Ha; cbn in Ha; lra. Qed.

Lemma cumsum_sorted l : Forall (fun x => 0 <= x) l -> StronglySorted Rle (cumsum OR l).
Proof. destruct l as [|x r]; intros Hp; cbn [cumsum]; [constructor|]. inversion Hp; subst.
  destruct (cumsum_from_sorted x r H2) as [Hs Hf]. constructor; assumption. Qed.

Lemma cumsum_from_length acc l : length (cumsum_from OR acc l) = length l.
Proof. revert acc; induction l as [|x r IH]; intros acc; cbn [cumsum_from length]; [reflexivity|]. rewrite IH; reflexivity. Qed.
Lemma cumsum_length l : length (cumsum OR l) = length l.
Proof. destruct l; cbn [cumsum length]; [reflexivity|]. rewrite cumsum_from_length; reflexivity. Qed.

(* The generated formula keeps the least number of leading modes whose cumulative
   explained variance reaches the requested fraction; when none does, all precomputed
   modes are kept and the warning branch is taken. *)
Definition threshold_spec (cum : list R) (frac : R) (m : Z) (warn : bool) : Prop :=
  let k := length cum in
  (exists i, (i < k)%nat /\ frac <= nth i cum 0) ->
     warn = false /\ (1 <= m <= Z.of_nat k)%Z /\ frac <= nth (Z.to_nat (m - 1)) cum 0 /\
     (forall j, (j < Z.to_nat (m - 1))%nat -> nth j cum 0 < frac).
Definition threshold_spec_none (cum : list R) (frac : R) (m : Z) (warn : bool) : Prop :=
  (forall i, (i < length cum)%nat -> nth i cum 0 < frac) -> m = Z.of_nat (length cum) /\ warn = true.

Lemma dec_threshold_minimal (expvar : list R) (frac : R) :
  Forall (fun x => 0 <= x) expvar ->
  let cum := cumsum OR expvar in
  let '(m, warn) := dec_n_modes_clipped OR (Z.of_nat (length cum)) cum frac in
  threshold_spec cum frac m warn /\ threshold_spec_none cum frac m warn.
Proof. intros Hp cum. pose proof (cumsum_sorted expvar Hp) as Hs. fold cum in Hs.
  unfold dec_n_modes_clipped, dec_n_modes_required.
  pose proof (count_ge_sorted cum frac Hs) as Hc. destruct (lead_below_spec cum frac Hs) as (L1 & L2 & L3).
  set (lb := lead_below cum frac) in *. set (cnt := count_ge OR cum frac) in *.
  destruct (Z.gtb_spec (Z.of_nat (length cum) - Z.of_nat cnt + 1) (Z.of_nat (length cum))) as [Hgt|Hle].
  - (* none reaches it *) assert (cnt = O) by lia. assert (lb = length cum) by lia. split.
    + intros [i [Hi Hfi]]. specialize (L1 i ltac:(lia)). lra.
    + intros _. split; reflexivity.
  - assert (Hm : (Z.of_nat (length cum) - Z.of_nat cnt + 1 - 1 = Z.of_nat lb)%Z) by lia. split.
    + intros _. rewrite Hm, Nat2Z.id. repeat split; try lia.
      * apply L2; lia.
      * exact L1.
    + intros Hall. exfalso. assert (lb < length cum)%nat by lia. specialize (L2 H). specialize (Hall lb H). lra. Qed.

Lemma svd_threshold_minimal (expvar : list R) (frac : R) :
  Forall (fun x => 0 <= x) expvar ->
  let cum := cumsum OR expvar in
  let '(m, warn) := svd_n_modes_clipped OR (Z.of_nat (length cum)) cum frac in
  threshold_spec cum frac m warn /\ threshold_spec_none cum frac m warn.
Proof. intros Hp cum. pose proof (cumsum_sorted expvar Hp) as Hs. fold cum in Hs.
  unfold svd_n_modes_clipped, svd_n_modes_required.
  pose proof (count_ge_sorted cum frac Hs) as Hc. destruct (lead_below_spec cum frac Hs) as (L1 & L2 & L3).
  set (lb := lead_below cum frac) in *. set (cnt := count_ge OR cum frac) in *.
  destruct (Z.gtb_spec (Z.of_nat (length cum) - Z.of_nat cnt + 1) (Z.of_nat (length cum))) as [Hgt|Hle].
  - assert (cnt = O) by lia. assert (lb = length cum) by lia. split.
    + intros [i [Hi Hfi]]. specialize (L1 i ltac:(lia)). lra.
    + intros _. split; reflexivity.
  - assert (Hm : (Z.of_nat (length cum) - Z.of_nat cnt + 1 - 1 = Z.of_nat lb)%Z) by lia. split.
    + intros _. rewrite Hm, Nat2Z.id. repeat split; try lia.
      * apply L2; lia.
      * exact L1.
    + intros Hall. exfalso. assert (lb < length cum)%nat by lia. specialize (L2 H). specialize (Hall lb H). lra. Qed.

(* non-vacuity: spectrum 8,4,2,1 (fractions of 15), f = 0.8 keeps 2 modes *)
Example threshold_example :
  fst (dec_n_modes_clipped OR 4 (cumsum OR [8/15; 4/15; 2/15; 1/15]) (8/10)) = 2%Z.
Proof. unfold dec_n_modes_clipped, dec_n_modes_required, count_ge. cbn [cumsum cumsum_from fadd OR filter fleb].
  repeat match goal with |- context [Rleb ?a ?b] =>
    first [ replace (Rleb a b) with true by (symmetry; apply Rleb_true; lra)
          | replace (Rleb a b) with false by (symmetry; apply Rleb_false; lra) ] end.
  reflexivity. Qed.

(* A larger requested fraction never keeps fewer modes and never withdraws the warning:
   holds for every list (sorted or not) and every number of precomputed modes. *)
Lemma count_ge_antitone (l : list R) a b : a <= b -> (count_ge OR l b <= count_ge OR l a)%nat.
Proof. intros Hab. unfold count_ge. induction l as [|c r IH]; [apply le_n|].
  cbn [filter fleb OR] in *. destruct (Rleb b c) eqn:Eb; destruct (Rleb a c) eqn:Ea; cbn [length]; try lia.
  exfalso. apply Rleb_true in Eb. apply Rleb_false in Ea. lra. Qed.

Lemma threshold_monotone (npre : Z) (cum : list R) (f1 f2 : R) : f1 <= f2 ->
  (fst (dec_n_modes_clipped OR npre cum f1) <= fst (dec_n_modes_clipped OR npre cum f2))%Z /\
  (fst (svd_n_modes_clipped OR npre cum f1) <= fst (svd_n_modes_clipped OR npre cum f2))%Z /\
  (snd (dec_n_modes_clipped OR npre cum f1) = true -> snd (dec_n_modes_clipped OR npre cum f2) = true) /\
  (snd (svd_n_modes_clipped OR npre cum f1) = true -> snd (svd_n_modes_clipped OR npre cum f2) = true).
Proof. intros H. pose proof (count_ge_antitone cum f1 f2 H) as Hc.
  unfold dec_n_modes_clipped, dec_n_modes_required, svd_n_modes_clipped, svd_n_modes_required.
  set (c1 := count_ge OR cum f1) in *. set (c2 := count_ge OR cum f2) in *.
  destruct (Z.gtb_spec (npre - Z.of_nat c1 + 1) npre); destruct (Z.gtb_spec (npre - Z.of_nat c2 + 1) npre); cbn [fst snd];
  repeat split; intros; try lia; try reflexivity; try discriminate. Qed.

(* whatever the cumulative fractions are (negative entries from rounding, unsorted), the number
   of modes kept is a valid one: between 1 and the number of precomputed modes *)
Lemma count_ge_le_length (l : list R) x : (count_ge OR l x <= length l)%nat.
Proof. unfold count_ge. induction l as [|c r IH]; [apply le_n|]. cbn [filter fleb OR] in *.
  destruct (Rleb x c); cbn [length]; lia. Qed.

Lemma threshold_in_range (cum : list R) (frac : R) : (1 <= length cum)%nat ->
  let k := Z.of_nat (length cum) in
  (1 <= fst (dec_n_modes_clipped OR k cum frac) <= k)%Z /\ (1 <= fst (svd_n_modes_clipped OR k cum frac) <= k)%Z.
Proof. intros Hk k. pose proof (count_ge_le_length cum frac) as Hc.
  unfold dec_n_modes_clipped, dec_n_modes_required, svd_n_modes_clipped, svd_n_modes_required.
  set (c := count_ge OR cum frac) in *. subst k.
  destruct (Z.gtb_spec (Z.of_nat (length cum) - Z.of_nat c + 1) (Z.of_nat (length cum))); cbn [fst]; lia. Qed.

(* once the request is reached, the number kept does not depend on how many further modes
   were precomputed (every further cumulative fraction also reaches the request) *)
Lemma count_ge_app (l e : list R) x : Forall (fun c => x <= c) e ->
  count_ge OR (l ++ e) x = (count_ge OR l x + length e)%nat.
Proof. intros He. unfold count_ge. rewrite filter_app, app_length. f_equal.
  induction He as [|c r Hc Hr IH]; [reflexivity|]. cbn [filter fleb OR length].
  replace (Rleb x c) with true by (symmetry; apply Rleb_true; exact Hc). cbn [length]. f_equal. exact IH. Qed.

Lemma threshold_independent_of_precomputed (cum extra : list R) (frac : R) :
  Forall (fun c => frac <= c) extra -> (1 <= count_ge OR cum frac)%nat ->
  dec_n_modes_clipped OR (Z.of_nat (length (cum ++ extra))) (cum ++ extra) frac = dec_n_modes_clipped OR (Z.of_nat (length cum)) cum frac /\
  svd_n_modes_clipped OR (Z.of_nat (length (cum ++ extra))) (cum ++ extra) frac = svd_n_modes_clipped OR (Z.of_nat (length cum)) cum frac.
Proof. intros He Hc. pose proof (count_ge_le_length cum frac) as Hl.
  unfold dec_n_modes_clipped, dec_n_modes_required, svd_n_modes_clipped, svd_n_modes_required.
  rewrite (count_ge_app cum extra frac He), app_length. set (c := count_ge OR cum frac) in *.
  destruct (Z.gtb_spec (Z.of_nat (length cum + length extra) - Z.of_nat (c + length extra) + 1) (Z.of_nat (length cum + length extra)));
  destruct (Z.gtb_spec (Z.of_nat (length cum) - Z.of_nat c + 1) (Z.of_nat (length cum))); try lia.
  split; f_equal; lia. Qed.

(* refuted variant: counting the cumulative fractions that *exceed* the request (strict
   comparison) keeps one mode too many when the request is met exactly *)
Definition n_modes_required_strict (npre : Z) (cum : list R) (frac : R) : Z :=
  (npre - Z.of_nat (length (filter (fun c => negb (Rleb c frac)) cum)) + 1)%Z.
Lemma threshold_strict_variant_refuted :
  exists cum frac, frac <= nth 0 cum 0 /\ n_modes_required_strict 2 cum frac = 2%Z /\
                   fst (dec_n_modes_clipped OR 2 cum frac) = 1%Z.
Proof. exists [1/2; 1], (1/2). split; [cbn [nth]; lra|].
  unfold n_modes_required_strict, dec_n_modes_clipped, dec_n_modes_required, count_ge. cbn [filter fleb OR].
  repeat match goal with |- context [Rleb ?a ?b] =>
    first [ replace (Rleb a b) with true by (symmetry; apply Rleb_true; lra)
          | replace (Rleb a b) with false by (symmetry; apply Rleb_false; lra) ] end.
  split; reflexivity. Qed.

(* the fraction compared is explained variance over total variance with N-1 and ddof=1 *)
Lemma dec_fraction_formula s n tv : dec_expvar_fraction OR s n tv = s * s / n / tv.
Proof. reflexivity. Qed.
Lemma svd_fraction_formula s n tv : svd_expvar_fraction OR s n tv = s * s / n / tv.
Proof. reflexivity. Qed.
Lemma dec_norm_consistent n p : dec_expvar_N n p = (n - dec_totvar_ddof)%Z /\ svd_expvar_N n p = (n - svd_totvar_ddof)%Z.
Proof. split; reflexivity. Qed.

(* ---------- solver policy ---------- *)

Lemma dec_policy_auto small cplx dask npre rank :
  policy dec_use_exact dec_backend "auto" small cplx dask npre rank = policy dec_use_exact dec_backend "full" small cplx dask npre rank \/
  policy dec_use_exact dec_backend "auto" small cplx dask npre rank = policy dec_use_exact dec_backend "randomized" small cplx dask npre rank.
Proof. unfold policy, dec_use_exact. cbn [String.eqb Ascii.eqb Bool.eqb].
  match goal with |- context [if ?c then true else false] => destruct c end; [left|right]; reflexivity. Qed.

Lemma svd_policy_auto small cplx dask npre rank :
  policy svd_use_exact svd_backend "auto" small cplx dask npre rank = policy svd_use_exact svd_backend "full" small cplx dask npre rank \/
  policy svd_use_exact svd_backend "auto" small cplx dask npre rank = policy svd_use_exact svd_backend "randomized" small cplx dask npre rank.
Proof. unfold policy, svd_use_exact. cbn [String.eqb Ascii.eqb Bool.eqb].
  match goal with |- context [if ?c then true else false] => destruct c end; [left|right]; reflexivity. Qed.

Lemma policy_full_exact small cplx dask npre rank :
  policy dec_use_exact dec_backend "full" small cplx dask npre rank = Ok Exact /\
  policy svd_use_exact svd_backend "full" small cplx dask npre rank = Ok Exact.
Proof. split; reflexivity. Qed.

Lemma policy_randomized_never_exact small cplx dask npre rank :
  policy dec_use_exact dec_backend "randomized" small cplx dask npre rank <> Ok Exact /\
  policy svd_use_exact svd_backend "randomized" small cplx dask npre rank <> Ok Exact.
Proof. split; unfold policy; cbn; destruct cplx, dask; cbn; discriminate. Qed.

Lemma policy_unknown_rejected s small cplx dask npre rank :
  ~ In s ["auto"; "full"; "randomized"]%string ->
  policy dec_use_exact dec_backend s small cplx dask npre rank = Err EValueError /\
  policy svd_use_exact svd_backend s small cplx dask npre rank = Err EValueError.
Proof. intros Hn. unfold policy, dec_use_exact, svd_use_exact.
  destruct (String.eqb_spec s "auto") as [->|_]; [exfalso; apply Hn; cbn; tauto|].
  destruct (String.eqb_spec s "full") as [->|_]; [exfalso; apply Hn; cbn; tauto|].
  destruct (String.eqb_spec s "randomized") as [->|_]; [exfalso; apply Hn; cbn; tauto|].
  split; reflexivity. Qed.

(* ---------- rank check ---------- *)
Lemma rank_check n p npre :
  (dec_rank_rejected npre (dec_rank n p) = true <-> (npre > Z.min n p)%Z) /\
  (svd_rank_rejected npre (svd_rank n p) = true <-> (npre > Z.min n p)%Z).
Proof. unfold dec_rank_rejected, dec_rank, svd_rank_rejected, svd_rank. split; split; intros H; lia. Qed.

(* ---------- sign convention (real data) ---------- *)
Fixpoint lmax (a : R) (l : list R) : R := match l with [] => a | x :: r => lmax (Rmax a x) r end.
Fixpoint lmin (a : R) (l : list R) : R := match l with [] => a | x :: r => lmin (Rmin a x) r end.

Lemma lmax_spec a l : (forall x, In x (a :: l) -> x <= lmax a l) /\ In (lmax a l) (a :: l).
Proof. revert a; induction l as [|y r IH]; intros a; cbn [lmax].
  - split; [intros x [->|[]]; lra | left; reflexivity].
  - destruct (IH (Rmax a y)) as [H1 H2]. split.
    + intros x [->|[->|Hx]].
      * eapply Rle_trans; [apply Rmax_l|apply H1; left; reflexivity].
      * eapply Rle_trans; [apply Rmax_r|apply H1; left; reflexivity].
      * apply H1; right; exact Hx.
    + destruct H2 as [H2|H2]; [|right; right; exact H2]. rewrite <- H2.
      unfold Rmax. destruct (Rle_dec a y); [right; left|left]; reflexivity. Qed.

Lemma lmin_spec a l : (forall x, In x (a :: l) -> lmin a l <= x) /\ In (lmin a l) (a :: l).
Proof. revert a; induction l as [|y r IH]; intros a; cbn [lmin].
  - split; [intros x [->|[]]; lra | left; reflexivity].
  - destruct (IH (Rmin a y)) as [H1 H2]. split.
    + intros x [->|[->|Hx]].
      * eapply Rle_trans; [apply H1; left; reflexivity|apply Rmin_l].
      * eapply Rle_trans; [apply H1; left; reflexivity|apply Rmin_r].
      * apply H1; right; exact Hx.
    + destruct H2 as [H2|H2]; [|right; right; exact H2]. rewrite <- H2.
      unfold Rmin. destruct (Rle_dec a y); [left|right; left]; reflexivity. Qed.

(* After multiplying a column by the generated sign, an entry of largest magnitude is
   non-negative; the only excluded input is a constant negative column (max < 0 = min). *)
Lemma sign_rule_positive (a : R) (l : list R) :
  let mx := lmax a l in let mn := lmin a l in
  let sg := svd_sign_rule OR mx mn in
  ~ (mx < 0 /\ mx = mn) ->
  (sg = 1 \/ sg = -1) /\
  exists x, In x (a :: l) /\ 0 <= sg * x /\ forall y, In y (a :: l) -> Rabs y <= sg * x.
Proof. intros mx mn sg Hex. destruct (lmax_spec a l) as [M1 M2]. destruct (lmin_spec a l) as [N1 N2].
  fold mx in M1, M2. fold mn in N1, N2. unfold sg, svd_sign_rule. cbn [fleb fabs fofZ OR].
  assert (Hmm : mn <= mx) by (apply M1; exact N2).
  destruct (Rleb (Rabs mn) (Rabs mx)) eqn:E.
  - apply Rleb_true in E. split; [left; reflexivity|]. exists mx. split; [exact M2|].
    assert (H0 : 0 <= mx).
    { destruct (Rle_dec 0 mx) as [|Hn]; [assumption|]. exfalso. apply Hex.
      assert (mx < 0) by lra. rewrite (Rabs_left mx) in E by assumption. rewrite (Rabs_left mn) in E by lra. split; lra. }
    split; [lra|]. intros y Hy. specialize (M1 y Hy). specialize (N1 y Hy).
    rewrite (Rabs_right mx) in E by lra. unfold Rabs in *. destruct (Rcase_abs y); destruct (Rcase_abs mn); lra.
  - apply Rleb_false in E. split; [right; reflexivity|]. exists mn. split; [exact N2|].
    assert (H0 : mn < 0).
    { destruct (Rlt_dec mn 0) as [|Hn]; [assumption|]. exfalso.
      rewrite (Rabs_right mn) in E by lra. rewrite (Rabs_right mx) in E by lra. lra. }
    split; [lra|]. intros y Hy. specialize (M1 y Hy). specialize (N1 y Hy).
    rewrite (Rabs_left mn) in E by lra. unfold Rabs in *. destruct (Rcase_abs y); destruct (Rcase_abs mx); lra. Qed.

Example sign_rule_example : svd_sign_rule OR (lmax 1 [-3; 2]) (lmin 1 [-3; 2]) = -1.
Proof. unfold svd_sign_rule. cbn [lmax lmin fleb fabs fofZ OR].
  replace (Rleb _ _) with false; [reflexivity|]. symmetry; apply Rleb_false.
  unfold Rmax, Rmin. repeat destruct (Rle_dec _ _); try lra; unfold Rabs; repeat destruct (Rcase_abs _); lra. Qed.

(* the excluded case really is excluded: a constant negative column keeps its sign *)
Lemma sign_rule_constant_negative_refuted :
  exists a l, let mx := lmax a l in let mn := lmin a l in
    svd_sign_rule OR mx mn = 1 /\ forall y, In y (a :: l) -> y < 0.
Proof. exists (-1), [-1]. cbn [lmax lmin]. split.
  - unfold svd_sign_rule. cbn [fleb fabs fofZ OR]. replace (Rleb _ _) with true; [reflexivity|].
    symmetry; apply Rleb_true. unfold Rmax, Rmin. repeat destruct (Rle_dec _ _); lra.
  - intros y [<-|[<-|[]]]; lra. Qed.

(* both solvers apply truncation and sign flip (in either order), the sign computed from the
   right singular vectors and applied to both factors *)
Lemma post_steps :
  (In PTruncate dec_post_order /\ In PFlip dec_post_order /\ In PTruncate svd_post_order /\ In PFlip svd_post_order) /\
  (dec_sign_applied_to = ["U"; "VT"] /\ svd_sign_applied_to = ["U"; "V"])%string /\
  (dec_sign_source = "VT" /\ svd_sign_source = "V")%string.
Proof. repeat split; cbn; tauto. Qed.

(* ---------- pass-through solver options ---------- *)
(* A site forwards the user's option dictionary intact when it hands it on under its own
   name, inside the constructor-parameter dictionary, or to the solver function itself;
   splatting it into a constructor (or dropping it) does not. *)
Definition forwards (f : kwflow) : bool :=
  match f with ByName | DictOfParams | ToSolver => true | Splat | Dropped => false end.

Lemma kwargs_all_sites_forward : forallb (fun s => forwards (snd s)) kw_sites = true.
Proof. vm_compute. reflexivity. Qed.

Lemma kwargs_sites_forward : forall lab f, In (lab, f) kw_sites -> forwards f = true.
Proof. intros lab f Hin. pose proof kwargs_all_sites_forward as H. rewrite forallb_forall in H.
  exact (H (lab, f) Hin). Qed.

Lemma kwargs_reach_solver : existsb (fun s => match snd s with ToSolver => true | _ => false end) kw_sites = true.
Proof. vm_compute. reflexivity. Qed.
