(* C06 — fully missing features/samples are ignored exactly; isolated NaNs are refused.
   Pure combinatorics on list matrices of [option F], all sizes, by induction on lists. *)
From Coq Require Import List Bool Arith Lia ZArith.
From XV Require Import Model.Sanitizer.
Import ListNotations.

(* ------------------------------------------------------------------ list helpers *)
Lemma nth_map_seq0 {A} (d : A) (g : nat -> A) n i : i < n -> nth i (map g (seq 0 n)) d = g i.
Proof.
  intros Hi. rewrite (nth_indep _ d (g 0)) by (rewrite map_length, seq_length; exact Hi).
  rewrite map_nth, seq_nth by exact Hi. reflexivity.
Qed.

Lemma nth_map_d {A B} (g : A -> B) (l : list A) (da : A) (db : B) i :
  i < length l -> nth i (map g l) db = g (nth i l da).
Proof.
  intros Hi. rewrite (nth_indep _ db (g da)) by (rewrite map_length; exact Hi). apply map_nth.
Qed.

Lemma map_nth_seq_id {A} (d : A) (r : list A) : map (fun j => nth j r d) (seq 0 (length r)) = r.
Proof.
  apply (nth_ext _ _ d d).
  - rewrite map_length, seq_length. reflexivity.
  - intros j Hj. rewrite map_length, seq_length in Hj.
    rewrite (nth_map_seq0 d (fun j => nth j r d)) by exact Hj. reflexivity.
Qed.

Lemma Forall2_of_nth {A B} (P : A -> B -> Prop) (da : A) (db : B) :
  forall l1 l2, length l1 = length l2 ->
  (forall j, j < length l1 -> P (nth j l1 da) (nth j l2 db)) -> Forall2 P l1 l2.
Proof.
  induction l1 as [|a l1 IH]; intros [|b l2] Hlen Hp; cbn [length] in *; try discriminate.
  - constructor.
  - constructor.
    + apply (Hp 0). lia.
    + apply IH. { lia. } intros j Hj. apply (Hp (S j)). lia.
Qed.

(* ------------------------------------------------------------------ masks *)
Definition bwf (n p : nat) (B : list (list bool)) : Prop := length B = n /\ Forall (fun r => length r = p) B.

Lemma bwf_row n p B i : bwf n p B -> i < n -> length (nth i B []) = p.
Proof.
  intros [Hn Hf] Hi. rewrite Forall_forall in Hf. apply Hf. apply nth_In. lia.
Qed.

Lemma row_any_true r : row_any r = true <-> exists j, j < length r /\ nth j r false = true.
Proof.
  unfold row_any. rewrite existsb_exists. split.
  - intros [b [Hin Hb]]. subst b. destruct (In_nth _ _ false Hin) as [j [Hj Hn]]. exists j. split; assumption.
  - intros [j [Hj Hn]]. exists true. split; [|reflexivity]. rewrite <- Hn. apply nth_In. exact Hj.
Qed.

Lemma col_any_true B j : col_any B j = true <-> exists i, i < length B /\ bget B i j = true.
Proof.
  unfold col_any, bget. rewrite existsb_exists. split.
  - intros [r [Hin Hr]]. destruct (In_nth _ _ [] Hin) as [i [Hi Hn]]. exists i. split; [exact Hi|]. rewrite Hn. exact Hr.
  - intros [i [Hi Hn]]. exists (nth i B []). split; [|exact Hn]. apply nth_In. exact Hi.
Qed.

Lemma count_true_cons b r : count_true (b :: r) = (if b then S (count_true r) else count_true r).
Proof. unfold count_true. cbn [filter]. destruct b; reflexivity. Qed.

Lemma count_true_zero r : count_true r = 0 <-> row_any r = false.
Proof.
  induction r as [|b r IH].
  - cbn. tauto.
  - rewrite count_true_cons. unfold row_any in *. cbn [existsb]. destruct b; cbn [orb].
    + split; intros H; discriminate.
    + exact IH.
Qed.

Definition ble (a b : bool) : Prop := a = true -> b = true.

Lemma count_mono r v : Forall2 ble r v -> count_true r <= count_true v.
Proof.
  induction 1 as [|a b r v Hab _ IH].
  - apply le_n.
  - rewrite !count_true_cons. destruct a, b; try lia. specialize (Hab eq_refl). discriminate.
Qed.

Lemma count_eq_le r v : Forall2 ble r v -> count_true r = count_true v -> r = v.
Proof.
  induction 1 as [|a b r v Hab Hrv IH]; intros Hc.
  - reflexivity.
  - rewrite !count_true_cons in Hc. pose proof (count_mono _ _ Hrv) as Hm.
    destruct a, b.
    + f_equal. apply IH. lia.
    + specialize (Hab eq_refl). discriminate.
    + lia.
    + f_equal. apply IH. exact Hc.
Qed.

Lemma vf_length p B : length (valid_features_b p B) = p.
Proof. unfold valid_features_b. rewrite map_length, seq_length. reflexivity. Qed.

Lemma vf_nth p B j : j < p -> nth j (valid_features_b p B) false = col_any B j.
Proof. intros Hj. unfold valid_features_b. apply nth_map_seq0. exact Hj. Qed.

Lemma vs_nth B i : nth i (valid_samples_b B) false = row_any (nth i B []).
Proof. unfold valid_samples_b. change false with (row_any []). apply map_nth. Qed.

Lemma row_ok_spec c n : row_ok c n = true <-> c = 0 \/ c = n.
Proof.
  unfold row_ok. cbn [existsb]. rewrite orb_false_r, orb_true_iff, !Nat.eqb_eq. tauto.
Qed.

Lemma isolated_ok_b_spec p B :
  isolated_ok_b p B = true <->
  forall r, In r B -> count_true r = 0 \/ count_true r = count_true (valid_features_b p B).
Proof.
  unfold isolated_ok_b, valid_per_sample_b. rewrite forallb_forall. split.
  - intros H r Hr. apply row_ok_spec. apply H. apply in_map. exact Hr.
  - intros H c Hc. apply in_map_iff in Hc. destruct Hc as [r [Hc Hr]]. subst c. apply row_ok_spec. apply H. exact Hr.
Qed.

(* the not-null mask is the outer product of its row support and its column support *)
Definition outer_product (n p : nat) (B : list (list bool)) : Prop :=
  forall i j, i < n -> j < p ->
  (bget B i j = true <-> row_any (nth i B []) = true /\ col_any B j = true).

Theorem isolated_iff_b n p B : bwf n p B -> (isolated_ok_b p B = true <-> outer_product n p B).
Proof.
  intros Hwf. pose proof Hwf as [Hn Hf]. rewrite isolated_ok_b_spec. split.
  - intros H i j Hi Hj. pose proof (bwf_row _ _ _ i Hwf Hi) as Hlen. split.
    + intros Hb. split.
      * apply row_any_true. exists j. split; [lia|exact Hb].
      * apply col_any_true. exists i. split; [lia|exact Hb].
    + intros [Hr Hc].
      assert (Hin : In (nth i B []) B) by (apply nth_In; lia).
      destruct (H _ Hin) as [H0|HN].
      * apply count_true_zero in H0. rewrite H0 in Hr. discriminate.
      * assert (Heq : nth i B [] = valid_features_b p B).
        { apply count_eq_le; [|exact HN]. apply (Forall2_of_nth ble false false).
          - rewrite vf_length. exact Hlen.
          - intros j' Hj' Hb. rewrite Hlen in Hj'. rewrite vf_nth by exact Hj'.
            apply col_any_true. exists i. split; [lia|exact Hb]. }
        unfold bget. rewrite Heq, vf_nth by exact Hj. exact Hc.
  - intros H r Hr. destruct (In_nth _ _ [] Hr) as [i [Hi Hri]]. rewrite Hn in Hi.
    pose proof (bwf_row _ _ _ i Hwf Hi) as Hlen. rewrite Hri in Hlen.
    destruct (row_any r) eqn:Hra.
    + right. f_equal. apply (nth_ext _ _ false false).
      * rewrite vf_length. exact Hlen.
      * intros j Hj. rewrite Hlen in Hj. rewrite vf_nth by exact Hj.
        apply eq_iff_eq_true. specialize (H i j Hi Hj). unfold bget in H. rewrite Hri, Hra in H. tauto.
    + left. apply count_true_zero. exact Hra.
Qed.

Lemma In_true_idx l j : In j (true_idx l) <-> j < length l /\ nth j l false = true.
Proof. unfold true_idx. rewrite filter_In, in_seq. intuition lia. Qed.

Lemma true_idx_NoDup l : NoDup (true_idx l).
Proof. unfold true_idx. apply NoDup_filter. apply seq_NoDup. Qed.

Lemma filter_all_id {A} (f : A -> bool) l : (forall x, In x l -> f x = true) -> filter f l = l.
Proof.
  induction l as [|a l IH]; intros H; cbn [filter].
  - reflexivity.
  - rewrite (H a) by (left; reflexivity). f_equal. apply IH. intros x Hx. apply H. right. exact Hx.
Qed.

Lemma true_idx_all l : (forall j, j < length l -> nth j l false = true) -> true_idx l = seq 0 (length l).
Proof.
  intros H. unfold true_idx. apply filter_all_id. intros j Hj. apply in_seq in Hj. apply H. lia.
Qed.

Lemma true_idx_none l : (forall j, j < length l -> nth j l false = false) -> true_idx l = [].
Proof.
  intros H. destruct (true_idx l) as [|j t] eqn:E; [reflexivity|].
  assert (Hin : In j (true_idx l)) by (rewrite E; left; reflexivity).
  apply In_true_idx in Hin. destruct Hin as [Hj Ht]. rewrite H in Ht by exact Hj. discriminate.
Qed.

(* ------------------------------------------------------------------ index_of / reindex *)
Lemma index_of_Some x l k : index_of x l = Some k -> k < length l /\ nth k l 0 = x.
Proof.
  revert k. induction l as [|y t IH]; intros k H; cbn [index_of] in H.
  - discriminate.
  - destruct (Nat.eqb x y) eqn:E.
    + injection H as <-. apply Nat.eqb_eq in E. cbn. split; [lia|symmetry; exact E].
    + destruct (index_of x t) as [k'|]; cbn [option_map] in H; [|discriminate]. injection H as <-.
      destruct (IH k' eq_refl) as [Hk Hn]. cbn [length nth]. split; [lia|exact Hn].
Qed.

Lemma index_of_None x l : index_of x l = None <-> ~ In x l.
Proof.
  induction l as [|y t IH]; cbn [index_of In].
  - tauto.
  - destruct (Nat.eqb x y) eqn:E.
    + apply Nat.eqb_eq in E. split; [discriminate|]. intros H. exfalso. apply H. left. symmetry. exact E.
    + apply Nat.eqb_neq in E. destruct (index_of x t) as [k|]; cbn [option_map].
      * split; [discriminate|]. intros H. exfalso. apply H. right.
        destruct (in_dec Nat.eq_dec x t) as [Hi|Hni]; [exact Hi|]. apply IH in Hni. discriminate.
      * split; [|reflexivity]. intros _ [Hy|Ht]; [congruence|]. destruct IH as [IH1 _]. exact (IH1 eq_refl Ht).
Qed.

Lemma index_of_NoDup l k : NoDup l -> k < length l -> index_of (nth k l 0) l = Some k.
Proof.
  intros Hnd. revert k. induction Hnd as [|y t Hy Hnd IH]; intros k Hk; cbn [length] in Hk.
  - lia.
  - destruct k as [|k]; cbn [nth index_of].
    + rewrite Nat.eqb_refl. reflexivity.
    + assert (Hk' : k < length t) by lia.
      destruct (Nat.eqb (nth k t 0) y) eqn:E.
      * apply Nat.eqb_eq in E. exfalso. apply Hy. rewrite <- E. apply nth_In. exact Hk'.
      * rewrite IH by exact Hk'. reflexivity.
Qed.

Lemma reindex_length {A} full kept (vals : list A) : length (reindex full kept vals) = length full.
Proof. unfold reindex. apply map_length. Qed.

Lemma reindex_nth {A} full kept (vals : list A) i : i < length full ->
  nth i (reindex full kept vals) None =
  match index_of (nth i full 0) kept with Some k => nth_error vals k | None => None end.
Proof. intros Hi. unfold reindex. rewrite (nth_map_d _ _ 0) by exact Hi. reflexivity. Qed.

(* ------------------------------------------------------------------ data level *)
Section Data.
Context {F : Type}.
Notation omat := (@omat F).

Lemma nth_notnull (M : omat) i : nth i (notnull M) [] = map is_some (nth i M []).
Proof. unfold notnull. change (@nil bool) with (map (@is_some F) []). apply map_nth. Qed.

Lemma bget_notnull (M : omat) i j : bget (notnull M) i j = is_some (oget M i j).
Proof.
  unfold bget, oget. rewrite nth_notnull. change false with (@is_some F None). apply map_nth.
Qed.

Lemma notnull_bwf n p (M : omat) : owf n p M -> bwf n p (notnull M).
Proof.
  intros [Hn Hf]. split.
  - unfold notnull. rewrite map_length. exact Hn.
  - unfold notnull. apply Forall_forall. intros r Hr. apply in_map_iff in Hr. destruct Hr as [r0 [<- Hr0]].
    rewrite map_length. rewrite Forall_forall in Hf. apply Hf. exact Hr0.
Qed.

Lemma owf_row n p (M : omat) i : owf n p M -> i < n -> length (nth i M []) = p.
Proof. intros [Hn Hf] Hi. rewrite Forall_forall in Hf. apply Hf. apply nth_In. lia. Qed.

Lemma row_any_notnull n p (M : omat) i : owf n p M -> i < n ->
  (row_any (nth i (notnull M) []) = true <-> exists j, j < p /\ is_some (oget M i j) = true).
Proof.
  intros Hwf Hi. rewrite row_any_true.
  assert (Hl : length (nth i (notnull M) []) = p).
  { rewrite nth_notnull, map_length. eapply owf_row; eassumption. }
  rewrite Hl. split; intros [j [Hj Hb]]; exists j; (split; [exact Hj|]).
  - rewrite <- bget_notnull. exact Hb.
  - rewrite <- bget_notnull in Hb. exact Hb.
Qed.

Lemma col_any_notnull n p (M : omat) j : owf n p M ->
  (col_any (notnull M) j = true <-> exists i, i < n /\ is_some (oget M i j) = true).
Proof.
  intros [Hn _]. rewrite col_any_true. unfold notnull at 1. rewrite map_length, Hn.
  split; intros [i [Hi Hb]]; exists i; (split; [exact Hi|]).
  - rewrite <- bget_notnull. exact Hb.
  - rewrite bget_notnull. exact Hb.
Qed.

(* (a) the implemented test accepts iff the not-null mask is the outer product of its supports *)
Definition rank_one_mask (n p : nat) (M : omat) : Prop :=
  forall i j, i < n -> j < p ->
  (is_some (oget M i j) = true <->
   (exists j', j' < p /\ is_some (oget M i j') = true) /\ (exists i', i' < n /\ is_some (oget M i' j) = true)).

Theorem isolated_iff n p (M : omat) : owf n p M -> (isolated_ok p M = true <-> rank_one_mask n p M).
Proof.
  intros Hwf. unfold isolated_ok. rewrite (isolated_iff_b n p) by (apply notnull_bwf; exact Hwf).
  unfold outer_product, rank_one_mask. split; intros H i j Hi Hj; specialize (H i j Hi Hj).
  - rewrite <- bget_notnull, <- (row_any_notnull n p M i Hwf Hi), <- (col_any_notnull n p M j Hwf). exact H.
  - rewrite bget_notnull, (row_any_notnull n p M i Hwf Hi), (col_any_notnull n p M j Hwf). exact H.
Qed.

(* kept labels *)
Lemma In_kept_rows n p (M : omat) i : owf n p M ->
  (In i (kept_rows M) <-> i < n /\ exists j, j < p /\ is_some (oget M i j) = true).
Proof.
  intros Hwf. unfold kept_rows, valid_samples. rewrite In_true_idx, vs_nth.
  unfold valid_samples_b, notnull at 1. rewrite !map_length. destruct Hwf as [Hn Hf]. rewrite Hn.
  split; intros [Hi H]; (split; [exact Hi|]); apply (row_any_notnull n p M i (conj Hn Hf) Hi); exact H.
Qed.

Lemma In_kept_cols n p (M : omat) j : owf n p M ->
  (In j (kept_cols p M) <-> j < p /\ exists i, i < n /\ is_some (oget M i j) = true).
Proof.
  intros Hwf. unfold kept_cols, valid_features. rewrite In_true_idx, vf_length.
  split; intros [Hj H]; (split; [exact Hj|]).
  - rewrite vf_nth in H by exact Hj. apply (col_any_notnull n p M j Hwf). exact H.
  - rewrite vf_nth by exact Hj. apply (col_any_notnull n p M j Hwf). exact H.
Qed.

(* dense / undense *)
Lemma dense_row_undense (r : list (option F)) v : dense_row r = Some v -> map (@Some F) v = r.
Proof.
  revert v. induction r as [|o r IH]; intros v H; cbn [dense_row] in H.
  - injection H as <-. reflexivity.
  - destruct o as [x|]; [|discriminate]. destruct (dense_row r) as [v'|]; cbn [option_map] in H; [|discriminate].
    injection H as <-. cbn [map]. f_equal. apply IH. reflexivity.
Qed.

Lemma dense_undense_inv (M : omat) D : dense M = Some D -> undense D = M.
Proof.
  revert D. induction M as [|r M IH]; intros D H; cbn [dense] in H.
  - injection H as <-. reflexivity.
  - destruct (dense_row r) as [a|] eqn:Er; [|discriminate]. destruct (dense M) as [b|]; [|discriminate].
    injection H as <-. unfold undense. cbn [map]. f_equal.
    + apply dense_row_undense. exact Er.
    + apply IH. reflexivity.
Qed.

Lemma dense_row_some (r : list (option F)) : (forall o, In o r -> is_some o = true) -> exists v, dense_row r = Some v.
Proof.
  induction r as [|o r IH]; intros H; cbn [dense_row].
  - exists []. reflexivity.
  - destruct o as [x|].
    + destruct IH as [v Hv]. { intros o Ho. apply H. right. exact Ho. }
      rewrite Hv. exists (x :: v). reflexivity.
    + specialize (H None (or_introl eq_refl)). discriminate.
Qed.

Lemma dense_some (M : omat) : (forall r, In r M -> forall o, In o r -> is_some o = true) -> exists D, dense M = Some D.
Proof.
  induction M as [|r M IH]; intros H; cbn [dense].
  - exists []. reflexivity.
  - destruct (dense_row_some r) as [a Ha]. { apply H. left. reflexivity. }
    destruct IH as [b Hb]. { intros r' Hr'. apply H. right. exact Hr'. }
    rewrite Ha, Hb. exists (a :: b). reflexivity.
Qed.

Lemma dense_row_map_Some (v : list F) : dense_row (map (@Some F) v) = Some v.
Proof. induction v as [|x v IH]; cbn [map dense_row]; [reflexivity|]. rewrite IH. reflexivity. Qed.

Lemma dense_undense (D : list (list F)) : dense (undense D) = Some D.
Proof.
  induction D as [|r D IH]; unfold undense in *; cbn [map dense]; [reflexivity|].
  rewrite dense_row_map_Some, IH. reflexivity.
Qed.

(* every entry kept by an accepting check is a genuine value *)
Lemma select_all_some n p (M : omat) : owf n p M -> isolated_ok p M = true ->
  forall r, In r (select (kept_rows M) (kept_cols p M) M) -> forall o, In o r -> is_some o = true.
Proof.
  intros Hwf Hok r Hr o Ho. unfold select in Hr. apply in_map_iff in Hr. destruct Hr as [i [<- Hi]].
  apply in_map_iff in Ho. destruct Ho as [j [<- Hj]].
  apply (In_kept_rows n p M i Hwf) in Hi. apply (In_kept_cols n p M j Hwf) in Hj.
  destruct Hi as [Hi Hrow]. destruct Hj as [Hj Hcol].
  apply (isolated_iff n p M Hwf) in Hok. apply (Hok i j Hi Hj). split; assumption.
Qed.

(* (b1) acceptance: the result is the selection by the support index lists, made of genuine values *)
Theorem sanitize_accepts n p (M : omat) : owf n p M -> isolated_ok p M = true ->
  exists D, sanitize p M = SOk (mkOut D (kept_rows M) (kept_cols p M)) /\
            undense D = select (kept_rows M) (kept_cols p M) M.
Proof.
  intros Hwf Hok. destruct (dense_some _ (select_all_some n p M Hwf Hok)) as [D HD].
  exists D. split.
  - unfold sanitize. rewrite Hok, HD. reflexivity.
  - apply dense_undense_inv. exact HD.
Qed.

Theorem sanitize_rejects p (M : omat) : isolated_ok p M = false -> sanitize p M = SErr SE_isolated.
Proof. intros H. unfold sanitize. rewrite H. reflexivity. Qed.

(* (b2) by typing: whatever is handed on consists of values that were [Some] in the input *)
Theorem sanitize_ok_inv p (M : omat) o : sanitize p M = SOk o ->
  isolated_ok p M = true /\ out_rows o = kept_rows M /\ out_cols o = kept_cols p M /\
  undense (out_X o) = select (out_rows o) (out_cols o) M.
Proof.
  unfold sanitize. destruct (isolated_ok p M); [|discriminate].
  destruct (dense _) as [D|] eqn:HD; [|discriminate]. intros H. injection H as <-. cbn [out_rows out_cols out_X].
  repeat split. apply dense_undense_inv. exact HD.
Qed.

Lemma undense_entry (D : list (list F)) (I J : list nat) (M : omat) a b x :
  undense D = select I J M -> nth_error D a = Some x -> forall y, nth_error x b = Some y ->
  oget M (nth a I 0) (nth b J 0) = Some y /\ a < length I /\ b < length J.
Proof.
  intros Heq Ha y Hb.
  assert (H1 : nth_error (undense D) a = Some (map (@Some F) x)).
  { unfold undense. rewrite nth_error_map, Ha. reflexivity. }
  rewrite Heq in H1. unfold select in H1. rewrite nth_error_map in H1.
  destruct (nth_error I a) as [i|] eqn:Ei; cbn [option_map] in H1; [|discriminate].
  injection H1 as H1.
  assert (H2 : nth_error (map (@Some F) x) b = Some (Some y)).
  { rewrite nth_error_map, Hb. reflexivity. }
  rewrite <- H1 in H2. rewrite nth_error_map in H2.
  destruct (nth_error J b) as [j|] eqn:Ej; cbn [option_map] in H2; [|discriminate].
  injection H2 as H2.
  assert (Ha' : a < length I) by (apply nth_error_Some; congruence).
  assert (Hb' : b < length J) by (apply nth_error_Some; congruence).
  rewrite (nth_error_nth _ _ 0 Ei), (nth_error_nth _ _ 0 Ej). repeat split; assumption.
Qed.

(* selecting everything is the identity *)
Lemma select_all n p (M : omat) : owf n p M -> select (seq 0 n) (seq 0 p) M = M.
Proof.
  intros [Hn Hf]. unfold select. apply (nth_ext _ _ [] []).
  - rewrite map_length, seq_length. symmetry. exact Hn.
  - intros i Hi. rewrite map_length, seq_length in Hi.
    rewrite (nth_map_seq0 [] (fun i => map (fun j => oget M i j) (seq 0 p))) by exact Hi.
    unfold oget. assert (Hl : length (nth i M []) = p) by (apply (owf_row n p); [split; assumption|exact Hi]).
    rewrite <- Hl. apply map_nth_seq_id.
Qed.

Lemma undense_owf n p (D : list (list F)) : length D = n -> Forall (fun r => length r = p) D -> owf n p (undense D).
Proof.
  intros Hn Hf. split.
  - unfold undense. rewrite map_length. exact Hn.
  - unfold undense. apply Forall_forall. intros r Hr. apply in_map_iff in Hr. destruct Hr as [r0 [<- Hr0]].
    rewrite map_length. rewrite Forall_forall in Hf. apply Hf. exact Hr0.
Qed.

Lemma nth_map_Some_some (r : list F) j : j < length r -> is_some (nth j (map (@Some F) r) None) = true.
Proof.
  revert j. induction r as [|x r IH]; intros j Hj; cbn [length] in Hj; [lia|].
  destruct j as [|j]; cbn [map nth]; [reflexivity|]. apply IH. lia.
Qed.

Lemma undense_some n p (D : list (list F)) i j : length D = n -> Forall (fun r => length r = p) D ->
  i < n -> j < p -> is_some (oget (undense D) i j) = true.
Proof.
  intros Hn Hf Hi Hj. unfold oget, undense. change (@nil (option F)) with (map (@Some F) []). rewrite map_nth.
  apply nth_map_Some_some. rewrite Forall_forall in Hf. rewrite (Hf (nth i D [])); [exact Hj|]. apply nth_In. lia.
Qed.

(* sanitising data without any missing value is the identity (no label dropped) *)
Lemma sanitize_full n p (D : list (list F)) : length D = n -> Forall (fun r => length r = p) D -> (n = 0 <-> p = 0) ->
  sanitize p (undense D) = SOk (mkOut D (seq 0 n) (seq 0 p)).
Proof.
  intros Hn Hf Hnp. pose proof (undense_owf n p D Hn Hf) as Hwf.
  assert (Hok : isolated_ok p (undense D) = true).
  { apply (isolated_iff n p _ Hwf). intros i j Hi Hj. split.
    - intros _. split; [exists j|exists i]; (split; [assumption|]); apply (undense_some n p); assumption.
    - intros _. apply (undense_some n p); assumption. }
  assert (HI : kept_rows (undense D) = seq 0 n).
  { unfold kept_rows. rewrite true_idx_all.
    - unfold valid_samples, valid_samples_b, notnull, undense. rewrite !map_length, Hn. reflexivity.
    - intros i Hi. unfold valid_samples, valid_samples_b, notnull in Hi. rewrite !map_length in Hi.
      destruct Hwf as [Hn' Hf']. rewrite Hn' in Hi.
      unfold valid_samples. rewrite vs_nth. apply (row_any_notnull n p _ i (conj Hn' Hf') Hi).
      assert (Hp : 0 < p) by lia. exists 0. split; [exact Hp|]. apply (undense_some n p); assumption. }
  assert (HJ : kept_cols p (undense D) = seq 0 p).
  { unfold kept_cols. rewrite true_idx_all.
    - unfold valid_features. rewrite vf_length. reflexivity.
    - intros j Hj. unfold valid_features in *. rewrite vf_length in Hj. rewrite vf_nth by exact Hj.
      apply (col_any_notnull n p _ j Hwf). assert (Hn0 : 0 < n) by lia. exists 0. split; [exact Hn0|].
      apply (undense_some n p); assumption. }
  unfold sanitize. rewrite Hok, HI, HJ, (select_all n p _ Hwf), dense_undense. reflexivity.
Qed.

Lemma kept_empty_iff n p (M : omat) : owf n p M -> (length (kept_rows M) = 0 <-> length (kept_cols p M) = 0).
Proof.
  intros Hwf. split; intros H.
  - destruct (kept_cols p M) as [|j t] eqn:E; [reflexivity|]. exfalso.
    assert (Hj : In j (kept_cols p M)) by (rewrite E; left; reflexivity).
    apply (In_kept_cols n p M j Hwf) in Hj. destruct Hj as [Hj [i [Hi Hs]]].
    assert (Hin : In i (kept_rows M)). { apply (In_kept_rows n p M i Hwf). split; [exact Hi|]. exists j. split; assumption. }
    destruct (kept_rows M); [exact Hin|discriminate].
  - destruct (kept_rows M) as [|i t] eqn:E; [reflexivity|]. exfalso.
    assert (Hi : In i (kept_rows M)) by (rewrite E; left; reflexivity).
    apply (In_kept_rows n p M i Hwf) in Hi. destruct Hi as [Hi [j [Hj Hs]]].
    assert (Hin : In j (kept_cols p M)). { apply (In_kept_cols n p M j Hwf). split; [exact Hj|]. exists i. split; assumption. }
    destruct (kept_cols p M); [exact Hin|discriminate].
Qed.

(* (b3) deleting the fully missing rows and columns beforehand hands on the very same matrix *)
Theorem sanitize_delete_first n p (M : omat) : owf n p M -> isolated_ok p M = true ->
  exists D, sanitize p M = SOk (mkOut D (kept_rows M) (kept_cols p M)) /\
            sanitize (length (kept_cols p M)) (select (kept_rows M) (kept_cols p M) M)
            = SOk (mkOut D (seq 0 (length (kept_rows M))) (seq 0 (length (kept_cols p M)))).
Proof.
  intros Hwf Hok. destruct (sanitize_accepts n p M Hwf Hok) as [D [HS HD]]. exists D. split; [exact HS|].
  rewrite <- HD. apply sanitize_full.
  - apply (f_equal (@length _)) in HD. unfold undense, select in HD. rewrite !map_length in HD. exact HD.
  - apply Forall_forall. intros r Hr.
    assert (Hr' : In (map (@Some F) r) (undense D)) by (unfold undense; apply in_map; exact Hr).
    rewrite HD in Hr'. unfold select in Hr'. apply in_map_iff in Hr'. destruct Hr' as [i [Hi _]].
    apply (f_equal (@length _)) in Hi. rewrite !map_length in Hi. symmetry. exact Hi.
  - apply (kept_empty_iff n p M Hwf).
Qed.
End Data.

(* ------------------------------------------------------------------ (c) re-insertion *)
Section Reinsert.
Context {F : Type}.
Notation omat := (@omat F).

Lemma is_some_false (o : option F) : is_some o = false -> o = None.
Proof. destruct o; [discriminate|reflexivity]. Qed.

(* labels of one re-indexed row: None exactly at the labels that were dropped, the stored value elsewhere *)
Theorem reinsert_cols_spec p (J : list nat) (v : list F) j : j < p -> NoDup J -> length v = length J ->
  (nth j (reinsert_cols p J v) None = None <-> ~ In j J) /\
  (forall l, l < length J -> nth l J 0 = j -> nth j (reinsert_cols p J v) None = nth_error v l).
Proof.
  intros Hj Hnd Hlen. unfold reinsert_cols. rewrite reindex_nth by (rewrite seq_length; exact Hj).
  rewrite seq_nth by exact Hj. cbn [plus]. split.
  - destruct (index_of j J) as [k|] eqn:E.
    + destruct (index_of_Some _ _ _ E) as [Hk Hn]. split.
      * intros H. apply nth_error_None in H. lia.
      * intros H. exfalso. apply H. rewrite <- Hn. apply nth_In. exact Hk.
    + apply index_of_None in E. tauto.
  - intros l Hl Hn. rewrite <- Hn. rewrite index_of_NoDup by assumption. reflexivity.
Qed.

Lemma reinsert_cols_length p J (v : list F) : length (reinsert_cols p J v) = p.
Proof. unfold reinsert_cols. rewrite reindex_length, seq_length. reflexivity. Qed.

(* round trip on accepted masks: sanitise, then re-insert = the original matrix, i.e. None exactly at
   the deleted row / column labels and the original values elsewhere *)
Theorem reinsert_roundtrip n p (M : omat) o : owf n p M -> sanitize p M = SOk o ->
  reinsert n p (out_rows o) (out_cols o) (out_X o) = M.
Proof.
  intros Hwf HS. destruct (sanitize_ok_inv p M o HS) as [Hok [HI [HJ HD]]].
  pose proof Hwf as [Hn Hf].
  unfold reinsert, reinsert_rows. apply (nth_ext _ _ [] []).
  { rewrite map_length, reindex_length, seq_length. symmetry. exact Hn. }
  intros i Hi. rewrite map_length, reindex_length, seq_length in Hi.
  rewrite (nth_map_d _ _ None) by (rewrite reindex_length, seq_length; exact Hi).
  rewrite reindex_nth by (rewrite seq_length; exact Hi). rewrite seq_nth by exact Hi. cbn [plus].
  pose proof (owf_row n p M i Hwf Hi) as Hrow.
  destruct (index_of i (out_rows o)) as [k|] eqn:Ek.
  - destruct (index_of_Some _ _ _ Ek) as [Hk Hnk].
    rewrite nth_error_map.
    assert (HlenD : length (out_X o) = length (out_rows o)).
    { apply (f_equal (@length _)) in HD. unfold undense, select in HD. rewrite !map_length in HD. exact HD. }
    destruct (nth_error (out_X o) k) as [x|] eqn:Ex; [|apply nth_error_None in Ex; lia].
    cbn [option_map]. apply (nth_ext _ _ None None).
    { rewrite reinsert_cols_length. symmetry. exact Hrow. }
    intros j Hj. rewrite reinsert_cols_length in Hj. unfold reinsert_cols.
    rewrite reindex_nth by (rewrite seq_length; exact Hj). rewrite seq_nth by exact Hj. cbn [plus].
    destruct (index_of j (out_cols o)) as [l|] eqn:El.
    + destruct (index_of_Some _ _ _ El) as [Hl Hnl].
      destruct (nth_error x l) as [y|] eqn:Ey.
      * destruct (undense_entry _ _ _ M k l x HD Ex y Ey) as [Hg _]. rewrite Hnk, Hnl in Hg. symmetry. exact Hg.
      * exfalso. apply nth_error_None in Ey.
        assert (Hx : length x = length (out_cols o)).
        { assert (H1 : nth_error (undense (out_X o)) k = Some (map (@Some F) x)).
          { unfold undense. rewrite nth_error_map, Ex. reflexivity. }
          rewrite HD in H1. unfold select in H1. rewrite nth_error_map in H1.
          destruct (nth_error (out_rows o) k); cbn [option_map] in H1; [|discriminate]. injection H1 as H1.
          apply (f_equal (@length _)) in H1. rewrite !map_length in H1. symmetry. exact H1. }
        lia.
    + apply index_of_None in El. rewrite HJ in El.
      symmetry. apply is_some_false. destruct (is_some (nth j (nth i M []) None)) eqn:Es; [|reflexivity].
      exfalso. apply El. apply (In_kept_cols n p M j Hwf). split; [exact Hj|]. exists i. split; [exact Hi|exact Es].
  - apply index_of_None in Ek. rewrite HI in Ek. apply (nth_ext _ _ None None).
    { rewrite repeat_length. symmetry. exact Hrow. }
    intros j Hj. rewrite repeat_length in Hj. rewrite nth_repeat.
    symmetry. apply is_some_false. destruct (is_some (nth j (nth i M []) None)) eqn:Es; [|reflexivity].
    exfalso. apply Ek. apply (In_kept_rows n p M i Hwf). split; [exact Hi|]. exists j. split; [exact Hj|exact Es].
Qed.

(* scores: a dropped sample label comes back as a row of None, a kept one as its row *)
Theorem reinsert_rows_spec n w (I : list nat) (R : list (list (option F))) i : i < n -> NoDup I -> length R = length I ->
  (~ In i I -> nth i (reinsert_rows n w I R) [] = repeat None w) /\
  (forall k, k < length I -> nth k I 0 = i -> nth i (reinsert_rows n w I R) [] = nth k R []).
Proof.
  intros Hi Hnd Hlen. unfold reinsert_rows.
  rewrite (nth_map_d _ _ None) by (rewrite reindex_length, seq_length; exact Hi).
  rewrite reindex_nth by (rewrite seq_length; exact Hi). rewrite seq_nth by exact Hi. cbn [plus]. split.
  - intros Hni. apply index_of_None in Hni. rewrite Hni. reflexivity.
  - intros k Hk Hn. rewrite <- Hn. rewrite index_of_NoDup by assumption.
    destruct (nth_error R k) as [r|] eqn:Er.
    + symmetry. apply nth_error_nth. exact Er.
    + apply nth_error_None in Er. lia.
Qed.
End Reinsert.

(* ------------------------------------------------------------------ (d) checks at transform time *)
Section Transform.
Context {F : Type}.
Notation omat := (@omat F).

Lemma eqb_list_true {A} (eqb : A -> A -> bool) (H : forall x y, eqb x y = true <-> x = y) a b :
  eqb_list eqb a b = true <-> a = b.
Proof.
  revert b. induction a as [|x a IH]; intros [|y b]; cbn [eqb_list]; try (split; [discriminate|intros E; discriminate E]).
  - tauto.
  - rewrite andb_true_iff, H, IH. split; [intros [-> ->]; reflexivity|intros E; injection E; auto].
Qed.

Lemma bool_eqb_iff x y : Bool.eqb x y = true <-> x = y.
Proof. destruct x, y; cbn; split; intros; try reflexivity; try discriminate. Qed.

Lemma mask_matches_fit_iff fvf vf : mask_matches_fit fvf vf = true <-> vf = fvf.
Proof. unfold mask_matches_fit. apply eqb_list_true. exact bool_eqb_iff. Qed.

Theorem mask_mismatch_rejected (st : san_fit) p (x : @san_in F) :
  in_dims_ok x = true -> in_fcoords x = fit_fcoords st -> valid_features p (in_data x) <> fit_vf st ->
  san_transform st p x = SErr SE_mask.
Proof.
  intros Hd Hc Hm. unfold san_transform, san_model_steps. cbn [first_error step_error]. rewrite Hd.
  assert (E1 : eqb_list Z.eqb (in_fcoords x) (fit_fcoords st) = true) by (apply eqb_list_true; [exact Z.eqb_eq|exact Hc]).
  rewrite E1.
  destruct (mask_matches_fit (fit_vf st) (valid_features p (in_data x))) eqn:E2; [|reflexivity].
  apply mask_matches_fit_iff in E2. contradiction.
Qed.

(* whatever transform returns was checked: same feature coordinates, same valid-feature mask, no isolated None *)
Theorem transform_accept_inv (st : san_fit) p (x : @san_in F) o : san_transform st p x = SOk o ->
  in_dims_ok x = true /\ in_fcoords x = fit_fcoords st /\ valid_features p (in_data x) = fit_vf st /\
  isolated_ok p (in_data x) = true /\ sanitize p (in_data x) = SOk o.
Proof.
  unfold san_transform, san_model_steps. cbn [first_error step_error].
  destruct (in_dims_ok x); [|discriminate].
  destruct (eqb_list Z.eqb (in_fcoords x) (fit_fcoords st)) eqn:E1; [|discriminate].
  destruct (mask_matches_fit (fit_vf st) (valid_features p (in_data x))) eqn:E2; [|discriminate].
  destruct (isolated_ok p (in_data x)) eqn:E3; [|discriminate].
  intros H. apply eqb_list_true in E1; [|exact Z.eqb_eq]. apply mask_matches_fit_iff in E2. repeat split; assumption.
Qed.

Theorem isolated_rejected_at_transform (st : san_fit) p (x : @san_in F) :
  isolated_ok p (in_data x) = false -> exists e, san_transform st p x = SErr e.
Proof.
  intros H. unfold san_transform, san_model_steps. cbn [first_error step_error].
  destruct (in_dims_ok x); [|eexists; reflexivity].
  destruct (eqb_list _ _ _); [|eexists; reflexivity].
  destruct (mask_matches_fit _ _); [|eexists; reflexivity].
  rewrite H. eexists; reflexivity.
Qed.

Theorem fit_transform_is_sanitize p (x : @san_in F) : in_dims_ok x = true ->
  san_fit_transform p x = sanitize p (in_data x).
Proof.
  intros Hd. unfold san_fit_transform, san_fit_of. rewrite Hd.
  unfold san_transform, san_model_steps. cbn [first_error step_error fit_fcoords fit_vf]. rewrite Hd.
  assert (E1 : eqb_list Z.eqb (in_fcoords x) (in_fcoords x) = true) by (apply eqb_list_true; [exact Z.eqb_eq|reflexivity]).
  assert (E2 : mask_matches_fit (valid_features p (in_data x)) (valid_features p (in_data x)) = true)
    by (apply mask_matches_fit_iff; reflexivity).
  rewrite E1, E2. unfold sanitize. destruct (isolated_ok p (in_data x)); reflexivity.
Qed.
End Transform.

(* ------------------------------------------------------------------ non-vacuity, refutation *)
(* a concrete 3 x 3 mask: feature 1 and sample 2 entirely missing *)
Definition ex_mask : @omat nat := [[Some 1; None; Some 3]; [Some 4; None; Some 6]; [None; None; None]].
Definition ex_bad : @omat nat := [[Some 1; None; Some 3]; [Some 4; None; None]; [None; None; None]].

Example ex_mask_accepted :
  owf 3 3 ex_mask /\ sanitize 3 ex_mask = SOk (mkOut [[1; 3]; [4; 6]] [0; 1] [0; 2]) /\
  reinsert 3 3 [0; 1] [0; 2] [[1; 3]; [4; 6]] = ex_mask /\
  owf 3 3 ex_bad /\ sanitize 3 ex_bad = SErr SE_isolated /\
  san_transform (mkFit [0; 1; 2]%Z [0; 1; 2]%Z [true; true; true]) 3 (mkIn true [0; 1; 2]%Z [0; 1; 2]%Z ex_mask) = SErr SE_mask.
Proof.
  repeat split; try reflexivity; repeat constructor.
Qed.

(* cross-set: the implemented pairing (each field sanitised on its own, rows paired by position,
   only the counts compared) accepts fields whose missing samples sit at different positions and
   pairs sample 2 of X with sample 1 of Y: "deleted from both fields or refused" is refuted on the
   faithful model (F-06) *)
Definition cross_consistent {F} (p q : nat) (MX MY : @omat F) : Prop :=
  forall a b, cross_pair p q MX MY = SOk (a, b) -> out_rows a = out_rows b.

Theorem cross_different_positions_refuted :
  exists (MX MY : @omat nat), owf 3 1 MX /\ owf 3 1 MY /\ ~ cross_consistent 1 1 MX MY.
Proof.
  exists [[Some 1]; [None]; [Some 3]], [[Some 5]; [Some 6]; [None]]. split; [|split].
  - split; [reflexivity|repeat constructor].
  - split; [reflexivity|repeat constructor].
  - intros H. specialize (H _ _ eq_refl). cbn in H. discriminate.
Qed.

(* corrected pairing: refuse unless the kept sample labels agree *)
Definition cross_pair_checked {F} (p q : nat) (MX MY : @omat F) : sres (san_out * san_out) :=
  match cross_pair p q MX MY with
  | SOk (a, b) => if eqb_list Nat.eqb (out_rows a) (out_rows b) then SOk (a, b) else SErr SE_mask
  | SErr e => SErr e
  end.

Theorem cross_checked_consistent {F} p q (MX MY : @omat F) a b :
  cross_pair_checked p q MX MY = SOk (a, b) -> out_rows a = out_rows b.
Proof.
  unfold cross_pair_checked. destruct (cross_pair p q MX MY) as [[a' b']|e]; [|discriminate].
  destruct (eqb_list Nat.eqb (out_rows a') (out_rows b')) eqn:E; [|discriminate].
  intros H. injection H as <- <-. apply (eqb_list_true Nat.eqb Nat.eqb_eq). exact E.
Qed.

(* (b) in one statement *)
Theorem delete_equiv {F} n p (M : @omat F) : owf n p M -> isolated_ok p M = true ->
  exists D, sanitize p M = SOk (mkOut D (kept_rows M) (kept_cols p M)) /\
            undense D = select (kept_rows M) (kept_cols p M) M /\
            sanitize (length (kept_cols p M)) (select (kept_rows M) (kept_cols p M) M)
            = SOk (mkOut D (seq 0 (length (kept_rows M))) (seq 0 (length (kept_cols p M)))).
Proof.
  intros Hwf Hok. destruct (sanitize_delete_first n p M Hwf Hok) as [D [H1 H2]]. exists D.
  split; [exact H1|]. split; [|exact H2].
  destruct (sanitize_ok_inv p M _ H1) as [_ [_ [_ H]]]. exact H.
Qed.
