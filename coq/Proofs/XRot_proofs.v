(* the cross-set rotator, one field at a time: fit stores
     scores_rot = ((S / scaling) RinvT) * norm_rot * sign          (S = whitened PCs times unrotated singular vectors)
   and transform computes
     ((Xw Q / scaling) RinvT) [re-sorted iff sorted] * sign * norm_rot.
   Transform of the training data returns the stored scores, before and after compute(), and after any call history. *)
From Coq Require Import ZArith List Bool Lia Arith Ring Field.
From XV Require Import Base.Scalar Base.Sum Base.Mat Model.Eof Model.Rot Model.FlagState Proofs.FlagState_proofs Proofs.C11_proofs Proofs.RotState_proofs.
Import ListNotations.

Section XRot.
Context {F : Type} (K : Ops F).
Hypothesis FL : FieldLaws K.
Add Field Fxrot : (FL_field K FL).
Notation mat := (@mat F). Notation vec := (@vec F).

(* what one field of the fitted cross-set rotator stores *)
Definition xrot_field (n k : nat) (Un RinvT : mat) (nrm sg : vec) : @rot_out F :=
  {| r_comps := []; r_scores := colscale K n k (colscale K n k (mmul K n k k Un RinvT) nrm) sg;
     r_norms := nrm; r_expvar := []; r_sign := sg |}.

(* CPCCARotator.transform for one field (steps and their order regenerated from the source: sign first, then norm) *)
Definition xrot_transform (m p k : nat) (Q : mat) (scaling : vec) (RinvT : mat) (sorted : bool) (idx : list nat)
  (stored : @rot_out F) (Xw : mat) : mat :=
  let P := tab m k (fun i j => fdiv K (get K (mmul K m p k Xw Q) i j) (vget K scaling j)) in
  let R1 := mmul K m k k P RinvT in
  let R2 := if sorted then msel_cols K m idx R1 else R1 in
  colscale K m k (colscale K m k R2 (r_sign stored)) (r_norms stored).

Lemma colscale_comm m k A d e : colscale K m k (colscale K m k A d) e = colscale K m k (colscale K m k A e) d.
Proof. unfold colscale. apply tab_ext. intros i j Hi Hj. rewrite !get_tab by assumption. ring. Qed.

Lemma xrot_transform_is_rot_transform m p k Q scaling RinvT sorted idx stored Xw :
  xrot_transform m p k Q scaling RinvT sorted idx stored Xw = rot_transform K m p k Q scaling RinvT sorted idx stored Xw.
Proof. unfold xrot_transform, rot_transform. cbv zeta. apply colscale_comm. Qed.

Section Training.
Variables (n p k : nat) (Q Un : mat) (scaling : vec) (RinvT Xw : mat) (nrm sg : vec) (idx : list nat).
Hypothesis Hidx : length idx = k /\ forall j, (j < k)%nat -> (nth j idx O < k)%nat.
Hypothesis HXQ : mmul K n p k Xw Q = colscale K n k Un scaling.      (* Un = unrotated scores / scaling *)
Hypothesis Hsc : forall j, (j < k)%nat -> vget K scaling j <> f0 K.
Hypothesis HUn : wf K n k Un.
Notation stored := (xrot_field n k Un RinvT nrm sg).

Lemma xproj_is_Un : tab n k (fun i j => fdiv K (get K (mmul K n p k Xw Q) i j) (vget K scaling j)) = Un.
Proof. rewrite HXQ. apply (wf_ext K n k); [apply wf_tab|exact HUn|]. intros i j Hi Hj. rewrite get_tab by assumption.
  unfold colscale. rewrite get_tab by assumption. field. apply Hsc; exact Hj. Qed.

Lemma xrot_training_unsorted : xrot_transform n p k Q scaling RinvT false idx stored Xw = r_scores stored.
Proof. rewrite xrot_transform_is_rot_transform. unfold rot_transform. rewrite xproj_is_Un. reflexivity. Qed.

Lemma xrot_training_sorted :
  xrot_transform n p k Q scaling RinvT true idx (rot_sort K n p idx stored) Xw = r_scores (rot_sort K n p idx stored).
Proof. destruct Hidx as [Hl Hn]. rewrite xrot_transform_is_rot_transform. unfold rot_transform. rewrite xproj_is_Un.
  unfold rot_sort, xrot_field. cbn [r_norms r_sign r_scores].
  rewrite !(msel_cols_colscale K) by (rewrite Hl; exact Hn). rewrite Hl. reflexivity. Qed.

(* any call history: after the last fit and any number of compute() calls *)
Theorem xrot_any_history (before after : list (fop (@rot_out F))) (s0 : fstate (@rot_out F)) :
  Forall (fun o => o = FCompute _) after ->
  let s := frun _ (rot_sort K n p) true true s0 (before ++ FFit _ stored idx :: after) in
  xrot_transform n p k Q scaling RinvT (fs_sorted _ s) (fs_idx _ s) (fs_data _ s) Xw = r_scores (fs_data _ s).
Proof. intros Hafter s.
  assert (Es : s = frun _ (rot_sort K n p) true true (finit _ stored idx) after).
  { unfold s, frun. rewrite fold_left_app. reflexivity. }
  assert (Hi : FlagInv _ (rot_sort K n p) s) by (rewrite Es; apply frun_inv; apply finit_inv).
  destruct (computes_keep K n p after Hafter (finit _ stored idx)) as [Hf Hx]. rewrite <- Es in Hf, Hx. cbn in Hf, Hx.
  unfold FlagInv in Hi. rewrite Hf, Hx in Hi. rewrite Hx, Hi.
  destruct (fs_sorted _ s); [apply xrot_training_sorted|apply xrot_training_unsorted]. Qed.
End Training.
End XRot.
