(* ties between the cross-set model / correlation theorems and the constants regenerated from cpcca.py *)
From Coq Require Import String ZArith List Bool QArith.
From XV Require Import Gen.T5cpcca.
Import ListNotations.

(* the covariance and the standard deviations of the correlation accessors use the same divisor *)
Lemma tie_consistent_normalisation : cpcca_std_ddof = cpcca_cov_ddof /\ cpcca_cov_ddof = 1%Z /\ cpcca_totvar_ddof = 1%Z.
Proof. repeat split; reflexivity. Qed.

Lemma tie_cpcca_core :
  cpcca_scores_are_data_times_singular_vectors = true /\ cpcca_transform_conj = false /\
  cpcca_inverse_conj_components = true /\ cpcca_sample_count_checked = true.
Proof. repeat split; reflexivity. Qed.
