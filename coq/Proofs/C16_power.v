(* the positive solution of the power-oracle relation is unique and is the real power lam^(a/b) of the standard library *)
From Coq Require Import Reals Lra Lia Arith.
Open Scope R_scope.

Lemma pow_lt_strict x y n : 0 <= x -> x < y -> (1 <= n)%nat -> x ^ n < y ^ n.
Proof. intros Hx Hxy Hn. induction n as [|n IH]; [lia|]. destruct n as [|n].
  - simpl. lra.
  - assert (H1 : x ^ S n < y ^ S n) by (apply IH; lia).
    assert (H0 : 0 <= x ^ S n) by (apply pow_le; exact Hx).
    change (x ^ S (S n)) with (x * x ^ S n). change (y ^ S (S n)) with (y * y ^ S n).
    apply Rle_lt_trans with (x * y ^ S n).
    + apply Rmult_le_compat_l; [exact Hx|lra].
    + apply Rmult_lt_compat_r; [lra|exact Hxy]. Qed.

Lemma pow_inj_pos x y n : 0 < x -> 0 < y -> (1 <= n)%nat -> x ^ n = y ^ n -> x = y.
Proof. intros Hx Hy Hn E. destruct (Rtotal_order x y) as [H|[H|H]]; [|exact H|].
  - pose proof (pow_lt_strict x y n (Rlt_le _ _ Hx) H Hn). lra.
  - pose proof (pow_lt_strict y x n (Rlt_le _ _ Hy) H Hn). lra. Qed.

(* (d^2 lam)^b = lam^a from the oracle relation d^(2b) lam^(b-a) = 1 *)
Lemma whitened_pow (lam d : R) (a b : nat) : (a <= b)%nat -> d ^ (2 * b) * lam ^ (b - a) = 1 -> (d * d * lam) ^ b = lam ^ a.
Proof. intros Hab E. rewrite !Rpow_mult_distr. rewrite <- pow_add. replace (b + b)%nat with (2 * b)%nat by lia.
  replace (lam ^ b) with (lam ^ (b - a) * lam ^ a) by (rewrite <- pow_add; f_equal; lia).
  rewrite <- Rmult_assoc, E. ring. Qed.

Theorem whitened_eig_is_real_power (lam d : R) (a b : nat) : 0 < lam -> 0 < d -> (1 <= b)%nat -> (a <= b)%nat ->
  d ^ (2 * b) * lam ^ (b - a) = 1 -> d * d * lam = Rpower lam (INR a / INR b).
Proof. intros Hl Hd Hb Hab E.
  assert (Hb0 : INR b <> 0) by (apply not_0_INR; lia).
  apply (pow_inj_pos _ _ b); [apply Rmult_lt_0_compat; [apply Rmult_lt_0_compat|]; assumption|apply exp_pos|exact Hb|].
  rewrite (whitened_pow lam d a b Hab E).
  rewrite <- (Rpower_pow b (Rpower lam (INR a / INR b))) by apply exp_pos.
  rewrite Rpower_mult. replace (INR a / INR b * INR b) with (INR a) by (field; exact Hb0).
  rewrite Rpower_pow by exact Hl. reflexivity. Qed.

(* and the solution is unique among positive numbers *)
Theorem power_oracle_unique (lam d1 d2 : R) (a b : nat) : 0 < lam -> 0 < d1 -> 0 < d2 -> (1 <= b)%nat -> (a <= b)%nat ->
  d1 ^ (2 * b) * lam ^ (b - a) = 1 -> d2 ^ (2 * b) * lam ^ (b - a) = 1 -> d1 = d2.
Proof. intros Hl H1 H2 Hb Hab E1 E2. apply (pow_inj_pos _ _ (2 * b)); [assumption|assumption|lia|].
  assert (Hp : lam ^ (b - a) <> 0) by (apply pow_nonzero; lra).
  apply (Rmult_eq_reg_r (lam ^ (b - a))); [|exact Hp]. rewrite E1, E2. reflexivity. Qed.

Example power_premises_satisfiable : 0 < 4 /\ 0 < / 2 /\ (/ 2) ^ (2 * 1) * 4 ^ (1 - 0) = 1.
Proof. repeat split; try lra. simpl. lra. Qed.
