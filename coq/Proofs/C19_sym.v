(* C19 — the source's whitening matrix C0^(-1/2) = U0 diag(1/sqrt(s0)) U0^T is symmetric and whitens C0: the two
   hypotheses the main theorems carry (mT Ci = Ci, whiten_ok) follow from the specification of the decomposition of C0 *)
From Coq Require Import ZArith List Bool Lia Arith Ring Field.
From XV Require Import Base.Scalar Base.Sum Base.Mat Base.MatAlg Model.Opa.
Import ListNotations.

Section C19Sym.
Context {F : Type} (K : Ops F).
Hypothesis FL : FieldLaws K.
Add Field Fc19s : (FL_field K FL).
Notation mat := (@mat F). Notation vec := (@vec F).

Definition isq (q : nat) (s0 : vec) : vec := vtab q (fun m => finv K (fsqrt K (vget K s0 m))).

Lemma ci_sym_product q U0 s0 : ci_sym K q U0 s0 = mmul K q q q (mmul K q q q U0 (mdiag K q (isq q s0))) (mT K q q U0).
Proof. rewrite (mmul_diag_r K FL). unfold ci_sym, mmul, colscale, mT. apply tab_ext. intros a b Ha Hb. apply (sum_ext K). intros m Hm.
  rewrite !get_tab by lia. unfold isq. rewrite vget_vtab by lia. rewrite (Fdiv_def (FL_field K FL)). reflexivity. Qed.

Theorem ci_sym_symmetric q U0 s0 : mT K q q (ci_sym K q U0 s0) = ci_sym K q U0 s0.
Proof. unfold mT, ci_sym. apply tab_ext. intros a b Ha Hb. rewrite get_tab by lia. apply (sum_ext K). intros m Hm.
  rewrite !(Fdiv_def (FL_field K FL)). ring. Qed.

(* (U Dd U^T)(U De U^T) = U (Dd De) U^T when U^T U = I *)
Lemma sandwich q U d e : wf K q q U -> mmul K q q q (mT K q q U) U = mI K q ->
  mmul K q q q (mmul K q q q (mmul K q q q U (mdiag K q d)) (mT K q q U)) (mmul K q q q (mmul K q q q U (mdiag K q e)) (mT K q q U)) =
  mmul K q q q (mmul K q q q U (mdiag K q (vmap2 K q (fmul K) d e))) (mT K q q U).
Proof. intros HU HUU.
  rewrite (mmul_assoc K FL q q q q (mmul K q q q U (mdiag K q d)) (mT K q q U)).
  rewrite <- (mmul_assoc K FL q q q q (mT K q q U) (mmul K q q q U (mdiag K q e)) (mT K q q U)).
  rewrite <- (mmul_assoc K FL q q q q (mT K q q U) U (mdiag K q e)). rewrite HUU.
  rewrite (mmul_I_l K FL q q) by apply wf_mdiag.
  rewrite (mmul_assoc K FL q q q q U (mdiag K q d)).
  rewrite <- (mmul_assoc K FL q q q q (mdiag K q d) (mdiag K q e) (mT K q q U)). rewrite (mdiag_mul K FL).
  rewrite <- (mmul_assoc K FL q q q q U). reflexivity. Qed.

Theorem ci_sym_whitens q C0 U0 s0 : psd_factor_ok K q C0 U0 s0 ->
  mmul K q q q (mT K q q U0) U0 = mI K q -> mmul K q q q U0 (mT K q q U0) = mI K q ->
  (forall m, (m < q)%nat -> fsqrt K (vget K s0 m) <> f0 K) ->
  whiten_ok K q C0 (ci_sym K q U0 s0).
Proof. intros (HU & HC & Hs) HUU HUU' Hnz. split; [unfold ci_sym; apply wf_tab|].
  rewrite ci_sym_symmetric. rewrite <- HC. rewrite <- (mmul_diag_r K FL q q U0 s0). rewrite ci_sym_product.
  rewrite (sandwich q U0 (isq q s0) s0 HU HUU). rewrite (sandwich q U0 _ (isq q s0) HU HUU).
  assert (HD : mdiag K q (vmap2 K q (fmul K) (vmap2 K q (fmul K) (isq q s0) s0) (isq q s0)) = mI K q).
  { unfold mdiag, mI. apply tab_ext. intros i j Hi Hj. unfold vmap2, isq. rewrite !vget_vtab by lia.
    unfold delta. destruct (Nat.eqb i j); [|ring].
    specialize (Hs i Hi). specialize (Hnz i Hi). rewrite <- Hs at 2. field. exact Hnz. }
  rewrite HD. rewrite (mmul_I_r K FL q q U0 HU). exact HUU'. Qed.
End C19Sym.
