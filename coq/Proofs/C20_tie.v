(* C20 — obligations tying the hand-written bootstrap model (Model/Boot.v) to the definitions
   regenerated from xeofs/validation/bootstrapper.py (Gen/T5boot.v).  Closed by computation:
   a change of the source that alters a generated constant breaks the proof. *)
From Coq Require Import String ZArith List Bool Lia.
From XV Require Import Base.Scalar Base.Mat Model.Eof Model.Boot Gen.T5boot.
Import ListNotations.
Open Scope string_scope.

(* the resample: rng.choice(n_samples, n_samples, replace=True), once per member, from the
   seeded generator; rows of the model's own preprocessed samples *)
Lemma tie_resample :
  boot_input = "model.data[input_data]" /\ boot_n_samples_of = "input_data" /\
  boot_rng = "np.random.default_rng(seed)" /\ boot_rng_calls_per_member = 1%nat /\
  boot_choice_population = "n_samples" /\ boot_choice_size = "n_samples" /\ boot_choice_replace = true /\
  boot_resample = ("input_data.isel", "idx_rnd").
Proof. repeat split; reflexivity. Qed.

(* the member: EOF(n_modes of the model, standardize=False, use_coslat=False), centring by default
   (hence [center_cols] in [boot_member]), fitted on the resample *)
Lemma tie_member :
  boot_member_class = "EOF" /\
  boot_member_ctor = [("n_modes", "n_modes"); ("standardize", "False"); ("use_coslat", "False")] /\
  boot_n_modes_from_model = true /\ boot_member_centers = true /\ boot_member_fit_data = "bst_data" /\
  boot_member_reads = [("expvar", "explained_variance"); ("totvar", "total_variance"); ("components", "components")].
Proof. repeat split; reflexivity. Qed.

(* member scores: bst_model.transform(input_data, normalized=False) — the ORIGINAL samples through
   the member's preprocessor ([sub_rowvec X mean_b] then [eof_transform]) *)
Lemma tie_scores : boot_scores_from = ("bst_model.transform", "input_data") /\ boot_scores_normalized = false.
Proof. split; reflexivity. Qed.

(* correlation formula, ddof of the standard deviations, np.sign, and what receives the sign *)
Lemma tie_corr : forall (F : Type) (K : Ops F) (mp sb sm : F), corr_formula K mp sb sm = boot_corr_gen K mp sb sm.
Proof. reflexivity. Qed.

Lemma tie_signs :
  boot_std_ddof = 0%Z /\ boot_corr_reduces_samples = true /\ boot_sign_fn = "np.sign" /\
  boot_sign_applied_to = ["bst_components"; "bst_scores"].
Proof. repeat split; reflexivity. Qed.

(* member dimension "n" with coordinates np.arange(1, n_bootstraps + 1) on all four results *)
Lemma tie_member_dim :
  boot_member_dim = "n" /\
  boot_collect = [("bst_expvar", "expvar"); ("bst_total_variance", "totvar"); ("bst_components", "components"); ("bst_scores", "scores")] /\
  boot_coord_assigned = ["bst_expvar"; "bst_total_variance"; "bst_components"; "bst_scores"] /\
  (forall B, boot_coords B = map (fun i => (Z.of_nat i + boot_coord_start)%Z) (seq 0 B)) /\
  (forall B, (boot_coord_stop (Z.of_nat B) - boot_coord_start)%Z = Z.of_nat B).
Proof. repeat split; try reflexivity. intros B. unfold boot_coord_stop, boot_coord_start. lia. Qed.

Lemma tie_store :
  boot_store = [("input_data", "model.data[input_data]"); ("components", "bst_components"); ("scores", "bst_scores");
                ("norms", "model.data[norms]"); ("explained_variance", "bst_expvar"); ("total_variance", "bst_total_variance")].
Proof. reflexivity. Qed.

(* NAMES: the positive obligation (no dimension addressed by a string literal, member built with the
   model's own names) is Proofs/C20_names.v (tie_names). *)
