(* C10 — the whitener is the identity exactly from alpha = 1 upwards (real instance) *)
From Coq Require Import ZArith List Bool Reals Lra.
From XV Require Import Base.Scalar Base.Mat Base.RInst Model.Whiten.
Open Scope R_scope.

Lemma whitener_identity_at_one alpha eps : 0 < eps -> 1 <= alpha -> whiten_is_identity OR alpha eps = true.
Proof. intros He Ha. unfold whiten_is_identity. cbn [fleb fsub fofZ OR]. apply Bool.negb_true_iff. apply Rleb_false. lra. Qed.

Lemma whitener_not_identity_below_one alpha eps : alpha <= 1 - eps -> whiten_is_identity OR alpha eps = false.
Proof. intros Ha. unfold whiten_is_identity. cbn [fleb fsub fofZ OR]. apply Bool.negb_false_iff. apply Rleb_true. lra. Qed.

Lemma whitener_identity_maps n p alpha eps thr V lam d dinv X : 0 < eps -> 1 <= alpha ->
  w_transform OR n p (whiten_fit OR p alpha eps thr V lam d dinv) X = X /\
  w_inverse_data OR n p (whiten_fit OR p alpha eps thr V lam d dinv) X = X.
Proof. intros He Ha. unfold whiten_fit. rewrite whitener_identity_at_one by assumption. split; reflexivity. Qed.
