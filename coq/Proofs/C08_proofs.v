(* C08 — centring, standardisation and weights mean what the options say. *)
From Coq Require Import ZArith List Bool Ring Field Setoid Lia Arith Reals Lra.
From XV Require Import Base.Scalar Base.Sum Base.Mat Base.MatAlg Base.RInst Model.ScalerLib Model.ScalerFit Model.Eof Gen.T4.
Import ListNotations.

Section C08.
Context {F : Type} (K : Ops F).
Hypothesis FL : FieldLaws K.
Add Field Ffc08 : (FL_field K FL).
Notation "0" := (f0 K). Notation "1" := (f1 K).
Infix "+" := (fadd K). Infix "*" := (fmul K). Infix "-" := (fsub K). Infix "/" := (fdiv K).
Notation mat := (@mat F).

Lemma fdiv_def a b : a / b = a * finv K b.
Proof. destruct (FL_field K FL) as [_ _ Fdiv _]. apply Fdiv. Qed.

(* mean of shifted data: adding c_j to every entry of column j adds c_j to its mean *)
Lemma col_mean_shift n X (c : nat -> F) j :
  fofZ K (Z.of_nat n) <> 0 -> sum K n (fun _ => c j) = fofZ K (Z.of_nat n) * c j ->
  col_mean K n (tab n (S j) (fun i l => get K X i l + c l)) j = col_mean K n X j + c j.
Proof. intros Hn Hsum. unfold col_mean.
  rewrite (sum_ext K n _ (fun i => get K X i j + c j)) by (intros i Hi; rewrite get_tab by lia; reflexivity).
  rewrite (sum_add K FL). rewrite Hsum. field. exact Hn. Qed.

End C08.

(* ---------- statements on whole matrices, at the real instance (lra / sqrt available) ---------- *)
Open Scope R_scope.

Lemma sum_R_const n c : sum OR n (fun _ => c) = INR n * c.
Proof. induction n as [|n IH]; [cbn; lra|]. cbn [sum fadd OR]. rewrite IH. rewrite S_INR. lra. Qed.

Lemma INR_IZR n : IZR (Z.of_nat n) = INR n.
Proof. symmetry. apply INR_IZR_INZ. Qed.

Definition shifted (n p : nat) (X : list (list R)) (c : nat -> R) := tab n p (fun i j => get OR X i j + c j).
Definition rescaled (n p : nat) (X : list (list R)) (a b : nat -> R) := tab n p (fun i j => a j * get OR X i j + b j).
Definition premult (n p : nat) (X : list (list R)) (w : nat -> R) := tab n p (fun i j => get OR X i j * w j).

Lemma mean_shifted n p X c j : (0 < n)%nat -> (j < p)%nat -> col_mean OR n (shifted n p X c) j = col_mean OR n X j + c j.
Proof. intros Hn Hj. unfold col_mean, shifted. cbn [fdiv fofZ OR].
  rewrite (sum_ext OR n _ (fun i => fadd OR (get OR X i j) (c j))) by (intros i Hi; rewrite get_tab by lia; reflexivity).
  rewrite (sum_add OR OR_FieldLaws). rewrite sum_R_const. cbn [fadd OR]. rewrite INR_IZR. field. apply not_0_INR. lia. Qed.

Lemma mean_rescaled n p X a b j : (0 < n)%nat -> (j < p)%nat -> col_mean OR n (rescaled n p X a b) j = a j * col_mean OR n X j + b j.
Proof. intros Hn Hj. unfold col_mean, rescaled. cbn [fdiv fofZ OR].
  rewrite (sum_ext OR n _ (fun i => fadd OR (fmul OR (a j) (get OR X i j)) (b j))) by (intros i Hi; rewrite get_tab by lia; reflexivity).
  rewrite (sum_add OR OR_FieldLaws). rewrite (sum_scale_l OR OR_FieldLaws). rewrite sum_R_const. cbn [fadd fmul OR]. rewrite INR_IZR. field. apply not_0_INR. lia. Qed.

Lemma var_rescaled n p X a b j : (0 < n)%nat -> (j < p)%nat -> col_var0 OR n (rescaled n p X a b) j = a j * a j * col_var0 OR n X j.
Proof. intros Hn Hj. unfold col_var0. rewrite mean_rescaled by assumption. cbn [fdiv fofZ fsub fmul fconj OR].
  rewrite (sum_ext OR n _ (fun i => fmul OR (a j * a j) ((get OR X i j - col_mean OR n X j) * (get OR X i j - col_mean OR n X j)))).
  2:{ intros i Hi. unfold rescaled. rewrite get_tab by lia. cbn [fmul OR]. ring. }
  rewrite (sum_scale_l OR OR_FieldLaws). cbn [fmul OR]. rewrite INR_IZR. field. apply not_0_INR. lia. Qed.

(* centring on: adding any constant per feature changes nothing in the preprocessed matrix *)
Theorem shift_invariance n p (std coslat : bool) floor cosw w X c : (0 < n)%nat ->
  with_std (mkFlags true std coslat) = false ->
  scaler_fit_transform OR n p (mkFlags true false coslat) floor cosw w (shifted n p X c)
  = scaler_fit_transform OR n p (mkFlags true false coslat) floor cosw w X.
Proof. intros Hn _. unfold scaler_fit_transform, scale_mat. apply tab_ext. intros i j Hi Hj.
  unfold fit_params, scaler_fwd, run_ops. cbn [fold_left guard_on with_center with_std with_coslat apply_op param p_mean p_std p_coslat p_weights].
  rewrite mean_shifted by assumption. unfold shifted. rewrite get_tab by assumption. cbn [fsub fmul fadd OR].
  destruct coslat; cbn [apply_op fmul fsub OR]; ring. Qed.

(* standardisation on (with centring): any positive affine rescaling per feature changes nothing,
   provided both standard deviations stay above the clipping floor *)
Theorem affine_invariance n p (coslat : bool) floor cosw w X a b : (0 < n)%nat ->
  (forall j, (j < p)%nat -> 0 < a j) ->
  (forall j, (j < p)%nat -> floor <= sqrt (col_var0 OR n X j) /\ floor <= a j * sqrt (col_var0 OR n X j) /\ 0 < sqrt (col_var0 OR n X j)) ->
  scaler_fit_transform OR n p (mkFlags true true coslat) floor cosw w (rescaled n p X a b)
  = scaler_fit_transform OR n p (mkFlags true true coslat) floor cosw w X.
Proof. intros Hn Ha Hfl. unfold scaler_fit_transform, scale_mat. apply tab_ext. intros i j Hi Hj.
  unfold fit_params, scaler_fwd, run_ops. cbn [fold_left guard_on with_center with_std with_coslat apply_op param p_mean p_std p_coslat p_weights].
  rewrite mean_rescaled by assumption. unfold col_std, clip_min. rewrite var_rescaled by assumption. cbn [fsqrt fleb OR].
  destruct (Hfl j Hj) as (H1 & H2 & H3). specialize (Ha j Hj).
  assert (Hs : sqrt (a j * a j * col_var0 OR n X j) = a j * sqrt (col_var0 OR n X j)).
  { rewrite sqrt_mult_alt by nra. rewrite sqrt_square by lra. reflexivity. }
  rewrite Hs. replace (Rleb floor (a j * sqrt (col_var0 OR n X j))) with true by (symmetry; apply Rleb_true; exact H2).
  replace (Rleb floor (sqrt (col_var0 OR n X j))) with true by (symmetry; apply Rleb_true; exact H1).
  unfold rescaled. rewrite get_tab by assumption. cbn [fsub fdiv fmul fadd OR].
  destruct coslat; cbn [apply_op fmul fsub fdiv OR]; field; lra. Qed.

(* standardisation off: user weights are equivalent to fitting the pre-multiplied data *)
Theorem weights_premultiply n p (center coslat : bool) floor cosw w X : (0 < n)%nat ->
  scaler_fit_transform OR n p (mkFlags center false coslat) floor cosw w X
  = scaler_fit_transform OR n p (mkFlags center false coslat) floor cosw (fun _ => 1) (premult n p X w).
Proof. intros Hn. unfold scaler_fit_transform, scale_mat. apply tab_ext. intros i j Hi Hj.
  unfold fit_params, scaler_fwd, run_ops. cbn [fold_left guard_on with_center with_std with_coslat apply_op param p_mean p_std p_coslat p_weights].
  assert (Hm : col_mean OR n (premult n p X w) j = col_mean OR n X j * w j).
  { unfold col_mean, premult. cbn [fdiv fofZ OR].
    rewrite (sum_ext OR n _ (fun i => fmul OR (get OR X i j) (w j))) by (intros l Hl; rewrite get_tab by lia; reflexivity).
    rewrite (sum_scale_r OR OR_FieldLaws). cbn [fmul OR]. rewrite INR_IZR. field. apply not_0_INR. lia. }
  rewrite Hm. unfold premult. rewrite get_tab by assumption. cbn [fsub fmul OR].
  destruct center, coslat; cbn [apply_op fmul fsub OR]; ring. Qed.

(* use_coslat is the same operation as user weights equal to the coslat weights *)
Theorem coslat_is_weights n p (center std : bool) floor cosw X :
  scaler_fit_transform OR n p (mkFlags center std true) floor cosw (fun _ => 1) X
  = scaler_fit_transform OR n p (mkFlags center std false) floor (fun _ => 1) cosw X.
Proof. unfold scaler_fit_transform, scale_mat. apply tab_ext. intros i j Hi Hj.
  unfold fit_params, scaler_fwd, run_ops. cbn [fold_left guard_on with_center with_std with_coslat apply_op param p_mean p_std p_coslat p_weights].
  destruct center, std; cbn [apply_op fmul fsub fdiv OR]; ring. Qed.

(* multiplying the whole matrix by c <> 0: (sgn c U, |c| s, Vt) is an admissible answer for c X;
   scores scale by c, singular values by |c|, explained variance by c^2, components unchanged *)
Definition scaled (n p : nat) (c : R) (X : list (list R)) := mscale OR n p c X.
Definition sgn (c : R) : R := if Rle_dec 0 c then 1 else -1.

Theorem svd_ok_scaled n p r X U s Vt c : c <> 0 -> svd_ok OR n p r X (U, s, Vt) ->
  svd_ok OR n p r (scaled n p c X) (mscale OR n r (sgn c) U, vmap OR r (fun x => Rabs c * x) s, Vt).
Proof. intros Hc (HX & HU & HVt & Hs & Hfac & HUU & HVV & Hreal). unfold svd_ok.
  assert (Hsg : sgn c * Rabs c = c) by (unfold sgn, Rabs; destruct (Rle_dec 0 c); destruct (Rcase_abs c); lra).
  assert (Hsg2 : sgn c * sgn c = 1) by (unfold sgn; destruct (Rle_dec 0 c); lra).
  repeat split; try assumption; try apply wf_mscale; try apply vwf_vtab.
  - unfold scaled. rewrite Hfac.
    assert (Hd : mdiag OR r (vmap OR r (fun x => Rabs c * x) s) = mscale OR r r (Rabs c) (mdiag OR r s)).
    { unfold mdiag, mscale, vmap. apply tab_ext. intros i j Hi Hj. rewrite get_tab by assumption. rewrite vget_vtab by assumption.
      cbn [fmul OR]. ring. }
    rewrite Hd. rewrite (mmul_mscale_l OR OR_FieldLaws), (mmul_mscale_r OR OR_FieldLaws), (mmul_mscale_l OR OR_FieldLaws), (mmul_mscale_l OR OR_FieldLaws).
    unfold mscale. apply tab_ext. intros i j Hi Hj. rewrite !get_tab by assumption. cbn [fmul OR]. rewrite <- Hsg at 1. ring.
  - unfold unitary_cols in *. rewrite <- HUU. unfold mmul, mH, mscale. apply tab_ext. intros i j Hi Hj. apply (sum_ext OR). intros l Hl.
    rewrite !get_tab by lia. rewrite ?get_tab by lia. cbn [fmul fconj OR]. transitivity (sgn c * sgn c * (get OR U l i * get OR U l j)); [ring|rewrite Hsg2; ring]. Qed.

Theorem eof_fit_scaled n p r k X U s Vt sgv c : c <> 0 -> (k <= r)%nat -> (2 <= n)%nat ->
  let o := eof_fit_sg OR n p r k X (U, s, Vt) sgv in
  let o' := eof_fit_sg OR n p r k (scaled n p c X) (mscale OR n r (sgn c) U, vmap OR r (fun x => Rabs c * x) s, Vt) sgv in
  e_comps o' = e_comps o /\
  e_scores o' = mscale OR n k c (e_scores o) /\
  (forall i, (i < k)%nat -> vget OR (e_norms o') i = Rabs c * vget OR (e_norms o) i) /\
  (forall i, (i < k)%nat -> vget OR (e_expvar o') i = c * c * vget OR (e_expvar o) i).
Proof. intros Hc Hk Hn o o'. unfold o, o', eof_fit_sg. cbn [e_comps e_scores e_norms e_expvar].
  assert (Hsg : sgn c * Rabs c = c) by (unfold sgn, Rabs; destruct (Rle_dec 0 c); destruct (Rcase_abs c); lra).
  assert (Hab : Rabs c * Rabs c = c * c) by (unfold Rabs; destruct (Rcase_abs c); ring).
  repeat split.
  - unfold colscale, mcols, mscale, vfirstn, vmap. apply tab_ext. intros i j Hi Hj.
    repeat (first [rewrite get_tab by lia | rewrite vget_vtab by lia]). cbn [fmul OR].
    transitivity (sgn c * Rabs c * (get OR U i j * vget OR sgv j * vget OR s j)); [ring|rewrite Hsg; reflexivity].
  - intros i Hi. unfold vfirstn, vmap. repeat (rewrite vget_vtab by lia). reflexivity.
  - intros i Hi. unfold vfirstn, vmap, sq_over. repeat (rewrite vget_vtab by lia). cbn [fdiv fmul fofZ OR].
    assert (0 < IZR (Z.of_nat n - 1)) by (apply IZR_lt; lia). transitivity (Rabs c * Rabs c * (vget OR s i * vget OR s i / IZR (Z.of_nat n - 1))); [field; lra|rewrite Hab; reflexivity]. Qed.
