(* C20 — bootstrap members are sign-aligned, reproducible EOF analyses of resamples.
   Statements only; proofs are in Proofs/C20_proofs.v and Proofs/C20_tie.v.
   Model: Model/Boot.v.  X is the model's preprocessed sample matrix (n x p), idx a list of n
   row indices (a with-replacement resample), (U, s, Vt) the SVD oracle's answer for the matrix
   the member's fit decomposes — the resample re-centred with its own column means — and M the
   model's scores.  The random generator is an oracle too: draw i is the i-th index list. *)
From Coq Require Import String ZArith List Bool Reals.
From XV Require Import Base.Scalar Base.Sum Base.Mat Base.RInst Model.Eof Model.Boot Gen.T5boot
  Proofs.C01_proofs Proofs.C01_order Proofs.C20_proofs Proofs.C20_tie Proofs.C20_names.
Import ListNotations.

(* the member's analysis is, definitionally, the EOF fit of the centred resample; by C01 its
   components are orthonormal and its explained variances are eigenvalues of the resample's N-1
   covariance matrix (s_i^2/(n-1)), with the components as eigenvectors *)
Theorem C20_member_is_eof : forall (F : Type) (K : Ops F), FieldLaws K ->
  forall (n p r k : nat) (X : mat) (idx : list nat) (U Vt : mat) (s : vec),
  let Xc := center_cols K n p (msel_rows K p idx X) in
  let mem := boot_member K n p r k X idx (U, s, Vt) in
  b_fit mem = eof_fit K n p r k Xc (U, s, Vt) /\
  (svd_ok K n p r Xc (U, s, Vt) -> (k <= r)%nat ->
   mmul K k p k (mH K p k (e_comps (b_fit mem))) (e_comps (b_fit mem)) = mI K k /\
   mmul K p p k (cov K n p Xc) (e_comps (b_fit mem)) = colscale K p k (e_comps (b_fit mem)) (e_expvar (b_fit mem)) /\
   e_expvar (b_fit mem) = vmap K k (sq_over K n) (vfirstn K k s)).
Proof. exact (fun F K FL n p r k X idx U Vt s => conj (member_fit_eq K n p r k X idx U Vt s)
  (fun OK Hk => conj (member_components_orthonormal K FL n p r k X idx U Vt s OK Hk)
                     (member_expvar_eigen K FL n p r k X idx U Vt s OK Hk))). Qed.
Print Assumptions C20_member_is_eof.

(* the resample is centred: its columns sum to zero (premise of the total-variance theorems) *)
Theorem C20_resample_is_centred : forall (F : Type) (K : Ops F), FieldLaws K ->
  forall (n p : nat) (X : mat),
  sum K n (fun _ => f1 K) = fofZ K (Z.of_nat n) -> fofZ K (Z.of_nat n) <> f0 K ->
  forall j, (j < p)%nat -> colsum K n (center_cols K n p X) j = f0 K.
Proof. exact (@center_cols_colsum). Qed.
Print Assumptions C20_resample_is_centred.

(* real data, singular values non-negative and descending: the member's explained variances are
   non-negative and descending, each of them and their sum over the k retained modes is at most
   the member's total variance *)
Theorem C20_member_variances : forall (n p r k : nat) (X : list (list R)) (idx : list nat) (U Vt : list (list R)) (s : list R),
  svd_ok OR n p r (center_cols OR n p (msel_rows OR p idx X)) (U, s, Vt) -> desc_nonneg r s -> (k <= r)%nat -> (2 <= n)%nat ->
  let mem := boot_member OR n p r k X idx (U, s, Vt) in
  desc_nonneg k (e_expvar (b_fit mem)) /\
  (forall i, (i < k)%nat -> (vget OR (e_expvar (b_fit mem)) i <= e_totvar (b_fit mem))%R) /\
  (sum OR k (vget OR (e_expvar (b_fit mem))) <= e_totvar (b_fit mem))%R.
Proof. exact member_is_eof_order. Qed.
Print Assumptions C20_member_variances.

(* sign alignment by real units (s_j conj = s_j, s_j s_j = 1) keeps the components orthonormal
   and leaves the variances untouched *)
Theorem C20_aligned_member_orthonormal : forall (F : Type) (K : Ops F), FieldLaws K ->
  forall (n p r k : nat) (X : mat) (idx : list nat) (U Vt : mat) (s : vec),
  svd_ok K n p r (center_cols K n p (msel_rows K p idx X)) (U, s, Vt) -> (k <= r)%nat ->
  forall M : mat,
  let mem := boot_member K n p r k X idx (U, s, Vt) in
  sign_vec K k (boot_signs K n k (b_scores mem) M) ->
  let o := boot_align K n p k mem M in
  mmul K k p k (mH K p k (bm_comps o)) (bm_comps o) = mI K k.
Proof. exact (@member_aligned_orthonormal). Qed.
Print Assumptions C20_aligned_member_orthonormal.

Theorem C20_alignment_keeps_variances : forall (F : Type) (K : Ops F) (n p r k : nat) (X : mat) (idx : list nat) (U Vt : mat) (s : vec) (M : mat),
  let mem := boot_member K n p r k X idx (U, s, Vt) in
  bm_expvar (boot_align K n p k mem M) = e_expvar (b_fit mem) /\
  bm_totvar (boot_align K n p k mem M) = e_totvar (b_fit mem).
Proof. exact (@aligned_expvar). Qed.
Print Assumptions C20_alignment_keeps_variances.

(* member scores = (X - 1 mean_b) V_b: the ORIGINAL samples, centred with the resample's means,
   projected on the member's components *)
Theorem C20_scores_are_projection : forall (F : Type) (K : Ops F) (n p r k : nat) (X : mat) (idx : list nat) (U Vt : mat) (s : vec),
  let mem := boot_member K n p r k X idx (U, s, Vt) in
  b_scores mem =
  mmul K n p k (msub K n p X (rowrep K n p (col_means K n p (msel_rows K p idx X)))) (e_comps (b_fit mem)).
Proof. exact (@member_scores_projection). Qed.
Print Assumptions C20_scores_are_projection.

(* ... and for every drawn sample the projection is the member's own score of that draw *)
Theorem C20_scores_on_resampled_rows : forall (F : Type) (K : Ops F), FieldLaws K ->
  forall (n p r k : nat) (X : mat) (idx : list nat) (U Vt : mat) (s : vec),
  svd_ok K n p r (center_cols K n p (msel_rows K p idx X)) (U, s, Vt) -> (k <= r)%nat -> idx_ok n idx ->
  let mem := boot_member K n p r k X idx (U, s, Vt) in
  forall i j, (i < n)%nat -> (j < k)%nat ->
  get K (b_scores mem) (nth i idx O) j = get K (e_scores (b_fit mem)) i j.
Proof. exact (@member_scores_on_resampled_rows). Qed.
Print Assumptions C20_scores_on_resampled_rows.

(* real data, positive standard deviations (forced: otherwise corr is 0/0): after alignment
   sum_i (s_j z_ij) m_ij >= 0, where s_j is the model's np.sign(corr_j) *)
Theorem C20_sign_aligned : forall (n p k : nat) (b : boot_out) (M : list (list R)), (1 <= n)%nat ->
  forall j, (j < k)%nat -> (0 < col_std OR n (b_scores b) j)%R -> (0 < col_std OR n M j)%R ->
  (0 <= cross n (bm_scores (boot_align OR n p k b M)) M j)%R.
Proof. exact sign_aligned. Qed.
Print Assumptions C20_sign_aligned.

(* forced hypothesis corr <> 0: then the sign is a unit and the inequality is strict *)
Theorem C20_sign_aligned_strict : forall (n p k : nat) (b : boot_out) (M : list (list R)), (1 <= n)%nat ->
  forall j, (j < k)%nat -> (0 < col_std OR n (b_scores b) j)%R -> (0 < col_std OR n M j)%R ->
  cross n (b_scores b) M j <> 0%R ->
  let o := boot_align OR n p k b M in
  (vget OR (bm_signs o) j * vget OR (bm_signs o) j = 1)%R /\ (0 < cross n (bm_scores o) M j)%R.
Proof. exact sign_aligned_strict. Qed.
Print Assumptions C20_sign_aligned_strict.

Theorem C20_signs_are_units : forall (n p k : nat) (b : boot_out) (M : list (list R)),
  (forall j, (j < k)%nat -> boot_corr OR n (b_scores b) M j <> 0%R) ->
  sign_vec OR k (bm_signs (boot_align OR n p k b M)).
Proof. exact signs_sign_vec. Qed.
Print Assumptions C20_signs_are_units.

(* the error branch: np.sign 0 = 0, so a member mode uncorrelated with the model's mode is
   ZEROED (components and scores), and the member's components are no longer orthonormal *)
Theorem C20_zero_correlation_zeroes_member : forall (n p k : nat) (b : boot_out) (M : list (list R)),
  forall j, (j < k)%nat -> boot_corr OR n (b_scores b) M j = 0%R ->
  let o := boot_align OR n p k b M in
  vget OR (bm_signs o) j = 0%R /\
  (forall i, (i < p)%nat -> get OR (bm_comps o) i j = 0%R) /\
  (forall i, (i < n)%nat -> get OR (bm_scores o) i j = 0%R).
Proof. exact zero_correlation_zeroes_member. Qed.
Print Assumptions C20_zero_correlation_zeroes_member.

Theorem C20_zeroed_member_not_orthonormal : forall (n p k : nat) (b : boot_out) (M : list (list R)),
  forall j, (j < k)%nat -> boot_corr OR n (b_scores b) M j = 0%R ->
  let o := boot_align OR n p k b M in
  get OR (mmul OR k p k (mH OR p k (bm_comps o)) (bm_comps o)) j j <> get OR (mI OR k) j j.
Proof. exact zeroed_member_not_orthonormal. Qed.
Print Assumptions C20_zeroed_member_not_orthonormal.

(* the results carry a member dimension of the requested length with coordinates 1..B; member i
   is the aligned analysis of the i-th draw; equal draws (same seed) give equal members for equal
   oracle answers *)
Theorem C20_member_dim : forall (F : Type) (K : Ops F) (n p r k B : nat) (X M : mat) (draw : nat -> list nat) (ans : list svd_answer),
  length (boot_run K n p r k B X M draw ans) = B /\ length (boot_coords B) = B /\
  (forall i, (i < B)%nat -> nth i (boot_coords B) 0%Z = (Z.of_nat i + 1)%Z).
Proof. exact (@run_length). Qed.
Print Assumptions C20_member_dim.

Theorem C20_member_nth : forall (F : Type) (K : Ops F) (n p r k : nat) (X M : mat) (idxs : list (list nat)) (ans : list svd_answer)
  (i : nat) (d : boot_member_out), (i < length idxs)%nat ->
  nth i (boot_members K n p r k X M idxs ans) d = boot_one K n p r k X M (nth i idxs []) (nth i ans svd_dflt).
Proof. exact (@members_nth). Qed.
Print Assumptions C20_member_nth.

Theorem C20_same_draws_same_members : forall (F : Type) (K : Ops F) (n p r k B : nat) (X M : mat) (draw1 draw2 : nat -> list nat)
  (ans : list svd_answer),
  (forall i, (i < B)%nat -> draw1 i = draw2 i) ->
  boot_run K n p r k B X M draw1 ans = boot_run K n p r k B X M draw2 ans.
Proof. exact (@run_deterministic). Qed.
Print Assumptions C20_same_draws_same_members.

(* the model the theorems are about uses the call shapes, flags and formulas regenerated from
   the source *)
Theorem C20_model_matches_source :
  (boot_input = "model.data[input_data]" /\ boot_n_samples_of = "input_data" /\
   boot_rng = "np.random.default_rng(seed)" /\ boot_rng_calls_per_member = 1%nat /\
   boot_choice_population = "n_samples" /\ boot_choice_size = "n_samples" /\ boot_choice_replace = true /\
   boot_resample = ("input_data.isel", "idx_rnd"))%string /\
  (boot_member_class = "EOF" /\
   boot_member_ctor = [("n_modes", "n_modes"); ("standardize", "False"); ("use_coslat", "False")] /\
   boot_n_modes_from_model = true /\ boot_member_centers = true /\ boot_member_fit_data = "bst_data" /\
   boot_member_reads = [("expvar", "explained_variance"); ("totvar", "total_variance"); ("components", "components")])%string /\
  (boot_scores_from = ("bst_model.transform", "input_data") /\ boot_scores_normalized = false)%string /\
  (forall (F : Type) (K : Ops F) (mp sb sm : F), corr_formula K mp sb sm = boot_corr_gen K mp sb sm) /\
  (boot_std_ddof = 0%Z /\ boot_corr_reduces_samples = true /\ boot_sign_fn = "np.sign" /\
   boot_sign_applied_to = ["bst_components"; "bst_scores"])%string.
Proof. exact (conj tie_resample (conj tie_member (conj tie_scores (conj tie_corr tie_signs)))). Qed.
Print Assumptions C20_model_matches_source.

Theorem C20_member_dim_matches_source :
  (boot_member_dim = "n" /\
   boot_collect = [("bst_expvar", "expvar"); ("bst_total_variance", "totvar"); ("bst_components", "components"); ("bst_scores", "scores")] /\
   boot_coord_assigned = ["bst_expvar"; "bst_total_variance"; "bst_components"; "bst_scores"] /\
   (forall B, boot_coords B = map (fun i => (Z.of_nat i + boot_coord_start)%Z) (seq 0 B)) /\
   (forall B, (boot_coord_stop (Z.of_nat B) - boot_coord_start)%Z = Z.of_nat B))%string.
Proof. exact tie_member_dim. Qed.
Print Assumptions C20_member_dim_matches_source.

(* NAMES — "whatever its dimension names": the source addresses no dimension by the literals
   "sample"/"feature" (every dimension goes through the model's sample_name) and the member EOF is
   built with the model's own sample_name / feature_name.  The behaviour itself (models built with
   other names are bootstrapped, with the model's structure) is tested by tools/props/c20.py. *)
Theorem C20_names :
  boot_literal_dims = [] /\ boot_member_names_forwarded = ["sample_name"; "feature_name"]%string.
Proof. exact tie_names. Qed.
Print Assumptions C20_names.

(* the premises are satisfiable: a genuine with-replacement resample and an admissible answer *)
Theorem C20_premises_satisfiable :
  let X := [[1];[5];[-1];[7]]%R in let idx := [0%nat;0%nat;2%nat;2%nat] in
  idx_ok 4 idx /\
  svd_ok OR 4 1 1 (center_cols OR 4 1 (msel_rows OR 1 idx X)) ([[/2];[/2];[-/2];[-/2]]%R, [2]%R, [[1]]%R) /\
  desc_nonneg 1 [2]%R.
Proof. exact member_premises_example. Qed.
Print Assumptions C20_premises_satisfiable.

(* the functions of this property whose Gallina counterpart is hand-written (or that only the oracles reach) still read, statement by statement, as they did when
   the model was last validated against them (Gen/T9text.v regenerated from the source on every run; Proofs/Text_C20.v holds the validated text) *)
From XV Require Gen.T9text Proofs.Text_C20.
Theorem C20_hand_modelled_functions_read_as_validated : Text_C20.all_frozen.
Proof. exact Text_C20.all_frozen_holds. Qed.
Print Assumptions C20_hand_modelled_functions_read_as_validated.
