(* C10 — named methods coincide with the general method at their special parameter values. Statements only. *)
From Coq Require Import String ZArith List Bool Reals QArith.
From XV Require Import Base.Scalar Base.Sum Base.Mat Base.RInst Model.Eof Model.Cpcca Model.Eeof Model.Whiten Gen.T5cpcca
  Proofs.C01_proofs Proofs.C10_proofs Proofs.C10_real Proofs.C16_proofs.
Import ListNotations.

(* MCA, CCA, RDA (and their Complex / Hilbert variants) are CPCCA with alpha pinned to 1, 0 and (0, 1):
   constants regenerated from mca.py / cca.py / rda.py on every run *)
Theorem C10_mca_cca_rda :
  mca_alpha = (1 # 1, 1 # 1)%Q /\ cca_alpha = (0 # 1, 0 # 1)%Q /\ rda_alpha = (0 # 1, 1 # 1)%Q /\
  complex_mca_alpha = mca_alpha /\ hilbert_mca_alpha = mca_alpha /\
  complex_cca_alpha = cca_alpha /\ hilbert_cca_alpha = cca_alpha /\
  complex_rda_alpha = rda_alpha /\ hilbert_rda_alpha = rda_alpha.
Proof. exact named_methods_alpha. Qed.
Print Assumptions C10_mca_cca_rda.

(* ... and override none of fit / transform / inverse_transform / the three algorithms *)
Theorem C10_named_methods_add_nothing :
  mca_overrides = [] /\ cca_overrides = [] /\ rda_overrides = [] /\ complex_mca_overrides = [] /\ complex_cca_overrides = [] /\
  complex_rda_overrides = [] /\ hilbert_mca_overrides = [] /\ hilbert_cca_overrides = [] /\ hilbert_rda_overrides = [].
Proof. exact named_methods_no_override. Qed.
Print Assumptions C10_named_methods_add_nothing.

(* alpha >= 1: the whitener is the identity map (so CPCCA(alpha = 1) is MCA on the same matrices) *)
Theorem C10_whitener_identity_at_one : forall (n p : nat) (alpha eps thr : R) (V : list (list R)) (lam d dinv : list R) (X : list (list R)),
  (0 < eps)%R -> (1 <= alpha)%R ->
  w_transform OR n p (whiten_fit OR p alpha eps thr V lam d dinv) X = X /\
  w_inverse_data OR n p (whiten_fit OR p alpha eps thr V lam d dinv) X = X.
Proof. exact whitener_identity_maps. Qed.
Print Assumptions C10_whitener_identity_at_one.

(* MCA of a field with itself reproduces EOF: (V, s^2/(n-1), V^H) is an admissible SVD answer for the
   cross-covariance X^H X/(n-1): singular values = explained variances, both pattern sets = EOF components *)
Theorem C10_mca_self_is_eof : forall (F : Type) (K : Ops F), FieldLaws K ->
  forall (n p r : nat) (X U : mat) (s : vec) (Vt : mat),
  fconj K (finv K (fofZ K (Z.of_nat n - 1))) = finv K (fofZ K (Z.of_nat n - 1)) ->
  svd_ok K n p r X (U, s, Vt) ->
  svd_ok K p p r (cross_cov K n p p X X) (mH K r p Vt, vmap K r (sq_over K n) s, Vt).
Proof. exact (@mca_self_is_eof). Qed.
Print Assumptions C10_mca_self_is_eof.

(* ExtendedEOF with a single embedding decomposes the data matrix itself *)
Theorem C10_eeof_single_embedding : forall (F : Type) (K : Ops F) (n p tau : nat) (X : mat),
  wf K n p X -> embed K n p tau 1 X = X.
Proof. exact (@embed_one). Qed.
Print Assumptions C10_eeof_single_embedding.

Theorem C10_eeof_embedding_entries : forall (F : Type) (K : Ops F) (n p tau e : nat) (X : mat) (t j f : nat),
  (t < embed_rows n tau e)%nat -> (j < e)%nat -> (f < p)%nat ->
  get K (embed K n p tau e X) t (j * p + f) = get K X (t + j * tau) f.
Proof. exact (@embed_get). Qed.
Print Assumptions C10_eeof_embedding_entries.

(* PCA pre-reduction keeping all modes changes nothing: X V V^H = X *)
Theorem C10_pca_all_modes : forall (F : Type) (K : Ops F), FieldLaws K ->
  forall (n p r : nat) (X U Vt : mat) (s : vec), svd_ok K n p r X (U, s, Vt) ->
  let Vb := pca_fit K p r (U, s, Vt) in
  pca_inverse_data K n p r Vb (pca_transform K n p r Vb X) = X.
Proof. exact (@pca_fit_data_roundtrip_all). Qed.
Print Assumptions C10_pca_all_modes.
