(* C10 — named methods coincide with the general method at their special parameter values. Statements only. *)
From Coq Require Import String ZArith List Bool Reals QArith.
From XV Require Import Base.Scalar Base.Sum Base.Mat Base.RInst Model.Eof Model.Cpcca Model.Eeof Model.Whiten Gen.T5cpcca
  Proofs.C01_proofs Proofs.C10_proofs Proofs.C10_real Proofs.C16_proofs
  Base.Hom Base.CInst Proofs.Hom_eof Proofs.Hom_cpcca Gen.T5eeof Proofs.Eeof_tie Gen.T8fwd Proofs.Fwd_tie.
From Coquelicot Require Import Complex.
Import ListNotations.

(* MCA, CCA, RDA (and their Complex / Hilbert variants) are CPCCA with alpha pinned to 1, 0 and (0, 1):
   constants regenerated from mca.py / cca.py / rda.py on every run *)
Theorem C10_mca_cca_rda :
  mca_alpha = (1 # 1, 1 # 1)%Q /\ cca_alpha = (0 # 1, 0 # 1)%Q /\ rda_alpha = (0 # 1, 1 # 1)%Q /\
  complex_mca_alpha = mca_alpha /\ hilbert_mca_alpha = mca_alpha /\
  complex_cca_alpha = cca_alpha /\ hilbert_cca_alpha = cca_alpha /\
  complex_rda_alpha = rda_alpha /\ hilbert_rda_alpha = rda_alpha.
Proof. exact named_methods_alpha. Qed.
Print Assumptions C10_mca_cca_rda.

(* ... and override none of fit / transform / inverse_transform / the three algorithms *)
Theorem C10_named_methods_add_nothing :
  mca_overrides = [] /\ cca_overrides = [] /\ rda_overrides = [] /\ complex_mca_overrides = [] /\ complex_cca_overrides = [] /\
  complex_rda_overrides = [] /\ hilbert_mca_overrides = [] /\ hilbert_cca_overrides = [] /\ hilbert_rda_overrides = [].
Proof. exact named_methods_no_override. Qed.
Print Assumptions C10_named_methods_add_nothing.

(* alpha >= 1: the whitener is the identity map (so CPCCA(alpha = 1) is MCA on the same matrices) *)
Theorem C10_whitener_identity_at_one : forall (n p : nat) (alpha eps thr : R) (V : list (list R)) (lam d dinv : list R) (X : list (list R)),
  (0 < eps)%R -> (1 <= alpha)%R ->
  w_transform OR n p (whiten_fit OR p alpha eps thr V lam d dinv) X = X /\
  w_inverse_data OR n p (whiten_fit OR p alpha eps thr V lam d dinv) X = X.
Proof. exact whitener_identity_maps. Qed.
Print Assumptions C10_whitener_identity_at_one.

(* MCA of a field with itself reproduces EOF: (V, s^2/(n-1), V^H) is an admissible SVD answer for the
   cross-covariance X^H X/(n-1): singular values = explained variances, both pattern sets = EOF components *)
Theorem C10_mca_self_is_eof : forall (F : Type) (K : Ops F), FieldLaws K ->
  forall (n p r : nat) (X U : mat) (s : vec) (Vt : mat),
  fconj K (finv K (fofZ K (Z.of_nat n - 1))) = finv K (fofZ K (Z.of_nat n - 1)) ->
  svd_ok K n p r X (U, s, Vt) ->
  svd_ok K p p r (cross_cov K n p p X X) (mH K r p Vt, vmap K r (sq_over K n) s, Vt).
Proof. exact (@mca_self_is_eof). Qed.
Print Assumptions C10_mca_self_is_eof.

(* ExtendedEOF with a single embedding decomposes the data matrix itself *)
Theorem C10_eeof_single_embedding : forall (F : Type) (K : Ops F) (n p tau : nat) (X : mat),
  wf K n p X -> embed K n p tau 1 X = X.
Proof. exact (@embed_one). Qed.
Print Assumptions C10_eeof_single_embedding.

Theorem C10_eeof_embedding_entries : forall (F : Type) (K : Ops F) (n p tau e : nat) (X : mat) (t j f : nat),
  (t < embed_rows n tau e)%nat -> (j < e)%nat -> (f < p)%nat ->
  get K (embed K n p tau e X) t (j * p + f) = get K X (t + j * tau) f.
Proof. exact (@embed_get). Qed.
Print Assumptions C10_eeof_embedding_entries.

(* PCA pre-reduction keeping all modes changes nothing: X V V^H = X *)
Theorem C10_pca_all_modes : forall (F : Type) (K : Ops F), FieldLaws K ->
  forall (n p r : nat) (X U Vt : mat) (s : vec), svd_ok K n p r X (U, s, Vt) ->
  let Vb := pca_fit K p r (U, s, Vt) in
  pca_inverse_data K n p r Vb (pca_transform K n p r Vb X) = X.
Proof. exact (@pca_fit_data_roundtrip_all). Qed.
Print Assumptions C10_pca_all_modes.

(* a Complex model fed real data equals the real model. The models are written once over the scalar record [Ops]; every
   map between two instances that preserves the operations of the record commutes with the model (Base/Hom.v: proved
   function by function). The embedding RtoC of the reals into the complex numbers (Coquelicot's C) is such a map
   (RtoC_hom; division and inverse included, 1/0 = 0 on both sides), hence: whatever admissible SVD answer the real
   model is given, its embedding is an admissible answer for the embedded data, and the complex fit returns the embedded
   real fit - components, scores, norms, explained variances, total variance, and the SAME signs (the sign rule sees
   |max| and |min| of real numbers on both sides) *)
Theorem C10_model_commutes_with_homomorphisms : forall (F G : Type) (K1 : Ops F) (K2 : Ops G) (h : F -> G), OpsHom K1 K2 h ->
  forall (n p r k : nat) (X : list (list F)) (a : @svd_answer F),
  eof_fit K2 n p r k (mmap h X) (amap h a) = omap h (eof_fit K1 n p r k X a).
Proof. exact (@eof_fit_hom). Qed.
Print Assumptions C10_model_commutes_with_homomorphisms.

Theorem C10_complex_eof_on_real_data : forall (n p r k : nat) (X : list (list R)) (a : @svd_answer R),
  svd_ok OR n p r X a ->
  svd_ok OCR n p r (mmap RtoC X) (amap RtoC a) /\
  eof_fit OCR n p r k (mmap RtoC X) (amap RtoC a) = omap RtoC (eof_fit OR n p r k X a).
Proof. exact complex_eof_on_real_data. Qed.
Print Assumptions C10_complex_eof_on_real_data.

(* the same for the cross-set core: ComplexMCA / ComplexCPCCA fed two real fields *)
Theorem C10_complex_cross_on_real_data : forall (n p1 p2 r k : nat) (X Y : list (list R)) (a : @svd_answer R),
  svd_ok OR p1 p2 r (cross_cov OR n p1 p2 X Y) a ->
  svd_ok OCR p1 p2 r (cross_cov OCR n p1 p2 (mmap RtoC X) (mmap RtoC Y)) (amap RtoC a) /\
  cpcca_fit OCR n p1 p2 r k (mmap RtoC X) (mmap RtoC Y) (amap RtoC a) = cpmap RtoC (cpcca_fit OR n p1 p2 r k X Y a).
Proof. exact complex_cross_on_real_data. Qed.
Print Assumptions C10_complex_cross_on_real_data.

(* transform and inverse_transform commute as well *)
Theorem C10_complex_transform_on_real_data : forall (m p k : nat) (o : @eof_out R) (Xn S : list (list R)),
  eof_transform OCR m p k (omap RtoC o) (mmap RtoC Xn) = mmap RtoC (eof_transform OR m p k o Xn) /\
  eof_inverse OCR m p k (omap RtoC o) (mmap RtoC S) = mmap RtoC (eof_inverse OR m p k o S).
Proof. exact (fun m p k o Xn S => conj (eof_transform_hom OR OCR RtoC RtoC_hom m p k o Xn) (eof_inverse_hom OR OCR RtoC RtoC_hom m p k o S)). Qed.
Print Assumptions C10_complex_transform_on_real_data.

(* the delay embedding of the model is the one of the source (lags j * tau, copies shifted towards the past, (embedding - 1) * tau
   rows cut, inner EOF with the user's centring only): constants and expressions regenerated from eeof.py on every run *)
Theorem C10_eeof_matches_source :
  (forall n tau e, (1 <= e)%nat -> Z.of_nat (embed_rows n tau e) = Z.max 0 (Z.of_nat n - eeof_rows_cut (Z.of_nat e) (Z.of_nat tau))) /\
  (forall t j tau, Z.of_nat (t + j * tau) = eeof_copy_row (Z.of_nat t) (eeof_lag (Z.of_nat j) (Z.of_nat tau))) /\
  (eeof_copies_concatenated_along_new_dim_then_first_rows_kept = true /\
   eeof_inner_eof_follows_center_only = true /\ eeof_pca_scores_are_embedded = true).
Proof. exact (conj embed_rows_matches_source (conj embed_row_matches_source eeof_shape_flags)). Qed.
Print Assumptions C10_eeof_matches_source.

(* the named methods hand every constructor parameter to the general method under its own name; the only keywords they pin are the
   whitening degrees (regenerated from the constructors of all model classes, Gen/T8fwd.v) *)
Theorem C10_named_methods_forward_their_parameters :
  forallb (fun r => how_ok (snd r)) ctor_special = true /\
  filter (fun r => prefix "pinned:" (snd r)) ctor_special =
  [("CCA", "CPCCA.__init__", "alpha", "pinned:[0.0, 0.0]"); ("ComplexCCA", "ComplexCPCCA.__init__", "alpha", "pinned:[0.0, 0.0]");
   ("HilbertCCA", "HilbertCPCCA.__init__", "alpha", "pinned:[0.0, 0.0]"); ("CPCCA", "super().__init__", "center", "pinned:True");
   ("MCA", "CPCCA.__init__", "alpha", "pinned:[1.0, 1.0]"); ("ComplexMCA", "ComplexCPCCA.__init__", "alpha", "pinned:[1.0, 1.0]");
   ("HilbertMCA", "HilbertCPCCA.__init__", "alpha", "pinned:[1.0, 1.0]"); ("RDA", "CPCCA.__init__", "alpha", "pinned:[0.0, 1.0]");
   ("ComplexRDA", "ComplexCPCCA.__init__", "alpha", "pinned:[0.0, 1.0]"); ("HilbertRDA", "HilbertCPCCA.__init__", "alpha", "pinned:[0.0, 1.0]")]%string.
Proof. exact (conj ctor_nothing_dropped_or_replaced ctor_pinned_known). Qed.
Print Assumptions C10_named_methods_forward_their_parameters.

(* each field's pre-processing, pre-reduction and whitening stage takes that field's element of every per-field parameter *)
Theorem C10_field_stages_take_their_own_parameters :
  forallb (fun r => let '(_, _, fld, idx) := r in Nat.eqb fld (S idx)) T8fwd.cross_stage_field_indices = true /\
  List.length T8fwd.cross_stage_field_indices = 22%nat.
Proof. exact Fwd_tie.cross_stages_take_their_own_field. Qed.
Print Assumptions C10_field_stages_take_their_own_parameters.

(* the functions of this property whose Gallina counterpart is hand-written (or that only the oracles reach) still read, statement by statement, as they did when
   the model was last validated against them (Gen/T9text.v regenerated from the source on every run; Proofs/Text_C10.v holds the validated text) *)
From XV Require Gen.T9text Proofs.Text_C10.
Theorem C10_hand_modelled_functions_read_as_validated : Text_C10.all_frozen.
Proof. exact Text_C10.all_frozen_holds. Qed.
Print Assumptions C10_hand_modelled_functions_read_as_validated.
