(* C06 — fully missing features/samples are ignored exactly; isolated NaNs are refused. Statements only. *)
From Coq Require Import List Bool Arith ZArith.
From XV Require Import Model.Sanitizer Gen.T6san Proofs.C06_proofs Proofs.C06_tie.
From XV Require Model.OScale Proofs.OScale_proofs Gen.T4.
Import ListNotations.

(* (a) the implemented test — every sample's number of non-null features is 0 or the number of valid
   features — accepts exactly the masks that are the outer product of a row support and a column
   support: an entry is present iff its sample has some value and its feature has some value *)
Theorem C06_isolated_iff : forall (F : Type) (n p : nat) (M : @omat F), owf n p M ->
  (isolated_ok p M = true <->
   forall i j, i < n -> j < p ->
   (is_some (oget M i j) = true <->
    (exists j', j' < p /\ is_some (oget M i j') = true) /\ (exists i', i' < n /\ is_some (oget M i' j) = true))).
Proof. exact (@isolated_iff). Qed.
Print Assumptions C06_isolated_iff.

(* (b) accepted data: what is handed to the algorithm is the selection of the rows and columns that
   have a value (every entry a genuine value: the result type is [list (list F)] and [undense] of it is
   the selection), and it is the same matrix as for the data with those rows/columns deleted beforehand *)
Theorem C06_delete_equiv : forall (F : Type) (n p : nat) (M : @omat F), owf n p M -> isolated_ok p M = true ->
  exists D, sanitize p M = SOk (mkOut D (kept_rows M) (kept_cols p M)) /\
            undense D = select (kept_rows M) (kept_cols p M) M /\
            sanitize (length (kept_cols p M)) (select (kept_rows M) (kept_cols p M) M)
            = SOk (mkOut D (seq 0 (length (kept_rows M))) (seq 0 (length (kept_cols p M)))).
Proof. exact (@delete_equiv). Qed.
Print Assumptions C06_delete_equiv.

(* the kept labels are exactly the samples / features that have at least one value *)
Theorem C06_kept_labels : forall (F : Type) (n p : nat) (M : @omat F), owf n p M ->
  (forall i, In i (kept_rows M) <-> i < n /\ exists j, j < p /\ is_some (oget M i j) = true) /\
  (forall j, In j (kept_cols p M) <-> j < p /\ exists i, i < n /\ is_some (oget M i j) = true).
Proof. exact (fun F n p M H => conj (fun i => In_kept_rows n p M i H) (fun j => In_kept_cols n p M j H)). Qed.
Print Assumptions C06_kept_labels.

(* no None reaches arithmetic: any accepted result, well-formed input or not, consists of entries
   that were [Some] in the input; and anything else is an error *)
Theorem C06_no_nan_arithmetic : forall (F : Type) (p : nat) (M : @omat F) (o : san_out), sanitize p M = SOk o ->
  isolated_ok p M = true /\ out_rows o = kept_rows M /\ out_cols o = kept_cols p M /\
  undense (out_X o) = select (out_rows o) (out_cols o) M.
Proof. exact (@sanitize_ok_inv). Qed.
Print Assumptions C06_no_nan_arithmetic.

Theorem C06_isolated_rejected : forall (F : Type) (p : nat) (M : @omat F),
  isolated_ok p M = false -> sanitize p M = SErr SE_isolated.
Proof. exact (@sanitize_rejects). Qed.
Print Assumptions C06_isolated_rejected.

(* (c) re-insertion: None exactly at the deleted row / column labels, the original values elsewhere *)
Theorem C06_reinsert : forall (F : Type) (n p : nat) (M : @omat F) (o : san_out), owf n p M -> sanitize p M = SOk o ->
  reinsert n p (out_rows o) (out_cols o) (out_X o) = M.
Proof. exact (@reinsert_roundtrip). Qed.
Print Assumptions C06_reinsert.

(* components / reconstructions (feature axis) and scores (sample axis), for any stored values *)
Theorem C06_reinsert_features : forall (F : Type) (p : nat) (J : list nat) (v : list F) (j : nat),
  j < p -> NoDup J -> length v = length J ->
  (nth j (reinsert_cols p J v) None = None <-> ~ In j J) /\
  (forall l, l < length J -> nth l J 0 = j -> nth j (reinsert_cols p J v) None = nth_error v l).
Proof. exact (@reinsert_cols_spec). Qed.
Print Assumptions C06_reinsert_features.

Theorem C06_reinsert_samples : forall (F : Type) (n w : nat) (I : list nat) (R : list (list (option F))) (i : nat),
  i < n -> NoDup I -> length R = length I ->
  (~ In i I -> nth i (reinsert_rows n w I R) [] = repeat None w) /\
  (forall k, k < length I -> nth k I 0 = i -> nth i (reinsert_rows n w I R) [] = nth k R []).
Proof. exact (@reinsert_rows_spec). Qed.
Print Assumptions C06_reinsert_samples.

(* (d) transform-time data whose valid-feature set differs from the fitted one is an error *)
Theorem C06_mask_mismatch_rejected : forall (F : Type) (st : san_fit) (p : nat) (x : @san_in F),
  in_dims_ok x = true -> in_fcoords x = fit_fcoords st -> valid_features p (in_data x) <> fit_vf st ->
  san_transform st p x = SErr SE_mask.
Proof. exact (@mask_mismatch_rejected). Qed.
Print Assumptions C06_mask_mismatch_rejected.

Theorem C06_transform_accept_inv : forall (F : Type) (st : san_fit) (p : nat) (x : @san_in F) (o : san_out),
  san_transform st p x = SOk o ->
  in_dims_ok x = true /\ in_fcoords x = fit_fcoords st /\ valid_features p (in_data x) = fit_vf st /\
  isolated_ok p (in_data x) = true /\ sanitize p (in_data x) = SOk o.
Proof. exact (@transform_accept_inv). Qed.
Print Assumptions C06_transform_accept_inv.

Theorem C06_isolated_rejected_at_transform : forall (F : Type) (st : san_fit) (p : nat) (x : @san_in F),
  isolated_ok p (in_data x) = false -> exists e, san_transform st p x = SErr e.
Proof. exact (@isolated_rejected_at_transform). Qed.
Print Assumptions C06_isolated_rejected_at_transform.

Theorem C06_fit_transform : forall (F : Type) (p : nat) (x : @san_in F), in_dims_ok x = true ->
  san_fit_transform p x = sanitize p (in_data x).
Proof. exact (@fit_transform_is_sanitize). Qed.
Print Assumptions C06_fit_transform.

(* non-vacuity: a 3 x 3 mask with one feature and one sample entirely missing is accepted, reduced and
   re-inserted; one more None makes it refused; a different fitted mask makes transform refuse it *)
Example C06_example :
  owf 3 3 ex_mask /\ sanitize 3 ex_mask = SOk (mkOut [[1; 3]; [4; 6]] [0; 1] [0; 2]) /\
  reinsert 3 3 [0; 1] [0; 2] [[1; 3]; [4; 6]] = ex_mask /\
  owf 3 3 ex_bad /\ sanitize 3 ex_bad = SErr SE_isolated /\
  san_transform (mkFit [0; 1; 2]%Z [0; 1; 2]%Z [true; true; true]) 3 (mkIn true [0; 1; 2]%Z [0; 1; 2]%Z ex_mask) = SErr SE_mask.
Proof. exact ex_mask_accepted. Qed.
Print Assumptions C06_example.

(* cross-set: the pairing as implemented (fields sanitised independently, rows paired by position, only
   the counts compared) is NOT "deleted from both or refused" (F-06); the corrected pairing is *)
Theorem C06_cross_different_positions_refuted :
  exists (MX MY : @omat nat), owf 3 1 MX /\ owf 3 1 MY /\ ~ cross_consistent 1 1 MX MY.
Proof. exact cross_different_positions_refuted. Qed.
Print Assumptions C06_cross_different_positions_refuted.

Theorem C06_cross_checked_consistent : forall (F : Type) (p q : nat) (MX MY : @omat F) (a b : san_out),
  cross_pair_checked p q MX MY = SOk (a, b) -> out_rows a = out_rows b.
Proof. exact (@cross_checked_consistent). Qed.
Print Assumptions C06_cross_checked_consistent.

Theorem C06_model_matches_source :
  (forall cnt nvalid nfeat : nat, san_isolated_flag cnt nvalid nfeat = negb (row_ok cnt nvalid)) /\
  map (fun sg => (step_of_gen (fst sg), snd sg)) san_transform_steps
    = map (fun s => (s, mstep_needs_check_nans s)) san_model_steps /\
  (map step_of_gen san_fit_steps = [MCheckDims] /\ san_fit_stores_valid_features = true) /\
  (redax_of_gen san_valid_features_red = model_valid_features_red /\
   redax_of_gen san_valid_samples_red = model_valid_samples_red /\
   redax_of_gen san_valid_per_sample_red = model_valid_per_sample_red) /\
  (option_map axis_of_gen san_inverse_data_axis = model_inverse_data_axis /\
   option_map axis_of_gen san_inverse_components_axis = model_inverse_components_axis /\
   option_map axis_of_gen san_inverse_scores_axis = model_inverse_scores_axis /\
   option_map axis_of_gen san_inverse_scores_unseen_axis = model_inverse_scores_unseen_axis).
Proof. exact model_matches_source. Qed.
Print Assumptions C06_model_matches_source.

(* the Scaler runs in front of the Sanitizer, on data that still has its missing values.  For ANY per-feature
   operation x |-> g j (present values of feature j) x - centring, standardisation with any divisor and clipping,
   weights - scaling and then deleting the fully missing samples/features equals deleting first and scaling the
   reduced data: fully missing samples contribute nothing to a statistic that skips missing values *)
Theorem C06_scaling_commutes_with_deletion : forall (F : Type) (n p : nat) (g : nat -> list F -> F -> F) (M : @omat F), owf n p M ->
  let I := kept_rows M in let J := kept_cols p M in
  select I J (OScale.omap_cols p g M) = OScale.omap_cols (length J) (fun b => g (nth b J 0)) (select I J M).
Proof. exact (@OScale_proofs.scale_commutes_with_deletion). Qed.
Print Assumptions C06_scaling_commutes_with_deletion.

(* hence Scaler-then-Sanitizer hands on exactly the scaled reduced data as the dense matrix to be decomposed *)
Theorem C06_sanitize_after_scaling : forall (F : Type) (n p : nat) (g : nat -> list F -> F -> F) (M : @omat F),
  owf n p M -> isolated_ok p M = true ->
  exists D, sanitize p (OScale.omap_cols p g M) = SOk (mkOut D (kept_rows M) (kept_cols p M)) /\
            undense D = OScale.omap_cols (length (kept_cols p M)) (fun b => g (nth b (kept_cols p M) 0)) (select (kept_rows M) (kept_cols p M) M).
Proof. exact (@OScale_proofs.sanitize_after_scaling). Qed.
Print Assumptions C06_sanitize_after_scaling.

(* source tie: the fitted mean and standard deviation are reductions over the sample dimensions that skip missing values *)
Theorem C06_scaler_stats_skip_missing : T4.scaler_stats_skip_missing = true /\ T4.scaler_missing_feature_neutral_stats = true.
Proof. exact (conj eq_refl eq_refl). Qed.
Print Assumptions C06_scaler_stats_skip_missing.
