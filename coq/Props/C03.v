(* C03 — full-mode inverse_transform restores the fitted data; transform(inverse_transform s) = s;
   the `normalized` switches differ by the per-mode norms. Statements only. *)
From Coq Require Import ZArith List Bool.
From XV Require Import Base.Scalar Base.Mat Model.ScalerLib Model.Eof Gen.T4 Proofs.C01_proofs Proofs.C03_proofs.
Import ListNotations.

(* the inverse operation list regenerated from Scaler.inverse_transform_data undoes the list
   regenerated from Scaler.transform, element by element, for all flag combinations; the
   excluded inputs are zero std (clipped away by the code), zero coslat weight and zero user weight *)
Theorem C03_scaler_roundtrip : forall (F : Type) (K : Ops F), FieldLaws K ->
  forall (fl : sflags) (ps : sparams) (x : F), params_ok K fl ps ->
  run_ops K fl ps scaler_inv (run_ops K fl ps scaler_fwd x) = x.
Proof. exact (@scaler_roundtrip). Qed.
Print Assumptions C03_scaler_roundtrip.

Theorem C03_scaler_roundtrip' : forall (F : Type) (K : Ops F), FieldLaws K ->
  forall (fl : sflags) (ps : sparams) (y : F), params_ok K fl ps ->
  run_ops K fl ps scaler_fwd (run_ops K fl ps scaler_inv y) = y.
Proof. exact (@scaler_roundtrip'). Qed.
Print Assumptions C03_scaler_roundtrip'.

Theorem C03_scaler_matrix_roundtrip : forall (F : Type) (K : Ops F), FieldLaws K ->
  forall (n p : nat) (fl : sflags) (ps : nat -> sparams) (X : mat), wf K n p X ->
  (forall j, (j < p)%nat -> params_ok K fl (ps j)) ->
  scale_mat K n p fl ps scaler_inv (scale_mat K n p fl ps scaler_fwd X) = X.
Proof. exact (@scale_mat_roundtrip). Qed.
Print Assumptions C03_scaler_matrix_roundtrip.

(* all modes kept: the model's own scores reconstruct the decomposed matrix exactly *)
Theorem C03_full_reconstruction : forall (F : Type) (K : Ops F), FieldLaws K ->
  forall (n p r : nat) (X U Vt : mat) (s : vec), svd_ok K n p r X (U, s, Vt) ->
  let outr := eof_fit K n p r r X (U, s, Vt) in eof_inverse K n p r outr (e_scores outr) = X.
Proof. exact (@fit_full_reconstruction). Qed.
Print Assumptions C03_full_reconstruction.

(* for every score matrix S with any number m of samples: transform (inverse_transform S) = S *)
Theorem C03_transform_inverse_id : forall (F : Type) (K : Ops F), FieldLaws K ->
  forall (n p r k : nat) (X U Vt : mat) (s : vec) (m : nat) (S : mat),
  svd_ok K n p r X (U, s, Vt) -> (k <= r)%nat -> wf K m k S ->
  let out := eof_fit K n p r k X (U, s, Vt) in
  eof_transform K m p k out (eof_inverse K m p k out S) = S.
Proof. exact (@transform_inverse_id). Qed.
Print Assumptions C03_transform_inverse_id.

(* normalized scores/transform times norms = default; unnormalized components = normalized times
   norms; inverse_transform(normalized=True) of normalized scores = inverse_transform of default scores *)
Theorem C03_normalized_switch : forall (F : Type) (K : Ops F), FieldLaws K -> forall (x nrm : F), nrm <> f0 K ->
  fmul K (norm_apply K norm_switch_scores true x nrm) nrm = norm_apply K norm_switch_scores false x nrm /\
  fmul K (norm_apply K norm_switch_transform true x nrm) nrm = norm_apply K norm_switch_transform false x nrm /\
  norm_apply K norm_switch_components false x nrm = fmul K (norm_apply K norm_switch_components true x nrm) nrm /\
  norm_apply K norm_switch_inverse_transform true (norm_apply K norm_switch_scores true x nrm) nrm
    = norm_apply K norm_switch_inverse_transform false (norm_apply K norm_switch_scores false x nrm) nrm.
Proof. exact (@norm_switches). Qed.
Print Assumptions C03_normalized_switch.
