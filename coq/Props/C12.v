(* C12 — dask-backed and deferred fits stay lazy until asked; reductions are chunk invariant.
   PARTIAL: the logic of force points and the algebra of chunked reductions are proved; dask's runtime
   (optimiser, scheduler, thread interleavings, float summation order) is not modelled. *)
From Coq Require Import String ZArith List Bool.
From XV Require Import Base.Scalar Base.Sum Gen.T7lazy Gen.T3 Model.Lazy Proofs.C12_proofs Proofs.C15_opts.
From XV Require Gen.T8fwd Proofs.Fwd_tie.
Import ListNotations.

(* the table of force points is regenerated from the source on every run; with compute = False and
   check_nans = False no site on the fit path of EOF-type, cross-set and rotated models fires *)
Theorem C12_no_force_when_lazy :
  forces eof_path false false false = [] /\ forces cross_path false false false = [] /\
  forces eof_rotator_path false false false = [] /\ forces cross_rotator_path false false false = [].
Proof. exact no_force_when_lazy. Qed.
Print Assumptions C12_no_force_when_lazy.

Theorem C12_flags_force_what_they_say :
  In "BaseModelSingleSet.fit:self.data.compute"%string (forces eof_path true false false) /\
  In "BaseModelCrossSet.fit:self.data.compute"%string (forces cross_path true false false) /\
  In "Sanitizer.transform:compute"%string (forces eof_path false true false).
Proof. exact compute_forces_container. Qed.
Print Assumptions C12_flags_force_what_they_say.

(* POP and OPA: no force point either, now that their numpy linear algebra is deferred as one task *)
Theorem C12_pop_opa_no_force_when_lazy : forces pop_path false false false = [] /\ forces opa_path false false false = [].
Proof. exact pop_opa_no_force_when_lazy. Qed.
Print Assumptions C12_pop_opa_no_force_when_lazy.

(* the table before the repairs: a numpy-only routine applied through apply_ufunc(dask="allowed") fires whatever the flags *)
Theorem C12_allowed_numpy_kernel_refuted : filter (fun s => fires false false false (snd s)) sites_before_repair <> [].
Proof. exact allowed_numpy_kernel_refuted. Qed.
Print Assumptions C12_allowed_numpy_kernel_refuted.

(* every reduction over any partition of the index range into chunks equals the unchunked reduction, and partial
   results may be combined in any grouping (exact arithmetic, any field, any chunk sizes) *)
Theorem C12_chunk_invariance : forall (F : Type) (K : Ops F), FieldLaws K -> forall (sizes : list nat) (off : nat) (f : nat -> F),
  chunked_sum K off sizes f = sum K (fold_right Nat.add 0%nat sizes) (fun i => f (off + i)%nat).
Proof. exact (@chunk_invariance). Qed.
Print Assumptions C12_chunk_invariance.

Theorem C12_chunk_regroup : forall (F : Type) (K : Ops F), FieldLaws K -> forall (s1 s2 : list nat) (off : nat) (f : nat -> F),
  chunked_sum K off (s1 ++ s2) f = fadd K (chunked_sum K off s1 f) (chunked_sum K (off + fold_right Nat.add 0%nat s1) s2 f).
Proof. exact (@chunk_regroup). Qed.
Print Assumptions C12_chunk_regroup.

(* the deferred fit runs the algorithm the computed fit runs: apart from the `compute` option itself no option handed to
   an SVD back-end mentions the compute flag (sketch size, power iterations and seed are the same) *)
Theorem C12_solver_options_independent_of_compute :
  forallb opt_independent_of_compute dec_solver_options = true /\ forallb opt_independent_of_compute svd_solver_options = true.
Proof. exact options_independent_of_compute. Qed.
Print Assumptions C12_solver_options_independent_of_compute.

Theorem C12_compute_dependent_option_refuted :
  opt_independent_of_compute ("default", "n_power_iter", "4 if solver_kwargs['compute'] else 0")%string = false.
Proof. exact compute_dependent_option_refuted. Qed.
Print Assumptions C12_compute_dependent_option_refuted.

(* the decomposition steps a model runs inside itself (pre-reduction of ExtendedEOF, OPA, POP, the cross-set models) are built with the model's
   `compute` and do not scan for NaN on their own: with compute = False and check_nans = False nothing inside them forces the data *)
Theorem C12_inner_steps_stay_lazy :
  Fwd_tie.obj_kw "ExtendedEOF" "__init__" "EOF" "check_nans" = ["False"%string] /\ Fwd_tie.obj_kw "ExtendedEOF" "_fit_algorithm" "EOF" "check_nans" = ["False"%string] /\
  Fwd_tie.obj_kw "OPA" "_fit_algorithm" "EOF" "check_nans" = ["False"%string] /\
  Fwd_tie.obj_kw "ExtendedEOF" "__init__" "EOF" "compute" = ["self._params['compute']"%string] /\
  Fwd_tie.obj_kw "ExtendedEOF" "_fit_algorithm" "EOF" "compute" = ["self._params['compute']"%string] /\
  Fwd_tie.obj_kw "OPA" "_fit_algorithm" "EOF" "compute" = ["self._params['compute']"%string] /\
  Fwd_tie.obj_kw "OPA" "_fit_algorithm" "Decomposer" "compute" = ["self._params['compute']"%string] /\
  Fwd_tie.obj_kw "POP" "__init__" "PCA" "compute_eagerly" = ["compute"%string] /\ Fwd_tie.obj_kw "PCA" "fit" "SVD" "compute" = ["self.compute_eagerly"%string] /\
  Fwd_tie.obj_kw "BaseModelCrossSet" "__init__" "Preprocessor" "compute" = ["compute"%string; "compute"%string] /\
  Fwd_tie.obj_kw "BaseModelSingleSet" "__init__" "Preprocessor" "compute" = ["compute"%string].
Proof. exact Fwd_tie.inner_steps_stay_lazy. Qed.
Print Assumptions C12_inner_steps_stay_lazy.
