(* C01 — EOF-type modes are the exact eigen-decomposition of the decomposed matrix.
   Statements only; proofs are in Proofs/C01_proofs.v and Proofs/C01_order.v.
   F is any field with an involutive automorphism conj (real data: conj = id). *)
From Coq Require Import String ZArith List Bool Reals.
From XV Require Import Base.Scalar Base.Sum Base.Mat Base.RInst Model.DecompLib Model.Eof Gen.T3 Gen.T3b Gen.T5eof Proofs.C01_proofs Proofs.C01_order Proofs.C01_ey Proofs.C01_tie.
From Coquelicot Require Complex.
From XV Require Base.CInst Proofs.C01_ey_c.
Import ListNotations.

(* components are orthonormal: V_k^H V_k = I *)
Theorem C01_components_orthonormal : forall (F : Type) (K : Ops F), FieldLaws K ->
  forall (n p r k : nat) (X U Vt : mat) (s : vec), svd_ok K n p r X (U, s, Vt) -> (k <= r)%nat ->
  let out := eof_fit K n p r k X (U, s, Vt) in
  mmul K k p k (mH K p k (e_comps out)) (e_comps out) = mI K k.
Proof. exact (@fit_components_orthonormal). Qed.
Print Assumptions C01_components_orthonormal.

(* scores are mutually orthogonal, their squared norms are the squared reported norms,
   and the reported norms are the leading singular values *)
Theorem C01_scores_gram : forall (F : Type) (K : Ops F), FieldLaws K ->
  forall (n p r k : nat) (X U Vt : mat) (s : vec), svd_ok K n p r X (U, s, Vt) -> (k <= r)%nat ->
  let out := eof_fit K n p r k X (U, s, Vt) in
  mmul K k n k (mH K n k (e_scores out)) (e_scores out) = mdiag K k (vmap2 K k (fmul K) (e_norms out) (e_norms out)).
Proof. exact (@fit_scores_gram). Qed.
Print Assumptions C01_scores_gram.

Theorem C01_norms_are_singular_values : forall (F : Type) (K : Ops F) (n p r k : nat) (X U Vt : mat) (s : vec),
  e_norms (eof_fit K n p r k X (U, s, Vt)) = vfirstn K k s.
Proof. exact (@fit_norms). Qed.
Print Assumptions C01_norms_are_singular_values.

(* each component is an eigenvector of the N-1 covariance matrix with the reported
   explained variance s_i^2/(n-1) as eigenvalue *)
Theorem C01_expvar_eigen : forall (F : Type) (K : Ops F), FieldLaws K ->
  forall (n p r k : nat) (X U Vt : mat) (s : vec), svd_ok K n p r X (U, s, Vt) -> (k <= r)%nat ->
  let out := eof_fit K n p r k X (U, s, Vt) in
  mmul K p p k (cov K n p X) (e_comps out) = colscale K p k (e_comps out) (e_expvar out) /\
  e_expvar out = vmap K k (sq_over K n) (vfirstn K k s).
Proof. exact (@fit_expvar_eigen). Qed.
Print Assumptions C01_expvar_eigen.

(* the Gram matrix has the spectral decomposition V diag(s^2) V^H over all r modes: the
   s_i^2/(n-1) are all the eigenvalues on the row space, so the first k are the leading ones
   once s is descending *)
Theorem C01_spectral : forall (F : Type) (K : Ops F), FieldLaws K ->
  forall (n p r : nat) (X U Vt : mat) (s : vec), svd_ok K n p r X (U, s, Vt) ->
  mmul K p n p (mH K n p X) X =
  mmul K p r p (mmul K p r r (mH K r p Vt) (mmul K r r r (mdiag K r s) (mdiag K r s))) Vt.
Proof. exact (@gram_spectral). Qed.
Print Assumptions C01_spectral.

(* the k-mode reconstruction misses exactly the discarded squared singular values *)
Theorem C01_recon_error : forall (F : Type) (K : Ops F), FieldLaws K ->
  forall (n p r k : nat) (X U Vt : mat) (s : vec), svd_ok K n p r X (U, s, Vt) -> (k <= r)%nat ->
  let out := eof_fit K n p r k X (U, s, Vt) in
  frob2 K n p (msub K n p X (eof_inverse K n p k out (e_scores out)))
  = sum K r (fun i => if Nat.ltb i k then f0 K else fmul K (vget K s i) (vget K s i)).
Proof. exact (@fit_recon_error). Qed.
Print Assumptions C01_recon_error.

(* centred columns: the ddof=1 total variance is the sum of all s_i^2/(n-1) *)
Theorem C01_total_variance : forall (F : Type) (K : Ops F), FieldLaws K ->
  forall (n p r : nat) (X U Vt : mat) (s : vec), svd_ok K n p r X (U, s, Vt) ->
  fofZ K (Z.of_nat n) <> f0 K -> fofZ K (Z.of_nat n - 1) <> f0 K ->
  (forall j, (j < p)%nat -> colsum K n X j = f0 K) ->
  totvar K n p X = sum K r (fun i => sq_over K n (vget K s i)).
Proof. exact (@totvar_centred). Qed.
Print Assumptions C01_total_variance.

(* real data, singular values non-negative and descending: explained variances are
   non-negative and descending; with centred data each ratio lies in [0,1] and the ratios of
   all modes sum to one *)
Theorem C01_descending_nonneg : forall (n p r k : nat) (X U Vt : list (list R)) (s sg : list R),
  desc_nonneg r s -> (k <= r)%nat -> (2 <= n)%nat ->
  desc_nonneg k (e_expvar (eof_fit_sg OR n p r k X (U, s, Vt) sg)).
Proof. exact expvar_desc_nonneg. Qed.
Print Assumptions C01_descending_nonneg.

Theorem C01_ratio_bounds : forall (n p r k : nat) (X U Vt : list (list R)) (s sg : list R),
  svd_ok OR n p r X (U, s, Vt) -> desc_nonneg r s -> (k <= r)%nat -> (2 <= n)%nat ->
  (forall j, (j < p)%nat -> colsum OR n X j = 0%R) ->
  let out := eof_fit_sg OR n p r k X (U, s, Vt) sg in
  forall i, (i < k)%nat -> (0 < e_totvar out)%R ->
  (0 <= vget OR (e_expvar out) i / e_totvar out <= 1)%R.
Proof. exact ratio_bounds. Qed.
Print Assumptions C01_ratio_bounds.

Theorem C01_ratios_sum_to_one : forall (n p r : nat) (X U Vt : list (list R)) (s sg : list R),
  svd_ok OR n p r X (U, s, Vt) -> (2 <= n)%nat ->
  (forall j, (j < p)%nat -> colsum OR n X j = 0%R) ->
  let out := eof_fit_sg OR n p r r X (U, s, Vt) sg in
  e_totvar out <> 0%R ->
  sum OR r (fun i => (vget OR (e_expvar out) i / e_totvar out)%R) = 1%R.
Proof. exact ratios_sum_to_one. Qed.
Print Assumptions C01_ratios_sum_to_one.

(* optimality among reconstructions that keep ANY k of the r modes (equivalently X P for P a coordinate projector
   in the V basis): keeping the first k attains the smallest error. The mask b selects the kept modes;
   count_true r b = k says exactly k of them are kept. Real instance. *)
Theorem C01_eckart_young_partial : forall (n p r k : nat) (X U Vt : list (list R)) (s : list R),
  svd_ok OR n p r X (U, s, Vt) -> desc_nonneg r s -> forall (b : nat -> bool), (k <= r)%nat -> count_true r b = k ->
  (frob2 OR n p (msub OR n p X (recon_mask n p r U Vt s (fun i => Nat.ltb i k))) <=
   frob2 OR n p (msub OR n p X (recon_mask n p r U Vt s b)))%R.
Proof. exact eckart_young_subsets. Qed.
Print Assumptions C01_eckart_young_partial.

(* Eckart-Young in full (Frobenius norm, real instance): the reconstruction from the first k modes is at least as
   close to X as ANY product of an n x k and a k x p matrix, i.e. any matrix of rank at most k.  Proof: Gram-Schmidt
   on the rows of B, the projection bound row by row, Bessel's inequality in both bases, and a weighted-sum
   inequality for the descending squared singular values (Proofs/C01_ey.v). *)
Theorem C01_eckart_young_full : forall (n p r k : nat) (X U Vt : list (list R)) (s : list R) (A B : list (list R)),
  svd_ok OR n p r X (U, s, Vt) -> desc_nonneg r s -> (k <= r)%nat ->
  let out := eof_fit OR n p r k X (U, s, Vt) in
  (frob2 OR n p (msub OR n p X (eof_inverse OR n p k out (e_scores out))) <=
   frob2 OR n p (msub OR n p X (mmul OR n k p A B)))%R.
Proof. exact eckart_young_full. Qed.
Print Assumptions C01_eckart_young_full.

(* ... and for complex data (Hermitian case), by realification: a complex matrix of rank at most k has a realification
   of rank at most 2k, the realified right singular vectors {v_a, i v_a} are real-orthonormal with the squared singular
   values doubled, and the core of the real proof applies to the doubled data (Proofs/C01_ey_c.v; complex numbers are
   Coquelicot's C over Coq's reals).  Real parts are compared: both sides are real numbers. *)
Theorem C01_eckart_young_full_complex : forall (n p r k : nat) (X U Vt : list (list Complex.C)) (s : list Complex.C)
  (A B : list (list Complex.C)), svd_ok CInst.OCR n p r X (U, s, Vt) ->
  (forall a, (a < r)%nat -> (0 <= C01_ey_c.sg s a)%R) -> (forall a b, (a <= b)%nat -> (b < r)%nat -> (C01_ey_c.sg s b <= C01_ey_c.sg s a)%R) ->
  (k <= r)%nat ->
  (fst (frob2 CInst.OCR n p (msub CInst.OCR n p X (eof_inverse CInst.OCR n p k (eof_fit CInst.OCR n p r k X (U, s, Vt))
                                                        (e_scores (eof_fit CInst.OCR n p r k X (U, s, Vt)))))) <=
   fst (frob2 CInst.OCR n p (msub CInst.OCR n p X (mmul CInst.OCR n k p A B))))%R.
Proof. exact C01_ey_c.eckart_young_complex. Qed.
Print Assumptions C01_eckart_young_full_complex.

Theorem C01_complex_premises_satisfiable :
  svd_ok CInst.OCR 2 1 1 [[(0, 3)]; [(4, 0)]]%R ([[(0, 3 / 5)]; [(4 / 5, 0)]]%R, [(5, 0)]%R, [[(1, 0)]]%R) /\
  (forall a, (a < 1)%nat -> (0 <= C01_ey_c.sg [(5, 0)]%R a)%R) /\
  (forall a b, (a <= b)%nat -> (b < 1)%nat -> (C01_ey_c.sg [(5, 0)]%R b <= C01_ey_c.sg [(5, 0)]%R a)%R).
Proof. exact C01_ey_c.c_svd_ok_example. Qed.
Print Assumptions C01_complex_premises_satisfiable.

(* the model the theorems are about uses the constants and formulas regenerated from the source *)
Theorem C01_model_matches_source :
  (forall (F : Type) (K : Ops F) (n : nat) (x : F), sq_over K n x = eof_expvar K x (Z.of_nat n)) /\
  (eof_totvar_ddof = 1%Z /\ eof_totvar_after_augmentation = true) /\
  (eof_transform_conj_components = false /\ eof_inverse_conj_components = true /\ eof_inverse_conj_scores = false /\
   dec_V_conj = true /\ dec_V_transposed = true) /\
  (forall (F : Type) (K : Ops F) (mx mn : F), sign_rule K mx mn = dec_sign_rule K mx mn) /\
  (dec_post_order = [PTruncate; PFlip] /\ dec_sign_source = "VT"%string /\ dec_sign_applied_to = ["U"; "VT"]%string).
Proof. exact (conj tie_expvar (conj tie_totvar_ddof (conj tie_conj_flags (conj tie_sign_rule tie_post_order)))). Qed.
Print Assumptions C01_model_matches_source.

Theorem C01_premises_satisfiable :
  svd_ok OR 3 2 2 [[3;0];[0;2];[0;0]]%R ([[1;0];[0;1];[0;0]]%R, [3;2]%R, [[1;0];[0;1]]%R) /\ desc_nonneg 2 [3;2]%R.
Proof. exact svd_ok_example. Qed.
Print Assumptions C01_premises_satisfiable.

(* the scores, components and variances a model reports are the ones its fit stored: no accessor, rotator or transform of the package works on them in place (every augmented assignment of the package, regenerated from the source by T7inplace, is one of the 14 known sites acting on fresh local
   values of the numerical kernels) *)
From XV Require Gen.T7inplace Proofs.C14_tie.
Theorem C01_no_inplace_arithmetic_on_stored_arrays : List.length T7inplace.inplace_sites = 14%nat /\
  forallb C14_tie.not_in_fit_algorithm T7inplace.inplace_sites = true.
Proof. exact (conj (f_equal (@List.length _) C14_tie.inplace_sites_known) (f_equal (forallb _) C14_tie.inplace_sites_known)). Qed.
Print Assumptions C01_no_inplace_arithmetic_on_stored_arrays.

(* the singular values, scores and components an EOF-type model reports are the factors its SVD back-end returned: in the two decomposition front-ends (Decomposer.fit, _SVD.fit_transform) the data and the three factors are bound only by the back-end call,
   the re-ordering of the iterative complex solver, the truncations, the mode labels and the sign fix - the statements regenerated from the source by T3
   are exactly these; nothing rescales, floors or clips a singular value on the way *)
From XV Require Gen.T3 Proofs.C15_opts.
Theorem C01_factors_are_the_back_ends : List.length T3.dec_factor_writes = 20%nat /\ List.length T3.svd_factor_writes = 18%nat /\
  forallb (fun st => negb (String.eqb st "s = s.clip(min=1e-10 * s.max())")) T3.dec_factor_writes = true.
Proof. exact (conj (f_equal (@List.length _) C15_opts.dec_factor_writes_known) (conj (f_equal (@List.length _) C15_opts.svd_factor_writes_known)
  (f_equal (forallb _) C15_opts.dec_factor_writes_known))). Qed.
Print Assumptions C01_factors_are_the_back_ends.

(* the functions of this property whose Gallina counterpart is hand-written (or that only the oracles reach) still read, statement by statement, as they did when
   the model was last validated against them (Gen/T9text.v regenerated from the source on every run; Proofs/Text_C01.v holds the validated text) *)
From XV Require Gen.T9text Proofs.Text_C01.
Theorem C01_hand_modelled_functions_read_as_validated : Text_C01.all_frozen.
Proof. exact Text_C01.all_frozen_holds. Qed.
Print Assumptions C01_hand_modelled_functions_read_as_validated.

(* N is the number of samples that were decomposed: with the length of the sample axis before entirely missing samples are dropped (a > b) every explained
   variance comes out strictly smaller, and the ratios of a full decomposition against the correctly normalised total variance sum to b / a < 1 *)
From XV Require Proofs.C01_N.
Theorem C01_explained_variance_with_the_wrong_N_refuted : forall s2 a b tot : R, (0 < s2 -> 0 < tot -> 0 < b -> b < a ->
  s2 / a < s2 / b /\ (tot * b / a) / tot < 1)%R.
Proof. exact (fun s2 a b tot Hs Ht Hb Hab => conj (C01_N.expvar_with_the_longer_axis_is_smaller s2 a b Hs Hb Hab) (C01_N.ratios_with_the_longer_axis_fall_short tot a b Ht Hb Hab)). Qed.
Print Assumptions C01_explained_variance_with_the_wrong_N_refuted.
