(* C13 — a model survives serialisation: property theorems. Nothing but statements closed by [exact]. *)
From Coq Require Import String Ascii ZArith List Bool.
From XV Require Import Base.Scalar Model.PyVal Gen.T2 Gen.T7ser Model.Serial Proofs.C13_proofs Proofs.C13_tie.
Import ListNotations.
Open Scope string_scope.

(* netCDF attribute codec: every attribute whose type is one of `sanitized_types` (dict, list, bool, None)
   comes back equal, given Python's literal_eval(str(v)) = v on that class *)
Theorem C13_codec_structured : forall le, oracle_spec le ->
  forall v, is_sanitized_type v = true -> simple v = true -> codec_attr le v = Ok v.
Proof. exact codec_structured. Qed.
Print Assumptions C13_codec_structured.

(* ints and floats are not touched by the codec *)
Theorem C13_codec_numbers : forall le v, pyv_tag v = TInt \/ pyv_tag v = TFloat -> codec_attr le v = Ok v.
Proof. exact codec_numbers. Qed.
Print Assumptions C13_codec_numbers.

(* a STRING attribute: the round trip returns it iff it is non-empty and the translated `_should_desanitize`
   is false on it; it raises IndexError exactly on ""; on every string the test accepts the result is whatever
   literal_eval makes of it, which is never the string itself (another type, or an exception) *)
Theorem C13_codec_characterisation : forall le, oracle_not_self le -> forall s,
  (codec_attr le (PStr s) = Ok (PStr s) <-> s <> "" /\ should_desanitize_str s = Ok false) /\
  (codec_attr le (PStr s) = Err EKeyError /\ should_desanitize_str s = Err EKeyError <-> s = "") /\
  (should_desanitize_str s = Ok true -> codec_attr le (PStr s) = le s /\ le s <> Ok (PStr s)).
Proof. exact codec_characterisation. Qed.
Print Assumptions C13_codec_characterisation.

(* the same in terms of the string: bracketed by {} or [], or one of True / False / None *)
Theorem C13_codec_characterisation_literal : forall le, oracle_not_self le -> forall s,
  codec_attr le (PStr s) = Ok (PStr s) <-> s <> "" /\ ~ looks_like_literal s.
Proof. exact codec_characterisation_literal. Qed.
Print Assumptions C13_codec_characterisation_literal.

Theorem C13_should_desanitize_spec : forall s,
  (should_desanitize_str s = Ok true <-> s <> "" /\ looks_like_literal s) /\
  (should_desanitize_str s = Ok false <-> s <> "" /\ ~ looks_like_literal s) /\
  (forall e, should_desanitize_str s = Err e <-> s = "" /\ e = EKeyError).
Proof. exact (fun s => conj (should_true_iff s) (conj (should_false_iff s) (should_total_iff s))). Qed.
Print Assumptions C13_should_desanitize_spec.

(* a whole attribute dictionary round-trips iff no string attribute in it is empty or accepted by the test *)
Theorem C13_codec_characterisation_dict : forall le, oracle_spec le -> oracle_not_self le -> forall d,
  (forall k v, In (k, v) d -> is_sanitized_type v = true -> simple v = true) ->
  (codec_attrs le d = Ok d <-> forall k v, In (k, v) d -> string_attr_ok v).
Proof. exact codec_attrs_characterisation. Qed.
Print Assumptions C13_codec_characterisation_dict.

(* a whole tree (node-level and variable-level attributes of every node) *)
Theorem C13_codec_tree : forall le, oracle_spec le -> oracle_not_self le -> forall t,
  (forall d k v, In d (tree_dicts t) -> In (k, v) d -> is_sanitized_type v = true -> simple v = true) ->
  (codec_tree le t = Ok t <-> forall d k v, In d (tree_dicts t) -> In (k, v) d -> string_attr_ok v).
Proof. exact codec_tree_strings. Qed.
Print Assumptions C13_codec_tree.

(* the round trip is NOT the identity on all attribute dictionaries, for any literal_eval:
   "" raises, "True" comes back as a bool, "[m/s]" does not come back *)
Theorem C13_codec_refuted : forall le,
  codec_attrs le [("units", PStr "")] = Err EKeyError /\
  (oracle_spec le -> codec_attrs le [("flag", PStr "True")] = Ok [("flag", PBool true)]) /\
  (oracle_not_self le -> codec_attrs le [("units", PStr "[m/s]")] <> Ok [("units", PStr "[m/s]")]) /\
  ~ (forall d, codec_attrs le d = Ok d).
Proof. exact codec_refuted. Qed.
Print Assumptions C13_codec_refuted.

(* the same witnesses by computation with a concrete evaluator answering as Python does on them *)
Theorem C13_codec_refuted_witnesses :
  codec_attrs toy_literal_eval [("units", PStr "")] = Err EKeyError /\
  codec_attrs toy_literal_eval [("units", PStr "[m/s]")] = Err EValueError /\
  codec_attrs toy_literal_eval [("flag", PStr "True")] = Ok [("flag", PBool true)] /\
  codec_attrs toy_literal_eval [("missing", PStr "None")] = Ok [("missing", PNone)] /\
  codec_attrs toy_literal_eval [("levels", PStr "[1, 2]")] = Ok [("levels", PList [PInt 1; PInt 2])] /\
  codec_attrs toy_literal_eval [("levels", PList [PInt 1; PInt 2]); ("p", PDict [("a", PNone)]); ("name", PStr "abc")]
    = Ok [("levels", PList [PInt 1; PInt 2]); ("p", PDict [("a", PNone)]); ("name", PStr "abc")].
Proof. exact codec_refuted_witnesses. Qed.
Print Assumptions C13_codec_refuted_witnesses.

(* zarr path: attributes stored as JSON come back equal (None, bool, int, float, str, list, dict) *)
Theorem C13_json : forall v, json_rt v = v.
Proof. exact json_fixed_point. Qed.
Print Assumptions C13_json.

Theorem C13_json_attrs : forall d, json_rt_attrs d = d.
Proof. exact json_attrs_fixed_point. Qed.
Print Assumptions C13_json_attrs.

(* footprint: every attribute a post-fit answer method reads through `self` is restored by deserialisation:
   from the tree, through the constructor call on the stored parameters, by the Preprocessor's own loop over its
   transformer slots, or (nothing on this tree) allow-listed *)
Theorem C13_every_read_field_is_restored : forall fp, In fp footprints ->
  forall m f, In (m, f) (fp_reads fp) ->
  In f (fp_serialized fp) \/ In f (fp_ctor fp) \/ In f (fp_init_only fp) \/ In f (fp_custom_restored fp) \/
  In f (allowed_runtime (fp_class fp)).
Proof. exact every_read_field_is_restored. Qed.
Print Assumptions C13_every_read_field_is_restored.

Theorem C13_params_accepted_by_constructor : forall fp, In fp footprints ->
  forall k, In k (fp_params fp) -> In k (fp_ctor fp).
Proof. exact params_accepted_by_constructor. Qed.
Print Assumptions C13_params_accepted_by_constructor.
