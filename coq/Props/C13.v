(* C13 — a model survives serialisation: property theorems. Nothing but statements closed by [exact]. *)
From Coq Require Import String Ascii ZArith List Bool.
From XV Require Import Base.Scalar Model.PyVal Gen.T2 Gen.T7ser Model.Serial Proofs.C13_proofs Proofs.C13_tie.
Import ListNotations.
Open Scope string_scope.

(* netCDF attribute codec: every attribute whose type is one of `sanitized_types` (dict, list, bool, None)
   comes back equal, given Python's literal_eval(str(v)) = v on that class *)
Theorem C13_codec_structured : forall le, oracle_spec le ->
  forall v, is_sanitized_type v = true -> simple v = true -> codec_attr le v = Ok v.
Proof. exact codec_structured. Qed.
Print Assumptions C13_codec_structured.

(* ints and floats are not touched by the codec *)
Theorem C13_codec_numbers : forall le v, pyv_tag v = TInt \/ pyv_tag v = TFloat -> codec_attr le v = Ok v.
Proof. exact codec_numbers. Qed.
Print Assumptions C13_codec_numbers.

(* a STRING attribute never makes the decoder raise; it comes back as the same string iff the translated
   `_should_desanitize` is false on it (in particular "") or literal_eval rejects it (e.g. "[m/s]"); when the test
   accepts it and literal_eval accepts it too, what comes back is literal_eval's value, never the string *)
Theorem C13_codec_characterisation : forall le, oracle_not_self le -> oracle_errors le -> forall s,
  (codec_attr le (PStr s) = Ok (PStr s) <-> should_desanitize_str s = Ok false \/ exists k, le s = Err k) /\
  (forall e, codec_attr le (PStr s) <> Err e) /\
  (should_desanitize_str s = Ok true -> forall v, le s = Ok v -> codec_attr le (PStr s) = Ok v /\ v <> PStr s).
Proof. exact codec_characterisation. Qed.
Print Assumptions C13_codec_characterisation.

(* the same in terms of the string: bracketed by {} or [], or one of True / False / None *)
Theorem C13_codec_characterisation_literal : forall le, oracle_not_self le -> oracle_errors le -> forall s,
  codec_attr le (PStr s) = Ok (PStr s) <-> ~ looks_like_literal s \/ exists k, le s = Err k.
Proof. exact codec_characterisation_literal. Qed.
Print Assumptions C13_codec_characterisation_literal.

Theorem C13_should_desanitize_spec : forall s,
  (should_desanitize_str s = Ok true <-> looks_like_literal s) /\
  (should_desanitize_str s = Ok false <-> ~ looks_like_literal s) /\
  (exists b, should_desanitize_str s = Ok b) /\ (looks_like_literal s -> s <> "").
Proof. exact (fun s => conj (should_true_iff s) (conj (should_false_iff s) (conj (should_total s) (looks_like_literal_nonempty s)))). Qed.
Print Assumptions C13_should_desanitize_spec.

(* a whole attribute dictionary round-trips iff every string attribute in it is plain or rejected by literal_eval *)
Theorem C13_codec_characterisation_dict : forall le, oracle_spec le -> oracle_not_self le -> oracle_errors le -> forall d,
  (forall k v, In (k, v) d -> is_sanitized_type v = true -> simple v = true) ->
  (codec_attrs le d = Ok d <-> forall k v, In (k, v) d -> string_attr_ok le v).
Proof. exact codec_attrs_characterisation. Qed.
Print Assumptions C13_codec_characterisation_dict.

(* a whole tree (node-level and variable-level attributes of every node) *)
Theorem C13_codec_tree : forall le, oracle_spec le -> oracle_not_self le -> oracle_errors le -> forall t,
  (forall d k v, In d (tree_dicts t) -> In (k, v) d -> is_sanitized_type v = true -> simple v = true) ->
  (codec_tree le t = Ok t <-> forall d k v, In d (tree_dicts t) -> In (k, v) d -> string_attr_ok le v).
Proof. exact codec_tree_strings. Qed.
Print Assumptions C13_codec_tree.

(* repaired: "" and every string literal_eval rejects ("[m/s]", "{a}", "[m s-1]") round-trip, for every oracle *)
Theorem C13_codec_repaired_strings : forall le,
  codec_attrs le [("units", PStr "")] = Ok [("units", PStr "")] /\
  (forall s k, le s = Err k -> In k [EValueError; ESyntaxError] ->
     codec_attrs le [("units", PStr s)] = Ok [("units", PStr s)]).
Proof. exact codec_repaired_strings. Qed.
Print Assumptions C13_codec_repaired_strings.

(* still NOT the identity on all attribute dictionaries (recorded finding, a file-format question):
   with Python's literal_eval the strings "True", "None", "[1, 2]" come back as a bool, None, a list *)
Theorem C13_codec_refuted : forall le, oracle_spec le ->
  codec_attrs le [("flag", PStr "True")] = Ok [("flag", PBool true)] /\
  codec_attrs le [("missing", PStr "None")] = Ok [("missing", PNone)] /\
  codec_attrs le [("levels", PStr "[1, 2]")] = Ok [("levels", PList [PInt 1; PInt 2])] /\
  ~ (forall d, codec_attrs le d = Ok d).
Proof. exact codec_refuted. Qed.
Print Assumptions C13_codec_refuted.

(* both kinds of witness by computation with a concrete evaluator answering as Python does on them *)
Theorem C13_codec_witnesses :
  codec_attrs toy_literal_eval [("units", PStr "")] = Ok [("units", PStr "")] /\
  codec_attrs toy_literal_eval [("units", PStr "[m/s]")] = Ok [("units", PStr "[m/s]")] /\
  codec_attrs toy_literal_eval [("units", PStr "{a}")] = Ok [("units", PStr "{a}")] /\
  codec_attrs toy_literal_eval [("units", PStr "[m s-1]")] = Ok [("units", PStr "[m s-1]")] /\
  codec_attrs toy_literal_eval [("flag", PStr "True")] = Ok [("flag", PBool true)] /\
  codec_attrs toy_literal_eval [("missing", PStr "None")] = Ok [("missing", PNone)] /\
  codec_attrs toy_literal_eval [("levels", PStr "[1, 2]")] = Ok [("levels", PList [PInt 1; PInt 2])] /\
  codec_attrs toy_literal_eval [("levels", PList [PInt 1; PInt 2]); ("p", PDict [("a", PNone)]); ("name", PStr "abc")]
    = Ok [("levels", PList [PInt 1; PInt 2]); ("p", PDict [("a", PNone)]); ("name", PStr "abc")].
Proof. exact codec_witnesses. Qed.
Print Assumptions C13_codec_witnesses.

(* zarr path: attributes stored as JSON come back equal (None, bool, int, float, str, list, dict) *)
Theorem C13_json : forall v, json_rt v = v.
Proof. exact json_fixed_point. Qed.
Print Assumptions C13_json.

Theorem C13_json_attrs : forall d, json_rt_attrs d = d.
Proof. exact json_attrs_fixed_point. Qed.
Print Assumptions C13_json_attrs.

(* footprint: every attribute a post-fit answer method reads through `self` is restored by deserialisation:
   from the tree, through the constructor call on the stored parameters, by the Preprocessor's own loop over its
   transformer slots, or (nothing on this tree) allow-listed *)
Theorem C13_every_read_field_is_restored : forall fp, In fp footprints ->
  forall m f, In (m, f) (fp_reads fp) ->
  In f (fp_serialized fp) \/ In f (fp_ctor fp) \/ In f (fp_init_only fp) \/ In f (fp_custom_restored fp) \/
  In f (allowed_runtime (fp_class fp)).
Proof. exact every_read_field_is_restored. Qed.
Print Assumptions C13_every_read_field_is_restored.

Theorem C13_params_accepted_by_constructor : forall fp, In fp footprints ->
  forall k, In k (fp_params fp) -> In k (fp_ctor fp).
Proof. exact params_accepted_by_constructor. Qed.
Print Assumptions C13_params_accepted_by_constructor.

(* the functions of this property whose Gallina counterpart is hand-written (or that only the oracles reach) still read, statement by statement, as they did when
   the model was last validated against them (Gen/T9text.v regenerated from the source on every run; Proofs/Text_C13.v holds the validated text) *)
From XV Require Gen.T9text Proofs.Text_C13.
Theorem C13_hand_modelled_functions_read_as_validated : Text_C13.all_frozen.
Proof. exact Text_C13.all_frozen_holds. Qed.
Print Assumptions C13_hand_modelled_functions_read_as_validated.
