(* C18 — POP modes are eigen-pairs of the lag-1 feedback matrix. Statements only. *)
From Coq Require Import String ZArith List Bool Reals Permutation.
From XV Require Import Base.Scalar Base.Sum Base.Mat Base.RInst Model.Pop Gen.T5pop
  Proofs.C18_proofs Proofs.C18_order Proofs.C18_tie Proofs.C18_example
  Model.FlagState Gen.T5flag Proofs.FlagState_proofs Proofs.Flag_tie.
Import ListNotations.

(* the translated expression (X[1:]^H X[:-1]) inv(X[:-1]^H X[:-1]) is C1 C0^{-1} for lag covariances
   under ANY common non-zero normalisation c; the answer does not depend on which two-sided inverse
   the oracle returns *)
Theorem C18_feedback : forall (F : Type) (K : Ops F), FieldLaws K ->
  forall (n q : nat) (X C0inv : mat) (c : F), c <> f0 K -> inv_ok K q (lag0 K n q X) C0inv ->
  inv_ok K q (mscale K q q c (lag0 K n q X)) (mscale K q q (finv K c) C0inv) /\
  mmul K q q q (mscale K q q c (lag1 K n q X)) (mscale K q q (finv K c) C0inv) = feedback K n q X C0inv /\
  (forall B, inv_ok K q (mscale K q q c (lag0 K n q X)) B ->
             mmul K q q q (mscale K q q c (lag1 K n q X)) B = feedback K n q X C0inv) /\
  (forall B, inv_ok K q (lag0 K n q X) B -> feedback K n q X B = feedback K n q X C0inv).
Proof. exact (@feedback_normalisation). Qed.
Print Assumptions C18_feedback.

(* A P = P diag(lam) in PC space and V^H V = I  =>  (V A V^H)(V P) = (V P) diag(lam) in physical space *)
Theorem C18_eigenpair : forall (F : Type) (K : Ops F), FieldLaws K ->
  forall (p q : nat) (V A P : mat) (lam : vec),
  mmul K q p q (mH K p q V) V = mI K q -> eig_ok K q A P lam ->
  mmul K p p q (mmul K p q p (mmul K p q q V A) (mH K p q V)) (mmul K p q q V P)
  = mmul K p q q (mmul K p q q V P) (mdiag K q lam).
Proof. exact (@eigen_lift). Qed.
Print Assumptions C18_eigenpair.

(* rescaling the columns (by the norms, or anything else) keeps the eigen-relation *)
Theorem C18_eigenpair_colscale : forall (F : Type) (K : Ops F), FieldLaws K ->
  forall (q : nat) (A P : mat) (lam d : vec),
  mmul K q q q A P = mmul K q q q P (mdiag K q lam) ->
  mmul K q q q A (colscale K q q P d) = mmul K q q q (colscale K q q P d) (mdiag K q lam).
Proof. exact (@eigen_colscale). Qed.
Print Assumptions C18_eigenpair_colscale.

(* A real => the conjugate of an eigen-pair is an eigen-pair *)
Theorem C18_conjugate_closed : forall (F : Type) (K : Ops F), FieldLaws K ->
  forall (q : nat) (A P : mat) (lam : vec), wf K q q A -> real_mat K q q A -> eig_ok K q A P lam ->
  eig_ok K q A (mconj K q q P) (vmap K q (fconj K) lam).
Proof. exact (@conjugate_closed). Qed.
Print Assumptions C18_conjugate_closed.

(* real data => real feedback matrix (the inverse of a real matrix is real) => conjugate closure *)
Theorem C18_conjugate_closed_data : forall (F : Type) (K : Ops F), FieldLaws K ->
  forall (n q : nat) (X C0inv P : mat) (lam : vec), real_mat K n q X -> inv_ok K q (lag0 K n q X) C0inv ->
  eig_ok K q (feedback K n q X C0inv) P lam ->
  eig_ok K q (feedback K n q X C0inv) (mconj K q q P) (vmap K q (fconj K) lam).
Proof. exact (@conjugate_closed_feedback). Qed.
Print Assumptions C18_conjugate_closed_data.

(* sorting every mode-indexed array by one permutation keeps the eigen-relation *)
Theorem C18_order : forall (F : Type) (K : Ops F), FieldLaws K ->
  forall (q : nat) (A P : mat) (lam : vec) (idx : list nat), Permutation idx (seq 0 q) -> eig_ok K q A P lam ->
  eig_ok K q A (msel_cols K q idx P) (psel K idx lam).
Proof. exact (@eigen_sorted). Qed.
Print Assumptions C18_order.

(* the sorting key argsort(norms)[::-1] is a permutation of the modes and leaves the norms descending *)
Theorem C18_order_descending : forall (n p q : nat) (o : pop_out (F:=R)),
  let idx := argsort_desc OR q (p_norms o) in
  let s := pop_sort OR n p idx o in
  Permutation idx (seq 0 q) /\
  forall i j, (i <= j)%nat -> (j < q)%nat -> (vget OR (p_norms s) j <= vget OR (p_norms s) i)%R.
Proof. exact sorted_norms_descending. Qed.
Print Assumptions C18_order_descending.

(* = C04 for POP: transform(training data) recomputes the fitted (sorted) coefficients, because
   pca.transform_components(pca.inverse_transform_components(P)) = V^H V P = P and the coefficient
   function acts column by column *)
Theorem C18_transform_training : forall (F : Type) (K : Ops F), FieldLaws K ->
  forall (re im : F -> F) (iu : F) (flog farg : F -> F) (pi : F)
         (n p q : nat) (V P : mat) (lam : vec) (Minvs : list (quad (F:=F))) (Xn : mat) (idx : list nat),
  mmul K q p q (mH K p q V) V = mI K q -> wf K q q P -> Permutation idx (seq 0 q) ->
  let fitted := pop_sort K n p idx (pop_fit K re im iu flog farg pi n p q (pca_transform K n p q V Xn) V P lam Minvs) in
  pop_transform K re im iu n p q V (p_comps fitted) (lsel (q0 K) idx Minvs) Xn = p_scores fitted.
Proof. exact (@transform_training). Qed.
Print Assumptions C18_transform_training.

(* damping time and period are functions of the eigenvalue stored beside them (before and after
   sorting); under conjugation tau is unchanged and T changes sign (log, arg, abs are oracles) *)
Theorem C18_tau_T_partial : forall (F : Type) (K : Ops F), FieldLaws K ->
  forall (re im : F -> F) (iu : F) (flog farg : F -> F) (pi : F),
  (forall (n p q : nat) (X V P : mat) (lam : vec) (Minvs : list (quad (F:=F))) (idx : list nat),
     (forall j, (j < length idx)%nat -> (nth j idx O < q)%nat) ->
     let o := pop_sort K n p idx (pop_fit K re im iu flog farg pi n p q X V P lam Minvs) in
     forall j, (j < length idx)%nat ->
       vget K (p_tau o) j = pop_tau K flog (vget K (p_lam o) j) /\
       vget K (p_T o) j = pop_period K pi farg (vget K (p_lam o) j) /\
       vget K (p_lam o) j = vget K lam (nth j idx O)) /\
  (forall lam, fabs K (fconj K lam) = fabs K lam -> pop_tau K flog (fconj K lam) = pop_tau K flog lam) /\
  (forall lam, farg (fconj K lam) = fopp K (farg lam) -> farg lam <> f0 K ->
     pop_period K pi farg (fconj K lam) = fopp K (pop_period K pi farg lam)).
Proof. exact (fun F K FL re im iu flog farg pi =>
  conj (@tau_T_aligned F K re im iu flog farg pi) (conj (@tau_conj F K flog) (@period_conj F K FL farg pi))). Qed.
Print Assumptions C18_tau_T_partial.

(* coefficient function: a sample alpha Re p + beta Im p gets the coefficient alpha + i beta when the
   pseudo-inverse oracle inverts the 2x2 Gram matrix of (Re p, Im p) *)
Theorem C18_coefficients_recover : forall (F : Type) (K : Ops F), FieldLaws K ->
  forall (re im : F -> F) (iu : F) (q : nat) (X P : mat) (Mi : quad (F:=F)) (t j : nat) (alpha beta : F),
  q_mul K Mi (gram2 K re im q P j) = q_I K ->
  (forall f, (f < q)%nat -> get K X t f = fadd K (fmul K alpha (re (get K P f j))) (fmul K beta (im (get K P f j)))) ->
  pop_coeff K re im iu q X P Mi t j = coeff_combine K iu alpha beta.
Proof. exact (@coeff_recovers). Qed.
Print Assumptions C18_coefficients_recover.

(* the hand model follows the source *)
Theorem C18_model_matches_source :
  (forall (F : Type) (K : Ops F) (n q : nat) (inv : list (list F) -> list (list F)) (X : list (list F)),
     feedback K n q X (inv (lag0 K n q X)) = pop_feedback_src K n q inv X) /\
  (pop_feedback_chain = [FTailH; FHead; FInv [FHeadH; FHead]] /\ pop_eig_of_feedback = true) /\
  (forall (F : Type) (K : Ops F) (flog farg : F -> F) (pi lam : F),
     pop_tau K flog lam = pop_tau_src K flog lam /\ pop_period K pi farg lam = pop_period_src K pi farg lam) /\
  (forall (F : Type) (K : Ops F) (iu zr zi : F), coeff_combine K iu zr zi = pop_coeff_combine_src K iu zr zi) /\
  (pop_gram_layout = [[GRR; GRI]; [GRI; GII]] /\ pop_gram_dot_conjugated = false /\ pop_minv_is_pinv = true /\
   pop_zri_rows = ["X @ pr"; "X @ pi"]%string) /\
  (forall (F : Type) (K : Ops F) (n : nat) (Zc : list (list F)) (j : nat) (v : F),
     col_var K n Zc j = col_var_ddof K pop_var_ddof n Zc j /\ norm_of_var K v = pop_norm_of_var_src K v) /\
  (pop_sort_key_is_reversed_argsort_of_norms = true /\ pop_sort_all_mode_arrays = true /\
   pop_mode_arrays = ["components"; "scores"; "norms"; "eigenvalues"; "damping_times"; "periods"]%string /\
   pop_store = [("input_data", "X"); ("components", "P"); ("scores", "Z"); ("norms", "norms"); ("eigenvalues", "lbda");
                ("damping_times", "tau"); ("periods", "T"); ("idx_modes_sorted", "idx_modes_sorted"); ("total_variance", "var_tot")]%string) /\
  (pop_transform_steps = [TStoredComponents; TTransformComponents; TPcaTransform; TCoeffs; TInverseScoresIdentity] /\
   pop_transform_same_coefficient_function = true /\ pop_pca_inverse_transform_scores_identity = true /\
   pop_pca_disabled_is_identity = true) /\
  (forall (F : Type) (K : Ops F) (m p q c : nat) (V X C P : list (list F)),
     pca_transform K m p q V X = pop_pca_transform_src K m p q V X /\
     pca_transform_components K p q c V C = pop_pca_transform_components_src K p q c V C /\
     pca_inverse_transform_components K p q c V P = pop_pca_inverse_transform_components_src K p q c V P).
Proof. exact (conj tie_feedback (conj tie_feedback_chain (conj tie_tau_period (conj tie_coeff (conj tie_coeff_layout
  (conj tie_norms (conj tie_sort (conj tie_transform tie_pca)))))))). Qed.
Print Assumptions C18_model_matches_source.

(* non-vacuity of the premises: x_{t+1} = diag(2,3) x_t over the reals *)
Theorem C18_premises_example :
  inv_ok OR 2 (lag0 OR 3 2 ex_X) ex_C0inv /\ eig_ok OR 2 (feedback OR 3 2 ex_X ex_C0inv) ex_P ex_lam /\ real_mat OR 3 2 ex_X.
Proof. exact premises_example. Qed.
Print Assumptions C18_premises_example.

(* noise-free linear oscillation x_{t+1} = A x_t (A real, no centring): the feedback matrix the model
   computes IS A, so every admissible eigen-oracle answer is an eigen-decomposition of the true A *)
Theorem C18_recovery_feedback : forall (F : Type) (K : Ops F), FieldLaws K ->
  forall (n q : nat) (X A C0inv : mat), wf K q q A -> real_mat K q q A ->
  (forall t j, (S t < n)%nat -> (j < q)%nat -> get K X (S t) j = sum K q (fun k => fmul K (get K A j k) (get K X t k))) ->
  inv_ok K q (lag0 K n q X) C0inv ->
  feedback K n q X C0inv = A /\ forall P lam, eig_ok K q (feedback K n q X C0inv) P lam -> eig_ok K q A P lam.
Proof. exact (@feedback_recovers). Qed.
Print Assumptions C18_recovery_feedback.

(* ... and for the eigenvalue rho (c + i s), c^2 + s^2 = 1: its modulus is rho, hence tau = -1/log rho
   for any logarithm function *)
Theorem C18_recovery_modulus : forall (flog : R -> R) (rho c s : R), (0 <= rho)%R -> (c * c + s * s = 1)%R ->
  let lam := (rho * c, rho * s)%R in (cmod lam = rho)%R /\ (-1 / flog (cmod lam) = -1 / flog rho)%R.
Proof. exact recovery_modulus. Qed.
Print Assumptions C18_recovery_modulus.

(* stated, not proved: completeness of the eigen-oracle answer (with P invertible, every eigenvalue of A is
   in lam, in particular the prescribed rho (c + i s)), so that C18_recovery_modulus applies to a reported
   mode; that numpy's floating-point log / abs / angle are the mathematical functions (angle of
   rho (cos w + i sin w) is w, giving the period 2 pi / w). Both are tested on synthetic damped oscillators. *)
Definition C18_recovery_full : Prop :=
  forall (K : Ops (R * R)), FieldLaws K ->
  forall (n q : nat) (X A C0inv P Pinv : list (list (R * R))) (lam u : list (R * R)) (rho c s : R),
  (0 < rho)%R -> (c * c + s * s = 1)%R -> wf K q q A -> real_mat K q q A ->
  (forall t j, (S t < n)%nat -> (j < q)%nat -> get K X (S t) j = sum K q (fun k => fmul K (get K A j k) (get K X t k))) ->
  inv_ok K q (lag0 K n q X) C0inv -> eig_ok K q (feedback K n q X C0inv) P lam -> inv_ok K q P Pinv ->
  vwf K q u -> u <> vtab q (fun _ => f0 K) ->
  (forall i, (i < q)%nat -> sum K q (fun k => fmul K (get K A i k) (vget K u k))
                            = fmul K (rho * c, rho * s)%R (vget K u i)) ->
  exists j, (j < q)%nat /\ vget K lam j = (rho * c, rho * s)%R.

(* POP sorts its modes after compute() under the same flag protocol as the rotators (Gen/T5flag.v: _fit_algorithm resets the
   flag, _sort_by_variance re-indexes once): whatever was fitted, computed or asked before, once compute() has run after the
   last fit every mode-indexed array is that fit's array re-indexed by that fit's own permutation - patterns, coefficients,
   eigenvalues, periods and damping times stay aligned (one re-indexing `sortA` of the whole record) *)
Theorem C18_sorted_after_any_history : forall (A : Type) (sortA : list nat -> A -> A) (ops : list (fop A)) (s : fstate A),
  FlagInv A sortA s ->
  let s' := frun A sortA true true s (ops ++ [FCompute A]) in
  fs_sorted A s' = true /\ fs_data A s' = sortA (fs_idx A s') (fs_fresh A s').
Proof. exact after_compute_sorted. Qed.
Print Assumptions C18_sorted_after_any_history.

Theorem C18_flag_protocol_matches_source : In ("POP", (true, true))%string flag_protocol.
Proof. exact pop_flag_protocol. Qed.
Print Assumptions C18_flag_protocol_matches_source.

(* the POP coefficients stay the fitted ones after any accessor: nothing in the package divides a stored array in place (every augmented assignment of the package, regenerated from the source by T7inplace, is one of the 14 known sites acting on fresh local
   values of the numerical kernels) *)
From XV Require Gen.T7inplace Proofs.C14_tie.
Theorem C18_no_inplace_arithmetic_on_stored_arrays : List.length T7inplace.inplace_sites = 14%nat /\
  forallb C14_tie.not_in_fit_algorithm T7inplace.inplace_sites = true.
Proof. exact (conj (f_equal (@List.length _) C14_tie.inplace_sites_known) (f_equal (forallb _) C14_tie.inplace_sites_known)). Qed.
Print Assumptions C18_no_inplace_arithmetic_on_stored_arrays.

(* the functions of this property whose Gallina counterpart is hand-written (or that only the oracles reach) still read, statement by statement, as they did when
   the model was last validated against them (Gen/T9text.v regenerated from the source on every run; Proofs/Text_C18.v holds the validated text) *)
From XV Require Gen.T9text Proofs.Text_C18.
Theorem C18_hand_modelled_functions_read_as_validated : Text_C18.all_frozen.
Proof. exact Text_C18.all_frozen_holds. Qed.
Print Assumptions C18_hand_modelled_functions_read_as_validated.
