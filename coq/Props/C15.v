(* C15 — property theorems. Nothing but statements closed by [exact]. *)
From Coq Require Import String ZArith List Bool Reals.
From XV Require Import Base.Scalar Base.RInst Model.DecompLib Gen.T3 Gen.T8 Gen.T8fwd Proofs.C15_proofs Proofs.C15_opts Proofs.Fwd_tie.
Import ListNotations.
Open Scope R_scope.

(* A fractional n_modes keeps the smallest number of leading modes whose cumulative
   explained variance reaches the fraction, or all precomputed modes with a warning. *)
Theorem C15_threshold_minimal_decomposer : forall (expvar : list R) (frac : R),
  Forall (fun x => 0 <= x) expvar ->
  let cum := cumsum OR expvar in
  let '(m, warn) := dec_n_modes_clipped OR (Z.of_nat (length cum)) cum frac in
  threshold_spec cum frac m warn /\ threshold_spec_none cum frac m warn.
Proof. exact dec_threshold_minimal. Qed.
Print Assumptions C15_threshold_minimal_decomposer.

Theorem C15_threshold_minimal_svd : forall (expvar : list R) (frac : R),
  Forall (fun x => 0 <= x) expvar ->
  let cum := cumsum OR expvar in
  let '(m, warn) := svd_n_modes_clipped OR (Z.of_nat (length cum)) cum frac in
  threshold_spec cum frac m warn /\ threshold_spec_none cum frac m warn.
Proof. exact svd_threshold_minimal. Qed.
Print Assumptions C15_threshold_minimal_svd.

Theorem C15_threshold_example :
  fst (dec_n_modes_clipped OR 4 (cumsum OR [8/15; 4/15; 2/15; 1/15]) (8/10)) = 2%Z.
Proof. exact threshold_example. Qed.
Print Assumptions C15_threshold_example.

(* asking for a larger fraction never keeps fewer modes, and never withdraws the warning *)
Theorem C15_threshold_monotone : forall (npre : Z) (cum : list R) (f1 f2 : R), f1 <= f2 ->
  (fst (dec_n_modes_clipped OR npre cum f1) <= fst (dec_n_modes_clipped OR npre cum f2))%Z /\
  (fst (svd_n_modes_clipped OR npre cum f1) <= fst (svd_n_modes_clipped OR npre cum f2))%Z /\
  (snd (dec_n_modes_clipped OR npre cum f1) = true -> snd (dec_n_modes_clipped OR npre cum f2) = true) /\
  (snd (svd_n_modes_clipped OR npre cum f1) = true -> snd (svd_n_modes_clipped OR npre cum f2) = true).
Proof. exact threshold_monotone. Qed.
Print Assumptions C15_threshold_monotone.

(* the count is always a valid number of modes, for every list of cumulative fractions *)
Theorem C15_threshold_in_range : forall (cum : list R) (frac : R), (1 <= length cum)%nat ->
  let k := Z.of_nat (length cum) in
  (1 <= fst (dec_n_modes_clipped OR k cum frac) <= k)%Z /\ (1 <= fst (svd_n_modes_clipped OR k cum frac) <= k)%Z.
Proof. exact threshold_in_range. Qed.
Print Assumptions C15_threshold_in_range.

(* once the request is reached the count does not depend on how many further modes were precomputed *)
Theorem C15_threshold_independent_of_precomputed : forall (cum extra : list R) (frac : R),
  Forall (fun c => frac <= c) extra -> (1 <= count_ge OR cum frac)%nat ->
  dec_n_modes_clipped OR (Z.of_nat (length (cum ++ extra))) (cum ++ extra) frac = dec_n_modes_clipped OR (Z.of_nat (length cum)) cum frac /\
  svd_n_modes_clipped OR (Z.of_nat (length (cum ++ extra))) (cum ++ extra) frac = svd_n_modes_clipped OR (Z.of_nat (length cum)) cum frac.
Proof. exact threshold_independent_of_precomputed. Qed.
Print Assumptions C15_threshold_independent_of_precomputed.

Theorem C15_threshold_strict_variant_refuted :
  exists cum frac, frac <= nth 0 cum 0 /\ n_modes_required_strict 2 cum frac = 2%Z /\
                   fst (dec_n_modes_clipped OR 2 cum frac) = 1%Z.
Proof. exact threshold_strict_variant_refuted. Qed.
Print Assumptions C15_threshold_strict_variant_refuted.

(* the 'auto' policy only selects between what 'full' and what 'randomized' select *)
Theorem C15_policy_auto_decomposer : forall small cplx dask npre rank,
  policy dec_use_exact dec_backend "auto" small cplx dask npre rank = policy dec_use_exact dec_backend "full" small cplx dask npre rank \/
  policy dec_use_exact dec_backend "auto" small cplx dask npre rank = policy dec_use_exact dec_backend "randomized" small cplx dask npre rank.
Proof. exact dec_policy_auto. Qed.
Print Assumptions C15_policy_auto_decomposer.

Theorem C15_policy_auto_svd : forall small cplx dask npre rank,
  policy svd_use_exact svd_backend "auto" small cplx dask npre rank = policy svd_use_exact svd_backend "full" small cplx dask npre rank \/
  policy svd_use_exact svd_backend "auto" small cplx dask npre rank = policy svd_use_exact svd_backend "randomized" small cplx dask npre rank.
Proof. exact svd_policy_auto. Qed.
Print Assumptions C15_policy_auto_svd.

Theorem C15_policy_full_is_exact : forall small cplx dask npre rank,
  policy dec_use_exact dec_backend "full" small cplx dask npre rank = Ok Exact /\
  policy svd_use_exact svd_backend "full" small cplx dask npre rank = Ok Exact.
Proof. exact policy_full_exact. Qed.
Print Assumptions C15_policy_full_is_exact.

Theorem C15_policy_unknown_solver_rejected : forall s small cplx dask npre rank,
  ~ In s ["auto"; "full"; "randomized"]%string ->
  policy dec_use_exact dec_backend s small cplx dask npre rank = Err EValueError /\
  policy svd_use_exact svd_backend s small cplx dask npre rank = Err EValueError.
Proof. exact policy_unknown_rejected. Qed.
Print Assumptions C15_policy_unknown_solver_rejected.

Theorem C15_rank_check : forall n p npre,
  (dec_rank_rejected npre (dec_rank n p) = true <-> (npre > Z.min n p)%Z) /\
  (svd_rank_rejected npre (svd_rank n p) = true <-> (npre > Z.min n p)%Z).
Proof. exact rank_check. Qed.
Print Assumptions C15_rank_check.

(* real data: after the flip a largest-magnitude loading is positive
   (forced hypothesis: the column is not a negative constant) *)
Theorem C15_sign_rule_positive : forall (a : R) (l : list R),
  let mx := lmax a l in let mn := lmin a l in
  let sg := svd_sign_rule OR mx mn in
  ~ (mx < 0 /\ mx = mn) ->
  (sg = 1 \/ sg = -1) /\
  exists x, In x (a :: l) /\ 0 <= sg * x /\ forall y, In y (a :: l) -> Rabs y <= sg * x.
Proof. exact sign_rule_positive. Qed.
Print Assumptions C15_sign_rule_positive.

Theorem C15_sign_rule_constant_negative_refuted :
  exists a l, let mx := lmax a l in let mn := lmin a l in
    svd_sign_rule OR mx mn = 1 /\ forall y, In y (a :: l) -> y < 0.
Proof. exact sign_rule_constant_negative_refuted. Qed.
Print Assumptions C15_sign_rule_constant_negative_refuted.

(* every site of the package that forwards solver_kwargs hands the dictionary on intact,
   and some site hands it to the solver function *)
Theorem C15_kwargs_binding : forall lab f, In (lab, f) kw_sites -> forwards f = true.
Proof. exact kwargs_sites_forward. Qed.
Print Assumptions C15_kwargs_binding.

Theorem C15_kwargs_reach_solver :
  existsb (fun s => match snd s with ToSolver => true | _ => false end) kw_sites = true.
Proof. exact kwargs_reach_solver. Qed.
Print Assumptions C15_kwargs_reach_solver.

(* the options the decomposition front-ends themselves hand to the back-ends, regenerated from the source: nothing but the
   number of modes, the seed, the iterative complex solver, and two defaults a user can override (compute, 4 power iterations) *)
Theorem C15_solver_options_in_source :
  dec_solver_options =
  [("merge", "n_components", "self.n_modes_precompute"); ("merge", "random_state", "self.random_state");
   ("merge", "k", "self.n_modes_precompute"); ("merge", "random_state", "self.random_state"); ("merge", "solver", "'lobpcg'");
   ("merge", "k", "self.n_modes_precompute"); ("merge", "seed", "self.random_state");
   ("default", "compute", "self.compute"); ("default", "n_power_iter", "4"); ("default", "iterator", "'QR'")]%string /\
  svd_solver_options =
  [("merge", "n_components", "self.n_modes_precompute"); ("merge", "random_state", "self.random_state");
   ("merge", "k", "self.n_modes_precompute"); ("merge", "random_state", "self.random_state"); ("merge", "solver", "'lobpcg'");
   ("merge", "k", "self.n_modes_precompute"); ("merge", "seed", "self.random_state");
   ("default", "compute", "False"); ("default", "n_power_iter", "4"); ("default", "iterator", "'QR'")]%string.
Proof. exact solver_options_known. Qed.
Print Assumptions C15_solver_options_in_source.

(* the constructors of the two decomposition front-ends, statement by statement: n_modes reaches the test "count or fraction" as the
   user gave it and is stored unchanged (regenerated from the source) *)
Theorem C15_constructors_in_source :
  dec_init_statements =
  ["sanity_check_n_modes(n_modes)"; "self.is_based_on_variance = False if isinstance(n_modes, int) else True"; "if self.is_based_on_variance:";
   "self.n_modes = n_modes"; "self.n_modes_precompute = n_modes"; "self.init_rank_reduction = init_rank_reduction"; "self.flip_signs = flip_signs";
   "self.compute = compute"; "self.solver = solver"; "self.random_state = random_state"; "self.component_dim_name = component_dim_name";
   "self.solver_kwargs = solver_kwargs"]%string /\
  svd_init_statements =
  ["sanity_check_n_modes(n_modes)"; "self.is_based_on_variance = True if isinstance(n_modes, float) else False"; "if self.is_based_on_variance:";
   "self.n_modes = n_modes"; "self.n_modes_precompute = n_modes"; "self.init_rank_reduction = init_rank_reduction"; "self.flip_signs = flip_signs";
   "self.solver = solver"; "self.random_state = random_state"; "self.solver_kwargs = solver_kwargs"; "self.is_complex = is_complex"]%string.
Proof. exact init_statements_known. Qed.
Print Assumptions C15_constructors_in_source.

(* every model class hands its constructor parameters on under their own names (solver, random_state, solver_kwargs among them): none is
   dropped or replaced, apart from the pinned whitening degrees of the named methods *)
Theorem C15_constructor_parameters_reach_the_parent : forallb (fun r => how_ok (snd r)) ctor_special = true.
Proof. exact ctor_nothing_dropped_or_replaced. Qed.
Print Assumptions C15_constructor_parameters_reach_the_parent.

(* the seed reaches every decomposition step a model runs inside itself *)
Theorem C15_inner_steps_are_seeded :
  Fwd_tie.obj_kw "ExtendedEOF" "__init__" "EOF" "random_state" = ["self._params['random_state']"%string] /\
  Fwd_tie.obj_kw "ExtendedEOF" "_fit_algorithm" "EOF" "random_state" = ["self._params['random_state']"%string] /\
  Fwd_tie.obj_kw "OPA" "_fit_algorithm" "EOF" "random_state" = ["self._params['random_state']"%string] /\
  Fwd_tie.obj_kw "POP" "__init__" "PCA" "random_state" = ["random_state"%string] /\
  Fwd_tie.obj_kw "BaseModelCrossSet" "__init__" "PCA" "random_state" = ["random_state"%string; "random_state"%string] /\
  Fwd_tie.obj_kw "PCA" "fit" "SVD" "random_state" = ["self.random_state"%string].
Proof. exact Fwd_tie.inner_steps_are_seeded. Qed.
Print Assumptions C15_inner_steps_are_seeded.

(* the fraction rule sees the singular values the back-end returned and the data the routine was given: in the two decomposition front-ends (Decomposer.fit, _SVD.fit_transform) the data and the three factors are bound only by the back-end call,
   the re-ordering of the iterative complex solver, the truncations, the mode labels and the sign fix - the statements regenerated from the source by T3
   are exactly these; nothing rescales, floors or clips a singular value on the way *)
From XV Require Gen.T3 Proofs.C15_opts.
Theorem C15_factors_are_the_back_ends : List.length T3.dec_factor_writes = 20%nat /\ List.length T3.svd_factor_writes = 18%nat /\
  forallb (fun st => negb (String.eqb st "s = s.clip(min=1e-10 * s.max())")) T3.dec_factor_writes = true.
Proof. exact (conj (f_equal (@List.length _) C15_opts.dec_factor_writes_known) (conj (f_equal (@List.length _) C15_opts.svd_factor_writes_known)
  (f_equal (forallb _) C15_opts.dec_factor_writes_known))). Qed.
Print Assumptions C15_factors_are_the_back_ends.
