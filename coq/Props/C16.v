(* C16 — fractional whitening and PCA reduction are exact, invertible changes of basis.
   Statements only; proofs are in Proofs/C16_proofs.v, C16_real.v, C16_tie.v.
   F is any field with an involutive automorphism conj (real data: conj = id).
   Oracle answers are arguments with their specifications as premises:
     (V, lam)   eigen-decomposition of C = X^H X / n            [eig_ok]
     d, dinv    d_i = lam_i^((alpha-1)/2) real, d_i dinv_i = 1   (power law only where stated)
     (U, s, Vt) SVD of X for PCA                                [svd_ok]
   "full column rank" is the premise that the cut-off (any threshold thr: the absolute eps of the source, or the
   scale-invariant eps * p * max lam) keeps every eigenvalue. *)
From Coq Require Import String ZArith List Bool Reals.
From XV Require Import Base.Scalar Base.Sum Base.Mat Base.RInst Model.Eof Model.Whiten Gen.T5whiten
  Proofs.C01_proofs Proofs.C16_proofs Proofs.C16_real Proofs.C16_tie Proofs.C16_power.
Import ListNotations.

(* the whitening matrix is Hermitian (whenever it is a matrix at all: alpha < 1) *)
Theorem C16_T_hermitian : forall (F : Type) (K : Ops F), FieldLaws K ->
  forall (n p : nat) (X V : mat) (alpha eps thr : F) (lam d dinv : vec),
  eig_ok K p (whiten_cov K n p X) V lam ->
  (forall i, (i < p)%nat -> whiten_keep K (vget K lam i) thr = true) ->
  real_vec K p d ->
  let w := whiten_fit K p alpha eps thr V lam d dinv in
  w_identity w = false -> mH K p p (w_T w) = w_T w.
Proof. exact (@fit_T_hermitian). Qed.
Print Assumptions C16_T_hermitian.

(* T and the stored inverse are mutually inverse *)
Theorem C16_T_Tinv_inverse : forall (F : Type) (K : Ops F), FieldLaws K ->
  forall (n p : nat) (X V : mat) (alpha eps thr : F) (lam d dinv : vec),
  eig_ok K p (whiten_cov K n p X) V lam ->
  (forall i, (i < p)%nat -> whiten_keep K (vget K lam i) thr = true) ->
  (forall i, (i < p)%nat -> fmul K (vget K d i) (vget K dinv i) = f1 K) ->
  let w := whiten_fit K p alpha eps thr V lam d dinv in
  w_identity w = false ->
  mmul K p p p (w_T w) (w_Tinv w) = mI K p /\ mmul K p p p (w_Tinv w) (w_T w) = mI K p.
Proof. exact (@fit_T_Tinv). Qed.
Print Assumptions C16_T_Tinv_inverse.

(* un-whitening restores any data matrix with p features, for every alpha (both branches of the alpha = 1 test) *)
Theorem C16_unwhiten : forall (F : Type) (K : Ops F), FieldLaws K ->
  forall (n p : nat) (X V : mat) (alpha eps thr : F) (lam d dinv : vec),
  eig_ok K p (whiten_cov K n p X) V lam ->
  (forall i, (i < p)%nat -> whiten_keep K (vget K lam i) thr = true) ->
  (forall i, (i < p)%nat -> fmul K (vget K d i) (vget K dinv i) = f1 K) ->
  forall (m : nat) (Y : mat), wf K m p Y ->
  let w := whiten_fit K p alpha eps thr V lam d dinv in
  w_inverse_data K m p w (w_transform K m p w Y) = Y.
Proof. exact (@fit_unwhiten). Qed.
Print Assumptions C16_unwhiten.

(* patterns mapped into and out of the whitened space (and out of and into it) come back unchanged *)
Theorem C16_components_roundtrip : forall (F : Type) (K : Ops F), FieldLaws K ->
  forall (n p : nat) (X V : mat) (alpha eps thr : F) (lam d dinv : vec),
  eig_ok K p (whiten_cov K n p X) V lam ->
  (forall i, (i < p)%nat -> whiten_keep K (vget K lam i) thr = true) ->
  (forall i, (i < p)%nat -> fmul K (vget K d i) (vget K dinv i) = f1 K) ->
  forall (m : nat) (P : mat), wf K p m P ->
  let w := whiten_fit K p alpha eps thr V lam d dinv in
  w_inverse_components K p m w (w_transform_components K p m w P) = P /\
  w_transform_components K p m w (w_inverse_components K p m w P) = P.
Proof. exact (@fit_components_roundtrip). Qed.
Print Assumptions C16_components_roundtrip.

(* the N-divisor covariance of the whitened data is V diag(d_i^2 lam_i) V^H; unchanged in the identity branch *)
Theorem C16_whitened_cov : forall (F : Type) (K : Ops F), FieldLaws K ->
  forall (n p : nat) (X V : mat) (alpha eps thr : F) (lam d dinv : vec),
  eig_ok K p (whiten_cov K n p X) V lam ->
  (forall i, (i < p)%nat -> whiten_keep K (vget K lam i) thr = true) ->
  real_vec K p d ->
  let w := whiten_fit K p alpha eps thr V lam d dinv in
  whiten_cov K n p (w_transform K n p w X) =
  if w_identity w then whiten_cov K n p X else sandwich K p V (whitened_eigs K p lam d).
Proof. exact (@fit_whitened_cov). Qed.
Print Assumptions C16_whitened_cov.

(* ... and d_i^2 lam_i is lam_i^alpha: for alpha = a/b, the power-oracle relation d^(2b) lam^(b-a) = 1
   gives (d_i^2 lam_i)^b = lam_i^a *)
Theorem C16_whitened_cov_power_law : forall (F : Type) (K : Ops F), FieldLaws K ->
  forall (p : nat) (lam d : vec) (a b : nat), (a <= b)%nat ->
  (forall i, (i < p)%nat -> fmul K (fpow K (vget K d i) (2 * b)) (fpow K (vget K lam i) (b - a)) = f1 K) ->
  forall i, (i < p)%nat -> fpow K (vget K (whitened_eigs K p lam d) i) b = fpow K (vget K lam i) a.
Proof. exact (@whitened_eigs_power). Qed.
Print Assumptions C16_whitened_cov_power_law.

(* alpha = 0 at full rank (d_i^2 lam_i = 1): the whitened covariance is the identity *)
Theorem C16_whitened_cov_identity : forall (F : Type) (K : Ops F), FieldLaws K ->
  forall (n p : nat) (X V : mat) (thr : F) (lam d : vec),
  eig_ok K p (whiten_cov K n p X) V lam ->
  (forall i, (i < p)%nat -> whiten_keep K (vget K lam i) thr = true) ->
  real_vec K p d ->
  (forall i, (i < p)%nat -> fmul K (fmul K (vget K d i) (vget K d i)) (vget K lam i) = f1 K) ->
  whiten_cov K n p (whiten_transform K n p (whiten_T K p thr V lam d) X) = mI K p.
Proof. exact (@whitened_cov_identity). Qed.
Print Assumptions C16_whitened_cov_identity.

(* exponent 0 answered by d = 1 (alpha = 1 without the short cut): nothing changes *)
Theorem C16_whitened_cov_unchanged : forall (F : Type) (K : Ops F), FieldLaws K ->
  forall (n p : nat) (X V : mat) (thr : F) (lam d : vec),
  eig_ok K p (whiten_cov K n p X) V lam ->
  (forall i, (i < p)%nat -> whiten_keep K (vget K lam i) thr = true) ->
  real_vec K p d ->
  (forall i, (i < p)%nat -> vget K d i = f1 K) ->
  whiten_cov K n p (whiten_transform K n p (whiten_T K p thr V lam d) X) = whiten_cov K n p X.
Proof. exact (@whitened_cov_unchanged). Qed.
Print Assumptions C16_whitened_cov_unchanged.

(* PCA: the basis has orthonormal columns ... *)
Theorem C16_pca_orthonormal : forall (F : Type) (K : Ops F), FieldLaws K ->
  forall (n p r k : nat) (X U Vt : mat) (s : vec), svd_ok K n p r X (U, s, Vt) -> (k <= r)%nat ->
  let Vb := pca_fit K p k (U, s, Vt) in mmul K k p k (mH K p k Vb) Vb = mI K k.
Proof. exact (@pca_fit_orthonormal). Qed.
Print Assumptions C16_pca_orthonormal.

(* ... and its columns are eigenvectors of the covariance matrix for the first k (leading, the singular values
   being listed in descending order) eigenvalues s_i^2 / n *)
Theorem C16_pca_spans_leading : forall (F : Type) (K : Ops F), FieldLaws K ->
  forall (n p r k : nat) (X U Vt : mat) (s : vec), svd_ok K n p r X (U, s, Vt) -> (k <= r)%nat ->
  let Vb := pca_fit K p k (U, s, Vt) in
  mmul K p p k (whiten_cov K n p X) Vb =
  colscale K p k Vb (vmap K k (fun x => fdiv K (fmul K x x) (fofZ K (Z.of_nat n))) (vfirstn K k s)).
Proof. exact (@pca_fit_cov_eigen). Qed.
Print Assumptions C16_pca_spans_leading.

(* patterns in PC space mapped out and back are unchanged; patterns in the retained subspace mapped in and out too *)
Theorem C16_pca_components_roundtrip : forall (F : Type) (K : Ops F), FieldLaws K ->
  forall (n p r k : nat) (X U Vt : mat) (s : vec), svd_ok K n p r X (U, s, Vt) -> (k <= r)%nat ->
  forall (m : nat) (Q : mat), wf K k m Q ->
  let Vb := pca_fit K p k (U, s, Vt) in
  pca_transform_components K p k m Vb (pca_inverse_components K p k m Vb Q) = Q.
Proof. exact (@pca_fit_components_roundtrip). Qed.
Print Assumptions C16_pca_components_roundtrip.

Theorem C16_pca_components_roundtrip_span : forall (F : Type) (K : Ops F), FieldLaws K ->
  forall (n p r k : nat) (X U Vt : mat) (s : vec), svd_ok K n p r X (U, s, Vt) -> (k <= r)%nat ->
  forall (m : nat) (P Q : mat), wf K k m Q ->
  let Vb := pca_fit K p k (U, s, Vt) in
  P = mmul K p k m Vb Q ->
  pca_inverse_components K p k m Vb (pca_transform_components K p k m Vb P) = P.
Proof. exact (@pca_fit_components_roundtrip_span). Qed.
Print Assumptions C16_pca_components_roundtrip_span.

(* all modes kept: projecting the fitted data and coming back restores it *)
Theorem C16_pca_data_roundtrip : forall (F : Type) (K : Ops F), FieldLaws K ->
  forall (n p r : nat) (X U Vt : mat) (s : vec), svd_ok K n p r X (U, s, Vt) ->
  let Vb := pca_fit K p r (U, s, Vt) in
  pca_inverse_data K n p r Vb (pca_transform K n p r Vb X) = X.
Proof. exact (@pca_fit_data_roundtrip_all). Qed.
Print Assumptions C16_pca_data_roundtrip.

(* any number of modes: data whose rows lie in the retained subspace is restored *)
Theorem C16_pca_data_roundtrip_span : forall (F : Type) (K : Ops F), FieldLaws K ->
  forall (n p r k : nat) (X U Vt : mat) (s : vec), svd_ok K n p r X (U, s, Vt) -> (k <= r)%nat ->
  forall (m : nat) (Y Z : mat), wf K m k Z ->
  let Vb := pca_fit K p k (U, s, Vt) in
  Y = mmul K m k p Z (mH K p k Vb) ->
  pca_inverse_data K m p k Vb (pca_transform K m p k Vb Y) = Y.
Proof. exact (@pca_fit_data_roundtrip_span). Qed.
Print Assumptions C16_pca_data_roundtrip_span.

(* the premises of the whitening theorems are satisfiable (real instance: n = 2 > p = 1, C = 4, full whitening) *)
Example C16_premises_satisfiable :
  (1 < 2)%nat /\
  eig_ok OR 1 (whiten_cov OR 2 1 exX) exV exlam /\
  (forall i, (i < 1)%nat -> whiten_keep OR (vget OR exlam i) exeps = true) /\
  real_vec OR 1 exd /\
  (forall i, (i < 1)%nat -> (vget OR exd i * vget OR exdinv i = 1)%R) /\
  (forall i, (i < 1)%nat -> (vget OR exd i * vget OR exd i * vget OR exlam i = 1)%R).
Proof. exact example_premises. Qed.
Print Assumptions C16_premises_satisfiable.

(* the model uses the constants, formulas and operand structure regenerated from the source *)
Theorem C16_model_matches_source :
  (forall n p : nat, whiten_divisor n p = whiten_cov_divisor (Z.of_nat n) (Z.of_nat p)) /\
  (forall (F : Type) (K : Ops F) (alpha eps s mx mn : F),
     whiten_exponent K alpha = whiten_power K alpha /\
     whiten_is_identity K alpha eps = whiten_alpha_is_one K alpha eps /\
     whiten_rejects K alpha = whiten_alpha_rejected K alpha /\
     whiten_keep K s eps = fmp_keep K s eps /\
     sign_rule K mx mn = svd_sign_rule K mx mn) /\
  (forall (F : Type) (K : Ops F) (eps smax : F) (p : nat),
     whiten_threshold K fmp_cutoff_relative eps p smax = fmp_threshold K eps (Z.of_nat p) smax) /\
  (whiten_cov_left_is_conj_transpose = true /\ whiten_solver = "full"%string /\
   whiten_Tinv_is_inv_with_pinv_fallback = true /\
   whiten_T_dims = ["feature"; "mode"]%string /\ whiten_Tinv_dims = ["mode"; "feature"]%string /\
   fmp_product = ["V"; "diag(s**power)"; "V^H"]%string /\ fmp_left_associated = true /\
   fmp_real_input_returns_real_part = true /\
   pca_basis_is_right_singular_vectors = true /\ svd_sign_source = "V"%string /\
   (forall n p : nat, (p <= n)%nat -> pca_all_modes (Z.of_nat n) (Z.of_nat p) = Z.of_nat p)) /\
  (forall (F : Type) (K : Ops F) (n p m : nat) (T Tinv V X P : @mat F),
     whiten_transform K n p T X = interp K whiten_transform_desc (env_of p p n p T Tinv V X) /\
     whiten_inverse_data K n p Tinv X = interp K whiten_inverse_data_desc (env_of p p n p T Tinv V X) /\
     whiten_transform_components K p m T P = interp K whiten_transform_components_desc (env_of p p p m T Tinv V P) /\
     whiten_inverse_components K p m Tinv P = interp K whiten_inverse_components_desc (env_of p p p m T Tinv V P)) /\
  (forall (F : Type) (K : Ops F) (n p k m : nat) (T Tinv V X Y P Q : @mat F),
     pca_transform K n p k V X = interp K pca_transform_desc (env_of p k n p T Tinv V X) /\
     pca_inverse_data K n p k V Y = interp K pca_inverse_data_desc (env_of p k n k T Tinv V Y) /\
     pca_transform_components K p k m V P = interp K pca_transform_components_desc (env_of p k p m T Tinv V P) /\
     pca_inverse_components K p k m V Q = interp K pca_inverse_components_desc (env_of p k k m T Tinv V Q)).
Proof. exact (conj tie_divisor (conj tie_scalars (conj tie_threshold (conj tie_structure (conj tie_whiten_maps tie_pca_maps))))). Qed.
Print Assumptions C16_model_matches_source.

(* the power oracle at the real instance: for alpha = a/b the positive answer of the relation d^(2b) lam^(b-a) = 1 is unique,
   and the eigenvalue d^2 lam of the whitened covariance IS the real power lam^(a/b) of the standard library (exp (a/b ln lam)) *)
Theorem C16_power_oracle_unique : forall (lam d1 d2 : R) (a b : nat), (0 < lam)%R -> (0 < d1)%R -> (0 < d2)%R -> (1 <= b)%nat -> (a <= b)%nat ->
  (d1 ^ (2 * b) * lam ^ (b - a) = 1)%R -> (d2 ^ (2 * b) * lam ^ (b - a) = 1)%R -> d1 = d2.
Proof. exact power_oracle_unique. Qed.
Print Assumptions C16_power_oracle_unique.

Theorem C16_whitened_eig_is_real_power : forall (lam d : R) (a b : nat), (0 < lam)%R -> (0 < d)%R -> (1 <= b)%nat -> (a <= b)%nat ->
  (d ^ (2 * b) * lam ^ (b - a) = 1)%R -> (d * d * lam)%R = Rpower lam (INR a / INR b).
Proof. exact whitened_eig_is_real_power. Qed.
Print Assumptions C16_whitened_eig_is_real_power.

(* the functions of this property whose Gallina counterpart is hand-written (or that only the oracles reach) still read, statement by statement, as they did when
   the model was last validated against them (Gen/T9text.v regenerated from the source on every run; Proofs/Text_C16.v holds the validated text) *)
From XV Require Gen.T9text Proofs.Text_C16.
Theorem C16_hand_modelled_functions_read_as_validated : Text_C16.all_frozen.
Proof. exact Text_C16.all_frozen_holds. Qed.
Print Assumptions C16_hand_modelled_functions_read_as_validated.
