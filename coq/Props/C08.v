(* C08 — centring, standardisation and weights mean exactly what the options say. Statements only.
   Real instance (standard deviation needs a square root and the clipping floor an order). *)
From Coq Require Import String ZArith List Bool Reals.
From XV Require Import Base.Scalar Base.Mat Base.RInst Model.ScalerLib Model.ScalerFit Model.Eof Gen.T4 Gen.T6lat
  Proofs.C08_proofs Proofs.C08_lat.
From XV Require Model.Pipe Gen.T7pipe Proofs.Pipe_tie.
Import ListNotations.

(* centring on (standardisation off): adding any constant per feature leaves the preprocessed matrix unchanged *)
Theorem C08_shift : forall (n p : nat) (std coslat : bool) (floor : R) (cosw w : nat -> R) (X : list (list R)) (c : nat -> R),
  (0 < n)%nat -> with_std (mkFlags true std coslat) = false ->
  scaler_fit_transform OR n p (mkFlags true false coslat) floor cosw w (shifted n p X c)
  = scaler_fit_transform OR n p (mkFlags true false coslat) floor cosw w X.
Proof. exact shift_invariance. Qed.
Print Assumptions C08_shift.

(* standardisation on: any positive affine rescaling per feature leaves it unchanged, both standard
   deviations staying above the floor at which the code clips *)
Theorem C08_affine : forall (n p : nat) (coslat : bool) (floor : R) (cosw w : nat -> R) (X : list (list R)) (a b : nat -> R),
  (0 < n)%nat -> (forall j, (j < p)%nat -> (0 < a j)%R) ->
  (forall j, (j < p)%nat -> (floor <= sqrt (col_var0 OR n X j) /\ floor <= a j * sqrt (col_var0 OR n X j) /\ 0 < sqrt (col_var0 OR n X j))%R) ->
  scaler_fit_transform OR n p (mkFlags true true coslat) floor cosw w (rescaled n p X a b)
  = scaler_fit_transform OR n p (mkFlags true true coslat) floor cosw w X.
Proof. exact affine_invariance. Qed.
Print Assumptions C08_affine.

(* standardisation off: user weights = fitting the pre-multiplied data *)
Theorem C08_weights_premultiply : forall (n p : nat) (center coslat : bool) (floor : R) (cosw w : nat -> R) (X : list (list R)),
  (0 < n)%nat ->
  scaler_fit_transform OR n p (mkFlags center false coslat) floor cosw w X
  = scaler_fit_transform OR n p (mkFlags center false coslat) floor cosw (fun _ => 1%R) (premult n p X w).
Proof. exact weights_premultiply. Qed.
Print Assumptions C08_weights_premultiply.

(* use_coslat is exactly user weights equal to the coslat weights *)
Theorem C08_coslat_is_weights : forall (n p : nat) (center std : bool) (floor : R) (cosw : nat -> R) (X : list (list R)),
  scaler_fit_transform OR n p (mkFlags center std true) floor cosw (fun _ => 1%R) X
  = scaler_fit_transform OR n p (mkFlags center std false) floor (fun _ => 1%R) cosw X.
Proof. exact coslat_is_weights. Qed.
Print Assumptions C08_coslat_is_weights.

(* latitude-name lookup *)
Theorem C08_lat_name : forall (dims : list string) (d : string), extract_latitude_dimension dims = Some d ->
  In d dims /\ In d valid_latitude_names /\ forall x, In x dims -> In x valid_latitude_names -> x = d.
Proof. exact lat_lookup_some. Qed.
Print Assumptions C08_lat_name.

Theorem C08_lat_name_refused : forall (dims : list string), extract_latitude_dimension dims = None ->
  (forall x, In x dims -> ~ In x valid_latitude_names) \/ (exists x y r, filter accepted dims = x :: y :: r).
Proof. exact lat_lookup_none. Qed.
Print Assumptions C08_lat_name_refused.

(* the lookup does not depend on the order in which the feature dimensions are named *)
Theorem C08_lat_name_order_free : forall (dims dims' : list string), Permutation.Permutation dims dims' ->
  extract_latitude_dimension dims = extract_latitude_dimension dims'.
Proof. exact lat_lookup_perm. Qed.
Print Assumptions C08_lat_name_order_free.

(* global factor c <> 0 (oracle-relative): an admissible answer for X maps to one for c X; scores scale by c,
   singular values by |c|, explained variance by c^2, components unchanged *)
Theorem C08_global_scale_admissible : forall (n p r : nat) (X U : list (list R)) (s : list R) (Vt : list (list R)) (c : R),
  c <> 0%R -> svd_ok OR n p r X (U, s, Vt) ->
  svd_ok OR n p r (scaled n p c X) (mscale OR n r (sgn c) U, vmap OR r (fun x => (Rabs c * x)%R) s, Vt).
Proof. exact svd_ok_scaled. Qed.
Print Assumptions C08_global_scale_admissible.

Theorem C08_global_scale : forall (n p r k : nat) (X U : list (list R)) (s : list R) (Vt : list (list R)) (sgv : list R) (c : R),
  c <> 0%R -> (k <= r)%nat -> (2 <= n)%nat ->
  let o := eof_fit_sg OR n p r k X (U, s, Vt) sgv in
  let o' := eof_fit_sg OR n p r k (scaled n p c X) (mscale OR n r (sgn c) U, vmap OR r (fun x => (Rabs c * x)%R) s, Vt) sgv in
  e_comps o' = e_comps o /\ e_scores o' = mscale OR n k c (e_scores o) /\
  (forall i, (i < k)%nat -> vget OR (e_norms o') i = (Rabs c * vget OR (e_norms o) i)%R) /\
  (forall i, (i < k)%nat -> vget OR (e_expvar o') i = (c * c * vget OR (e_expvar o) i)%R).
Proof. exact eof_fit_scaled. Qed.
Print Assumptions C08_global_scale.

(* cross-set models take the options per field: every stage of the first field is built from position 0 of the
   per-field parameters, every stage of the second field from position 1, and each keyword is fed by the parameter of
   that meaning (constructor wiring regenerated from BaseModelCrossSet.__init__) *)
Theorem C08_cross_options_reach_their_own_field : forallb Pipe_tie.wiring_ok T7pipe.cross_wiring = true.
Proof. exact (proj1 Pipe_tie.cross_wiring_ok). Qed.
Print Assumptions C08_cross_options_reach_their_own_field.
