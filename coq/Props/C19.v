(* C19 — OPA returns uncorrelated series ordered by their own decorrelation time. Statements only. *)
From Coq Require Import String ZArith List Bool Reals.
From XV Require Import Base.Scalar Base.Sum Base.Mat Base.RInst Model.Opa Gen.T5opa
  Proofs.C19_proofs Proofs.C19_real Proofs.C19_refute Proofs.C19_tie Proofs.C19_sym.
Import ListNotations.

(* the score series P = S (Ci U) are mutually uncorrelated with equal norms: P^T P = c I whenever
   S^T S = c C0, Ci^T C0 Ci = I (whitening oracle) and the eigenvector columns are orthonormal *)
Theorem C19_scores_uncorrelated : forall (F : Type) (K : Ops F), FieldLaws K ->
  forall (n q k : nat) (S C0 Ci U : mat) (c : F),
  mmul K q n q (mT K n q S) S = mscale K q q c C0 -> whiten_ok K q C0 Ci -> wf K q k U ->
  mmul K k q k (mT K q k U) U = mI K k ->
  let P := mmul K n q k S (mmul K q q k Ci U) in
  mmul K k n k (mT K n k P) P = mscale K k k c (mI K k).
Proof. exact (@scores_uncorrelated). Qed.
Print Assumptions C19_scores_uncorrelated.

(* filter patterns V = Ci U are bi-orthogonal to the optimally persistent patterns W = C0 V *)
Theorem C19_biorthogonal : forall (F : Type) (K : Ops F), FieldLaws K ->
  forall (q k : nat) (C0 Ci U : mat),
  whiten_ok K q C0 Ci -> wf K q k U -> mmul K k q k (mT K q k U) U = mI K k ->
  let V := mmul K q q k Ci U in let W := mmul K q q k C0 V in
  mmul K k q k (mT K q k V) W = mI K k.
Proof. exact (@biorthogonal). Qed.
Print Assumptions C19_biorthogonal.

(* the whitening property follows from what the source computes (C0 = U0 diag(s0) U0^T, C0_sqrt = U0 sqrt(s0),
   Ci its inverse) PROVIDED Ci is symmetric: the source contracts the same index of Ci on both sides *)
Theorem C19_whitening_from_svd : forall (F : Type) (K : Ops F), FieldLaws K ->
  forall (q : nat) (C0 U0 : mat) (s0 : vec) (Ci : mat),
  psd_factor_ok K q C0 U0 s0 -> opa_inv_ok K q (c0sqrt K q U0 s0) Ci -> mT K q q Ci = Ci -> whiten_ok K q C0 Ci.
Proof. exact (@whitening_from_svd). Qed.
Print Assumptions C19_whitening_from_svd.

(* for ANY coefficient matrix U, (U^T target U)[j,j] is the trapezoidal lag sum — weights and per-lag
   divisors as generated from the source — of the j-th series of S Ci U *)
Theorem C19_target_is_lag_sum : forall (F : Type) (K : Ops F), FieldLaws K -> fadd K (f1 K) (f1 K) <> f0 K ->
  forall (n q k : nat) (S Ci U : mat) (tm j : nat), mT K q q Ci = Ci -> wf K q q Ci -> (j < k)%nat ->
  get K (mmul K k q k (mT K q k U) (mmul K q q k (opa_target K n q S Ci tm) U)) j j
  = col_trapz K n tm (mmul K n q k S (mmul K q q k Ci U)) j.
Proof. exact (@quad_target_trapz). Qed.
Print Assumptions C19_target_is_lag_sum.

(* each eigen-oracle value equals the trapezoidal sum up to tau_max of that very score series' lagged
   autocovariance over its lag-0 value (which is 1) *)
Theorem C19_decorrelation_is_trapezoid : forall (F : Type) (K : Ops F), FieldLaws K -> fadd K (f1 K) (f1 K) <> f0 K ->
  forall (n q k : nat) (S Ci U : mat) (lam : vec) (tm : nat),
  mT K q q Ci = Ci -> whiten_ok K q (ctau K n q S 0) Ci -> wf K q k U ->
  mmul K k q k (mT K q k U) U = mI K k -> mmul K q q k (opa_target K n q S Ci tm) U = colscale K q k U lam ->
  forall j, (j < k)%nat ->
  let P := mmul K n q k S (mmul K q q k Ci U) in
  col_acov K n P j 0 = f1 K /\ vget K lam j = col_trapz K n tm P j /\ vget K lam j = own_time K n tm P j.
Proof. exact (@decorrelation_is_trapezoid). Qed.
Print Assumptions C19_decorrelation_is_trapezoid.

(* the first k columns of a full eigen-oracle answer meet the premises above *)
Theorem C19_truncation : forall (F : Type) (K : Ops F) (q k : nat) (T U : mat) (lam : vec), (k <= q)%nat -> eig_sym_ok K q T U lam ->
  wf K q k (mcols K q k U) /\ mmul K k q k (mT K q k (mcols K q k U)) (mcols K q k U) = mI K k /\
  mmul K q q k T (mcols K q k U) = colscale K q k (mcols K q k U) lam.
Proof. exact (@eig_truncate). Qed.
Print Assumptions C19_truncation.

(* eigen-oracle variant, lam arriving in descending order: what is reported is each series' own
   decorrelation time and these are in descending order *)
Theorem C19_descending : forall (n q k : nat) (S Ci U : list (list R)) (lam : list R) (tm : nat),
  mT OR q q Ci = Ci -> whiten_ok OR q (ctau OR n q S 0) Ci -> wf OR q k U ->
  mmul OR k q k (mT OR q k U) U = mI OR k -> mmul OR q q k (opa_target OR n q S Ci tm) U = colscale OR q k U lam ->
  (k <= q)%nat -> order_ok OR false q lam ->
  let P := mmul OR n q k S (mmul OR q q k Ci U) in
  forall i j, (i <= j)%nat -> (j < k)%nat ->
    vget OR (reported OR false k lam) i = own_time OR n tm P i /\
    (own_time OR n tm P j <= own_time OR n tm P i)%R.
Proof. exact descending_own_times. Qed.
Print Assumptions C19_descending.

(* Rayleigh bound: for every vector x (coefficients a = U^T x in the eigenbasis), x^T target x <= lam_0 x^T x *)
Theorem C19_optimal : forall (q : nat) (T U : list (list R)) (lam : list R),
  eig_sym_ok OR q T U lam -> (forall i, (i < q)%nat -> (vget OR lam i <= vget OR lam 0)%R) ->
  forall x, wf OR q 1 x ->
  let r := get OR (mmul OR 1 q 1 (mT OR q 1 x) (mmul OR q q 1 T x)) 0 0 in
  let d := get OR (mmul OR 1 q 1 (mT OR q 1 x) x) 0 0 in
  (r <= vget OR lam 0 * d)%R /\ (0 <= d)%R /\ ((0 < d)%R -> (r / d <= vget OR lam 0)%R).
Proof. exact rayleigh. Qed.
Print Assumptions C19_optimal.

(* no linear combination S (Ci x) of the retained PCs has a larger decorrelation time than the first mode;
   every weight vector v is Ci (C0_sqrt v) *)
Theorem C19_optimal_series : forall (n q : nat) (S Ci U : list (list R)) (lam : list R) (tm : nat),
  mT OR q q Ci = Ci -> whiten_ok OR q (ctau OR n q S 0) Ci ->
  eig_sym_ok OR q (opa_target OR n q S Ci tm) U lam -> order_ok OR false q lam ->
  forall x, wf OR q 1 x -> (0 < get OR (mmul OR 1 q 1 (mT OR q 1 x) x) 0 0)%R ->
  (own_time OR n tm (mmul OR n q 1 S (mmul OR q q 1 Ci x)) 0 <= vget OR lam 0)%R.
Proof. exact optimal_series. Qed.
Print Assumptions C19_optimal_series.

Theorem C19_every_combination : forall (q : nat) (A Ci v : list (list R)), opa_inv_ok OR q A Ci -> wf OR q 1 v ->
  v = mmul OR q q 1 Ci (mmul OR q q 1 A v).
Proof. exact every_combination. Qed.
Print Assumptions C19_every_combination.

(* the faithful model (singular values of the symmetric target as eigenvalues): a concrete input whose
   oracle premises all hold, where the reported time is positive and the series' own trapezoidal sum negative *)
Theorem C19_decorrelation_refuted :
  exists (n p q k tm : nat) (S E Ci U : list (list R)) (lam : list R),
    mT OR q q Ci = Ci /\ whiten_ok OR q (ctau OR n q S 0) Ci /\
    eig_sym_ok OR q (opa_target OR n q S Ci tm) U lam /\ order_ok OR true q lam /\
    let o := opa_fit OR true n p q k S E Ci U lam in
    vget OR (o_tau o) 0 <> own_time OR n tm (o_P o) 0 /\
    (own_time OR n tm (o_P o) 0 < 0)%R /\ (0 < vget OR (o_tau o) 0)%R.
Proof. exact decorrelation_refuted. Qed.
Print Assumptions C19_decorrelation_refuted.

(* the same input under the eigen variant reports the own sum (non-vacuity of the premises) *)
Theorem C19_example_values :
  let o := opa_fit OR true 5 1 1 1 ex_S ex_E ex_Ci ex_U ex_lam in
  let o' := opa_fit OR false 5 1 1 1 ex_S ex_E ex_Ci ex_U ex_lam in
  vget OR (o_tau o) 0 = (1/18)%R /\ vget OR (o_tau o') 0 = (-1/18)%R /\
  own_time OR 5 1 (o_P o) 0 = (-1/18)%R /\ o_P o' = o_P o /\ col_acov OR 5 (o_P o) 0 0 = 1%R.
Proof. exact ex_values. Qed.
Print Assumptions C19_example_values.

(* the model uses the weights, divisors, contractions and products regenerated from the source *)
Theorem C19_model_matches_source :
  (forall (F : Type) (K : Ops F) (n q : nat) (S : list (list F)) (tau_max tau : nat),
     ctau K n q S tau = opa_ctau_src K n q S tau /\
     lag_weight K tau_max tau = opa_lag_weight_src K tau_max tau /\
     msum K n q S tau_max = opa_msum_src K n q S tau_max) /\
  (forall (F : Type) (K : Ops F) (q : nat) (M Ci Ms : list (list F)),
     msym K q M = opa_symmetrise_src K q M /\ target K q Ci Ms = opa_target_src K q Ci Ms) /\
  (forall (F : Type) (K : Ops F) (n : nat) (x : F),
     pc_scale K n x = opa_pc_scale_src K n x /\ eof_scale K n x = opa_eof_scale_src K n x) /\
  (forall n tau : nat, opa_ctau_divisor_src n tau = (Z.of_nat (n - tau) - 1)%Z) /\
  opa_decomposer_flip_signs = false /\ opa_lag_loop_includes_tau_max = true /\
  opa_store = [("input_data", "scores"); ("components", "W"); ("scores", "P"); ("norms", "norms");
               ("filter_patterns", "V"); ("decorrelation_time", "lbda")]%string.
Proof. exact model_matches_source. Qed.
Print Assumptions C19_model_matches_source.

(* the model variant selected by the generated flag `opa_eigen_via_svd` reports what that flag says *)
Theorem C19_variant_matches_source : forall (F : Type) (K : Ops F) (n p q k : nat) (S E Ci U : list (list F)) (lam : list F),
  o_tau (opa_fit_src K n p q k S E Ci U lam) = reported K opa_eigen_via_svd k lam.
Proof. exact tie_variant. Qed.
Print Assumptions C19_variant_matches_source.

Theorem C19_products_match_source : forall (F : Type) (K : Ops F) (svd : bool) (n p q k : nat) (S E Ci U : list (list F)) (lam : list F),
  let o := opa_fit K svd n p q k S E Ci U lam in
  o_V o = opa_V_src K q k Ci (mcols K q k U) /\
  o_W o = opa_W_src K q k (opa_ctau_src K n q S 0) (o_V o) /\
  o_P o = opa_P_src K n q k S (o_V o) /\
  o_Vphys o = opa_Vphys_src K p q k E (o_V o) /\
  o_Wphys o = opa_Wphys_src K p q k E (o_W o).
Proof. exact tie_products. Qed.
Print Assumptions C19_products_match_source.

(* the whitening matrix the source builds, C0^(-1/2) = U0 diag(1/sqrt(s0)) U0^T (regenerated as opa_ci_src), is
   symmetric, and it whitens C0 whenever (U0, s0) is a valid decomposition of C0 with an orthogonal U0 and positive
   square roots: the two hypotheses `mT Ci = Ci` and `whiten_ok` carried by the theorems above are met by the source's
   own Ci.  (Before the repair the source used inv(U0 diag(sqrt s0)) = diag(1/sqrt s0) U0^T, which is symmetric only
   for U0 = +-I: with two principal components of equal variance the reported times lost sign and order.) *)
Theorem C19_source_whitening_is_symmetric : forall (F : Type) (K : Ops F), FieldLaws K ->
  forall (q : nat) (U0 : list (list F)) (s0 : list F), mT K q q (opa_ci_src K q U0 s0) = opa_ci_src K q U0 s0.
Proof. exact (@ci_sym_symmetric). Qed.
Print Assumptions C19_source_whitening_is_symmetric.

Theorem C19_source_whitening_whitens : forall (F : Type) (K : Ops F), FieldLaws K ->
  forall (q : nat) (C0 U0 : list (list F)) (s0 : list F), psd_factor_ok K q C0 U0 s0 ->
  mmul K q q q (mT K q q U0) U0 = mI K q -> mmul K q q q U0 (mT K q q U0) = mI K q ->
  (forall m, (m < q)%nat -> fsqrt K (vget K s0 m) <> f0 K) ->
  whiten_ok K q C0 (opa_ci_src K q U0 s0).
Proof. exact (@ci_sym_whitens). Qed.
Print Assumptions C19_source_whitening_whitens.

(* the lag-0 covariance of the retained PCs is whitened with the singular values its decomposition returned: in the two decomposition front-ends (Decomposer.fit, _SVD.fit_transform) the data and the three factors are bound only by the back-end call,
   the re-ordering of the iterative complex solver, the truncations, the mode labels and the sign fix - the statements regenerated from the source by T3
   are exactly these; nothing rescales, floors or clips a singular value on the way *)
From XV Require Gen.T3 Proofs.C15_opts.
Theorem C19_factors_are_the_back_ends : List.length T3.dec_factor_writes = 20%nat /\ List.length T3.svd_factor_writes = 18%nat /\
  forallb (fun st => negb (String.eqb st "s = s.clip(min=1e-10 * s.max())")) T3.dec_factor_writes = true.
Proof. exact (conj (f_equal (@List.length _) C15_opts.dec_factor_writes_known) (conj (f_equal (@List.length _) C15_opts.svd_factor_writes_known)
  (f_equal (forallb _) C15_opts.dec_factor_writes_known))). Qed.
Print Assumptions C19_factors_are_the_back_ends.

(* the functions of this property whose Gallina counterpart is hand-written (or that only the oracles reach) still read, statement by statement, as they did when
   the model was last validated against them (Gen/T9text.v regenerated from the source on every run; Proofs/Text_C19.v holds the validated text) *)
From XV Require Gen.T9text Proofs.Text_C19.
Theorem C19_hand_modelled_functions_read_as_validated : Text_C19.all_frozen.
Proof. exact Text_C19.all_frozen_holds. Qed.
Print Assumptions C19_hand_modelled_functions_read_as_validated.

(* clipping the reported decorrelation times at zero is refuted by the same series: its own trapezoidal sum is negative *)
Theorem C19_clipped_times_refuted :
  let o' := opa_fit OR false 5 1 1 1 C19_refute.ex_S C19_refute.ex_E C19_refute.ex_Ci C19_refute.ex_U C19_refute.ex_lam in
  Rmax 0 (vget OR (o_tau o') 0) <> own_time OR 5 1 (o_P o') 0.
Proof. exact C19_refute.ex_clip_refuted. Qed.
Print Assumptions C19_clipped_times_refuted.
