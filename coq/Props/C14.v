(* C14 — a model's answers depend only on its last fit, never on call history. Statements only.
   The state machine (Model/History.v) is generic in what fit computes (fit_view), what a transform
   call records about its own input (bk_of) and how answers are formed from them. *)
From Coq Require Import String List Bool.
From XV Require Import Model.History Gen.T7hist Proofs.C14_proofs Proofs.C14_tie.
From XV Require Import Model.FlagState Gen.T5flag Proofs.FlagState_proofs Proofs.Flag_tie.
From XV Require Model.Mic Gen.T7mic Proofs.Mic_proofs Proofs.Mic_tie Gen.T7inplace.
Import ListNotations.

(* after ANY history h, fitting on d and asking the queries q gives exactly the answers of a fresh
   object fitted on d and asked q (induction over unbounded operation sequences) *)
Theorem C14_history_independent : forall (Data View Bk Query Ans : Type) (fit_view : Data -> View) (bk_of : Data -> Bk)
  (ans_query : View -> Query -> Ans) (ans_transform : View -> Bk -> Data -> Ans) (h q : list (op Data Query)) (d : Data),
  forallb (fun o => negb (is_fit Data Query o)) q = true ->
  let all := snd (run Data View Bk Query Ans fit_view bk_of ans_query ans_transform false (init View Bk) (h ++ OFit Data Query d :: q)) in
  let fresh := snd (run Data View Bk Query Ans fit_view bk_of ans_query ans_transform false (init View Bk) (OFit Data Query d :: q)) in
  skipn (length h + 1) all = skipn 1 fresh.
Proof. exact history_independent. Qed.
Print Assumptions C14_history_independent.

(* no sequence of queries, transforms of other data, inverse transforms, compute or serialize calls
   changes any later answer *)
Theorem C14_queries_pure : forall (Data View Bk Query Ans : Type) (fit_view : Data -> View) (bk_of : Data -> Bk)
  (ans_query : View -> Query -> Ans) (ans_transform : View -> Bk -> Data -> Ans) (mid q : list (op Data Query)) (s : state View Bk),
  forallb (fun o => negb (is_fit Data Query o)) mid = true -> forallb (fun o => negb (is_fit Data Query o)) q = true ->
  snd (run Data View Bk Query Ans fit_view bk_of ans_query ans_transform false
         (fst (run Data View Bk Query Ans fit_view bk_of ans_query ans_transform false s mid)) q)
  = snd (run Data View Bk Query Ans fit_view bk_of ans_query ans_transform false s q).
Proof. exact queries_pure. Qed.
Print Assumptions C14_queries_pure.

Theorem C14_fit_overwrites : forall (Data View Bk Query Ans : Type) (fit_view : Data -> View) (bk_of : Data -> Bk)
  (ans_query : View -> Query -> Ans) (ans_transform : View -> Bk -> Data -> Ans) (s : state View Bk) (d : Data),
  st_views View Bk (fst (step Data View Bk Query Ans fit_view bk_of ans_query ans_transform false s (OFit Data Query d))) = [fit_view d].
Proof. exact fit_overwrites. Qed.
Print Assumptions C14_fit_overwrites.

(* the defect variant (fit appends; later calls pair data with the first stored transformers): a refit is ignored *)
Theorem C14_refit_refuted_when_appending :
  let run' := run nat nat unit unit nat (fun d => d) (fun _ => tt) (fun v _ => v) (fun v _ _ => v) in
  snd (run' true (init nat unit) [OFit nat unit 1; OFit nat unit 2; OQuery nat unit tt]) <>
  snd (run' true (init nat unit) [OFit nat unit 2; OQuery nat unit tt]) /\
  snd (run' true (init nat unit) [OFit nat unit 1; OFit nat unit 2; OQuery nat unit tt]) = [None; None; Some 1].
Proof. exact refit_refuted_when_appending. Qed.
Print Assumptions C14_refit_refuted_when_appending.

(* ties to the source, regenerated on every run: the source is the rebuilding variant; non-fit methods of
   the transformers write only bookkeeping of the transform call; fitted-data accessors never read it;
   containers copy an array before renaming it (a rotator or bootstrapper cannot rename the model's arrays) *)
Theorem C14_source_is_rebuilding_variant : negb list_fit_resets_transformers = false /\ container_add_copies_before_renaming = true.
Proof. exact source_variant. Qed.
Print Assumptions C14_source_is_rebuilding_variant.

Theorem C14_nonfit_methods_write_only_bookkeeping : nonfit_writes_ok = true.
Proof. exact nonfit_methods_write_only_bookkeeping. Qed.
Print Assumptions C14_nonfit_methods_write_only_bookkeeping.

Theorem C14_fitted_accessors_ignore_bookkeeping : bookkeeping_not_read = true.
Proof. exact fitted_accessors_ignore_bookkeeping. Qed.
Print Assumptions C14_fitted_accessors_ignore_bookkeeping.

Theorem C14_fit_rebuilds_transformers : list_fit_resets_transformers = true /\ list_fit_instantiates_fresh_transformers = true.
Proof. exact list_fit_rebuilds. Qed.
Print Assumptions C14_fit_rebuilds_transformers.

(* MultiIndexConverter (parameters regenerated from the source, Gen/T7mic.v): after ANY history h, a fit on X0
   and any further transform / inverse calls q, labels restored on the fit path (scores, components, data)
   are those a fresh converter fitted on X0 restores - transforms of other data never leak into them *)
Theorem C14_multiindex_fit_labels_depend_on_last_fit : forall (h q : list Mic.op) (X0 Y : Mic.data), NoDup (map fst X0) ->
  forallb (fun o => negb (Mic_proofs.is_fit o)) q = true ->
  Mic.inverse T7mic.src_params (fst (Mic.run T7mic.src_params (fst (Mic.run T7mic.src_params Mic.init (h ++ [Mic.OFit X0]))) q)) Mic.RefFit Y =
  Mic.inverse T7mic.src_params (Mic.fit T7mic.src_params Mic.init X0) Mic.RefFit Y.
Proof. exact Mic_proofs.fit_labels_depend_on_last_fit. Qed.
Print Assumptions C14_multiindex_fit_labels_depend_on_last_fit.

(* the two dictionaries are distinct objects: with one dict for both, a later transform overwrites the fit labels *)
Theorem C14_multiindex_aliased_refuted :
  let p := Mic.mkP true Mic.StoreAlways Mic.TakeWhenShorter in
  snd (Mic.run p Mic.init [Mic.OFit Mic_proofs.X0; Mic.OTransform Mic_proofs.X1;
                           Mic.OInverse Mic.RefFit [(0, Mic.Plain [0; 1; 2]); (1, Mic.Plain [0; 1])]]) =
  [None; Some [(0, Mic.Plain [0; 1; 2]); (1, Mic.Plain [0; 1])]; Some Mic_proofs.X1].
Proof. exact Mic_proofs.aliased_refuted. Qed.
Print Assumptions C14_multiindex_aliased_refuted.

(* no in-place arithmetic on stored or user arrays: the augmented assignments of the package are exactly the known
   sites acting on fresh local values (table regenerated from the source by T7inplace) *)
Theorem C14_no_inplace_arithmetic_on_stored_arrays : List.length T7inplace.inplace_sites = 14%nat /\
  forallb C14_tie.not_in_fit_algorithm T7inplace.inplace_sites = true.
Proof. exact (conj (f_equal (@List.length _) C14_tie.inplace_sites_known) (f_equal (forallb _) C14_tie.inplace_sites_known)). Qed.
Print Assumptions C14_no_inplace_arithmetic_on_stored_arrays.

(* the `sorted` flags that _sort_by_variance sets are reset by every _fit_algorithm (effects table regenerated from the source) *)
Theorem C14_postfit_flags_reset_by_fit : forallb C14_tie.flag_reset_by_fit C14_tie.postfit_flags = true.
Proof. exact C14_tie.postfit_flags_reset_by_fit. Qed.
Print Assumptions C14_postfit_flags_reset_by_fit.

(* no method outside the fit family keeps a cache or any other state a later answer could inherit: the complete list of
   such writers, over every class in the effects table, is the known bookkeeping *)
Theorem C14_no_state_outside_fit : List.length C14_tie.nonfit_writers = 10%nat /\
  forallb C14_tie.writer_method_known C14_tie.nonfit_writers = true.
Proof. exact (conj (f_equal (@List.length _) C14_tie.nonfit_writers_known) (f_equal (forallb _) C14_tie.nonfit_writers_known)). Qed.
Print Assumptions C14_no_state_outside_fit.

(* the `sorted` flag of rotators and POP is the only model state a non-fit method changes (C14_nonfit_writers_known);
   as a state machine (Model/FlagState.v, variant regenerated from the source): a fit after ANY history leaves the state
   a first fit leaves, and every reachable state stores the last fit's arrays, sorted exactly when the flag says so *)
Theorem C14_fit_forgets_flag_history : forall (A : Type) (sortA : list nat -> A -> A) (ops : list (fop A)) (s : fstate A) (d : A) (idx : list nat),
  fstep A sortA true true (frun A sortA true true s ops) (FFit A d idx) = finit A d idx.
Proof. exact fit_forgets_history. Qed.
Print Assumptions C14_fit_forgets_flag_history.

Theorem C14_flag_invariant : forall (A : Type) (sortA : list nat -> A -> A) (ops : list (fop A)) (s : fstate A),
  FlagInv A sortA s -> FlagInv A sortA (frun A sortA true true s ops).
Proof. exact frun_inv. Qed.
Print Assumptions C14_flag_invariant.

Theorem C14_flag_writes_in_source : flag_writes =
  [("EOFRotator", "__init__", true, false); ("EOFRotator", "_fit_algorithm", true, false); ("EOFRotator", "_sort_by_variance", true, true);
   ("CPCCARotator", "__init__", true, false); ("CPCCARotator", "_fit_algorithm", true, false); ("CPCCARotator", "_sort_by_variance", true, true);
   ("POP", "__init__", true, false); ("POP", "_fit_algorithm", true, false); ("POP", "_sort_by_variance", true, true)]%string.
Proof. exact flag_writes_known. Qed.
Print Assumptions C14_flag_writes_in_source.

(* the functions of this property whose Gallina counterpart is hand-written (or that only the oracles reach) still read, statement by statement, as they did when
   the model was last validated against them (Gen/T9text.v regenerated from the source on every run; Proofs/Text_C14.v holds the validated text) *)
From XV Require Gen.T9text Proofs.Text_C14.
Theorem C14_hand_modelled_functions_read_as_validated : Text_C14.all_frozen.
Proof. exact Text_C14.all_frozen_holds. Qed.
Print Assumptions C14_hand_modelled_functions_read_as_validated.
