(* C09 — cross-set models diagonalise the (partially whitened) cross-covariance. Statements only. *)
From Coq Require Import String ZArith List Bool Reals.
From XV Require Import Base.Scalar Base.Sum Base.Mat Base.RInst Model.Eof Model.Cpcca Gen.T5cpcca
  Proofs.C01_proofs Proofs.C08_proofs Proofs.C09_proofs Proofs.C09_real Proofs.C09_tie.
From XV Require Gen.T7chain Proofs.Chain_tie.
Import ListNotations.

(* S1^H S2 / (n-1) = diag(sigma_k): the two score sets have a diagonal cross-covariance whose diagonal is
   the reported singular values (any field with conjugation, any shapes, any k <= r) *)
Theorem C09_score_crosscov_diag : forall (F : Type) (K : Ops F), FieldLaws K ->
  forall (n p1 p2 r k : nat) (X Y U Vt : mat) (s sg : vec),
  svd_ok K p1 p2 r (cross_cov K n p1 p2 X Y) (U, s, Vt) -> (k <= r)%nat -> sign_vec K k sg ->
  let out := cpcca_fit_sg K n p1 p2 r k X Y (U, s, Vt) sg in
  mscale K k k (finv K (fofZ K (Z.of_nat n - 1))) (mmul K k n k (mH K n k (cp_S1 out)) (cp_S2 out))
  = mdiag K k (vfirstn K k s).
Proof. exact (@score_crosscov_diag). Qed.
Print Assumptions C09_score_crosscov_diag.

(* the singular vectors of each field are orthonormal (for MCA these are the components) *)
Theorem C09_mca_orthonormal : forall (F : Type) (K : Ops F), FieldLaws K ->
  forall (n p1 p2 r k : nat) (X Y U Vt : mat) (s sg : vec),
  svd_ok K p1 p2 r (cross_cov K n p1 p2 X Y) (U, s, Vt) -> (k <= r)%nat -> sign_vec K k sg ->
  let out := cpcca_fit_sg K n p1 p2 r k X Y (U, s, Vt) sg in
  mmul K k p1 k (mH K p1 k (cp_Q1 out)) (cp_Q1 out) = mI K k /\
  mmul K k p2 k (mH K p2 k (cp_Q2 out)) (cp_Q2 out) = mI K k.
Proof. exact (@Q12_orthonormal). Qed.
Print Assumptions C09_mca_orthonormal.

(* the squared singular values of all modes sum to the squared Frobenius norm of the cross-covariance:
   squared covariance fractions sigma_i^2 / ||C||_F^2 sum to one at full rank *)
Theorem C09_scf_sum_one : forall (F : Type) (K : Ops F), FieldLaws K ->
  forall (n p1 p2 r : nat) (X Y U Vt : mat) (s : vec),
  svd_ok K p1 p2 r (cross_cov K n p1 p2 X Y) (U, s, Vt) ->
  frob2 K p1 p2 (cross_cov K n p1 p2 X Y) = sum K r (fun i => fmul K (vget K s i) (vget K s i)).
Proof. exact (@scf_total). Qed.
Print Assumptions C09_scf_sum_one.

(* proportionality: rescaling the whitened fields by factors f1, f2 (what a change of the whitening
   normalisation from N to N-1 does: f = ((n-1)/n)^((alpha-1)/2)) rescales the cross-covariance by
   c = f1 f2; admissible SVD answers map to admissible answers with singular values |c| sigma *)
Theorem C09_proportional : forall (n p r : nat) (Cm U : list (list R)) (s : list R) (Vt : list (list R)) (c : R),
  c <> 0%R -> svd_ok OR n p r Cm (U, s, Vt) ->
  svd_ok OR n p r (scaled n p c Cm) (mscale OR n r (sgn c) U, vmap OR r (fun x => (Rabs c * x)%R) s, Vt).
Proof. exact svd_ok_scaled. Qed.
Print Assumptions C09_proportional.

(* every reported correlation is a genuine correlation when covariance and standard deviations share
   their divisor — which the regenerated constants say they do *)
Theorem C09_corr_bounds : forall (n : nat) (dd : Z) (x y : nat -> R),
  (0 < dotR n x x)%R -> (0 < dotR n y y)%R -> (0 < IZR (Z.of_nat n - dd))%R ->
  (-1 <= corr_model n dd dd x y <= 1)%R.
Proof. exact corr_bounds. Qed.
Print Assumptions C09_corr_bounds.

Theorem C09_self_corr_one : forall (n : nat) (dd : Z) (x : nat -> R),
  (0 < dotR n x x)%R -> (0 < IZR (Z.of_nat n - dd))%R -> corr_model n dd dd x x = 1%R.
Proof. exact self_corr_one. Qed.
Print Assumptions C09_self_corr_one.

Theorem C09_consistent_normalisation : cpcca_std_ddof = cpcca_cov_ddof /\ cpcca_cov_ddof = 1%Z /\ cpcca_totvar_ddof = 1%Z.
Proof. exact tie_consistent_normalisation. Qed.
Print Assumptions C09_consistent_normalisation.

(* what the mixed convention (covariance N-1, standard deviation N) reports instead: n/(n-1) *)
Theorem C09_self_corr_mixed_convention : forall (n : nat) (x : nat -> R), (2 <= n)%nat -> (0 < dotR n x x)%R ->
  corr_model n 1 0 x x = (IZR (Z.of_nat n) / IZR (Z.of_nat n - 1))%R.
Proof. exact self_corr_mixed. Qed.
Print Assumptions C09_self_corr_mixed_convention.

Theorem C09_model_matches_source :
  cpcca_scores_are_data_times_singular_vectors = true /\ cpcca_transform_conj = false /\
  cpcca_inverse_conj_components = true /\ cpcca_sample_count_checked = true.
Proof. exact tie_cpcca_core. Qed.
Print Assumptions C09_model_matches_source.

(* order of the stages of a cross-set fit as it stands in the source: augmentation (analytic signal of the Hilbert variants) before the
   whitening, so that the whitening degree acts on the covariance of the signal that is decomposed *)
Theorem C09_whitening_follows_the_augmentation :
  map (fun c => snd (fst (fst c))) T7chain.cross_fit_calls =
  ["preprocessor1"; "preprocessor2"; "pca1"; "pca2"; "_augment_data"; "whitener1"; "whitener2"; "_fit_algorithm"]%string.
Proof. exact Chain_tie.cross_fit_stage_order. Qed.
Print Assumptions C09_whitening_follows_the_augmentation.

(* the squared covariance fraction AS THE SOURCE COMPUTES IT - one minus the squared Frobenius norm of the cross-covariance of the residuals
   that mode i leaves in the two fields, over the total squared covariance (Model/Cpcca.v: scf_src, run against squared_covariance_fraction()
   by the correspondence) - is sigma_i^2 / ||C||_F^2 for every mode of a fitted model with identity whitening (MCA): any field with
   conjugation, any shapes, any number of modes *)
From XV Require Proofs.C09_scf.
Theorem C09_scf_of_the_source_is_sigma2_over_total : forall (F : Type) (K : Ops F), FieldLaws K ->
  forall (n p1 p2 r k : nat) (X Y U Vt : mat) (s sg : vec),
  svd_ok K p1 p2 r (cross_cov K n p1 p2 X Y) (U, s, Vt) -> (k <= r)%nat -> sign_vec K k sg -> wf K n p1 X -> wf K n p2 Y ->
  forall i, (i < k)%nat ->
  let out := cpcca_fit_sg K n p1 p2 r k X Y (U, s, Vt) sg in
  let ui := col K p1 i (cp_Q1 out) in let vi := col K p2 i (cp_Q2 out) in
  resid_sqcov K n p1 p2 X Y ui vi = fsub K (frob2 K p1 p2 (cross_cov K n p1 p2 X Y)) (fmul K (vget K s i) (vget K s i)) /\
  (frob2 K p1 p2 (cross_cov K n p1 p2 X Y) <> f0 K ->
   scf_src K n p1 p2 X Y ui vi (cp_tsc out) = fdiv K (fmul K (vget K s i) (vget K s i)) (frob2 K p1 p2 (cross_cov K n p1 p2 X Y))).
Proof. exact (@C09_scf.scf_of_fitted_mode). Qed.
Print Assumptions C09_scf_of_the_source_is_sigma2_over_total.

(* the score sets of a cross-set model stay its own after a rotator was fitted on it: nothing in the package writes into another object's arrays in place (every augmented assignment of the package, regenerated from the source by T7inplace, is one of the 14 known sites acting on fresh local
   values of the numerical kernels) *)
From XV Require Gen.T7inplace Proofs.C14_tie.
Theorem C09_no_inplace_arithmetic_on_stored_arrays : List.length T7inplace.inplace_sites = 14%nat /\
  forallb C14_tie.not_in_fit_algorithm T7inplace.inplace_sites = true.
Proof. exact (conj (f_equal (@List.length _) C14_tie.inplace_sites_known) (f_equal (forallb _) C14_tie.inplace_sites_known)). Qed.
Print Assumptions C09_no_inplace_arithmetic_on_stored_arrays.

(* the residual formula of squared_covariance_fraction() stands in the source as Model/Cpcca.v states it (matched statement by statement by T5cpcca),
   with the same N-1 divisor as the cross-covariance itself *)
Theorem C09_scf_formula_matches_source : scf_residual_formula_is_model = true /\ scf_resid_ddof = cpcca_cov_ddof /\ fve_residual_formula_is_model = true.
Proof. exact (conj eq_refl (conj eq_refl eq_refl)). Qed.
Print Assumptions C09_scf_formula_matches_source.

(* the variance a field's own mode explains, as fraction_variance_X_explained_by_X / _Y_explained_by_Y compute it for a centred field with identity
   whitening (one minus the squared norm of the residual X - (X u) u^H over the squared norm of X), is ||X u||^2 / ||X||^2 for EVERY unit vector u:
   a ratio of two sums of squares, the numerator the smaller one *)
Theorem C09_fve_of_the_source_is_score_norm_over_total : forall (F : Type) (K : Ops F), FieldLaws K ->
  forall (n p : nat) (X u : mat), wf K n p X -> wf K p 1 u -> mmul K 1 p 1 (mH K p 1 u) u = mI K 1 ->
  frob2 K n p (mode_resid K n p X u) = fsub K (frob2 K n p X) (frob2 K n 1 (mode_scores K n p X u)) /\
  (frob2 K n p X <> f0 K -> fve_src K n p X u = fdiv K (frob2 K n 1 (mode_scores K n p X u)) (frob2 K n p X)).
Proof. exact (fun F K FL n p X u WX Wu Hu => conj (@C09_scf.resid_frob2 F K FL n p X u WX Wu Hu) (@C09_scf.fve_src_is_score_norm_over_total F K FL n p X u WX Wu Hu)). Qed.
Print Assumptions C09_fve_of_the_source_is_score_norm_over_total.

(* ... and over the reals that fraction lies in [0, 1] for every non-zero field and every unit component vector *)
From XV Require Proofs.C09_fve_real.
Theorem C09_fve_in_unit_interval : forall (n p : nat) (X u : list (list R)), wf OR n p X -> wf OR p 1 u ->
  mmul OR 1 p 1 (mH OR p 1 u) u = mI OR 1 -> (0 < frob2 OR n p X)%R -> (0 <= fve_src OR n p X u <= 1)%R.
Proof. exact C09_fve_real.fve_in_unit_interval. Qed.
Print Assumptions C09_fve_in_unit_interval.

(* the functions of this property whose Gallina counterpart is hand-written (or that only the oracles reach) still read, statement by statement, as they did when
   the model was last validated against them (Gen/T9text.v regenerated from the source on every run; Proofs/Text_C09.v holds the validated text) *)
From XV Require Gen.T9text Proofs.Text_C09.
Theorem C09_hand_modelled_functions_read_as_validated : Text_C09.all_frozen.
Proof. exact Text_C09.all_frozen_holds. Qed.
Print Assumptions C09_hand_modelled_functions_read_as_validated.
