(* C07 — results do not depend on how the same data is laid out. Statements only.
   Oracle-relative: every admissible SVD answer for X maps to an admissible answer for the
   re-laid-out matrix, and the model outputs computed from them are related as stated.
   (Uniqueness of the decomposition for simple spectra is not proved: partial in that sense.) *)
From Coq Require Import ZArith List Bool Permutation Reals.
From XV Require Import Base.Scalar Base.Mat Base.RInst Model.Eof Proofs.C07_proofs.
Import ListNotations.

Theorem C07_col_perm_admissible : forall (F : Type) (K : Ops F), FieldLaws K ->
  forall (n p r : nat) (X U : mat) (s : vec) (Vt : mat) (pi : list nat), is_perm p pi ->
  svd_ok K n p r X (U, s, Vt) -> svd_ok K n p r (msel_cols K n pi X) (U, s, msel_cols K r pi Vt).
Proof. exact (@svd_ok_col_perm). Qed.
Print Assumptions C07_col_perm_admissible.

Theorem C07_row_perm_admissible : forall (F : Type) (K : Ops F), FieldLaws K ->
  forall (n p r : nat) (X U : mat) (s : vec) (Vt : mat) (sg : list nat), is_perm n sg ->
  svd_ok K n p r X (U, s, Vt) -> svd_ok K n p r (msel_rows K p sg X) (msel_rows K r sg U, s, Vt).
Proof. exact (@svd_ok_row_perm). Qed.
Print Assumptions C07_row_perm_admissible.

(* feature permutation: scores, norms, explained variances unchanged; components permuted with the features *)
Theorem C07_col_perm : forall (F : Type) (K : Ops F) (n p r k : nat) (X U : mat) (s : vec) (Vt : mat) (sgn : vec) (pi : list nat),
  is_perm p pi -> (k <= r)%nat ->
  let o := eof_fit_sg K n p r k X (U, s, Vt) sgn in
  let o' := eof_fit_sg K n p r k (msel_cols K n pi X) (U, s, msel_cols K r pi Vt) sgn in
  e_scores o' = e_scores o /\ e_norms o' = e_norms o /\ e_expvar o' = e_expvar o /\
  e_comps o' = msel_rows K k pi (e_comps o).
Proof. exact (@eof_fit_col_perm). Qed.
Print Assumptions C07_col_perm.

(* sample permutation: scores permuted identically, nothing else changes *)
Theorem C07_row_perm : forall (F : Type) (K : Ops F) (n p r k : nat) (X U : mat) (s : vec) (Vt : mat) (sgn : vec) (sg : list nat),
  is_perm n sg -> (k <= r)%nat ->
  let o := eof_fit_sg K n p r k X (U, s, Vt) sgn in
  let o' := eof_fit_sg K n p r k (msel_rows K p sg X) (msel_rows K r sg U, s, Vt) sgn in
  e_scores o' = msel_rows K k sg (e_scores o) /\ e_norms o' = e_norms o /\ e_expvar o' = e_expvar o /\ e_comps o' = e_comps o.
Proof. exact (@eof_fit_row_perm). Qed.
Print Assumptions C07_row_perm.

(* the deterministic sign depends on a row of Vt only through its maximum and minimum, which are
   permutation invariant: the same signs are chosen for the permuted features (real data) *)
Theorem C07_sign_rule_perm : forall (l1 l2 : list R), l1 <> [] -> Permutation l1 l2 ->
  sign_rule OR (vmax OR l1) (vmin OR l1) = sign_rule OR (vmax OR l2) (vmin OR l2).
Proof. exact sign_rule_perm. Qed.
Print Assumptions C07_sign_rule_perm.
