(* C07 — results do not depend on how the same data is laid out. Statements only.
   Oracle-relative: every admissible SVD answer for X maps to an admissible answer for the
   re-laid-out matrix, and the model outputs computed from them are related as stated.
   (Uniqueness of the decomposition for simple spectra is not proved: partial in that sense.) *)
From Coq Require Import ZArith List Bool Permutation Reals.
From XV Require Import Base.Scalar Base.Mat Base.RInst Model.Eof Proofs.C07_proofs.
From XV Require Model.Pipe Gen.T7pipe Proofs.Pipe_proofs Proofs.Pipe_tie.
Import ListNotations.

Theorem C07_col_perm_admissible : forall (F : Type) (K : Ops F), FieldLaws K ->
  forall (n p r : nat) (X U : mat) (s : vec) (Vt : mat) (pi : list nat), is_perm p pi ->
  svd_ok K n p r X (U, s, Vt) -> svd_ok K n p r (msel_cols K n pi X) (U, s, msel_cols K r pi Vt).
Proof. exact (@svd_ok_col_perm). Qed.
Print Assumptions C07_col_perm_admissible.

Theorem C07_row_perm_admissible : forall (F : Type) (K : Ops F), FieldLaws K ->
  forall (n p r : nat) (X U : mat) (s : vec) (Vt : mat) (sg : list nat), is_perm n sg ->
  svd_ok K n p r X (U, s, Vt) -> svd_ok K n p r (msel_rows K p sg X) (msel_rows K r sg U, s, Vt).
Proof. exact (@svd_ok_row_perm). Qed.
Print Assumptions C07_row_perm_admissible.

(* feature permutation: scores, norms, explained variances unchanged; components permuted with the features *)
Theorem C07_col_perm : forall (F : Type) (K : Ops F) (n p r k : nat) (X U : mat) (s : vec) (Vt : mat) (sgn : vec) (pi : list nat),
  is_perm p pi -> (k <= r)%nat ->
  let o := eof_fit_sg K n p r k X (U, s, Vt) sgn in
  let o' := eof_fit_sg K n p r k (msel_cols K n pi X) (U, s, msel_cols K r pi Vt) sgn in
  e_scores o' = e_scores o /\ e_norms o' = e_norms o /\ e_expvar o' = e_expvar o /\
  e_comps o' = msel_rows K k pi (e_comps o).
Proof. exact (@eof_fit_col_perm). Qed.
Print Assumptions C07_col_perm.

(* sample permutation: scores permuted identically, nothing else changes *)
Theorem C07_row_perm : forall (F : Type) (K : Ops F) (n p r k : nat) (X U : mat) (s : vec) (Vt : mat) (sgn : vec) (sg : list nat),
  is_perm n sg -> (k <= r)%nat ->
  let o := eof_fit_sg K n p r k X (U, s, Vt) sgn in
  let o' := eof_fit_sg K n p r k (msel_rows K p sg X) (msel_rows K r sg U, s, Vt) sgn in
  e_scores o' = msel_rows K k sg (e_scores o) /\ e_norms o' = e_norms o /\ e_expvar o' = e_expvar o /\ e_comps o' = e_comps o.
Proof. exact (@eof_fit_row_perm). Qed.
Print Assumptions C07_row_perm.

(* the deterministic sign depends on a row of Vt only through its maximum and minimum, which are
   permutation invariant: the same signs are chosen for the permuted features (real data) *)
Theorem C07_sign_rule_perm : forall (l1 l2 : list R), l1 <> [] -> Permutation l1 l2 ->
  sign_rule OR (vmax OR l1) (vmin OR l1) = sign_rule OR (vmax OR l2) (vmin OR l2).
Proof. exact sign_rule_perm. Qed.
Print Assumptions C07_sign_rule_perm.

(* the renaming stage (numbering rule regenerated from the source): the i-th sample dimension named by the user gets
   the number start + i whatever the dimension order of the item, so all items of a list agree on the names of the
   shared sample dimensions and are stacked in the same sample order *)
Theorem C07_items_agree_on_sample_names : forall (start : nat) (sample x1 x2 : list nat), NoDup sample ->
  Pipe.names_after (Pipe.dim_mapping T7pipe.renamer_rule start sample x1) sample =
  Pipe.names_after (Pipe.dim_mapping T7pipe.renamer_rule start sample x2) sample.
Proof. exact Pipe_proofs.items_agree_on_sample_names. Qed.
Print Assumptions C07_items_agree_on_sample_names.

Theorem C07_sample_names_in_user_order : forall (start : nat) (sample xdims : list nat), NoDup sample ->
  Pipe.names_after (Pipe.dim_mapping T7pipe.renamer_rule start sample xdims) sample = map Some (seq start (length sample)).
Proof. exact Pipe_proofs.sample_names_in_user_order. Qed.
Print Assumptions C07_sample_names_in_user_order.

(* numbering by the item's own dimension order instead: two items laid out differently disagree *)
Theorem C07_numbering_by_data_order_refuted :
  Pipe.names_after (Pipe.dim_mapping Pipe.ByData 0 [0; 1]%nat [0; 1; 2]%nat) [0; 1]%nat = [Some 0; Some 1]%nat /\
  Pipe.names_after (Pipe.dim_mapping Pipe.ByData 0 [0; 1]%nat [1; 0; 3]%nat) [0; 1]%nat = [Some 1; Some 0]%nat.
Proof. exact Pipe_proofs.by_data_order_refuted. Qed.
Print Assumptions C07_numbering_by_data_order_refuted.
