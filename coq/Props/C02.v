(* C02 — outputs keep the input's structure and attach every value to its own label.
   Index-level statements (any number of dimensions, any sizes, any dimension order). *)
From Coq Require Import ZArith List Bool Permutation.
From XV Require Import Base.Scalar Base.Mat Model.NdArr Proofs.C02_proofs.
From XV Require Model.Pipe Model.Concat Gen.T7pipe Proofs.Pipe_proofs Proofs.Pipe_tie Proofs.Concat_proofs Gen.T7chain Proofs.Chain_tie.
Import ListNotations.

Theorem C02_unflatten_flatten : forall (sh : shape) (idx : list nat), inb sh idx -> unflatten sh (flatten sh idx) = idx.
Proof. exact unflatten_flatten. Qed.
Print Assumptions C02_unflatten_flatten.

Theorem C02_flatten_unflatten : forall (sh : shape) (j : nat),
  Forall (fun s => 0 < s) sh -> j < size sh -> flatten sh (unflatten sh j) = j /\ inb sh (unflatten sh j).
Proof. exact flatten_unflatten_inb. Qed.
Print Assumptions C02_flatten_unflatten.

(* stacking along any permutation of the dimensions (ns sample dimensions first) and unstacking
   returns, at every in-range multi-index, the value the input holds there *)
Theorem C02_roundtrip_data : forall (F : Type) (K : Ops F) (A : nd) (order : list nat) (ns : nat) (idx : list nat),
  Permutation order (seq 0 (length (nd_shape A))) -> inb (nd_shape A) idx ->
  unstack_get K (stack2d K A order ns) (nd_shape A) order ns idx = nd_get K A idx.
Proof. exact (@stack_unstack). Qed.
Print Assumptions C02_roundtrip_data.

(* list / Dataset inputs: concatenating the per-item feature blocks and splitting by the recorded
   sizes gives back every block, for any number of items and any sizes *)
Theorem C02_list_split : forall (F : Type) (K : Ops F) (n : nat) (blocks : list (nat * list (list F))),
  Forall (fun b => wf K n (fst b) (snd b)) blocks ->
  hsplit K n (map fst blocks) 0 (hcat K n blocks) = map snd blocks.
Proof. exact (@hsplit_hcat). Qed.
Print Assumptions C02_list_split.

(* the preprocessing chain (Scaler, DimensionRenamer, MultiIndexConverter, Stacker, MultiIndexConverter, Sanitizer,
   Concatenator) applied forwards and undone backwards is the identity whenever every stage is undone on the domain
   it receives; any number of stages *)
Theorem C02_chain_roundtrip : forall (D : Type) (P : nat -> D -> Prop) (l : list (Pipe.stage D)) (o : nat),
  (forall i s x, nth_error l i = Some s -> P (o + i) x -> P (o + S i) (Pipe.fwd D s x) /\ Pipe.bwd D s (Pipe.fwd D s x) = x) ->
  forall x, P o x -> Pipe.run_bwd D true l (Pipe.run_fwd D l x) = x.
Proof. exact Pipe_proofs.chain_roundtrip_on. Qed.
Print Assumptions C02_chain_roundtrip.

(* source tie (Gen/T7pipe.v): the stages are fitted in the declared order, transform walks them forwards, and every
   inverse walks them backwards calling its own counterpart on each stage *)
Theorem C02_chain_orders_in_source : T7pipe.fitted_order = T7pipe.declared_order /\ forallb Pipe_tie.loop_ok T7pipe.loops = true.
Proof. exact (conj Pipe_tie.fitted_in_declared_order (proj1 Pipe_tie.loops_as_expected)). Qed.
Print Assumptions C02_chain_orders_in_source.

(* the renaming stage is undone exactly, whatever the dimension order of the item *)
Theorem C02_rename_roundtrip : forall (start : nat) (sample xdims : list nat), incl sample xdims ->
  let m := Pipe.dim_mapping T7pipe.renamer_rule start sample xdims in Pipe.unrename m (Pipe.rename m xdims) = xdims.
Proof. exact (Pipe_proofs.rename_roundtrip T7pipe.renamer_rule). Qed.
Print Assumptions C02_rename_roundtrip.

(* the Concatenator (walking rule regenerated from the source): joining the items of a list along the feature axis
   and cutting them back returns every item with its own labels and values, for any number of items of any sizes *)
Theorem C02_concatenator_roundtrip : forall items : list Concat.item,
  Concat.split T7pipe.concat_rule (Concat.coords_in items) (Concat.concat_values items) = Some items.
Proof. exact Concat_proofs.split_concat. Qed.
Print Assumptions C02_concatenator_roundtrip.

(* walking the string keys "0","1","10","11","2",... in sorted order instead gives item 2 the labels of item 10 *)
Theorem C02_concatenator_sorted_keys_refuted :
  Concat.split Concat.SortedKeys (Concat.coords_in Concat_proofs.eleven) (Concat.concat_values Concat_proofs.eleven) <> Some Concat_proofs.eleven.
Proof. exact (proj1 Concat_proofs.sorted_keys_refuted). Qed.
Print Assumptions C02_concatenator_sorted_keys_refuted.

(* every method of every model class that carries a result back to the user's structure takes the inverse path its name stands for
   (39 call sites regenerated from single/, cross/, multi/, validation/ on every run): fitted scores, amplitudes and phases the fit path,
   results for new data the path of new data, patterns the component path, reconstructions the data path *)
Theorem C02_accessors_take_their_own_way_back :
  forallb Chain_tie.accessor_row_ok T7chain.accessor_back_table = true /\ List.length T7chain.accessor_back_table = 39.
Proof. exact Chain_tie.accessor_back_paths. Qed.
Print Assumptions C02_accessors_take_their_own_way_back.

(* the functions of this property whose Gallina counterpart is hand-written (or that only the oracles reach) still read, statement by statement, as they did when
   the model was last validated against them (Gen/T9text.v regenerated from the source on every run; Proofs/Text_C02.v holds the validated text) *)
From XV Require Gen.T9text Proofs.Text_C02.
Theorem C02_hand_modelled_functions_read_as_validated : Text_C02.all_frozen.
Proof. exact Text_C02.all_frozen_holds. Qed.
Print Assumptions C02_hand_modelled_functions_read_as_validated.
