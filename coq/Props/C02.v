(* C02 — outputs keep the input's structure and attach every value to its own label.
   Index-level statements (any number of dimensions, any sizes, any dimension order). *)
From Coq Require Import ZArith List Bool Permutation.
From XV Require Import Base.Scalar Base.Mat Model.NdArr Proofs.C02_proofs.
Import ListNotations.

Theorem C02_unflatten_flatten : forall (sh : shape) (idx : list nat), inb sh idx -> unflatten sh (flatten sh idx) = idx.
Proof. exact unflatten_flatten. Qed.
Print Assumptions C02_unflatten_flatten.

Theorem C02_flatten_unflatten : forall (sh : shape) (j : nat),
  Forall (fun s => 0 < s) sh -> j < size sh -> flatten sh (unflatten sh j) = j /\ inb sh (unflatten sh j).
Proof. exact flatten_unflatten_inb. Qed.
Print Assumptions C02_flatten_unflatten.

(* stacking along any permutation of the dimensions (ns sample dimensions first) and unstacking
   returns, at every in-range multi-index, the value the input holds there *)
Theorem C02_roundtrip_data : forall (F : Type) (K : Ops F) (A : nd) (order : list nat) (ns : nat) (idx : list nat),
  Permutation order (seq 0 (length (nd_shape A))) -> inb (nd_shape A) idx ->
  unstack_get K (stack2d K A order ns) (nd_shape A) order ns idx = nd_get K A idx.
Proof. exact (@stack_unstack). Qed.
Print Assumptions C02_roundtrip_data.

(* list / Dataset inputs: concatenating the per-item feature blocks and splitting by the recorded
   sizes gives back every block, for any number of items and any sizes *)
Theorem C02_list_split : forall (F : Type) (K : Ops F) (n : nat) (blocks : list (nat * list (list F))),
  Forall (fun b => wf K n (fst b) (snd b)) blocks ->
  hsplit K n (map fst blocks) 0 (hcat K n blocks) = map snd blocks.
Proof. exact (@hsplit_hcat). Qed.
Print Assumptions C02_list_split.
