(* C17 — unusable input is rejected with an error, never answered with numbers.
   Nothing but statements closed by [exact]. *)
From Coq Require Import String ZArith List Bool Reals.
From XV Require Import Base.Scalar Base.RInst Model.DecompLib Model.ValidateLib Gen.T3 Gen.T1
  Model.Validate Proofs.C15_proofs Proofs.C17_proofs Proofs.C17_tie.
Import ListNotations.

(* ---- wrong type: not an xarray object, or a list / tuple with a foreign element ---- *)
Theorem C17_wrong_type_fit : forall cfg x dim, wrong_type x -> fit_outcome cfg x dim = Err ETypeError.
Proof. exact wrong_type_fit. Qed.
Print Assumptions C17_wrong_type_fit.

Theorem C17_wrong_type_transform : forall vd vc f x, wrong_type x -> transform_outcome vd vc f x = Err ETypeError.
Proof. exact wrong_type_transform. Qed.
Print Assumptions C17_wrong_type_transform.

(* ---- sample dimensions ---- *)
Theorem C17_dim_wrong_type : forall v,
  pyty_isinstance (ty_of v) [TStr; TTuple; TList] = false -> convert_to_dim_type v = Err ETypeError.
Proof. exact dim_wrong_type. Qed.
Print Assumptions C17_dim_wrong_type.

Theorem C17_dim_non_string_element : forall v,
  is_seq (ty_of v) = true -> (exists e, In e (items_of v) /\ ty_of e <> TStr) -> convert_to_dim_type v = Err ETypeError.
Proof. exact dim_non_string_element. Qed.
Print Assumptions C17_dim_non_string_element.

Theorem C17_bad_dim_refused : forall cfg x dim k, convert_to_dim_type dim = Err k -> refused (fit_outcome cfg x dim).
Proof. exact bad_dim_refused. Qed.
Print Assumptions C17_bad_dim_refused.

Theorem C17_empty_sample_dims_refused : forall cfg x dim,
  convert_to_dim_type dim = Ok [] -> refused (fit_outcome cfg x dim).
Proof. exact empty_sample_dims_refused. Qed.
Print Assumptions C17_empty_sample_dims_refused.

Theorem C17_empty_feature_dims_refused : forall cfg x dim sd it,
  convert_to_dim_type dim = Ok sd -> In it (in_items x) ->
  (forall d, In d (dnames (it_dims it)) -> In d sd) -> refused (fit_outcome cfg x dim).
Proof. exact no_feature_dims_refused. Qed.
Print Assumptions C17_empty_feature_dims_refused.

Theorem C17_unknown_sample_dim_refused : forall cfg x dim sd it d,
  convert_to_dim_type dim = Ok sd -> In it (in_items x) -> In d sd -> ~ In d (dnames (it_dims it)) ->
  refused (fit_outcome cfg x dim).
Proof. exact unknown_sample_dim_refused. Qed.
Print Assumptions C17_unknown_sample_dim_refused.

(* ---- n_modes ---- *)
Theorem C17_n_modes_nonpositive : forall z, (z <= 0)%Z -> sanity_check_n_modes (VInt z) = Err EValueError.
Proof. exact n_modes_int_nonpositive. Qed.
Print Assumptions C17_n_modes_nonpositive.

(* the code's treatment of bool (an int in Python): False is refused as zero, True is one mode *)
Theorem C17_n_modes_bool :
  sanity_check_n_modes (VBool false) = Err EValueError /\ sanity_check_n_modes (VBool true) = Ok tt.
Proof. exact n_modes_bool. Qed.
Print Assumptions C17_n_modes_bool.

(* in_unit_interval f is the binary64 test 0 < f <= 1.0 (false for nan) *)
Theorem C17_n_modes_float_outside_unit_interval : forall f,
  in_unit_interval f = false -> sanity_check_n_modes (VFloat f) = Err EValueError.
Proof. exact n_modes_float_outside. Qed.
Print Assumptions C17_n_modes_float_outside_unit_interval.

(* 0, 1.5, -0.5, nan, +-infinity, 1+ulp, -0 are refused; 1, 0.5, the least subnormal, 0.999 are accepted *)
Theorem C17_n_modes_float_examples :
  (forall f, In f floats_outside -> sanity_check_n_modes (VFloat f) = Err EValueError) /\
  (forall f, In f floats_inside -> sanity_check_n_modes (VFloat f) = Ok tt).
Proof. exact n_modes_float_examples. Qed.
Print Assumptions C17_n_modes_float_examples.

Theorem C17_n_modes_string_other_than_all : forall s, s <> "all"%string -> sanity_check_n_modes (VStr s) = Err EValueError.
Proof. exact n_modes_string. Qed.
Print Assumptions C17_n_modes_string_other_than_all.

Theorem C17_n_modes_non_numeric : forall v,
  pyty_isinstance (ty_of v) [TInt; TFloat; TStr] = false -> sanity_check_n_modes v = Err ETypeError.
Proof. exact n_modes_non_numeric. Qed.
Print Assumptions C17_n_modes_non_numeric.

(* the acceptance set is exact: an int >= 1, a binary64 in (0, 1], the string "all" (and True, an int in Python);
   everything else is refused, and nothing in the set is *)
Theorem C17_n_modes_accepted_iff : forall v, sanity_check_n_modes v = Ok tt <-> valid_n_modes v.
Proof. exact n_modes_accepted_iff. Qed.
Print Assumptions C17_n_modes_accepted_iff.

Theorem C17_bad_n_modes_refused_at_fit : forall cfg x dim k,
  sanity_check_n_modes (c_n_modes cfg) = Err k -> refused (fit_outcome cfg x dim).
Proof. exact bad_n_modes_refused. Qed.
Print Assumptions C17_bad_n_modes_refused_at_fit.

(* ---- more modes than the rank ---- *)
Theorem C17_too_many_modes_refused : forall z irr s c n p,
  (z > Z.min n p)%Z -> decomposer_outcome (VInt z) irr s c n p = Err EValueError.
Proof. exact too_many_modes_refused. Qed.
Print Assumptions C17_too_many_modes_refused.

Theorem C17_fitted_modes_within_rank : forall cfg x dim f z,
  fit_state cfg x dim = Ok f -> c_n_modes cfg = VInt z ->
  (1 <= z <= Z.min (n_samples (f_items f)) (fold_right Z.add 0%Z (map n_features (f_items f))))%Z.
Proof. exact fitted_modes_within_rank. Qed.
Print Assumptions C17_fitted_modes_within_rank.

(* ---- unknown solver (the C15 lemma, and its consequence for fit) ---- *)
Theorem C17_unknown_solver_rejected : forall s small cplx dask npre rank,
  ~ In s ["auto"; "full"; "randomized"]%string ->
  policy dec_use_exact dec_backend s small cplx dask npre rank = Err EValueError /\
  policy svd_use_exact svd_backend s small cplx dask npre rank = Err EValueError.
Proof. exact policy_unknown_rejected. Qed.
Print Assumptions C17_unknown_solver_rejected.

Theorem C17_unknown_solver_refused_at_fit : forall cfg x dim,
  ~ In (c_solver cfg) ["auto"; "full"; "randomized"]%string -> refused (fit_outcome cfg x dim).
Proof. exact unknown_solver_refused. Qed.
Print Assumptions C17_unknown_solver_refused_at_fit.

(* ---- alpha ---- *)
Theorem C17_alpha_negative_refused : forall a : R, (a < 0)%R -> whitener_check_alpha OR a = Err EValueError.
Proof. exact alpha_negative_refused. Qed.
Print Assumptions C17_alpha_negative_refused.

Theorem C17_alpha_above_one_accepted : forall a : R, (1 < a)%R -> whitener_check_alpha OR a = Ok tt.
Proof. exact alpha_above_one_accepted. Qed.
Print Assumptions C17_alpha_above_one_accepted.

Theorem C17_cross_ctor_negative_alpha_refused : forall lens fn1 fn2 (a1 a2 : R),
  (a1 < 0 \/ a2 < 0)%R -> refused (cross_ctor_outcome (whitener_check_alpha OR) lens fn1 fn2 a1 a2).
Proof. exact cross_ctor_negative_alpha_refused. Qed.
Print Assumptions C17_cross_ctor_negative_alpha_refused.

Theorem C17_cross_ctor_wrong_length_refused : forall (lens : list Z) fn1 fn2 (a1 a2 : R) n,
  In n lens -> n <> 2%Z -> refused (cross_ctor_outcome (whitener_check_alpha OR) lens fn1 fn2 a1 a2).
Proof. exact (cross_ctor_wrong_length_refused (whitener_check_alpha OR)). Qed.
Print Assumptions C17_cross_ctor_wrong_length_refused.

Theorem C17_cross_ctor_valid : forall lens fn1 fn2 (a1 a2 : R),
  (forall n, In n lens -> n = 2%Z) -> fn1 <> fn2 -> (0 <= a1)%R -> (0 <= a2)%R ->
  cross_ctor_outcome (whitener_check_alpha OR) lens fn1 fn2 a1 a2 = Ok tt.
Proof. exact cross_ctor_valid. Qed.
Print Assumptions C17_cross_ctor_valid.

(* ---- transform: item count, dimensions, coordinates, variables ---- *)
Theorem C17_wrong_item_count_refused : forall vd vc f x,
  validate_input_type (input_val x) = Ok tt -> length (in_items x) <> length (f_items f) ->
  transform_outcome vd vc f x = Err EValueError.
Proof. exact item_count_refused. Qed.
Print Assumptions C17_wrong_item_count_refused.

(* an additional dimension, or the new name of a renamed one *)
Theorem C17_extra_or_renamed_dim_refused : forall vd vc f x fi it d,
  In (fi, it) (combine (f_items f) (in_items x)) ->
  In d (dnames (it_dims it)) -> ~ In d (fi_sample_dims fi ++ fi_feature_dims fi) ->
  refused (transform_outcome vd vc f x).
Proof. exact extra_dim_refused. Qed.
Print Assumptions C17_extra_or_renamed_dim_refused.

Theorem C17_missing_sample_dim_refused : forall vd vc f x fi it d,
  In (fi, it) (combine (f_items f) (in_items x)) ->
  In d (fi_sample_dims fi) -> ~ In d (fi_feature_dims fi) -> ~ In d (dnames (it_dims it)) ->
  refused (transform_outcome vd vc f x).
Proof. exact missing_sample_dim_refused. Qed.
Print Assumptions C17_missing_sample_dim_refused.

(* F-17: in the order the source applies (Scaler before the Stacker's checks) data lacking a
   feature dimension is broadcast against the stored arrays and answered *)
Theorem C17_missing_dim_refuted :
  exists cfg x0 dim f x, fit_state cfg x0 dim = Ok f /\ single_fault_missing_dim f x /\
    transform_outcome false false f x = Ok tt.
Proof. exact missing_dim_refuted. Qed.
Print Assumptions C17_missing_dim_refuted.

(* ... and with validation before scaling every such fault is refused *)
Theorem C17_missing_dim_refused_when_validated_first : forall vc f x,
  single_fault_missing_dim f x -> Forall wf_fitem (f_items f) -> refused (transform_vbs true f x) /\ refused (transform_outcome true vc f x).
Proof. exact missing_dim_refused_when_validated_first. Qed.
Print Assumptions C17_missing_dim_refused_when_validated_first.

Theorem C17_any_missing_dim_refused_when_validated_first : forall vc f x fi it d,
  In (fi, it) (combine (f_items f) (in_items x)) ->
  In d (fi_sample_dims fi ++ fi_feature_dims fi) -> ~ In d (dnames (it_dims it)) ->
  refused (transform_outcome true vc f x).
Proof. exact missing_dim_refused_when_validated. Qed.
Print Assumptions C17_any_missing_dim_refused_when_validated_first.

(* shifted, or re-ordered with different values: same number of labels, different labels *)
Theorem C17_changed_feature_coord_refused : forall vd vc f x fi it d,
  In (fi, it) (combine (f_items f) (in_items x)) ->
  In d (fi_feature_dims fi) -> In d (dnames (it_dims it)) ->
  length (lookup d (it_dims it)) = length (lookup d (fi_dims fi)) ->
  lookup d (it_dims it) <> lookup d (fi_dims fi) ->
  refused (transform_outcome vd vc f x).
Proof. exact changed_coord_refused. Qed.
Print Assumptions C17_changed_feature_coord_refused.

(* same root cause as F-17: additional labels on a feature coordinate are dropped by the inner join *)
Theorem C17_extended_coord_refuted :
  exists cfg x0 dim f x, fit_state cfg x0 dim = Ok f /\ single_fault_extended_coord f x /\
    transform_outcome false false f x = Ok tt.
Proof. exact extended_coord_refuted. Qed.
Print Assumptions C17_extended_coord_refuted.

Theorem C17_differing_coord_refused_when_validated_first : forall vd f x fi it d,
  In (fi, it) (combine (f_items f) (in_items x)) ->
  In d (fi_feature_dims fi) -> lookup d (it_dims it) <> lookup d (fi_dims fi) ->
  refused (transform_outcome vd true f x).
Proof. exact differing_coord_refused_when_validated. Qed.
Print Assumptions C17_differing_coord_refused_when_validated_first.

Theorem C17_dropped_variable_refused : forall vd vc f x fi it,
  In (fi, it) (combine (f_items f) (in_items x)) ->
  fi_ty fi = TDataset -> it_ty it = TDataset ->
  (length (it_vars it) < length (fi_vars fi))%nat ->
  (0 < prodlen (fi_feature_dims fi) (fi_dims fi))%Z ->
  refused (transform_outcome vd vc f x).
Proof. exact dropped_variable_refused. Qed.
Print Assumptions C17_dropped_variable_refused.

(* not a fault: a Dataset carrying additional variables *)
Theorem C17_extra_variables_accepted : forall vd vc fi extra,
  wf_fitem fi -> fi_ty fi = TDataset -> (forall v, In v extra -> ~ In v (fi_vars fi)) ->
  forall cfg, transform_outcome vd vc (mkFitted cfg [fi])
                (mkInput TDataset [mkItem TDataset (fi_dims fi) (fi_vars fi ++ extra)]) = Ok tt.
Proof. exact extra_variables_accepted. Qed.
Print Assumptions C17_extra_variables_accepted.

(* ---- inverse_transform ---- *)
Theorem C17_unknown_mode_refused : forall k dims modes m,
  In m modes -> (m < 1 \/ k < m)%Z -> inverse_outcome k (mkScores TDataArray dims modes) = Err EKeyError.
Proof. exact unknown_mode_refused. Qed.
Print Assumptions C17_unknown_mode_refused.

(* not a fault: score arrays carrying additional dimensions *)
Theorem C17_extra_score_dims_accepted : forall k dims modes,
  (forall m, In m modes -> (1 <= m <= k)%Z) -> inverse_outcome k (mkScores TDataArray dims modes) = Ok tt.
Proof. exact extra_score_dims_accepted. Qed.
Print Assumptions C17_extra_score_dims_accepted.

(* ---- cross-set fields with different sample counts ---- *)
Theorem C17_sample_count_mismatch_refused : forall cc x y dim k1 k2 sd,
  convert_to_dim_type dim = Ok sd ->
  n_samples (map (fit_item_state sd) (in_items x)) <> n_samples (map (fit_item_state sd) (in_items y)) ->
  refused (cross_fit_outcome cc x y dim k1 k2).
Proof. exact sample_count_mismatch_refused. Qed.
Print Assumptions C17_sample_count_mismatch_refused.

Theorem C17_cross_transform_refused : forall vd vc f1 f2 x y,
  refused (transform_outcome vd vc f1 x) \/ refused (transform_outcome vd vc f2 y) ->
  refused (cross_transform_outcome vd vc f1 f2 x y).
Proof. exact cross_transform_refused. Qed.
Print Assumptions C17_cross_transform_refused.

(* ---- rotators: n_modes is a slice stop, and a stop that is not a number does not bound it ---- *)
Theorem C17_rotator_too_few_refused : forall chk z avail, (z <= 1)%Z -> refused (rotator_fit_outcome chk (VInt z) avail).
Proof. exact rotator_too_few_refused. Qed.
Print Assumptions C17_rotator_too_few_refused.

Theorem C17_rotator_non_numeric_refuted :
  exists v avail, pyty_isinstance (ty_of v) [TInt; TFloat] = false /\ rotator_fit_outcome no_ctor_check v avail = Ok tt.
Proof. exact rotator_non_numeric_refuted. Qed.
Print Assumptions C17_rotator_non_numeric_refuted.

(* ... and any constructor check that refuses the value makes the rotator refuse it *)
Theorem C17_rotator_ctor_check_refuses : forall chk v avail k, chk v = Err k -> rotator_fit_outcome chk v avail = Err k.
Proof. exact rotator_ctor_check_refuses. Qed.
Print Assumptions C17_rotator_ctor_check_refuses.

(* ---- non-vacuity: valid calls are answered ---- *)
Theorem C17_valid_calls_answered :
  fit_outcome ex_cfg (ex_input ex_data) (VStr "time") = Ok tt /\
  (forall vd vc, transform_outcome vd vc ex_fitted (ex_input ex_data) = Ok tt) /\
  inverse_outcome 2 (mkScores TDataArray ["time"; "mode"]%string [1; 2]%Z) = Ok tt.
Proof. exact valid_calls_answered. Qed.
Print Assumptions C17_valid_calls_answered.

Theorem C17_fitted_data_answered : forall vd vc cfg x dim f,
  fit_state cfg x dim = Ok f -> transform_outcome vd vc f x = Ok tt.
Proof. exact fitted_data_answered. Qed.
Print Assumptions C17_fitted_data_answered.

Theorem C17_matching_call_answered : forall vd vc f x,
  validate_input_type (input_val x) = Ok tt ->
  Forall wf_fitem (f_items f) -> Forall2 matches (f_items f) (in_items x) ->
  transform_outcome vd vc f x = Ok tt.
Proof. exact matching_call_answered. Qed.
Print Assumptions C17_matching_call_answered.

(* ---- the model composes the validators in the order of the source ---- *)
Theorem C17_order_ties :
  single_fit_order = declared_single_fit_order /\ single_transform_order = declared_single_transform_order /\
  map fst preprocessor_transformer_order = declared_transformer_order /\
  stacker_transform_order = declared_stacker_transform_order.
Proof. exact tie_orders_summary. Qed.
Print Assumptions C17_order_ties.

(* the Scaler's guard against data lacking a fitted feature dimension looks at the Dataset as a whole AND at every fitted variable (flags regenerated from
   the source by T4, which matches the guard statement by statement): a variable without one of its dimensions is refused although another variable still has it *)
From XV Require Gen.T4.
Theorem C17_scaler_guard_is_per_variable :
  T4.scaler_transform_refuses_missing_dims = true /\ T4.scaler_transform_refuses_missing_dims_per_variable = true.
Proof. exact (conj eq_refl eq_refl). Qed.
Print Assumptions C17_scaler_guard_is_per_variable.
