(* C04 — transform of the training data reproduces the model's scores. Statements only. *)
From Coq Require Import String ZArith List Bool.
From XV Require Import Base.Scalar Base.Sum Base.Mat Model.Eof Model.Rot Model.FlagState Gen.T5flag Proofs.C01_proofs Proofs.C11_proofs
  Proofs.FlagState_proofs Proofs.RotState_proofs Proofs.Flag_tie
  Model.FitChain Proofs.FitChain_proofs Gen.T7chain Gen.T7pipe Proofs.Chain_tie Gen.T5cpcca Gen.T5rot Proofs.XRot_proofs Proofs.C11_tie.
Import ListNotations.

(* EOF-type models: X V_k = U_k diag(s_k), with the model's own sign convention *)
Theorem C04_eof : forall (F : Type) (K : Ops F), FieldLaws K ->
  forall (n p r k : nat) (X U Vt : mat) (s : vec), svd_ok K n p r X (U, s, Vt) -> (k <= r)%nat ->
  let out := eof_fit K n p r k X (U, s, Vt) in eof_transform K n p k out X = e_scores out.
Proof. exact (@fit_transform_training). Qed.
Print Assumptions C04_eof.

(* rotators, before compute() (unsorted) and after (sorted by idx): projecting the training
   matrix on the unrotated modes, dividing by the singular values, rotating, re-sorting,
   re-scaling and re-signing gives the fitted rotated scores *)
Theorem C04_eof_rotator_unsorted : forall (F : Type) (K : Ops F), FieldLaws K ->
  forall (n p k : nat) (Vk Un : mat) (lam sv : vec) (R RinvT X : mat) (idx : list nat),
  mmul K n p k X Vk = colscale K n k Un sv -> (forall j, (j < k)%nat -> vget K sv j <> f0 K) -> wf K n k Un ->
  let fitted := rot_fit K n p k Vk Un lam R RinvT in
  rot_transform K n p k Vk sv RinvT false idx fitted X = r_scores fitted.
Proof. exact (@rot_transform_training_unsorted). Qed.
Print Assumptions C04_eof_rotator_unsorted.

Theorem C04_eof_rotator_sorted : forall (F : Type) (K : Ops F), FieldLaws K ->
  forall (n p k : nat) (Vk Un : mat) (lam sv : vec) (R RinvT X : mat) (idx : list nat),
  (length idx = k /\ forall j, (j < k)%nat -> (nth j idx O < k)%nat) ->
  mmul K n p k X Vk = colscale K n k Un sv -> (forall j, (j < k)%nat -> vget K sv j <> f0 K) -> wf K n k Un ->
  let fitted := rot_fit K n p k Vk Un lam R RinvT in
  rot_transform K n p k Vk sv RinvT true idx (rot_sort K n p idx fitted) X = r_scores (rot_sort K n p idx fitted).
Proof. exact (@rot_transform_training_sorted). Qed.
Print Assumptions C04_eof_rotator_sorted.

(* the rotator as a state machine (Model/FlagState.v: fit stores the arrays unsorted and resets the `sorted` flag, compute()
   sorts once and sets it, transform consults it): whatever state s0 the object was in and whatever was fitted, computed
   or asked before, after a fit and any number of compute() calls, transform of that fit's training data returns the
   scores the object holds *)
Theorem C04_rotator_any_history : forall (F : Type) (K : Ops F), FieldLaws K ->
  forall (n p k : nat) (Vk Un : mat) (lam sv : vec) (R RinvT X : mat) (idx : list nat)
         (before after : list (fop (@rot_out F))) (s0 : fstate (@rot_out F)),
  (length idx = k /\ forall j, (j < k)%nat -> (nth j idx O < k)%nat) ->
  mmul K n p k X Vk = colscale K n k Un sv -> (forall j, (j < k)%nat -> vget K sv j <> f0 K) -> wf K n k Un ->
  Forall (fun o => o = FCompute _) after ->
  let s := frun _ (rot_sort K n p) true true s0 (before ++ FFit _ (rot_fit K n p k Vk Un lam R RinvT) idx :: after) in
  rot_transform K n p k Vk sv RinvT (fs_sorted _ s) (fs_idx _ s) (fs_data _ s) X = r_scores (fs_data _ s).
Proof. exact (@rot_state_transform_training). Qed.
Print Assumptions C04_rotator_any_history.

(* the flag protocol regenerated from the source is the variant (fit resets, sorting guarded) the theorem is about *)
Theorem C04_flag_protocol_matches_source :
  flag_protocol = [("EOFRotator", (true, true)); ("CPCCARotator", (true, true)); ("POP", (true, true))]%string.
Proof. exact flag_protocol_faithful. Qed.
Print Assumptions C04_flag_protocol_matches_source.

(* a fit that does not reset the flag: after fit, compute, fit, compute the arrays of the second fit are still unsorted
   although the flag (and hence transform) says sorted *)
Theorem C04_flag_not_reset_refuted :
  let s := frun (list nat) reindex false true (finit _ [1; 3; 2] [1; 2; 0]) hist in
  fs_sorted _ s = true /\ fs_data _ s = [10; 30; 20] /\ reindex (fs_idx _ s) (fs_fresh _ s) = [30; 20; 10].
Proof. exact no_reset_refuted. Qed.
Print Assumptions C04_flag_not_reset_refuted.

(* fitted stages chained (Model/FitChain.v): preprocessor -> PCA -> whitener of the cross-set models, preprocessor -> model
   algorithm of the single-set models, and the seven transformers inside the Preprocessor. For ANY stages (whatever they
   learn and however they transform): if every stage's fit_transform is fit followed by transform of the same data and
   transform walks the stages in the order fit did, transform of the training data hands the model's algorithm exactly
   what fit handed it - so whatever `alg` the model computes from it (scores = whitened data times singular vectors)
   is reproduced *)
Theorem C04_chain_training : forall (D S : Type) (stages : nat -> fstage D S) (A : Type) (alg : D -> A) (fo : list nat),
  NoDup fo -> (forall i, In i fo -> fit_then_transform D S (stages i)) ->
  forall x, alg (transform_run D S stages fo (fst (fit_run D S stages fo x)) x) = alg (snd (fit_run D S stages fo x)).
Proof. exact model_transform_training. Qed.
Print Assumptions C04_chain_training.

(* the chains of the source are of that kind (regenerated on every run) *)
Theorem C04_chain_orders_in_source :
  (field_stages "X" "fit_transform" cross_fit_calls = ["preprocessor1"; "pca1"; "whitener1"] /\
   field_stages "X" "transform" cross_transform_calls = ["preprocessor1"; "pca1"; "whitener1"] /\
   field_stages "Y" "fit_transform" cross_fit_calls = ["preprocessor2"; "pca2"; "whitener2"] /\
   field_stages "Y" "transform" cross_transform_calls = ["preprocessor2"; "pca2"; "whitener2"] /\
   stage_count cross_fit_calls = 6 /\ stage_count cross_transform_calls = 6 /\
   cross_augment_is_identity = true /\ forallb (fun c => snd c) cross_augmenting_classes = true)%string /\
  (map fst preprocessor_fit_calls = declared_order /\
   forallb (fun c => String.eqb (snd c) "fit_transform") preprocessor_fit_calls = true /\
   preprocessor_transform_loops_over_declared_order = true)%string.
Proof. exact (conj cross_chain preprocessor_chain). Qed.
Print Assumptions C04_chain_orders_in_source.

(* transform walking the stages in another order, and a fit_transform that is not fit-then-transform: refuted by computation *)
Theorem C04_chain_other_order_refuted :
  let st := fst (fit_run Z Z (zstages true) [0; 1] 5%Z) in
  snd (fit_run Z Z (zstages true) [0; 1] 5%Z) = 20%Z /\ transform_run Z Z (zstages true) [1; 0] st 5%Z = 15%Z.
Proof. exact other_order_refuted. Qed.
Print Assumptions C04_chain_other_order_refuted.

Theorem C04_chain_other_fit_transform_refuted :
  let st := fst (fit_run Z Z (zstages false) [0; 1] 5%Z) in
  snd (fit_run Z Z (zstages false) [0; 1] 5%Z) = 10%Z /\ transform_run Z Z (zstages false) [0; 1] st 5%Z = 20%Z.
Proof. exact other_fit_transform_refuted. Qed.
Print Assumptions C04_chain_other_fit_transform_refuted.

(* which stored array and which norm each field of a cross-set model uses in transform, inverse_transform and the accessors
   (statement-level match of CPCCA._transform_algorithm, _inverse_transform_algorithm, _get_components, _get_scores) *)
Theorem C04_cross_field_tables_in_source :
  (cpcca_transform_table = [("X", "components1", "norm1"); ("Y", "components2", "norm2")] /\
   cpcca_inverse_table = [("X", "components1"); ("Y", "components2")] /\
   cpcca_accessor_table = [("components1", "components1", "norm1", "mul-if-not-normalized"); ("components2", "components2", "norm2", "mul-if-not-normalized");
                           ("scores1", "scores1", "norm1", "div-if-normalized"); ("scores2", "scores2", "norm2", "div-if-normalized")])%string.
Proof. exact cpcca_field_tables. Qed.
Print Assumptions C04_cross_field_tables_in_source.

(* cross-set rotators, one field at a time: fit stores ((S / scaling) RinvT) * norm * sign for the unrotated scores S of the
   field, transform computes ((Xw Q / scaling) RinvT), re-sorted iff the object is sorted, * sign * norm (step lists and the
   per-field arrays regenerated from cpcca_rotator.py, C04_cross_rotator_steps_in_source). Whatever state the rotator object
   was in and whatever was fitted, computed or asked before: after a fit and any number of compute() calls, transform of
   that fit's (whitened) training data returns the scores the object holds *)
Theorem C04_cross_rotator_any_history : forall (F : Type) (K : Ops F), FieldLaws K ->
  forall (n p k : nat) (Q Un : mat) (scaling : vec) (RinvT Xw : mat) (nrm sg : vec) (idx : list nat),
  (length idx = k /\ forall j, (j < k)%nat -> (nth j idx O < k)%nat) ->
  mmul K n p k Xw Q = colscale K n k Un scaling -> (forall j, (j < k)%nat -> vget K scaling j <> f0 K) -> wf K n k Un ->
  forall (before after : list (fop (@rot_out F))) (s0 : fstate (@rot_out F)),
  Forall (fun o => o = FCompute _) after ->
  let s := frun _ (rot_sort K n p) true true s0 (before ++ FFit _ (xrot_field K n k Un RinvT nrm sg) idx :: after) in
  xrot_transform K n p k Q scaling RinvT (fs_sorted _ s) (fs_idx _ s) (fs_data _ s) Xw = r_scores (fs_data _ s).
Proof. exact (@xrot_any_history). Qed.
Print Assumptions C04_cross_rotator_any_history.

Theorem C04_cross_rotator_steps_in_source :
  cpcca_rot_fit_score_steps = [FDivSqrtSvals; FRotate; FMulNorm; FMulSign] /\
  cpcca_rot_transform_steps = [XProject; XDivSqrtSvals; XRotate; XSortIfSorted; XMulSign; XMulNormUnlessNormalized; XBackWithOwnPreprocessor] /\
  cpcca_rot_transform_fields = [("X", "components1", "norm1", "preprocessor1"); ("Y", "components2", "norm2", "preprocessor2")]%string.
Proof. exact tie_cross_rotator_steps. Qed.
Print Assumptions C04_cross_rotator_steps_in_source.

(* the functions of this property whose Gallina counterpart is hand-written (or that only the oracles reach) still read, statement by statement, as they did when
   the model was last validated against them (Gen/T9text.v regenerated from the source on every run; Proofs/Text_C04.v holds the validated text) *)
From XV Require Gen.T9text Proofs.Text_C04.
Theorem C04_hand_modelled_functions_read_as_validated : Text_C04.all_frozen.
Proof. exact Text_C04.all_frozen_holds. Qed.
Print Assumptions C04_hand_modelled_functions_read_as_validated.

(* the stored argsort re-orders a transform by GATHERING (as the fitted results were re-ordered); scattering with the same indices is the inverse permutation
   and gives other columns on a cycle of length three *)
From Coq Require Reals.
From XV Require Base.RInst Proofs.C04_gather.
Theorem C04_scatter_with_the_argsort_refuted :
  msel_cols RInst.OR 1 C04_gather.inv3 [[Rdefinitions.IZR 10; Rdefinitions.IZR 20; Rdefinitions.IZR 30]] <> msel_cols RInst.OR 1 [1; 2; 0]%nat [[Rdefinitions.IZR 10; Rdefinitions.IZR 20; Rdefinitions.IZR 30]].
Proof. exact C04_gather.scatter_refuted. Qed.
Print Assumptions C04_scatter_with_the_argsort_refuted.
