(* C04 — transform of the training data reproduces the model's scores. Statements only. *)
From Coq Require Import String ZArith List Bool.
From XV Require Import Base.Scalar Base.Sum Base.Mat Model.Eof Model.Rot Proofs.C01_proofs Proofs.C11_proofs.
Import ListNotations.

(* EOF-type models: X V_k = U_k diag(s_k), with the model's own sign convention *)
Theorem C04_eof : forall (F : Type) (K : Ops F), FieldLaws K ->
  forall (n p r k : nat) (X U Vt : mat) (s : vec), svd_ok K n p r X (U, s, Vt) -> (k <= r)%nat ->
  let out := eof_fit K n p r k X (U, s, Vt) in eof_transform K n p k out X = e_scores out.
Proof. exact (@fit_transform_training). Qed.
Print Assumptions C04_eof.

(* rotators, before compute() (unsorted) and after (sorted by idx): projecting the training
   matrix on the unrotated modes, dividing by the singular values, rotating, re-sorting,
   re-scaling and re-signing gives the fitted rotated scores *)
Theorem C04_eof_rotator_unsorted : forall (F : Type) (K : Ops F), FieldLaws K ->
  forall (n p k : nat) (Vk Un : mat) (lam sv : vec) (R RinvT X : mat) (idx : list nat),
  mmul K n p k X Vk = colscale K n k Un sv -> (forall j, (j < k)%nat -> vget K sv j <> f0 K) -> wf K n k Un ->
  let fitted := rot_fit K n p k Vk Un lam R RinvT in
  rot_transform K n p k Vk sv RinvT false idx fitted X = r_scores fitted.
Proof. exact (@rot_transform_training_unsorted). Qed.
Print Assumptions C04_eof_rotator_unsorted.

Theorem C04_eof_rotator_sorted : forall (F : Type) (K : Ops F), FieldLaws K ->
  forall (n p k : nat) (Vk Un : mat) (lam sv : vec) (R RinvT X : mat) (idx : list nat),
  (length idx = k /\ forall j, (j < k)%nat -> (nth j idx O < k)%nat) ->
  mmul K n p k X Vk = colscale K n k Un sv -> (forall j, (j < k)%nat -> vget K sv j <> f0 K) -> wf K n k Un ->
  let fitted := rot_fit K n p k Vk Un lam R RinvT in
  rot_transform K n p k Vk sv RinvT true idx (rot_sort K n p idx fitted) X = r_scores (rot_sort K n p idx fitted).
Proof. exact (@rot_transform_training_sorted). Qed.
Print Assumptions C04_eof_rotator_sorted.
