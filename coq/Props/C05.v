(* C05 — out-of-sample transform is a per-sample map labelled by the new data. Statements only. *)
From Coq Require Import String ZArith List Bool.
From XV Require Import Base.Scalar Base.Mat Model.ScalerLib Model.Eof Model.Rot Gen.T7unseen Proofs.C05_proofs Proofs.C05_tie.
From XV Require Model.Mic Gen.T7mic Proofs.Mic_proofs Proofs.Mic_tie.
Import ListNotations.

(* scaling with the fitted per-feature statistics followed by projection on the components:
   transforming a row concatenation equals concatenating the transforms, any sizes *)
Theorem C05_rowwise : forall (F : Type) (K : Ops F) (m1 m2 p k : nat) (fl : sflags) (ps : nat -> sparams)
  (ops : list (guard * sop * sparam)) (o : eof_out) (A B : mat),
  eof_pipeline K (m1 + m2) p k fl ps ops o (vstack K m1 m2 p A B) =
  vstack K m1 m2 k (eof_pipeline K m1 p k fl ps ops o A) (eof_pipeline K m2 p k fl ps ops o B).
Proof. exact (@pipeline_concat). Qed.
Print Assumptions C05_rowwise.

(* transforming a selection of rows equals selecting rows of the transform *)
Theorem C05_subset : forall (F : Type) (K : Ops F) (m p k : nat) (fl : sflags) (ps : nat -> sparams)
  (ops : list (guard * sop * sparam)) (o : eof_out) (I : list nat) (X : mat),
  (forall i, (i < length I)%nat -> (nth i I O < m)%nat) ->
  msel_rows K k I (eof_pipeline K m p k fl ps ops o X) = eof_pipeline K (length I) p k fl ps ops o (msel_rows K p I X).
Proof. exact (@pipeline_subset). Qed.
Print Assumptions C05_subset.

(* the rotator's transform (divide, rotate, re-sort, re-scale, re-sign) is row-wise as well *)
Theorem C05_rotator_rowwise : forall (F : Type) (K : Ops F) (m1 m2 p k : nat) (Vk : mat) (sv : vec) (RinvT : mat)
  (idx : list nat) (stored : rot_out) (A B : mat),
  (forall j, (j < length idx)%nat -> (nth j idx O < k)%nat) -> length idx = k -> forall sorted : bool,
  rot_transform K (m1 + m2) p k Vk sv RinvT sorted idx stored (vstack K m1 m2 p A B) =
  vstack K m1 m2 k (rot_transform K m1 p k Vk sv RinvT sorted idx stored A) (rot_transform K m2 p k Vk sv RinvT sorted idx stored B).
Proof. exact (@rot_transform_concat). Qed.
Print Assumptions C05_rotator_rowwise.

(* cross-set models (CPCCA, MCA, CCA, RDA and complex variants), one field: scaling with the fitted statistics, the PCA
   projection, the whitening and the projection on the singular vectors (optionally normalised) are row-wise maps *)
Theorem C05_cross_rowwise : forall (F : Type) (K : Ops F) (m1 m2 p q1 q2 k : nat) (fl : sflags) (ps : nat -> sparams)
  (ops : list (guard * sop * sparam)) (Vp T Cm : mat) (nrm : option vec) (A B : mat),
  cross_pipeline K (m1 + m2) p q1 q2 k fl ps ops Vp T Cm nrm (vstack K m1 m2 p A B) =
  vstack K m1 m2 k (cross_pipeline K m1 p q1 q2 k fl ps ops Vp T Cm nrm A) (cross_pipeline K m2 p q1 q2 k fl ps ops Vp T Cm nrm B).
Proof. exact (@cross_pipeline_concat). Qed.
Print Assumptions C05_cross_rowwise.

Theorem C05_cross_subset : forall (F : Type) (K : Ops F) (m p q1 q2 k : nat) (fl : sflags) (ps : nat -> sparams)
  (ops : list (guard * sop * sparam)) (Vp T Cm : mat) (nrm : option vec) (I : list nat) (X : mat),
  (forall i, (i < length I)%nat -> (nth i I O < m)%nat) ->
  msel_rows K k I (cross_pipeline K m p q1 q2 k fl ps ops Vp T Cm nrm X) =
  cross_pipeline K (length I) p q1 q2 k fl ps ops Vp T Cm nrm (msel_rows K p I X).
Proof. exact (@cross_pipeline_subset). Qed.
Print Assumptions C05_cross_subset.

(* dropping entirely missing samples commutes with concatenation *)
Theorem C05_drop_missing_concat : forall (A : Type) (valid : A -> bool) (rows1 rows2 : list A),
  filter valid (rows1 ++ rows2) = (filter valid rows1 ++ filter valid rows2)%list.
Proof. exact (@drop_missing_concat). Qed.
Print Assumptions C05_drop_missing_concat.

(* source tie: every transform/predict site uses the unseen-data path; on that path no
   transformer re-indexes to the fit samples and the MultiIndex comes from the transform call *)
Theorem C05_labels : forall site p, In (site, p) transform_sites -> p = Unseen.
Proof. exact sites_unseen. Qed.
Print Assumptions C05_labels.

Theorem C05_no_reindex_on_unseen_path :
  forallb (fun s => match snd s with UReindexToFit => false | _ => true end) unseen_behaviour = true /\
  In ("MultiIndexConverter"%string, UTransformReference) unseen_behaviour.
Proof. exact (conj unseen_never_reindexes multiindex_from_transform_call). Qed.
Print Assumptions C05_no_reindex_on_unseen_path.

(* MultiIndexConverter as a state machine (parameters regenerated from the source, Gen/T7mic.v): in every
   reachable state - any history of fits, transforms and inverse calls - the unseen path restores, on every
   dimension, exactly the coordinates of the data just transformed, in the data's own dimension order *)
Theorem C05_multiindex_labels_from_new_data : forall (h : list Mic.op) (X : Mic.data) (s' : Mic.st) (X' : Mic.data),
  Mic_proofs.fits_wf h ->
  Mic.transform T7mic.src_params (fst (Mic.run T7mic.src_params Mic.init h)) X = Some (s', X') ->
  exists R, Mic.inverse T7mic.src_params s' Mic.RefTransform X' = Some R /\ map fst R = map fst X /\
            forall d, Mic.lookup d R = Mic.lookup d X.
Proof. exact Mic_proofs.unseen_labels_from_new_data. Qed.
Print Assumptions C05_multiindex_labels_from_new_data.

(* entries removed between transform and the back-transformation (fully missing samples): the remaining
   positions select their own labels *)
Theorem C05_multiindex_labels_after_removal : forall d orig pos X, Mic.lookup d X = Some (Mic.Plain pos) ->
  Mic.size orig <> length pos -> forallb (fun i => Nat.ltb i (Mic.size orig)) pos = true ->
  Mic.inv_step T7mic.src_params (Some X) (d, orig) = Some (Mic.update d (Mic.take_pos orig pos) X).
Proof. exact Mic_proofs.inverse_after_removal. Qed.
Print Assumptions C05_multiindex_labels_after_removal.

Theorem C05_unseen_wrapper_uses_transform_reference :
  In ("inverse_transform_scores_unseen"%string, Mic.RefTransform) T7mic.wrapper_refs /\
  In ("inverse_transform_scores"%string, Mic.RefFit) T7mic.wrapper_refs.
Proof. exact Mic_tie.wrappers_split. Qed.
Print Assumptions C05_unseen_wrapper_uses_transform_reference.

(* table regenerated from every model and rotator class: transform/predict map scores back on the unseen path, accessors
   of the fitted scores (scores, scores_amplitude, scores_phase) on the fit path *)
Theorem C05_score_paths : forallb C05_tie.path_ok score_paths = true /\ (13 <= List.length score_paths)%nat.
Proof. exact C05_tie.score_paths_ok. Qed.
Print Assumptions C05_score_paths.

(* in BaseModelCrossSet.fit and .transform the field variables are bound by stage calls only (table regenerated from the source by T7chain): nothing
   joins, aligns or selects one field by the other between the stages, so a field's scores depend on that field's data alone *)
From XV Require Gen.T7chain Proofs.Chain_tie.
Theorem C05_fields_only_pass_through_their_own_stages : T7chain.cross_other_field_writes = [].
Proof. exact Chain_tie.cross_fields_only_pass_through_stages. Qed.
Print Assumptions C05_fields_only_pass_through_their_own_stages.

(* the functions of this property whose Gallina counterpart is hand-written (or that only the oracles reach) still read, statement by statement, as they did when
   the model was last validated against them (Gen/T9text.v regenerated from the source on every run; Proofs/Text_C05.v holds the validated text) *)
From XV Require Gen.T9text Proofs.Text_C05.
Theorem C05_hand_modelled_functions_read_as_validated : Text_C05.all_frozen.
Proof. exact Text_C05.all_frozen_holds. Qed.
Print Assumptions C05_hand_modelled_functions_read_as_validated.
