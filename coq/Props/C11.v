(* C11 — rotation re-expresses the retained subspace. Statements only. *)
From Coq Require Import String ZArith List Bool Reals Permutation.
From XV Require Import Model.FlagState Proofs.FlagState_proofs Proofs.RotState_proofs Proofs.C11_varimax_tie.
From XV Require Import Base.Scalar Base.Sum Base.Mat Base.RInst Model.Eof Model.Rot Gen.T5rot
  Proofs.C01_proofs Proofs.C11_proofs Proofs.C11_real Proofs.C11_tie.
Import ListNotations.

(* Varimax: whatever the inner SVD oracle answers (unitary factors), every iterate of the
   rotation matrix is unitary — induction over an unbounded number of iterations *)
Theorem C11_varimax_unitary : forall (F : Type) (K : Ops F), FieldLaws K ->
  forall (k : nat) (answers : list (mat * mat)),
  Forall (fun a => unitary K k (fst a) /\ unitary K k (snd a)) answers -> unitary K k (varimax_run K k answers).
Proof. exact (@varimax_unitary). Qed.
Print Assumptions C11_varimax_unitary.

(* any invertible R with RinvT = R^{-H}, any power: reconstruction from the rotated scores and
   components equals c * Un (V diag sqrt(lam))^H; the hypotheses on square roots are discharged
   for real data in C11_recon_equal_real *)
Theorem C11_recon_equal : forall (F : Type) (K : Ops F), FieldLaws K ->
  forall (n p k : nat) (Vk Un : mat) (lam : vec) (R RinvT : mat) (c : F),
  mmul K k k k RinvT (mH K k k R) = mI K k ->
  let out := rot_fit K n p k Vk Un lam R RinvT in
  (forall j, (j < k)%nat -> fsqrt K (vget K (r_expvar out) j) <> f0 K /\
                            fconj K (fsqrt K (vget K (r_expvar out) j)) = fsqrt K (vget K (r_expvar out) j)) ->
  (forall j, (j < k)%nat -> fsqrt K (fmul K (vget K (r_expvar out) j) (fofZ K (Z.of_nat n - 1)))
                            = fmul K c (fsqrt K (vget K (r_expvar out) j))) ->
  rot_inverse K n p k out (r_scores out)
  = mscale K n p c (mmul K n k p Un (mH K p k (colscale K p k Vk (vmap K k (fsqrt K) lam)))).
Proof. exact (@rot_recon). Qed.
Print Assumptions C11_recon_equal.

Theorem C11_recon_equal_real : forall (n p k : nat) (Vk Uk : list (list R)) (s lam : list R) (Rm RinvT : list (list R)),
  (2 <= n)%nat -> mmul OR k k k RinvT (mH OR k k Rm) = mI OR k ->
  (forall i, (i < k)%nat -> (0 <= vget OR s i)%R /\ vget OR lam i = (vget OR s i * vget OR s i / IZR (Z.of_nat n - 1))%R) ->
  let out := rot_fit OR n p k Vk Uk lam Rm RinvT in
  (forall j, (j < k)%nat -> (0 < vget OR (r_expvar out) j)%R) ->
  rot_inverse OR n p k out (r_scores out) = mmul OR n k p (colscale OR n k Uk s) (mH OR p k Vk).
Proof. exact rot_recon_real. Qed.
Print Assumptions C11_recon_equal_real.

(* sorting all mode-indexed arrays by one permutation does not change the reconstruction *)
Theorem C11_sorting_preserves_reconstruction : forall (F : Type) (K : Ops F), FieldLaws K ->
  forall (n p k : nat) (idx : list nat) (o : rot_out), Permutation idx (seq 0 k) ->
  rot_inverse K n p k (rot_sort K n p idx o) (r_scores (rot_sort K n p idx o)) = rot_inverse K n p k o (r_scores o).
Proof. exact (@rot_sort_recon). Qed.
Print Assumptions C11_sorting_preserves_reconstruction.

(* power 1: rotated normalised scores stay orthonormal *)
Theorem C11_scores_orthonormal : forall (F : Type) (K : Ops F), FieldLaws K ->
  forall (n k : nat) (Un R : mat), mmul K k n k (mH K n k Un) Un = mI K k -> unitary K k R ->
  let Ur := mmul K n k k Un R in mmul K k n k (mH K n k Ur) Ur = mI K k.
Proof. exact (@rot_scores_orthonormal). Qed.
Print Assumptions C11_scores_orthonormal.

Theorem C11_model_matches_source :
  (forall (F : Type) (K : Ops F) (v lam rl d : F) (n : nat),
     rot_loading K v lam = fmul K v (fsqrt K lam) /\ rot_component K rl d = fdiv K rl (fsqrt K d) /\
     rot_pseudo_norm K d (Z.of_nat n) = fsqrt K (fmul K d (fofZ K (Z.of_nat n - 1)))) /\
  (rot_fit_score_steps = [SDivSvals; SRotate; SMulNorms; SMulSign] /\
   rot_transform_steps = [SDivSvals; SRotate; SSortIfSorted; SMulNorms; SMulSign] /\
   rot_sign_from_components_applied_to_both = true /\ rot_sort_all_mode_arrays = true /\
   rot_expvar_is_sum_abs2_over_features = true /\ rot_inv_trans_threshold_power = 1%Z).
Proof. exact (conj tie_rot_formulas tie_rot_steps). Qed.
Print Assumptions C11_model_matches_source.

(* stated, not proved: for real loadings the Varimax simplicity criterion of the rotated loadings
   is not lower than before rotation, along every run of the fixed-point iteration whose inner
   SVD answers are admissible (ascent of the iteration); tested on the implementation *)
Definition varimax_criterion (p k : nat) (A : list (list R)) : R :=
  sum OR k (fun j =>
    (sum OR p (fun f => (get OR A f j) ^ 4) / INR p - (sum OR p (fun f => (get OR A f j) ^ 2) / INR p) ^ 2)%R).
(* the matrix whose SVD drives one iteration: X^T (B o (B o B - W/p)), B = X R, W_j = sum_f B_fj^2 *)
Definition varimax_target (p k : nat) (X Rm : list (list R)) : list (list R) :=
  let B := mmul OR p k k X Rm in
  let W := fun j => sum OR p (fun f => ((get OR B f j) ^ 2)%R) in
  mmul OR k p k (mT OR p k X) (tab p k (fun f j => (get OR B f j * ((get OR B f j) ^ 2 - W j / INR p))%R)).
Fixpoint varimax_admissible (p k : nat) (X Rm : list (list R)) (answers : list (list (list R) * list R * list (list R))) {struct answers} : Prop :=
  match answers return Prop with
  | [] => True
  | (U, s, Vt) :: rest => and (svd_ok OR k k k (varimax_target p k X Rm) (U, s, Vt)) (varimax_admissible p k X (mmul OR k k k U Vt) rest)
  end.
Definition C11_varimax_criterion_full : Prop :=
  forall (p k : nat) (X : list (list R)) (answers : list (list (list R) * list R * list (list R))),
  wf OR p k X -> varimax_admissible p k X (mI OR k) answers ->
  let Rfin := varimax_run OR k (map (fun a => (fst (fst a), snd a)) answers) in
  (varimax_criterion p k X <= varimax_criterion p k (mmul OR p k k X Rfin))%R.

(* descending order survives any call history: after whatever was fitted, computed or asked before, once compute() has run
   after the last fit the stored mode-indexed arrays are that fit's arrays re-indexed by that fit's own sorting permutation
   (the flag protocol of Model/FlagState.v in the variant regenerated from the source, C04_flag_protocol_matches_source);
   in particular the stored explained variances are the fresh ones in the order idx *)
Theorem C11_sorted_after_any_history : forall (F : Type) (K : Ops F) (n p : nat)
  (ops : list (fop (@rot_out F))) (s : fstate (@rot_out F)), FlagInv _ (rot_sort K n p) s ->
  let s' := frun _ (rot_sort K n p) true true s (ops ++ [FCompute _]) in
  fs_sorted _ s' = true /\ fs_data _ s' = rot_sort K n p (fs_idx _ s') (fs_fresh _ s') /\
  r_expvar (fs_data _ s') = vsel K (fs_idx _ s') (r_expvar (fs_fresh _ s')).
Proof. exact (fun F K n p => @rot_sorted_after_any_history F K n p). Qed.
Print Assumptions C11_sorted_after_any_history.

(* the matrix of the criterion statement above is the one the source hands to the SVD in each iteration (the expression
   is emitted by T5rot after a statement-by-statement match of _rotation.py:_varimax; the next rotation matrix is U VT
   and the loop starts from the identity, as in varimax_run) *)
Theorem C11_varimax_update_matches_source : forall (p k : nat) (X Rm : list (list R)), (0 < p)%nat ->
  varimax_target p k X Rm = varimax_update_src OR p k X Rm.
Proof. exact varimax_update_matches_source. Qed.
Print Assumptions C11_varimax_update_matches_source.

(* the Kaiser normalisation around the Varimax and Promax steps, as translated from the source, is the identity on every row: the rotated
   loadings are the loadings times the rotation matrix for data in any units (abstract field; no assumption on the size of h) *)
Theorem C11_kaiser_pair_is_identity : forall (F : Type) (K : Ops F), FieldLaws K -> forall h eps x : F, fadd K h eps <> f0 K ->
  fmul K (T5rot.kaiser_denorm K h eps) (fmul K (T5rot.kaiser_norm K h eps) x) = x /\
  fmul K (T5rot.promax_denorm K h eps) (fmul K (T5rot.promax_norm K h eps) x) = x.
Proof. exact (@C11_varimax_tie.kaiser_pair_is_identity). Qed.
Print Assumptions C11_kaiser_pair_is_identity.

(* ... and the variant multiplying back with h alone loses eps / (h + eps) of every row *)
Theorem C11_kaiser_old_pair_refuted : exists h eps x : R,
  (h + eps <> 0 /\ C11_varimax_tie.kaiser_denorm_old h eps * (T5rot.kaiser_norm OR h eps * x) <> x)%R.
Proof. exact C11_varimax_tie.kaiser_old_pair_refuted. Qed.
Print Assumptions C11_kaiser_old_pair_refuted.

(* the functions of this property whose Gallina counterpart is hand-written (or that only the oracles reach) still read, statement by statement, as they did when
   the model was last validated against them (Gen/T9text.v regenerated from the source on every run; Proofs/Text_C11.v holds the validated text) *)
From XV Require Gen.T9text Proofs.Text_C11.
Theorem C11_hand_modelled_functions_read_as_validated : Text_C11.all_frozen.
Proof. exact Text_C11.all_frozen_holds. Qed.
Print Assumptions C11_hand_modelled_functions_read_as_validated.

(* every fit of a rotator starts from an unsorted state and every use of the sorted order is guarded by the flag (the protocol of Model/FlagState.v as
   regenerated from the source by T5flag): a second fit of the same rotator object cannot inherit the order of the first *)
From XV Require Gen.T5flag Proofs.Flag_tie.
Theorem C11_flag_protocol_matches_source :
  T5flag.flag_protocol = [("EOFRotator", (true, true)); ("CPCCARotator", (true, true)); ("POP", (true, true))]%string.
Proof. exact Flag_tie.flag_protocol_faithful. Qed.
Print Assumptions C11_flag_protocol_matches_source.
