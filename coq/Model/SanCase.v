(* SanCase.v — run the sanitizer model on bit-coded masks and print numeric codes that the harness
   compares with what xeofs.preprocessing.sanitizer.Sanitizer did on the same masks. *)
From Coq Require Import ZArith List Bool.
From XV Require Import Model.Sanitizer.
Import ListNotations.

(* fit on an nf x p array with mask [sc_fit], transform an nt x p array with mask [sc_tr];
   bit (i*p + j) of a mask code set = entry (i, j) present, and its value is i*p + j *)
Record san_case := mkSC { sc_nf : nat; sc_nt : nat; sc_p : nat; sc_fit : Z; sc_tr : Z;
                          sc_dims_ok : bool; sc_coords_same : bool }.

Definition decode (n p : nat) (code : Z) : @omat Z :=
  map (fun i => map (fun j => let k := Z.of_nat (i * p + j) in if Z.testbit code k then Some k else None) (seq 0 p)) (seq 0 n).

Definition zcoords (off : Z) (n : nat) : list Z := map (fun i => (Z.of_nat i + off)%Z) (seq 0 n).
Definition bits_code (l : list nat) : Z := fold_right (fun i acc => (Z.shiftl 1 (Z.of_nat i) + acc)%Z) 0%Z l.
Definition errcode (e : san_err) : Z :=
  match e with SE_dims => 1 | SE_coords => 2 | SE_mask => 3 | SE_isolated => 4 | SE_internal => 5 end%Z.
Definition oz (o : option Z) : Z := match o with Some z => z | None => (-1)%Z end.
Definition flat (M : @omat Z) : list Z := concat (map (map oz) M).

(* error: [code]; accepted: 0, kept-row bits, kept-column bits, the dense matrix, -2, the matrix after
   inverse_transform_data (features re-indexed), -2, after inverse_transform_scores as well (samples
   re-indexed to the FIT sample labels) *)
Definition run_case (c : san_case) : list Z :=
  let p := sc_p c in
  let xf := mkIn true (zcoords 0 p) (zcoords 0 (sc_nf c)) (decode (sc_nf c) p (sc_fit c)) in
  match san_fit_of p xf with
  | SErr e => [errcode e]
  | SOk st =>
    let xt := mkIn (sc_dims_ok c) (zcoords (if sc_coords_same c then 0 else 100) p) (zcoords 0 (sc_nt c))
                   (decode (sc_nt c) p (sc_tr c)) in
    match san_transform st p xt with
    | SErr e => [errcode e]
    | SOk o =>
      let feat := map (reinsert_cols p (out_cols o)) (out_X o) in
      [0%Z; bits_code (out_rows o); bits_code (out_cols o)] ++ concat (out_X o) ++ [(-2)%Z] ++ flat feat
      ++ [(-2)%Z] ++ flat (reinsert_rows (sc_nf c) p (out_rows o) feat)
    end
  end.

Definition run_cases (cs : list san_case) : list (list Z) := map run_case cs.
