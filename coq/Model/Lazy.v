(* Lazy.v — force-point logic of a fit: which sites trigger a dask computation under which flags.
   The site table is regenerated from the source (Gen/T7lazy.v). *)
From Coq Require Import Ascii String List Bool.
From XV Require Import Gen.T7lazy.
Import ListNotations.
Open Scope string_scope.

Definition active (compute check_nans variance : bool) (g : lguard) : bool :=
  match g with GAlways => true | GCompute => compute | GCheckNans => check_nans | GVarianceThreshold => variance
  | GNotDask => false   (* the analysis concerns dask-backed input *)
  | GOther => true end.
Definition fires (compute check_nans variance : bool) (gs : list lguard) : bool := forallb (active compute check_nans variance) gs.

(* the class a site belongs to: the text before the first '.' *)
Fixpoint before_dot (s : string) : string :=
  match s with EmptyString => EmptyString | String c r => if Ascii.eqb c "."%char then EmptyString else String c (before_dot r) end.

Definition forces (path : list string) (compute check_nans variance : bool) : list string :=
  map fst (filter (fun s => existsb (String.eqb (before_dot (fst s))) path && fires compute check_nans variance (snd s)) force_sites).

(* classes on the fit path of each model family *)
Definition preprocessing_path : list string := ["Scaler"; "Sanitizer"; "Stacker"; "Concatenator"].
Definition eof_path : list string := preprocessing_path ++ ["Decomposer"; "BaseModelSingleSet"; "EOF"; "ExtendedEOF"; "SparsePCA"].
Definition cross_path : list string := preprocessing_path ++ ["PCA"; "SVD"; "Whitener"; "Decomposer"; "BaseModelCrossSet"; "CPCCA"].
Definition eof_rotator_path : list string := eof_path ++ ["EOFRotator"].
Definition cross_rotator_path : list string := cross_path ++ ["CPCCARotator"].
Definition pop_path : list string := eof_path ++ ["PCA"; "SVD"; "POP"].
Definition opa_path : list string := eof_path ++ ["OPA"].
