(* CpccaCase.v — run the cross-set core model against CPCCA-family fits. *)
From Coq Require Import ZArith List Bool PrimFloat.
From XV Require Import Base.Scalar Base.Sum Base.Mat Base.Instances Model.Eof Model.EofCase Model.Cpcca.
Import ListNotations.

Section Case.
Context {F : Type} (K : Ops F).
Variable mag : F -> float.
Variable cl : float -> float -> F -> F -> bool.

Record cp_case := mkCC {
  cc_n : nat; cc_p1 : nat; cc_p2 : nat; cc_r : nat; cc_k : nat;
  cc_X : list (list F); cc_Y : list (list F);
  cc_U : list (list F); cc_s : list F; cc_Vt : list (list F);
  cc_Q1 : list (list F); cc_Q2 : list (list F); cc_sigma : list F;
  cc_S1 : list (list F); cc_S2 : list (list F); cc_tsc : F }.

Definition check_cp (rt : float) (c : cp_case) : list nat :=
  let n := cc_n c in let p1 := cc_p1 c in let p2 := cc_p2 c in let r := cc_r c in let k := cc_k c in
  let Cm := cross_cov K n p1 p2 (cc_X c) (cc_Y c) in
  let a := (cc_U c, cc_s c, cc_Vt c) in
  let o := cpcca_fit K n p1 p2 r k (cc_X c) (cc_Y c) a in
  let Cr := mmul K p1 r p2 (mmul K p1 r r (cc_U c) (mdiag K r (cc_s c))) (cc_Vt c) in
  let Cs := mscale K k k (finv K (fofZ K (Z.of_nat n - 1))) (mmul K k n k (mH K n k (cp_S1 o)) (cp_S2 o)) in
  (if msame mag cl rt Cr Cm then [] else [1%nat]) ++
  (if msame mag cl rt (cp_Q1 o) (cc_Q1 c) then [] else [2%nat]) ++
  (if msame mag cl rt (cp_Q2 o) (cc_Q2 c) then [] else [3%nat]) ++
  (if vsame mag cl rt (cp_sigma o) (cc_sigma c) then [] else [4%nat]) ++
  (if msame mag cl rt (cp_S1 o) (cc_S1 c) then [] else [5%nat]) ++
  (if msame mag cl rt (cp_S2 o) (cc_S2 c) then [] else [6%nat]) ++
  (if vsame mag cl rt [cp_tsc o] [cc_tsc c] then [] else [7%nat]) ++
  (if mcl cl (rt * vmag mag (cc_sigma c))%float rt Cs (mdiag K k (cc_sigma c)) then [] else [8%nat]).

(* squared covariance fractions of an MCA fit: the residual formula of the source (Cpcca.scf_modes) against squared_covariance_fraction() *)
Record scf_case := mkSC { sc_n : nat; sc_p1 : nat; sc_p2 : nat; sc_k : nat; sc_X : list (list F); sc_Y : list (list F);
  sc_Q1 : list (list F); sc_Q2 : list (list F); sc_tsc : F; sc_scf : list F; sc_fvex : list F; sc_fvey : list F }.
Definition check_scf (rt : float) (c : scf_case) : bool :=
  vcl cl rt rt (scf_modes K (sc_n c) (sc_p1 c) (sc_p2 c) (sc_k c) (sc_X c) (sc_Y c) (sc_Q1 c) (sc_Q2 c) (sc_tsc c)) (sc_scf c) &&
  vcl cl rt rt (vtab (sc_k c) (fun i => fve_src K (sc_n c) (sc_p1 c) (sc_X c) (col K (sc_p1 c) i (sc_Q1 c)))) (sc_fvex c) &&
  vcl cl rt rt (vtab (sc_k c) (fun i => fve_src K (sc_n c) (sc_p2 c) (sc_Y c) (col K (sc_p2 c) i (sc_Q2 c)))) (sc_fvey c).
Definition check_scfs (rt : float) (cs : list scf_case) : list nat :=
  concat (map (fun ic => if check_scf rt (snd ic) then [] else [fst ic]) (combine (seq 0 (length cs)) cs)).

Definition check_cps (rt : float) (cs : list cp_case) : list (nat * nat) :=
  concat (map (fun ic => map (fun f => (fst ic, f)) (check_cp rt (snd ic))) (combine (seq 0 (length cs)) cs)).
End Case.

Definition check_cps_f64 := @check_cps float OF64 PrimFloat.abs fclose.
Definition check_scfs_f64 := @check_scfs float OF64 fclose.
Definition check_scfs_c64 := @check_scfs cfloat OC64 cclose.
Definition check_cps_c64 := @check_cps cfloat OC64 (fun a => fst (c_abs a)) cclose.
