(* Eeof.v — delay embedding of ExtendedEOF: (embed X)[t, (j, f)] = X[t + j*tau, f], rows t < n - (e-1)*tau,
   columns ordered embedding-major (the concat dimension comes first). *)
From Coq Require Import ZArith List Bool Lia Arith.
From XV Require Import Base.Scalar Base.Mat.
Import ListNotations.

Section Eeof.
Context {F : Type} (K : Ops F).
Definition embed_rows (n tau e : nat) : nat := n - (e - 1) * tau.
Definition embed (n p tau e : nat) (X : list (list F)) : list (list F) :=
  tab (embed_rows n tau e) (e * p) (fun t c => get K X (t + (c / p) * tau) (c mod p)).
End Eeof.
