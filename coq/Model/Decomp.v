(* Decomp.v — hand-written composition of the generated decision pieces (Gen/T3.v),
   in the order Decomposer.fit / _SVD.fit_transform apply them. *)
From Coq Require Import String ZArith List Bool PrimFloat.
From XV Require Import Base.Scalar Base.Instances Model.DecompLib Gen.T3.
Import ListNotations.

Inductive nmodes := NInt (z : Z) | NFloat (f : float) | NAll.
Definition nmodes_ty (n : nmodes) : pyty := match n with NInt _ => TInt | NFloat _ => TFloat | NAll => TStr end.

(* (outcome code, n_modes_precompute) *)
Definition dec_decide (nm : nmodes) (irr : float) (solver : string) (n p : Z) (cplx dask : bool) : Z * Z :=
  let rank := dec_rank n p in
  let npre := if dec_is_based_on_variance (nmodes_ty nm) then dec_npre_variance rank irr
              else match nm with NInt z => z | _ => 0%Z end in
  if dec_rank_rejected npre rank then ((100 + Z.of_nat dec_rank_error)%Z, npre)
  else (res_code (policy dec_use_exact dec_backend solver (dec_is_small_data n p) cplx dask npre rank), npre).

Definition svd_decide (nm : nmodes) (irr : float) (solver : string) (n p : Z) (cplx dask : bool) : Z * Z :=
  let rank := svd_rank n p in
  let isvar := svd_is_based_on_variance (nmodes_ty nm) in
  let npre := if isvar then svd_npre_variance rank irr
              else match nm with NInt z => z | NAll => rank | _ => 0%Z end in
  if negb isvar && (match nm with NInt _ => true | _ => false end) && svd_rank_rejected npre rank
  then ((100 + Z.of_nat svd_rank_error)%Z, npre)
  else (res_code (policy svd_use_exact svd_backend solver (svd_is_small_data n p) cplx dask npre rank), npre).

(* number of modes kept by the variance threshold, from the singular values the solver
   returned, the total variance and the requested fraction — float instance, same
   operation order as the source: s**2 / N / total_variance, cumsum, count, clip *)
Definition dec_threshold_f64 (s : list float) (n_rows n_cols : Z) (tv frac : float) : Z * bool :=
  let nn := float_ofZ (dec_expvar_N n_rows n_cols) in
  let ev := map (fun x => dec_expvar_fraction OF64 x nn tv) s in
  dec_n_modes_clipped OF64 (Z.of_nat (length s)) (cumsum OF64 ev) frac.
Definition svd_threshold_f64 (s : list float) (n_rows n_cols : Z) (tv frac : float) : Z * bool :=
  let nn := float_ofZ (svd_expvar_N n_rows n_cols) in
  let ev := map (fun x => svd_expvar_fraction OF64 x nn tv) s in
  svd_n_modes_clipped OF64 (Z.of_nat (length s)) (cumsum OF64 ev) frac.
