(* Eof.v — the SVD oracle specification and the EOF model (fit / transform / inverse),
   polymorphic in the scalar instance: proved about at an abstract field, run at floats. *)
From Coq Require Import ZArith List Bool Lia Arith.
From XV Require Import Base.Scalar Base.Sum Base.Mat.
Import ListNotations.

Section Eof.
Context {F : Type} (K : Ops F).
Notation mat := (@mat F). Notation vec := (@vec F).

(* an SVD answer: U (n x r), s (r), Vt (r x p) *)
Definition svd_answer := (mat * vec * mat)%type.

Definition unitary_cols (n r : nat) (U : mat) : Prop := mmul K r n r (mH K n r U) U = mI K r.
Definition unitary_rows (r p : nat) (Vt : mat) : Prop := mmul K r p r Vt (mH K r p Vt) = mI K r.
Definition real_vec (r : nat) (s : vec) : Prop := forall i, (i < r)%nat -> fconj K (vget K s i) = vget K s i.

Definition svd_ok (n p r : nat) (X : mat) (a : svd_answer) : Prop :=
  let '(U, s, Vt) := a in
  wf K n p X /\ wf K n r U /\ wf K r p Vt /\ vwf K r s /\
  X = mmul K n r p (mmul K n r r U (mdiag K r s)) Vt /\
  unitary_cols n r U /\ unitary_rows r p Vt /\ real_vec r s.

(* --- the deterministic sign: computed from rows of Vt (k x p), as Decomposer does --- *)
Definition vmax (l : vec) : F := fold_left (fun a x => if fleb K a x then x else a) (tl l) (hd (f0 K) l).
Definition vmin (l : vec) : F := fold_left (fun a x => if fleb K x a then x else a) (tl l) (hd (f0 K) l).
Definition sign_rule (mx mn : F) : F :=
  if fleb K (fabs K mn) (fabs K mx) then fofZ K 1%Z else fofZ K (-1)%Z.
Definition row_signs (k : nat) (Vtk : mat) : vec :=
  vtab k (fun i => let row := nth i Vtk [] in sign_rule (vmax row) (vmin row)).

Record eof_out := mkEof {
  e_comps : mat;   (* p x k *)
  e_scores : mat;  (* n x k *)
  e_norms : vec;   (* k *)
  e_expvar : vec;  (* k *)
  e_totvar : F }.

(* column means and the ddof=1 total variance: sum_j sum_i |x_ij - mean_j|^2 / (n-1) *)
Definition colmean (n : nat) (X : mat) (j : nat) : F := fdiv K (colsum K n X j) (fofZ K (Z.of_nat n)).
Definition totvar (n p : nat) (X : mat) : F :=
  fdiv K (sum K p (fun j => sum K n (fun i =>
     let d := fsub K (get K X i j) (colmean n X j) in fmul K d (fconj K d))))
    (fofZ K (Z.of_nat n - 1)).

Definition sq_over (n : nat) (x : F) : F := fdiv K (fmul K x x) (fofZ K (Z.of_nat n - 1)).

(* fit with k modes: truncate, flip signs (sg), scores = U_k diag s_k, expvar = s_k^2/(n-1) *)
Definition eof_fit_sg (n p r k : nat) (X : mat) (a : svd_answer) (sg : vec) : eof_out :=
  let '(U, s, Vt) := a in
  let Uk := mcols K n k U in
  let sk := vfirstn K k s in
  let Vtk := mrows K k p Vt in
  let Vtk' := rowscale K k p sg Vtk in
  let Uk' := colscale K n k Uk sg in
  {| e_comps := mH K k p Vtk';
     e_scores := colscale K n k Uk' sk;
     e_norms := sk;
     e_expvar := vmap K k (sq_over n) sk;
     e_totvar := totvar n p X |}.

Definition eof_fit (n p r k : nat) (X : mat) (a : svd_answer) : eof_out :=
  let '(U, s, Vt) := a in
  eof_fit_sg n p r k X a (row_signs k (mrows K k p Vt)).

(* transform: project new data (m x p) on the components *)
Definition eof_transform (m p k : nat) (o : eof_out) (Xn : mat) : mat := mmul K m p k Xn (e_comps o).
(* inverse: scores (m x k) times conjugated components *)
Definition eof_inverse (m p k : nat) (o : eof_out) (S : mat) : mat := mmul K m k p S (mH K p k (e_comps o)).

(* residual check of a supplied SVD answer (executable; used by the correspondence) *)
Definition max_abs_diff (m n : nat) (A B : mat) : F :=
  fold_left (fun acc i => fold_left (fun a j => let d := fabs K (fsub K (get K A i j) (get K B i j)) in
                                               if fleb K a d then d else a) (seq 0 n) acc) (seq 0 m) (f0 K).
Definition svd_resid (n p r : nat) (X : mat) (a : svd_answer) : F * F * F :=
  let '(U, s, Vt) := a in
  (max_abs_diff n p X (mmul K n r p (mmul K n r r U (mdiag K r s)) Vt),
   max_abs_diff r r (mmul K r n r (mH K n r U) U) (mI K r),
   max_abs_diff r r (mmul K r p r Vt (mH K r p Vt)) (mI K r)).

End Eof.
