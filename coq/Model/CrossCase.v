(* CrossCase.v — run the cross-set transform chain (scaler, PCA projection, whitening, projection, optional
   normalisation) at binary64 against the implementation's transform of new data. *)
From Coq Require Import ZArith List Bool PrimFloat.
From XV Require Import Base.Scalar Base.Mat Base.Instances Model.ScalerLib Gen.T4 Proofs.C05_proofs.
Import ListNotations.

Record cross_case := mkXC {
  xc_m : nat; xc_p : nat; xc_q1 : nat; xc_q2 : nat; xc_k : nat; xc_fl : sflags;
  xc_mean : list float; xc_std : list float;
  xc_X : list (list float); xc_Vp : list (list float); xc_T : list (list float); xc_C : list (list float);
  xc_norm : option (list float); xc_expected : list (list float) }.

Definition xc_params (c : cross_case) (j : nat) : @sparams float :=
  mkParams (nth j (xc_mean c) 0%float) (nth j (xc_std c) 1%float) 1%float 1%float.

Definition check_cross (rt : float) (c : cross_case) : bool :=
  let got := cross_pipeline OF64 (xc_m c) (xc_p c) (xc_q1 c) (xc_q2 c) (xc_k c) (xc_fl c) (xc_params c) scaler_fwd
                            (xc_Vp c) (xc_T c) (xc_C c) (xc_norm c) (xc_X c) in
  mclose (rt * mmaxabs (xc_expected c))%float rt got (xc_expected c).

Fixpoint cross_mismatches_from (rt : float) (i : Z) (cs : list cross_case) : list Z :=
  match cs with [] => [] | c :: r => if check_cross rt c then cross_mismatches_from rt (i + 1) r else i :: cross_mismatches_from rt (i + 1) r end.
Definition cross_mismatches rt cs := cross_mismatches_from rt 1%Z cs.
