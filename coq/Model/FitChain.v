(* FitChain.v — fitted stages chained: each stage is fitted on the output of the stages before it and its fitted
   state is stored under the stage's number; transform applies the stored stages to other data in an order of its own.
   xeofs chains stages this way at three levels: the transformers inside the Preprocessor, preprocessor -> PCA ->
   whitener in the cross-set models, preprocessor -> model algorithm in the single-set models. The orders, and whether
   a stage's fit_transform is `fit` followed by `transform` of the same data, are regenerated from the source
   (Gen/T7chain.v, Gen/T7pipe.v). *)
From Coq Require Import List Bool Arith.
Import ListNotations.

Section FitChain.
Variables D S : Type.
Record fstage := mkFStage {
  sfit : D -> S;                (* what fit learns from the data it is given *)
  sapply : S -> D -> D;         (* transform with a fitted state *)
  sft : D -> D }.               (* what fit_transform returns for the data it is given *)

(* the faithful fit_transform: fit, then transform the same data *)
Definition fit_then_transform (s : fstage) : Prop := forall x, sft s x = sapply s (sfit s x) x.

Definition store := list (nat * S).
Fixpoint lookup (i : nat) (st : store) : option S :=
  match st with [] => None | (k, v) :: r => if Nat.eqb k i then Some v else lookup i r end.

(* fit along the order fo: returns the stored states and the data handed to the model's algorithm *)
Fixpoint fit_run (stages : nat -> fstage) (fo : list nat) (x : D) : store * D :=
  match fo with
  | [] => ([], x)
  | i :: r => let s := stages i in let '(st, y) := fit_run stages r (sft s x) in ((i, sfit s x) :: st, y)
  end.

(* transform along the order t_o with the stored states; a stage without a stored state passes the data on *)
Fixpoint transform_run (stages : nat -> fstage) (t_o : list nat) (st : store) (x : D) : D :=
  match t_o with
  | [] => x
  | i :: r => transform_run stages r st (match lookup i st with Some v => sapply (stages i) v x | None => x end)
  end.
End FitChain.
