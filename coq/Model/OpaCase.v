(* OpaCase.v — executable comparison of the OPA model with what xeofs.single.OPA returned, generic in the
   scalar instance (run at binary64). Oracle tables (factors of C0, inverse of C0_sqrt, eigen answer of the
   target) come from the harness; their residuals are checked here against the model's own matrices. *)
From Coq Require Import ZArith List Bool PrimFloat.
From XV Require Import Base.Scalar Base.Sum Base.Mat Base.Instances Model.Eof Model.EofCase Model.Opa.
Import ListNotations.

Section Case.
Context {F : Type} (K : Ops F).
Variable mag : F -> float.
Variable cl : float -> float -> F -> F -> bool.

Record opa_case := mkOC {
  oc_n : nat; oc_p : nat; oc_q : nat; oc_k : nat; oc_tm : nat;
  oc_A : list (list F);       (* n x q raw PCs of the (re-centred) preprocessed data: independent SVD, sign-aligned *)
  oc_Eraw : list (list F);    (* p x q raw EOFs of the same SVD *)
  oc_S : list (list F);       (* n x q: data["input_data"] of the implementation (normalised PCs) *)
  oc_U0 : list (list F); oc_s0 : list F;   (* oracle: C0 = U0 diag(s0) U0^T *)
  oc_Ci : list (list F);      (* U0 diag(1/sqrt(s0)) U0^T as computed outside the model (cross-check) *)
  oc_Crefs : list (list (list F));  (* numpy: C_tau, tau = 0 .. tau_max *)
  oc_Mref : list (list F);    (* numpy: lag sum *)
  oc_Tref : list (list F);    (* numpy: target, independent route (eigh-based C0^(-1/2)) *)
  oc_U : list (list F); oc_lam : list F;   (* oracle: full eigen answer of the target, ordered per variant *)
  oc_Vphys : list (list F); oc_Wphys : list (list F); oc_P : list (list F);   (* implementation *)
  oc_tau : list F; oc_norms : list F;
  oc_own : list F }.          (* numpy: own trapezoidal decorrelation time of each implementation series *)

Fixpoint desc_key (tol : float) (l : list F) : bool :=
  match l with
  | a :: ((b :: _) as r) => (fleb K b a || cl tol tol a b) && desc_key tol r
  | _ => true
  end.

(* failing field numbers:
   1 shapes, 2 scaled PCs vs input_data, 3 C_tau vs numpy, 4 lag sum vs numpy, 5 factor oracle of C0,
   6 C0_sqrt_inv as recorded vs the model's symmetric inverse square root, 7 Ci symmetric, 8 Ci^T C0 Ci = I, 9 target vs numpy, 10 target symmetric,
   11 target U = U diag(lam), 12 U orthogonal, 13 order of the oracle answer, 14 reported decorrelation times,
   15 series, 16 filter patterns, 17 patterns, 18 norms, 19 model own time vs signed eigenvalue,
   20 model own time vs numpy own time of the implementation's series,
   21 (defect marker, not a correspondence failure) reported time differs from the series' own time *)
Definition check_opa (svd : bool) (rt : float) (c : opa_case) : list nat :=
  let n := oc_n c in let p := oc_p c in let q := oc_q c in let k := oc_k c in let tm := oc_tm c in
  let S := scaled_pcs K n q (oc_A c) in
  let E := scaled_eofs K n p q (oc_Eraw c) in
  let C0 := ctau K n q S 0 in
  let M := msum K n q S tm in
  let Ci := ci_sym K q (oc_U0 c) (oc_s0 c) in
  let T := target K q Ci (msym K q M) in
  let U := oc_U c in let lam := oc_lam c in
  let o := opa_fit K svd n p q k S E Ci U lam in
  let own := vtab k (fun j => own_time K n tm (o_P o) j) in
  let tolI := (rt * 100)%float in
  (if wfb n q (oc_A c) && wfb p q (oc_Eraw c) && wfb n q (oc_S c) && wfb q q (oc_U0 c) && Nat.eqb (length (oc_s0 c)) q &&
      wfb q q Ci && wfb q q U && Nat.eqb (length lam) q && Nat.eqb (length (oc_Crefs c)) (Datatypes.S tm) &&
      wfb p k (oc_Vphys c) && wfb p k (oc_Wphys c) && wfb n k (oc_P c) && Nat.eqb (length (oc_tau c)) k && Nat.leb k q
   then [] else [1%nat]) ++
  (if msame mag cl rt S (oc_S c) then [] else [2%nat]) ++
  (if forallb (fun tr => msame mag cl (rt * 10)%float (ctau K n q S (fst tr)) (snd tr)) (combine (seq 0 (Datatypes.S tm)) (oc_Crefs c))
   then [] else [3%nat]) ++
  (if msame mag cl (rt * 10)%float M (oc_Mref c) then [] else [4%nat]) ++
  (if mcl cl tolI tolI (mmul K q q q (mT K q q (oc_U0 c)) (oc_U0 c)) (mI K q) &&
      msame mag cl (rt * 10)%float (mmul K q q q (colscale K q q (oc_U0 c) (oc_s0 c)) (mT K q q (oc_U0 c))) C0 then [] else [5%nat]) ++
  (if msame mag cl (rt * 100)%float Ci (oc_Ci c) then [] else [6%nat]) ++
  (if msame mag cl rt (mT K q q Ci) Ci then [] else [7%nat]) ++
  (if mcl cl tolI tolI (mmul K q q q (mmul K q q q (mT K q q Ci) C0) Ci) (mI K q) then [] else [8%nat]) ++
  (if msame mag cl (rt * 100)%float T (oc_Tref c) then [] else [9%nat]) ++
  (if msame mag cl (rt * 100)%float (mT K q q T) T then [] else [10%nat]) ++
  (if mcl cl (rt * 100 * mmag mag T)%float 0%float (mmul K q q q T U) (colscale K q q U lam) then [] else [11%nat]) ++
  (if mcl cl tolI tolI (mmul K q q q (mT K q q U) U) (mI K q) && mcl cl tolI tolI (mmul K q q q U (mT K q q U)) (mI K q) then [] else [12%nat]) ++
  (if desc_key rt (map (opa_key K svd) lam) then [] else [13%nat]) ++
  (if vsame mag cl (rt * 100)%float (o_tau o) (oc_tau c) then [] else [14%nat]) ++
  (if msame mag cl (rt * 100)%float (o_P o) (oc_P c) then [] else [15%nat]) ++
  (if msame mag cl (rt * 100)%float (o_Vphys o) (oc_Vphys c) then [] else [16%nat]) ++
  (if msame mag cl (rt * 100)%float (o_Wphys o) (oc_Wphys c) then [] else [17%nat]) ++
  (if vsame mag cl (rt * 100)%float (o_norms o) (oc_norms c) then [] else [18%nat]) ++
  (if vcl cl (rt * 100 * mmag mag T)%float 0%float own (vfirstn K k lam) then [] else [19%nat]) ++
  (if vcl cl (rt * 100 * mmag mag T)%float 0%float own (oc_own c) then [] else [20%nat]) ++
  (if vcl cl (rt * 100 * mmag mag T)%float 0%float own (o_tau o) then [] else [21%nat]).

Definition check_opas (svd : bool) (rt : float) (cs : list opa_case) : list (nat * nat) :=
  concat (map (fun ic => map (fun f => (fst ic, f)) (check_opa svd rt (snd ic))) (combine (seq 0 (length cs)) cs)).
End Case.

Definition check_opas_f64 := @check_opas float OF64 PrimFloat.abs fclose.
