(* Hilbert.v — xeofs/utils/hilbert_transform.py, one feature (column) at a time, over a real field.
   Complex values are pairs (re, im).  The analytic-signal routine (scipy.signal.hilbert) and the padding segments
   are oracles: [an] returns the real and imaginary parts of the analytic signal of its argument. *)
From Coq Require Import ZArith List Bool Lia Arith.
From XV Require Import Base.Scalar Base.Sum Base.Mat.
Import ListNotations.

Section Hilbert.
Context {F : Type} (K : Ops F).
Notation vec := (@vec F).

(* _pad_exp: [pad_pre ; y - yfit ; pad_pos] + yfit_ext, where yfit_ext is the linear fit evaluated on -n .. 2n-1 *)
Definition pad_model (n : nat) (y yfit yfit_ext pre pos : vec) : vec :=
  vtab (3 * n) (fun i => fadd K (if Nat.ltb i n then vget K pre i
                                 else if Nat.ltb i (2 * n) then fsub K (vget K y (i - n)) (vget K yfit (i - n))
                                 else vget K pos (i - 2 * n)) (vget K yfit_ext i)).

(* the number of samples as a field element: 1 + ... + 1 *)
Definition fcount (n : nat) : F := sum K n (fun _ => f1 K).
Definition vmean (n : nat) (v : vec) : F := fdiv K (sum K n (vget K v)) (fcount n).

(* _hilbert_transform_with_padding: pad, analytic signal, keep the middle third, remove the mean of the imaginary part *)
Definition hilbert_model (n : nat) (padding : bool) (y yfit yfit_ext pre pos : vec) (an : vec -> vec * vec) : vec * vec :=
  let v := if padding then pad_model n y yfit yfit_ext pre pos else y in
  let '(re, im) := an v in
  let re1 := if padding then vtab n (fun i => vget K re (n + i)) else vtab n (vget K re) in
  let im1 := if padding then vtab n (fun i => vget K im (n + i)) else vtab n (vget K im) in
  (re1, vtab n (fun i => fsub K (vget K im1 i) (vmean n im1))).
End Hilbert.
