(* PopCase.v — executable comparison of the POP model with what xeofs.single.POP returned,
   generic in the scalar instance (run at complex binary64). *)
From Coq Require Import ZArith List Bool PrimFloat.
From XV Require Import Base.Scalar Base.Sum Base.Mat Base.Instances Model.Eof Model.EofCase Model.Pop.
Import ListNotations.

Section Case.
Context {F : Type} (K : Ops F).
Variable mag : F -> float.
Variable cl : float -> float -> F -> F -> bool.
Variables (re im : F -> F) (iu : F).

Record pop_case := mkPC {
  pc_n : nat; pc_p : nat; pc_q : nat;
  pc_Xpre : list (list F);     (* n x p preprocessed data *)
  pc_V : list (list F);        (* p x q PCA basis (identity when use_pca = False) *)
  pc_X : list (list F);        (* n x q PC-space data = data["input_data"] *)
  pc_C0inv : list (list F);    (* oracle: inverse of the lag-0 Gram matrix *)
  pc_Aref : list (list F);     (* independently computed C1 C0^{-1} *)
  pc_P : list (list F); pc_lam : list F;   (* oracle: eigen answer in fit order *)
  pc_Minvs : list (quad (F:=F));           (* oracle: 2x2 pseudo-inverses in fit order *)
  pc_idx : list nat;
  pc_comps : list (list F); pc_scores : list (list F); pc_norms : list F;   (* implementation, sorted *)
  pc_transformed : list (list F);
  pc_pi : F;
  pc_tt : list (F * F * F * F * F) }.      (* (lam, log|lam|, arg lam, tau_impl, T_impl) *)

Definition qlist (a : quad (F:=F)) : list (list F) := let '(a00, a01, a10, a11) := a in [[a00; a01]; [a10; a11]].
Definition pinv_resid_ok (rt : float) (M Mi : quad (F:=F)) : bool :=
  let MMi := q_mul K M Mi in let MiM := q_mul K Mi M in
  msame mag cl rt (qlist (q_mul K MMi M)) (qlist M) && msame mag cl rt (qlist (q_mul K MiM Mi)) (qlist Mi) &&
  mcl cl rt rt (qlist (q_T MMi)) (qlist MMi) && mcl cl rt rt (qlist (q_T MiM)) (qlist MiM).

Fixpoint desc_ok (tol : float) (l : list F) : bool :=
  match l with
  | a :: ((b :: _) as r) => PrimFloat.leb (mag b) (mag a * (1 + tol))%float && desc_ok tol r
  | _ => true
  end.

(* failing field numbers:
   1 shapes, 2 C0 C0inv = I, 3 C0inv C0 = I, 4 A vs independent A, 5 A P = P diag lam,
   6 pseudo-inverse residuals, 7 components, 8 scores, 9 norms, 10 norms descending,
   11 pca.transform(preprocessed) = input_data, 12 V^H V = I, 13 transform vs implementation,
   14 transform(training) vs fitted scores, 15 damping times, 16 periods *)
Definition check_pop (rt : float) (c : pop_case) : list nat :=
  let n := pc_n c in let p := pc_p c in let q := pc_q c in
  let X := pc_X c in
  let C0 := lag0 K n q X in
  let A := feedback K n q X (pc_C0inv c) in
  let AP := mmul K q q q A (pc_P c) in
  let PL := mmul K q q q (pc_P c) (mdiag K q (pc_lam c)) in
  let fitted := pop_sort K n p (pc_idx c)
                  (pop_fit K re im iu (fun x => x) (fun x => x) (pc_pi c) n p q X (pc_V c) (pc_P c) (pc_lam c) (pc_Minvs c)) in
  let tr := pop_transform K re im iu n p q (pc_V c) (pc_comps c) (lsel (q0 K) (pc_idx c) (pc_Minvs c)) (pc_Xpre c) in
  let tolI := (rt * 100)%float in
  (if wfb n p (pc_Xpre c) && wfb p q (pc_V c) && wfb n q X && wfb q q (pc_C0inv c) && wfb q q (pc_P c) &&
      Nat.eqb (length (pc_lam c)) q && Nat.eqb (length (pc_Minvs c)) q && Nat.eqb (length (pc_idx c)) q then [] else [1%nat]) ++
  (if mcl cl tolI tolI (mmul K q q q C0 (pc_C0inv c)) (mI K q) then [] else [2%nat]) ++
  (if mcl cl tolI tolI (mmul K q q q (pc_C0inv c) C0) (mI K q) then [] else [3%nat]) ++
  (if msame mag cl (rt * 10)%float A (pc_Aref c) then [] else [4%nat]) ++
  (if mcl cl (rt * 10 * mmag mag A * mmag mag (pc_P c))%float 0%float AP PL then [] else [5%nat]) ++
  (if forallb (fun j => pinv_resid_ok (rt * 100)%float (gram2 K re im q (pc_P c) j) (nth j (pc_Minvs c) (q0 K))) (seq 0 q) then [] else [6%nat]) ++
  (if msame mag cl rt (p_comps fitted) (pc_comps c) then [] else [7%nat]) ++
  (if msame mag cl (rt * 10)%float (p_scores fitted) (pc_scores c) then [] else [8%nat]) ++
  (if vsame mag cl (rt * 10)%float (p_norms fitted) (pc_norms c) then [] else [9%nat]) ++
  (if desc_ok rt (p_norms fitted) then [] else [10%nat]) ++
  (if msame mag cl rt (pca_transform K n p q (pc_V c) (pc_Xpre c)) X then [] else [11%nat]) ++
  (if mcl cl tolI tolI (mmul K q p q (mH K p q (pc_V c)) (pc_V c)) (mI K q) then [] else [12%nat]) ++
  (if msame mag cl (rt * 10)%float tr (pc_transformed c) then [] else [13%nat]) ++
  (if msame mag cl (rt * 10)%float tr (p_scores fitted) then [] else [14%nat]) ++
  (if forallb (fun e => let '(lam, L, a, tau, T) := e in
                 vsame mag cl rt [pop_tau K (fun _ => L) lam] [tau]) (pc_tt c) then [] else [15%nat]) ++
  (if forallb (fun e => let '(lam, L, a, tau, T) := e in
                 vsame mag cl rt [pop_period K (pc_pi c) (fun _ => a) lam] [T]) (pc_tt c) then [] else [16%nat]).

Definition check_pops (rt : float) (cs : list pop_case) : list (nat * nat) :=
  concat (map (fun ic => map (fun f => (fst ic, f)) (check_pop rt (snd ic))) (combine (seq 0 (length cs)) cs)).
End Case.

Definition c_re (a : cfloat) : cfloat := (fst a, 0%float).
Definition c_im (a : cfloat) : cfloat := (snd a, 0%float).
Definition c_iu : cfloat := (0%float, 1%float).
Definition check_pops_c64 := @check_pops cfloat OC64 (fun a => fst (c_abs a)) cclose c_re c_im c_iu.
