(* WhitenCase.v — executable comparison of the whitening / PCA model (Model/Whiten.v) with what
   xeofs.preprocessing.Whitener and xeofs.preprocessing.PCA returned, generic in the scalar
   instance; used by the generated Cases/C16_*.v files. *)
From Coq Require Import ZArith List Bool PrimFloat.
From XV Require Import Base.Scalar Base.Sum Base.Mat Base.Instances Model.Eof Model.EofCase Model.Whiten.
Import ListNotations.

Definition f64_eps : float := 0x1p-52%float.

Section Case.
Context {F : Type} (K : Ops F).
Variable mag : F -> float.
Variable cl : float -> float -> F -> F -> bool.
Variable inj : float -> F.

Notation msame := (msame mag cl). Notation vsame := (vsame mag cl).
Notation mcl := (mcl cl). Notation vcl := (vcl cl).

Record wh_case := mkWC {
  wc_n : nat; wc_p : nat; wc_m : nat;
  wc_alpha : F; wc_power : F; wc_anum : nat; wc_aden : nat;
  wc_rt : float;                                   (* comparison tolerance of this case (conditioning) *)
  wc_X : list (list F);
  wc_V : list (list F); wc_lam : list F;           (* eigen oracle for C = X^H X / n *)
  wc_d : list F; wc_dinv : list F;                 (* power oracle lam^power and its reciprocal *)
  wc_P : list (list F);                            (* patterns, p x m *)
  wc_isid : bool; wc_T : list (list F); wc_Tinv : list (list F);      (* implementation *)
  wc_Xw : list (list F); wc_Xb : list (list F); wc_Pw : list (list F); wc_Pb : list (list F) }.

(* failing field numbers:
   1 shapes, 2 C = V diag(lam) V^H, 3 V^H V = I, 4 V V^H = I, 5 d dinv = 1, 6 power = (alpha-1)/2,
   7 alpha = a/b and d^(2b) lam^(b-a) = 1, 8 PREMISE: an eigenvalue is at or below the cut-off,
   9 is_identity, 10 T, 11 Tinv, 12 transform(X), 13 inverse_transform_data(transform(X)),
   14 transform_components(P), 15 inverse_transform_components(transform_components(P)),
   16 model: un-whitened data = X, 17 model: patterns come back *)
Definition check_wh (relative : bool) (rt : float) (c : wh_case) : list nat :=
  let n := wc_n c in let p := wc_p c in let m := wc_m c in
  let eps := inj f64_eps in
  let C := whiten_cov K n p (wc_X c) in
  let V := wc_V c in
  let thr := whiten_threshold K relative eps p (vmax K (wc_lam c)) in
  let w := whiten_fit K p (wc_alpha c) eps thr V (wc_lam c) (wc_d c) (wc_dinv c) in
  let ones := vtab p (fun _ => f1 K) in
  let full := forallb (fun l => whiten_keep K l thr) (wc_lam c) in
  let a := wc_anum c in let b := wc_aden c in
  let Xw := w_transform K n p w (wc_X c) in
  let Xb := w_inverse_data K n p w Xw in
  let Pw := w_transform_components K p m w (wc_P c) in
  let Pb := w_inverse_components K p m w Pw in
  let crt := wc_rt c in
  (if wfb n p (wc_X c) && wfb p p V && wfb p m (wc_P c) && Nat.eqb (length (wc_lam c)) p &&
      Nat.eqb (length (wc_d c)) p && Nat.eqb (length (wc_dinv c)) p then [] else [1%nat]) ++
  (if msame rt (sandwich K p V (wc_lam c)) C then [] else [2%nat]) ++
  (if mcl rt rt (mmul K p p p (mH K p p V) V) (mI K p) then [] else [3%nat]) ++
  (if mcl rt rt (mmul K p p p V (mH K p p V)) (mI K p) then [] else [4%nat]) ++
  (if vcl rt rt (vmap2 K p (fmul K) (wc_d c) (wc_dinv c)) ones then [] else [5%nat]) ++
  (if cl 0%float rt (whiten_exponent K (wc_alpha c)) (wc_power c) then [] else [6%nat]) ++
  (if cl 0%float rt (fdiv K (fofZ K (Z.of_nat a)) (fofZ K (Z.of_nat b))) (wc_alpha c) && Nat.leb a b &&
      vcl rt rt (vtab p (fun i => fmul K (fpow K (vget K (wc_d c) i) (2 * b)) (fpow K (vget K (wc_lam c) i) (b - a)))) ones
   then [] else [7%nat]) ++
  (if full then [] else [8%nat]) ++
  (if Bool.eqb (w_identity w) (wc_isid c) then [] else [9%nat]) ++
  (if msame crt (w_T w) (wc_T c) then [] else [10%nat]) ++
  (if negb full || msame crt (w_Tinv w) (wc_Tinv c) then [] else [11%nat]) ++
  (if msame crt Xw (wc_Xw c) then [] else [12%nat]) ++
  (if negb full || msame crt Xb (wc_Xb c) then [] else [13%nat]) ++
  (if msame crt Pw (wc_Pw c) then [] else [14%nat]) ++
  (if negb full || msame crt Pb (wc_Pb c) then [] else [15%nat]) ++
  (if negb full || msame crt Xb (wc_X c) then [] else [16%nat]) ++
  (if negb full || msame crt Pb (wc_P c) then [] else [17%nat]).

(* [relative] is the generated constant Gen.T5whiten.fmp_cutoff_relative, passed in by the case files *)
Definition check_whs (relative : bool) (rt : float) (cs : list wh_case) : list (nat * nat) :=
  concat (map (fun ic => map (fun f => (fst ic, f)) (check_wh relative rt (snd ic))) (combine (seq 0 (length cs)) cs)).

Record pca_case := mkPC {
  pc_n : nat; pc_p : nat; pc_k : nat; pc_m : nat;
  pc_X : list (list F);
  pc_U : list (list F); pc_s : list F; pc_Vt : list (list F);       (* SVD oracle, r = p *)
  pc_P : list (list F); pc_Q : list (list F);                        (* patterns p x m and k x m *)
  pc_V : list (list F); pc_Xt : list (list F); pc_Xb : list (list F);  (* implementation *)
  pc_Pt : list (list F); pc_Qb : list (list F) }.

(* 1 shapes, 2 X = U S Vt, 3 U^H U = I, 4 Vt Vt^H = I, 5 basis V, 6 transform(X), 7 inverse_transform_data(transform(X)),
   8 transform_components(P), 9 inverse_transform_components(Q), 10 model: V^H V = I,
   11 model: Q comes back, 12 model: all modes => data come back, 13 model: C V = V diag(s^2/n) *)
Definition check_pca (rt : float) (c : pca_case) : list nat :=
  let n := pc_n c in let p := pc_p c in let k := pc_k c in let m := pc_m c in
  let a := (pc_U c, pc_s c, pc_Vt c) in
  let V := pca_fit K p k a in
  let Xt := pca_transform K n p k V (pc_X c) in
  let Xb := pca_inverse_data K n p k V Xt in
  let Qb := pca_inverse_components K p k m V (pc_Q c) in
  let lamk := vmap K k (fun x => fdiv K (fmul K x x) (fofZ K (Z.of_nat n))) (vfirstn K k (pc_s c)) in
  (if wfb n p (pc_X c) && wfb n p (pc_U c) && wfb p p (pc_Vt c) && Nat.eqb (length (pc_s c)) p &&
      wfb p m (pc_P c) && wfb k m (pc_Q c) && Nat.leb k p then [] else [1%nat]) ++
  (if msame rt (mmul K n p p (mmul K n p p (pc_U c) (mdiag K p (pc_s c))) (pc_Vt c)) (pc_X c) then [] else [2%nat]) ++
  (if mcl rt rt (mmul K p n p (mH K n p (pc_U c)) (pc_U c)) (mI K p) then [] else [3%nat]) ++
  (if mcl rt rt (mmul K p p p (pc_Vt c) (mH K p p (pc_Vt c))) (mI K p) then [] else [4%nat]) ++
  (if msame rt V (pc_V c) then [] else [5%nat]) ++
  (if msame rt Xt (pc_Xt c) then [] else [6%nat]) ++
  (if msame rt Xb (pc_Xb c) then [] else [7%nat]) ++
  (if msame rt (pca_transform_components K p k m V (pc_P c)) (pc_Pt c) then [] else [8%nat]) ++
  (if msame rt Qb (pc_Qb c) then [] else [9%nat]) ++
  (if mcl rt rt (mmul K k p k (mH K p k V) V) (mI K k) then [] else [10%nat]) ++
  (if msame rt (pca_transform_components K p k m V Qb) (pc_Q c) then [] else [11%nat]) ++
  (if negb (Nat.eqb k p) || msame rt Xb (pc_X c) then [] else [12%nat]) ++
  (if msame rt (mmul K p p k (whiten_cov K n p (pc_X c)) V) (colscale K p k V lamk) then [] else [13%nat]).

Definition check_pcas (rt : float) (cs : list pca_case) : list (nat * nat) :=
  concat (map (fun ic => map (fun f => (fst ic, f)) (check_pca rt (snd ic))) (combine (seq 0 (length cs)) cs)).
End Case.

Definition check_whs_f64 := @check_whs float OF64 PrimFloat.abs fclose (fun x => x).
Definition check_whs_c64 := @check_whs cfloat OC64 (fun a => fst (c_abs a)) cclose (fun x => (x, 0%float)).
Definition check_pcas_f64 := @check_pcas float OF64 PrimFloat.abs fclose.
Definition check_pcas_c64 := @check_pcas cfloat OC64 (fun a => fst (c_abs a)) cclose.
