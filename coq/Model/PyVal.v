(* PyVal.v — the slice of Python values that model parameters and xarray attributes range
   over, with Python's [str()] / [repr()] on it and the few pieces of Python expression
   semantics (string indexing that can raise, short-circuit and/or, isinstance) that the
   translated attribute codec (Gen/T2.v) is written with.  Everything is executable. *)
From Coq Require Import String Ascii ZArith List Bool Lia DecimalString.
From XV Require Import Base.Scalar.
Import ListNotations.
Open Scope string_scope.

(* ------------------------------------------------------------------ values *)
(* A float is an opaque token (its repr); tuples are not modelled. Dictionary keys are
   strings (xarray attribute dictionaries and model parameter dictionaries). *)
Inductive pyv : Type :=
| PNone
| PBool (b : bool)
| PInt (z : Z)
| PFloatTok (tok : string)
| PStr (s : string)
| PList (l : list pyv)
| PDict (d : list (string * pyv)).

(* the induction principle Coq does not generate for the nested occurrences *)
Section PyvInd.
  Variable P : pyv -> Prop.
  Hypothesis HNone : P PNone.
  Hypothesis HBool : forall b, P (PBool b).
  Hypothesis HInt : forall z, P (PInt z).
  Hypothesis HFloat : forall t, P (PFloatTok t).
  Hypothesis HStr : forall s, P (PStr s).
  Hypothesis HList : forall l, Forall P l -> P (PList l).
  Hypothesis HDict : forall d, Forall (fun kv => P (snd kv)) d -> P (PDict d).

  Fixpoint pyv_ind' (v : pyv) : P v :=
    match v with
    | PNone => HNone
    | PBool b => HBool b
    | PInt z => HInt z
    | PFloatTok t => HFloat t
    | PStr s => HStr s
    | PList l =>
        HList l ((fix go (l : list pyv) : Forall P l :=
                    match l with
                    | [] => Forall_nil P
                    | x :: r => Forall_cons x (pyv_ind' x) (go r)
                    end) l)
    | PDict d =>
        HDict d ((fix go (d : list (string * pyv)) : Forall (fun kv => P (snd kv)) d :=
                    match d with
                    | [] => Forall_nil _
                    | kv :: r => Forall_cons (P := fun kv => P (snd kv)) kv (pyv_ind' (snd kv)) (go r)
                    end) d)
    end.
End PyvInd.

(* ------------------------------------------------------------------ types *)
Inductive pytag := TNone | TBool | TInt | TFloat | TStr | TList | TDict.

Definition pyv_tag (v : pyv) : pytag :=
  match v with
  | PNone => TNone | PBool _ => TBool | PInt _ => TInt | PFloatTok _ => TFloat
  | PStr _ => TStr | PList _ => TList | PDict _ => TDict
  end.

(* [issubclass t u] on the modelled types: bool is a subclass of int *)
Definition tag_sub (t u : pytag) : bool :=
  match t, u with
  | TNone, TNone | TBool, TBool | TInt, TInt | TFloat, TFloat | TStr, TStr | TList, TList | TDict, TDict => true
  | TBool, TInt => true
  | _, _ => false
  end.

Definition pyv_isinstance (v : pyv) (tys : list pytag) : bool := existsb (tag_sub (pyv_tag v)) tys.

(* ------------------------------------------------------------------ str / repr *)
Definition z_str (z : Z) : string := NilZero.string_of_int (Z.to_int z).
Definition squote (s : string) : string := "'" ++ s ++ "'".

(* Python's repr(); for strings this is the single-quoted form, which is what repr gives for
   every string over the [simple_str] alphabet below *)
Fixpoint py_repr (v : pyv) : string :=
  match v with
  | PNone => "None"
  | PBool b => if b then "True" else "False"
  | PInt z => z_str z
  | PFloatTok t => t
  | PStr s => squote s
  | PList l =>
      "[" ++ String.concat ", "
               ((fix go (l : list pyv) : list string :=
                   match l with [] => [] | x :: r => py_repr x :: go r end) l) ++ "]"
  | PDict d =>
      "{" ++ String.concat ", "
               ((fix go (d : list (string * pyv)) : list string :=
                   match d with
                   | [] => []
                   | kv :: r => (squote (fst kv) ++ ": " ++ py_repr (snd kv)) :: go r
                   end) d) ++ "}"
  end.

(* Python's str(): differs from repr only on a top-level string *)
Definition py_str (v : pyv) : string :=
  match v with PStr s => s | _ => py_repr v end.

Lemma py_repr_list : forall l,
  py_repr (PList l) = "[" ++ String.concat ", " (map py_repr l) ++ "]".
Proof.
  intros l. reflexivity.
Qed.

Lemma py_repr_dict : forall d,
  py_repr (PDict d) =
  "{" ++ String.concat ", " (map (fun kv => squote (fst kv) ++ ": " ++ py_repr (snd kv)) d) ++ "}".
Proof.
  intros d. reflexivity.
Qed.

(* ------------------------------------------------------------------ the "simple" fragment *)
(* strings whose repr is the plain single-quoted form: printable ASCII without quote/backslash *)
Definition simple_char (c : ascii) : bool :=
  let n := nat_of_ascii c in
  (32 <=? n)%nat && (n <=? 126)%nat && negb (n =? 39)%nat && negb (n =? 92)%nat.

Fixpoint str_forallb (f : ascii -> bool) (s : string) : bool :=
  match s with EmptyString => true | String c r => f c && str_forallb f r end.

Definition simple_str (s : string) : bool := str_forallb simple_char s.

Fixpoint str_existsb (f : ascii -> bool) (s : string) : bool :=
  match s with EmptyString => false | String c r => f c || str_existsb f r end.

Definition is_digit (c : ascii) : bool :=
  let n := nat_of_ascii c in (48 <=? n)%nat && (n <=? 57)%nat.

(* a float token as repr() prints a finite float: digits with '.', 'e', sign characters, at least
   one digit and a '.' or an exponent (so "nan"/"inf", which literal_eval rejects, are excluded) *)
Definition float_tok_ok (t : string) : bool :=
  str_forallb (fun c => is_digit c || Ascii.eqb c "." || Ascii.eqb c "e" || Ascii.eqb c "-" || Ascii.eqb c "+") t
  && str_existsb is_digit t
  && str_existsb (fun c => Ascii.eqb c "." || Ascii.eqb c "e") t.

Fixpoint nodup_strb (l : list string) : bool :=
  match l with [] => true | x :: r => negb (existsb (String.eqb x) r) && nodup_strb r end.

(* values whose str() is the canonical literal: simple strings inside containers, well-formed
   float tokens, pairwise distinct dictionary keys (a Python dict has no duplicate keys) *)
Fixpoint simple (v : pyv) : bool :=
  match v with
  | PNone | PBool _ | PInt _ => true
  | PFloatTok t => float_tok_ok t
  | PStr s => simple_str s
  | PList l => (fix go (l : list pyv) : bool := match l with [] => true | x :: r => simple x && go r end) l
  | PDict d =>
      nodup_strb (map fst d)
      && (fix go (d : list (string * pyv)) : bool :=
            match d with [] => true | kv :: r => simple_str (fst kv) && simple (snd kv) && go r end) d
  end.

(* ------------------------------------------------------------------ expression semantics *)
(* SyntaxError, which ast.literal_eval raises besides ValueError, as its own kind next to those of Base/Scalar.v *)
Definition ESyntaxError := 7.

(* truth value of a str: non-emptiness *)
Definition py_str_truthy (s : string) : bool := negb (String.eqb s "").

Lemma length_append : forall a b, String.length (a ++ b) = (String.length a + String.length b)%nat.
Proof. induction a as [|c a IH]; intros b; cbn [append String.length]; [reflexivity | now rewrite IH]. Qed.

(* s[i] with Python's negative indices; None stands for IndexError *)
Definition py_index (s : string) (i : Z) : option ascii :=
  if (0 <=? i)%Z then String.get (Z.to_nat i) s
  else let j := (Z.of_nat (String.length s) + i)%Z in
       if (0 <=? j)%Z then String.get (Z.to_nat j) s else None.

(* [s[i] == c] as an expression that may raise (IndexError is in the KeyError class of the
   harness' exception enum, see tools/py2coq/core.ERRK) *)
Definition py_idx_eq (s : string) (i : Z) (c : ascii) : result bool :=
  match py_index s i with Some a => Ok (Ascii.eqb a c) | None => Err EKeyError end.

(* short-circuit [and] / [or] over expressions that may raise *)
Definition rb_and (a b : result bool) : result bool :=
  match a with Ok true => b | Ok false => Ok false | Err e => Err e end.
Definition rb_or (a b : result bool) : result bool :=
  match a with Ok true => Ok true | Ok false => b | Err e => Err e end.

Lemma py_index_empty : forall i, py_index "" i = None.
Proof.
  intros i. unfold py_index. destruct (0 <=? i)%Z eqn:E; [reflexivity|].
  cbn [String.length Z.of_nat Z.add]. now rewrite E.
Qed.

Lemma py_index_first : forall c r, py_index (String c r) 0 = Some c.
Proof. reflexivity. Qed.

Lemma py_index_last_app : forall x c, py_index (x ++ String c "") (-1) = Some c.
Proof.
  intros x c. unfold py_index. cbn [Z.leb Z.compare].
  rewrite length_append. cbn [String.length].
  replace (Z.of_nat (String.length x + 1) + -1)%Z with (Z.of_nat (String.length x)) by lia.
  destruct (0 <=? Z.of_nat (String.length x))%Z eqn:E; [|apply Z.leb_gt in E; lia].
  rewrite Nat2Z.id.
  change (String.length x) with (0 + String.length x)%nat.
  now rewrite <- append_correct2.
Qed.

Lemma append_assoc : forall a b c : string, (a ++ b) ++ c = a ++ (b ++ c).
Proof. induction a as [|x a IH]; intros b c; cbn [append]; [reflexivity | now rewrite IH]. Qed.

(* a bracketed string: first and last character *)
Lemma bracket_first : forall o x c, py_index (String o x ++ String c "") 0 = Some o.
Proof. reflexivity. Qed.

Lemma bracket_last : forall o x c, py_index (String o "" ++ x ++ String c "") (-1) = Some c.
Proof. intros o x c. rewrite <- append_assoc. apply py_index_last_app. Qed.
