(* ScalerCase.v — run the scaler model at binary64 against the implementation's outputs. *)
From Coq Require Import ZArith List Bool PrimFloat.
From XV Require Import Base.Scalar Base.Mat Base.Instances Model.ScalerLib Gen.T4.
Import ListNotations.

Record scaler_case := mkSC {
  sc_n : nat; sc_p : nat; sc_fl : sflags;
  sc_mean : list float; sc_std : list float; sc_coslat : list float; sc_weights : list float;
  sc_X : list (list float); sc_fwd : list (list float); sc_back : list (list float) }.

Definition sc_params (c : scaler_case) (j : nat) : @sparams float :=
  mkParams (nth j (sc_mean c) 0%float) (nth j (sc_std c) 1%float) (nth j (sc_coslat c) 1%float) (nth j (sc_weights c) 1%float).

(* 1: forward differs, 2: inverse of the implementation's forward differs *)
Definition check_scaler (rt : float) (c : scaler_case) : list nat :=
  let f := scale_mat OF64 (sc_n c) (sc_p c) (sc_fl c) (sc_params c) scaler_fwd (sc_X c) in
  let b := scale_mat OF64 (sc_n c) (sc_p c) (sc_fl c) (sc_params c) scaler_inv (sc_fwd c) in
  (if mclose (rt * mmaxabs (sc_fwd c))%float rt f (sc_fwd c) then [] else [1%nat]) ++
  (if mclose (rt * mmaxabs (sc_back c))%float rt b (sc_back c) then [] else [2%nat]).

Definition check_scalers (rt : float) (cs : list scaler_case) : list (nat * nat) :=
  concat (map (fun ic => map (fun f => (fst ic, f)) (check_scaler rt (snd ic))) (combine (seq 0 (length cs)) cs)).
