(* NdArr.v — index arithmetic of stacking: row-major flatten/unflatten (mixed radix),
   gathering/scattering multi-indices along a dimension order, stacking an N-d array into the
   2-D sample-by-feature matrix and back, concatenating and splitting feature blocks. *)
From Coq Require Import ZArith List Bool Lia Arith.
From XV Require Import Base.Scalar Base.Mat.
Import ListNotations.

Definition shape := list nat.
Definition size (sh : shape) : nat := fold_right Nat.mul 1%nat sh.

Fixpoint flatten (sh : shape) (idx : list nat) : nat :=
  match sh, idx with
  | _ :: sh', i :: idx' => i * size sh' + flatten sh' idx'
  | _, _ => 0
  end.

Fixpoint unflatten (sh : shape) (j : nat) : list nat :=
  match sh with
  | [] => []
  | _ :: sh' => (j / size sh') :: unflatten sh' (j mod size sh')
  end.

Fixpoint inb (sh : shape) (idx : list nat) : Prop :=
  match sh, idx with
  | [], [] => True
  | s :: sh', i :: idx' => i < s /\ inb sh' idx'
  | _, _ => False
  end.

(* position of the first occurrence *)
Fixpoint index_of (x : nat) (l : list nat) : nat :=
  match l with [] => 0 | y :: r => if Nat.eqb x y then 0 else S (index_of x r) end.

(* order : positions (in the array's own dimension list) of the stacked dimensions, sample
   dimensions first; gather reads a multi-index in that order, scatter puts it back *)
Definition gather (order : list nat) (idx : list nat) : list nat := map (fun k => nth k idx 0) order.
Definition scatter (order : list nat) (vals : list nat) : list nat :=
  map (fun pos => nth (index_of pos order) vals 0) (seq 0 (length order)).

Section Nd.
Context {F : Type} (K : Ops F).

(* an N-d array: shape and row-major data *)
Record nd := mkNd { nd_shape : shape; nd_data : list F }.
Definition nd_get (A : nd) (idx : list nat) : F := nth (flatten (nd_shape A) idx) (nd_data A) (f0 K).

(* stack: ns sample dimensions come first in [order] *)
Definition stack2d (A : nd) (order : list nat) (ns : nat) : list (list F) :=
  let shg := gather order (nd_shape A) in
  let shs := firstn ns shg in let shf := skipn ns shg in
  tab (size shs) (size shf) (fun i j => nd_get A (scatter order (unflatten shs i ++ unflatten shf j))).

(* unstack: value at a multi-index of the original layout *)
Definition unstack_get (M : list (list F)) (sh : shape) (order : list nat) (ns : nat) (idx : list nat) : F :=
  let shg := gather order sh in
  let g := gather order idx in
  get K M (flatten (firstn ns shg) (firstn ns g)) (flatten (skipn ns shg) (skipn ns g)).

(* feature blocks: concatenate 2-D matrices with equal row count along the feature axis, split back by sizes *)
Fixpoint hcat (n : nat) (blocks : list (nat * list (list F))) : list (list F) :=
  match blocks with
  | [] => tab n 0 (fun _ _ => f0 K)
  | (p, B) :: rest => hstack K n p (fold_right (fun b a => fst b + a) 0 rest) B (hcat n rest)
  end.
Definition total_width (blocks : list (nat * list (list F))) : nat := fold_right (fun b a => fst b + a) 0 blocks.
Fixpoint hsplit (n : nat) (sizes : list nat) (off : nat) (M : list (list F)) : list (list (list F)) :=
  match sizes with
  | [] => []
  | p :: rest => tab n p (fun i j => get K M i (off + j)) :: hsplit n rest (off + p) M
  end.
End Nd.
