(* Rot.v — rotation of k retained modes (EOFRotator): loadings V diag(sqrt lam), rotation matrix R
   (oracle: Varimax/Promax output), scores rotated with RinvT = R^{-H}, pseudo-norms, sign
   convention, sorting by explained variance, and transform of new data. *)
From Coq Require Import ZArith List Bool Lia Arith.
From XV Require Import Base.Scalar Base.Sum Base.Mat Model.Eof.
Import ListNotations.

Section Rot.
Context {F : Type} (K : Ops F).
Notation mat := (@mat F). Notation vec := (@vec F).

Definition vsel (I : list nat) (v : vec) : vec := vtab (length I) (fun j => vget K v (nth j I O)).

Record rot_out := mkRot {
  r_comps : mat;    (* p x k, unit columns, signed *)
  r_scores : mat;   (* n x k *)
  r_norms : vec;    (* k  pseudo singular values *)
  r_expvar : vec;   (* k *)
  r_sign : vec }.

(* column j of a p x k matrix as a list *)
Definition col (p : nat) (A : mat) (j : nat) : vec := vtab p (fun f => get K A f j).
Definition col_signs (p k : nat) (A : mat) : vec :=
  vtab k (fun j => let c := col p A j in sign_rule K (vmax K c) (vmin K c)).

(* fit, before sorting. Un : normalised scores of the base model (scores / singular values), n x k *)
Definition rot_fit (n p k : nat) (Vk Un : mat) (lam : vec) (R RinvT : mat) : rot_out :=
  let L := colscale K p k Vk (vmap K k (fsqrt K) lam) in
  let RL := mmul K p k k L R in
  let D := vtab k (fun j => sum K p (fun f => fmul K (get K RL f j) (fconj K (get K RL f j)))) in
  let e := vmap K k (fsqrt K) D in
  let C0 := tab p k (fun f j => fdiv K (get K RL f j) (vget K e j)) in
  let nr := vmap K k (fun d => fsqrt K (fmul K d (fofZ K (Z.of_nat n - 1)))) D in
  let S0 := colscale K n k (mmul K n k k Un RinvT) nr in
  let sg := col_signs p k C0 in
  {| r_comps := colscale K p k C0 sg; r_scores := colscale K n k S0 sg; r_norms := nr; r_expvar := D; r_sign := sg |}.

(* post-compute sorting: every array with a mode dimension is re-indexed by idx *)
Definition rot_sort (n p : nat) (idx : list nat) (o : rot_out) : rot_out :=
  {| r_comps := msel_cols K p idx (r_comps o); r_scores := msel_cols K n idx (r_scores o);
     r_norms := vsel idx (r_norms o); r_expvar := vsel idx (r_expvar o); r_sign := vsel idx (r_sign o) |}.

(* transform of (preprocessed) data Xn (m x p): project on the unrotated modes, divide by the
   singular values, rotate, re-sort iff sorted, multiply by the stored pseudo-norms and signs *)
Definition rot_transform (m p k : nat) (Vk : mat) (sv : vec) (RinvT : mat) (sorted : bool) (idx : list nat)
  (stored : rot_out) (Xn : mat) : mat :=
  let P := tab m k (fun i j => fdiv K (get K (mmul K m p k Xn Vk) i j) (vget K sv j)) in
  let Q := mmul K m k k P RinvT in
  let Q' := if sorted then msel_cols K m idx Q else Q in
  colscale K m k (colscale K m k Q' (r_norms stored)) (r_sign stored).

Definition rot_inverse (m p k : nat) (o : rot_out) (S : mat) : mat := mmul K m k p S (mH K p k (r_comps o)).

(* Varimax iterations: each new rotation matrix is U_i Vt_i from the inner SVD oracle *)
Definition varimax_step (k : nat) (a : mat * mat) : mat := mmul K k k k (fst a) (snd a).
Definition varimax_run (k : nat) (answers : list (mat * mat)) : mat :=
  fold_left (fun _ a => varimax_step k a) answers (mI K k).

End Rot.
