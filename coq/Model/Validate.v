(* Validate.v — hand-written composition of the generated validators (Gen/T1.v, Gen/T3.v) into
   the public entry points, on shape-level values: type tags, dimension names with their
   coordinate labels, Dataset variable names, number of list items, scalar parameters.
   The order is the order of the source (tied in Proofs/C17_tie.v to the call orders the
   translator reads off the methods).  What xarray itself does between the validators is
   modelled by hand and labelled [xarray:]; those pieces are checked by the correspondence
   harness (tools/props/c17.py), not derived from the source. *)
From Coq Require Import String ZArith List Bool PrimFloat DecimalString Decimal.
From XV Require Import Base.Scalar Base.Instances Model.DecompLib Model.ValidateLib Gen.T3 Gen.T1.
Import ListNotations.
Open Scope bool_scope.

(* ------------------------------------------------------------------ shape-level values *)
(* one xarray object (or whatever stands in its place) *)
Record item := mkItem {
  it_ty : pyty;          (* TDataArray, TDataset, or the tag of a foreign object *)
  it_dims : dimmap;      (* dimensions in order, each with its coordinate labels *)
  it_vars : list Z       (* Dataset: variable names (codes); DataArray: [] *) }.

(* an argument in the place of data: a single object or a list / tuple of them *)
Record input := mkInput {
  in_ty : pyty;          (* tag of the argument itself *)
  in_items : list item   (* convert_to_list: the argument itself when it is not a list / tuple *) }.

Definition item_val (it : item) : pyval := val_of_ty (it_ty it).
Definition input_val (x : input) : pyval :=
  match in_ty x with
  | TList => VList (map item_val (in_items x))
  | TTuple => VTuple (map item_val (in_items x))
  | t => val_of_ty t
  end.

Record config := mkConfig {
  c_n_modes : pyval; c_solver : string; c_center : bool; c_std : bool; c_complex : bool;
  c_sample_name : string; c_feature_name : string; c_irr : float }.

Record fitem := mkFitem {
  fi_ty : pyty; fi_sample_dims : list string; fi_feature_dims : list string;
  fi_dims : dimmap; fi_vars : list Z }.

Record fitted := mkFitted { f_cfg : config; f_items : list fitem }.

Definition is_dataset (t : pyty) : bool := match t with TDataset => true | _ => false end.
Definition is_xr (t : pyty) : bool := match t with TDataArray | TDataset => true | _ => false end.
Definition is_seq (t : pyty) : bool := match t with TList | TTuple => true | _ => false end.

Fixpoint map_res {A B} (f : A -> result B) (l : list A) : result (list B) :=
  match l with
  | [] => Ok []
  | a :: r => match f a with
              | Err k => Err k
              | Ok b => match map_res f r with Err k => Err k | Ok bs => Ok (b :: bs) end
              end
  end.

(* number of labels along a list of dimensions *)
Definition prodlen (dims : list string) (m : dimmap) : Z :=
  fold_right (fun d acc => (Z.of_nat (length (lookup d m)) * acc)%Z) 1%Z dims.
Definition nvars (t : pyty) (vars : list Z) : Z := if is_dataset t then Z.of_nat (length vars) else 1%Z.
Definition zrange (n : Z) : scoord := map (fun i => [Z.of_nat i]) (seq 0 (Z.to_nat n)).

(* DimensionRenamer.fit: f"{base}{i}" for i, dim in enumerate(X.dims) *)
Definition dimname (i : nat) : string := ("dim" ++ NilEmpty.string_of_uint (Nat.to_uint i))%string.
Definition renamed (n : nat) : list string := map dimname (seq 0 n).

(* ------------------------------------------------------------------ Decomposer(...).fit *)
(* constructor (sanity_check_n_modes first, then init_rank_reduction), then fit: rank check,
   solver policy; answers the number of modes to precompute *)
Definition decomposer_outcome (n_modes : pyval) (irr : float) (solver : string) (cplx : bool) (n p : Z) : result Z :=
  sanity_check_n_modes n_modes ;;
  let isvar := dec_is_based_on_variance (ty_of n_modes) in
  (if isvar && dec_irr_rejected irr then Err EValueError else Ok tt) ;;
  let rank := dec_rank n p in
  let npre := if isvar then dec_npre_variance rank irr
              else match n_modes with VInt z => z | VBool b => Z.b2z b | _ => 0%Z end in
  (if dec_rank_rejected npre rank then Err dec_rank_error else Ok tt) ;;
  void (policy dec_use_exact dec_backend solver (dec_is_small_data n p) cplx false npre rank) ;;
  (* numpy: the variance route compares `cum_expvar >= self.n_modes`; a string has no such loop *)
  match n_modes with VStr _ => Err ETypeError | _ => Ok npre end.

(* ------------------------------------------------------------------ fit (single-set model) *)
Definition fit_scaler (cfg : config) (sample_dims : list string) (it : item) : result unit :=
  scaler_verify_input (it_ty it) ;;
  (* xarray: X.mean(dims) / X.std(dims) refuse a name that is not a dimension of X *)
  if (c_center cfg || c_std cfg) && negb (str_subset sample_dims (dnames (it_dims it))) then Err EValueError else Ok tt.

Definition fit_renamer (sample_dims : list string) (it : item) : result unit :=
  (* DimensionRenamer.fit maps the sample dimensions first, then fit_transform renames:
     xarray: X.rename refuses a key that is not a dimension of X *)
  if negb (str_subset sample_dims (dnames (it_dims it))) then Err renamer_transform_error else Ok tt.

Definition fit_stacker (cfg : config) (sample_dims : list string) (it : item) : result unit :=
  let dims := dnames (it_dims it) in
  let feature_dims := get_feature_dims dims sample_dims in
  stacker_validate_dims (it_ty it) sample_dims feature_dims ;;
  stacker_validate_dimension_names (it_ty it) (c_sample_name cfg) (c_feature_name cfg)
    (renamed (length dims)) sample_dims feature_dims.

Definition fit_item_state (sample_dims : list string) (it : item) : fitem :=
  mkFitem (it_ty it) sample_dims (get_feature_dims (dnames (it_dims it)) sample_dims) (it_dims it) (it_vars it).

Definition n_features (fi : fitem) : Z :=
  (prodlen (fi_feature_dims fi) (fi_dims fi) * nvars (fi_ty fi) (fi_vars fi))%Z.
Definition n_samples (fis : list fitem) : Z :=
  match fis with [] => 0%Z | fi :: _ => prodlen (fi_sample_dims fi) (fi_dims fi) end.

(* Preprocessor.fit_transform: every transformer is fitted on all list items before the next one runs *)
Definition preprocess_fit (cfg : config) (x : input) (sample_dims : list string) : result (list fitem) :=
  let items := in_items x in
  first_err (map (fit_scaler cfg sample_dims) items) ;;
  first_err (map (fit_renamer sample_dims) items) ;;
  first_err (map (fit_stacker cfg sample_dims) items) ;;
  (* xarray: Concatenator.transform ends in xr.concat, which refuses an empty list *)
  (if (Z.of_nat (length items) =? 0)%Z then Err EValueError else Ok tt) ;;
  Ok (map (fit_item_state sample_dims) items).

Definition fit_state (cfg : config) (x : input) (dim : pyval) : result fitted :=
  validate_input_type (input_val x) ;;
  bind (convert_to_dim_type dim) (fun sample_dims =>
  bind (preprocess_fit cfg x sample_dims) (fun fis =>
  let p := fold_right Z.add 0%Z (map n_features fis) in
  void (decomposer_outcome (c_n_modes cfg) (c_irr cfg) (c_solver cfg) (c_complex cfg) (n_samples fis) p) ;;
  Ok (mkFitted cfg fis))).

Definition fit_outcome (cfg : config) (x : input) (dim : pyval) : result unit := void (fit_state cfg x dim).

(* the preprocessor state alone (cross-set models keep one per field) *)
Definition preprocess_state (cfg : config) (x : input) (dim : pyval) : result fitted :=
  validate_input_type (input_val x) ;;
  bind (convert_to_dim_type dim) (fun sample_dims =>
  bind (preprocess_fit cfg x sample_dims) (fun fis => Ok (mkFitted cfg fis))).
Definition state_or_empty (cfg : config) (r : result fitted) : fitted :=
  match r with Ok f => f | Err _ => mkFitted cfg [] end.

(* ------------------------------------------------------------------ transform (single-set model) *)
(* xarray: `X - self.mean_`, `X * self.weights_` broadcast by dimension name and align shared
   index coordinates with join="inner".  weights_ always carries every fitted feature dimension
   (Gen.T1.scaler_transform_operands has an "always" entry), so a feature dimension absent from X
   comes back with the fitted labels, and a shared one keeps only the common labels. *)
Definition scaled_dims (fi : fitem) (it : item) : dimmap :=
  map (fun dc => if str_mem (fst dc) (fi_feature_dims fi)
                 then (fst dc, inner_join (snd dc) (lookup (fst dc) (fi_dims fi))) else dc) (it_dims it)
  ++ map (fun d => (d, lookup d (fi_dims fi)))
         (filter (fun d => negb (str_mem d (dnames (it_dims it)))) (fi_feature_dims fi)).
(* xarray: DataArray (op) Dataset is a Dataset; Dataset (op) Dataset keeps the common variables *)
Definition scaled_ty (fi : fitem) (it : item) : pyty :=
  if is_dataset (fi_ty fi) || is_dataset (it_ty it) then TDataset else TDataArray.
Definition scaled_vars (fi : fitem) (it : item) : list Z :=
  if is_dataset (it_ty it)
  then (if is_dataset (fi_ty fi) then filter (fun v => z_mem v (fi_vars fi)) (it_vars it) else it_vars it)
  else (if is_dataset (fi_ty fi) then fi_vars fi else []).

Definition t_scaler (p : fitem * item) : result item :=
  let (fi, it) := p in
  scaler_verify_input (it_ty it) ;;
  Ok (mkItem (scaled_ty fi it) (scaled_dims fi it) (scaled_vars fi it)).

(* xarray: X.rename(mapping) refuses a key that is neither a dimension nor a variable of X *)
Definition t_renamer (p : fitem * item) : result item :=
  let (fi, it) := p in
  if str_subset (dnames (fi_dims fi)) (dnames (it_dims it)) then Ok it else Err renamer_transform_error.

Definition t_stacker (p : fitem * item) : result item :=
  let (fi, it) := p in
  stacker_validate_transform_dimensions (fi_sample_dims fi) (fi_feature_dims fi) (dnames (it_dims it)) ;;
  stacker_validate_transform_feature_coords (fi_feature_dims fi)
    (fun d => lookup d (fi_dims fi)) (fun d => lookup d (it_dims it)) ;;
  Ok it.

(* the feature coordinate the Sanitizer sees.  Stacking two or more dimensions, or a Dataset, gives a
   MultiIndex, which the MultiIndexConverter fitted on such data replaces by range(size); a single
   stacked dimension keeps its labels *)
Definition fit_multi (fi : fitem) : bool := (1 <? Z.of_nat (length (fi_feature_dims fi)))%Z || is_dataset (fi_ty fi).
Definition stacked_coords (fi : fitem) (t : pyty) (dims : dimmap) (vars : list Z) : scoord :=
  if fit_multi fi then zrange (prodlen (fi_feature_dims fi) dims * nvars t vars)%Z
  else if is_dataset t then map (fun c => [0%Z; c]) (lookup (hd EmptyString (fi_feature_dims fi)) dims)
  else map (fun c => [c]) (lookup (hd EmptyString (fi_feature_dims fi)) dims).

Definition t_sanitizer (cfg : config) (p : fitem * item) : result item :=
  let (fi, it) := p in
  (* Stacker._stack has produced a DataArray with dimensions (sample, feature) *)
  assert_single_dataarray TDataArray ;;
  sanitizer_check_input_dims (c_sample_name cfg) (c_feature_name cfg) [c_sample_name cfg; c_feature_name cfg] ;;
  sanitizer_check_input_coords (stacked_coords fi (it_ty it) (it_dims it) (it_vars it))
                               (stacked_coords fi (fi_ty fi) (fi_dims fi) (fi_vars fi)) ;;
  Ok it.

(* the corrected order: the Stacker's two transform-time validators applied to the data as given,
   before the Scaler touches it.  [vd] switches the dimension check on, [vc] the coordinate check. *)
Definition pre_validate (vd vc : bool) (p : fitem * item) : result unit :=
  let (fi, it) := p in
  (if vd then stacker_validate_transform_dimensions (fi_sample_dims fi) (fi_feature_dims fi) (dnames (it_dims it))
   else Ok tt) ;;
  (if vc then stacker_validate_transform_feature_coords (fi_feature_dims fi)
                (fun d => lookup d (fi_dims fi)) (fun d => lookup d (it_dims it))
   else Ok tt).

(* Preprocessor.transform: item count, then the transformers in Gen.T1.preprocessor_transformer_order,
   each applied to all list items before the next *)
Definition preprocess_transform (vd vc : bool) (f : fitted) (x : input) : result unit :=
  let items := in_items x in
  let fis := f_items f in
  preprocessor_check_item_count (Z.of_nat (length items)) (Z.of_nat (length fis)) ;;
  first_err (map (pre_validate vd vc) (combine fis items)) ;;
  bind (map_res t_scaler (combine fis items)) (fun s1 =>
  bind (map_res t_renamer (combine fis s1)) (fun s2 =>
  bind (map_res t_stacker (combine fis s2)) (fun s3 =>
  void (map_res (t_sanitizer (f_cfg f)) (combine fis s3))))).

Definition transform_outcome (vd vc : bool) (f : fitted) (x : input) : result unit :=
  validate_input_type (input_val x) ;;
  preprocess_transform vd vc f x.

(* the variant the source implements: Scaler first unless Scaler.transform itself refuses *)
Definition faithful_vd : bool := scaler_refuses_missing_dims.
Definition faithful_vc : bool := scaler_exact_join.
Definition transform_faithful := transform_outcome faithful_vd faithful_vc.
(* the task's single switch *)
Definition transform_vbs (validate_before_scaling : bool) := transform_outcome validate_before_scaling validate_before_scaling.

(* ------------------------------------------------------------------ inverse_transform *)
Record scores := mkScores { sc_ty : pyty; sc_dims : list string; sc_modes : list Z }.
(* xarray: .sel(mode=labels) raises KeyError for a label that is not in the index 1..k;
   a foreign object has no .dims (AttributeError) *)
Definition inverse_outcome (k : Z) (sc : scores) : result unit :=
  match sc_ty sc with
  | TDataArray =>
      if eof_inverse_selects_by_label && negb (forallb (fun m => (1 <=? m)%Z && (m <=? k)%Z) (sc_modes sc))
      then Err EKeyError else Ok tt
  | _ => Err EOther
  end.

(* ------------------------------------------------------------------ cross-set model *)
(* BaseModelCrossSet.__init__: every sequence parameter must have two entries; Whitener(alpha) twice *)
Definition cross_ctor_outcome {A} (check_alpha : A -> result unit) (seq_lens : list Z) (fn1 fn2 : string) (a1 a2 : A)
  : result unit :=
  first_err (map cross_check_parameter_number seq_lens) ;;
  cross_check_feature_names fn1 fn2 ;;
  check_alpha a1 ;; check_alpha a2.

Record cross_config := mkCross {
  x_n_modes : pyval; x_solver : string; x_cfg1 : config; x_cfg2 : config; x_use_pca : bool }.

(* PCA._get_n_modes: a string other than "all" is refused; "all" stands for the rank *)
Definition pca_outcome (cfg : config) (use_pca : bool) (n p : Z) : result Z :=
  if negb use_pca then Ok p else
  match c_n_modes cfg with
  | VStr s => if String.eqb s "all" then Ok (dec_rank n p) else Err EValueError
  | v => decomposer_outcome v (c_irr cfg) "auto" (c_complex cfg) n p
  end.

Definition cross_fit_outcome (cc : cross_config) (x y : input) (dim : pyval) (kept1 kept2 : Z) : result unit :=
  validate_input_type (input_val x) ;; validate_input_type (input_val y) ;;
  bind (convert_to_dim_type dim) (fun sample_dims =>
  bind (preprocess_fit (x_cfg1 cc) x sample_dims) (fun f1 =>
  bind (preprocess_fit (x_cfg2 cc) y sample_dims) (fun f2 =>
  let p1 := fold_right Z.add 0%Z (map n_features f1) in
  let p2 := fold_right Z.add 0%Z (map n_features f2) in
  bind (pca_outcome (x_cfg1 cc) (x_use_pca cc) (n_samples f1) p1) (fun m1 =>
  bind (pca_outcome (x_cfg2 cc) (x_use_pca cc) (n_samples f2) p2) (fun m2 =>
  (* a fractional n_pca_modes keeps a data-dependent number of modes: supplied by the caller *)
  let q1 := if (0 <? kept1)%Z then kept1 else m1 in
  let q2 := if (0 <? kept2)%Z then kept2 else m2 in
  cpcca_check_sample_count (n_samples f1) (n_samples f2) ;;
  void (decomposer_outcome (x_n_modes cc) 0.3%float (x_solver cc) false q1 q2)))))).

Definition cross_transform_outcome (vd vc : bool) (f1 f2 : fitted) (x y : input) : result unit :=
  transform_outcome vd vc f1 x ;; transform_outcome vd vc f2 y.

(* ------------------------------------------------------------------ rotators *)
(* EOFRotator / MCARotator._fit_algorithm: model.data[...].sel(mode=slice(1, n_modes)) on the integer
   index 1..avail.  pandas: an integer or float stop keeps the labels <= stop; a stop that is not a
   number (str, None, nan) does not bound the slice.  The rotation then needs two columns. *)
Definition rotator_selected (n_modes : pyval) (avail : Z) : result Z :=
  match n_modes with
  | VInt z => Ok (Z.max 0 (Z.min z avail))
  | VBool b => Ok (Z.max 0 (Z.min (Z.b2z b) avail))
  | VFloat f => if PrimFloat.leb f f then Ok (Z.max 0 (Z.min (float_truncZ f) avail)) else Ok avail
  | VStr _ | VNone => Ok avail
  | _ => Err EValueError
  end.
Definition rotator_fit_outcome (ctor_check : pyval -> result unit) (n_modes : pyval) (avail : Z) : result unit :=
  ctor_check n_modes ;;
  bind (rotator_selected n_modes avail) (fun k => if (k <? 2)%Z then Err EValueError else Ok tt).
(* the pinned constructors do not look at n_modes *)
Definition no_ctor_check (_ : pyval) : result unit := Ok tt.

(* ------------------------------------------------------------------ orders declared by this model *)
Definition declared_single_fit_order : list string :=
  ["validate_input_type"; "convert_to_dim_type"; "self.preprocessor.fit_transform"; "self._fit_algorithm"]%string.
Definition declared_single_transform_order : list string :=
  ["validate_input_type"; "self.preprocessor.transform"; "self._transform_algorithm";
   "self.preprocessor.inverse_transform_scores_unseen"]%string.
Definition declared_transformer_order : list string :=
  ["scaler"; "renamer"; "preconverter"; "stacker"; "postconverter"; "sanitizer"; "concatenator"]%string.
Definition declared_stacker_transform_order : list string :=
  ["self._validate_transform_dimensions"; "self._validate_transform_feature_coords"; "self._stack"]%string.
Definition declared_stacker_sanity_order : list string :=
  ["self._validate_dims"; "self._validate_dimension_names"; "self._validate_indices"]%string.
Definition declared_sanitizer_transform_order : list string :=
  ["assert_single_dataarray"; "self._check_input_dims"; "self._check_input_coords"]%string.
Definition declared_cross_fit_order : list string :=
  ["validate_input_type"; "convert_to_dim_type"; "self.preprocessor1.fit_transform"; "self.preprocessor2.fit_transform";
   "self.pca1.fit_transform"; "self.pca2.fit_transform"; "self.whitener1.fit_transform"; "self.whitener2.fit_transform";
   "self._fit_algorithm"]%string.
