(* FlagCase.v — executable comparison of recorded implementation histories with the flag machine:
   arrays are represented by the positions their modes had in the last fit's fresh (unsorted) output *)
From Coq Require Import ZArith List Bool String.
From XV Require Import Model.FlagState.
Import ListNotations.

Definition reindexN (idx : list nat) (l : list nat) : list nat := map (fun i => nth i l 0) idx.

(* observed after every operation: the flag and the stored order *)
Definition fobs := (bool * list nat)%type.
Definition eq_natlist (a b : list nat) : bool := (Nat.eqb (List.length a) (List.length b) && forallb (fun p => Nat.eqb (fst p) (snd p)) (combine a b))%bool.
Definition obs_ok (s : fstate (list nat)) (o : fobs) : bool := (Bool.eqb (fs_sorted _ s) (fst o) && eq_natlist (fs_data _ s) (snd o))%bool.

Fixpoint run_obs (resets guarded : bool) (s : fstate (list nat)) (ops : list (fop (list nat))) (obs : list fobs) : bool :=
  match ops, obs with
  | [], [] => true
  | o :: ops', b :: obs' => let s' := fstep _ reindexN resets guarded s o in (obs_ok s' b && run_obs resets guarded s' ops' obs')%bool
  | _, _ => false
  end.

Definition lookup_protocol (tbl : list (string * (bool * bool))) (c : string) : bool * bool :=
  match find (fun e => String.eqb (fst e) c) tbl with Some e => snd e | None => (false, false) end.

(* a case: class, operations (the first one a fit), observations; starts from the constructor's state (flag false) *)
Definition fcase := (string * list (fop (list nat)) * list fobs)%type.
Definition fcase_ok (tbl : list (string * (bool * bool))) (c : fcase) : bool :=
  let '(cls, ops, obs) := c in let '(r, g) := lookup_protocol tbl cls in
  run_obs r g (finit _ [] []) ops obs.
Fixpoint fmismatches_from (tbl : list (string * (bool * bool))) (i : Z) (cs : list fcase) : list Z :=
  match cs with [] => [] | c :: r => if fcase_ok tbl c then fmismatches_from tbl (i + 1)%Z r else i :: fmismatches_from tbl (i + 1)%Z r end.
Definition fmismatches tbl cs := fmismatches_from tbl 1%Z cs.
