(* History.v — a model object as a state machine over its operations. The fitted view is whatever
   fit computes from its arguments; transform writes only bookkeeping of its own call; every other
   operation writes nothing. The faithful-DEFECT variant (fit appends to the transformer list and
   later calls use the first entry) is selected by [appends]. *)
From Coq Require Import List Bool.
Import ListNotations.

Section History.
Variables (Data View Bk Query Ans : Type).
Variable fit_view : Data -> View.          (* everything fit stores, as a function of its arguments *)
Variable bk_of : Data -> Bk.               (* what a transform call records about its own input *)
Variable ans_query : View -> Query -> Ans. (* fitted-data accessors: components, scores, metrics, inverse_transform, serialize *)
Variable ans_transform : View -> Bk -> Data -> Ans.  (* transform answers from the fitted view and ITS OWN bookkeeping *)

Inductive op := OFit (d : Data) | OTransform (d : Data) | OQuery (q : Query) | OCompute.

Record state := mkSt { st_views : list View;   (* transformer lists: one entry per fit that is still stored *)
                       st_bk : option Bk }.

Definition init : state := mkSt [] None.

(* which stored entry later calls use: zip(X, self.transformers) pairs the data with the FIRST entry *)
Definition current (s : state) : option View := hd_error (st_views s).

Definition step (appends : bool) (s : state) (o : op) : state * option Ans :=
  match o with
  | OFit d => (mkSt (if appends then st_views s ++ [fit_view d] else [fit_view d]) (st_bk s), None)
  | OTransform d => (mkSt (st_views s) (Some (bk_of d)),
                     match current s with Some v => Some (ans_transform v (bk_of d) d) | None => None end)
  | OQuery q => (s, match current s with Some v => Some (ans_query v q) | None => None end)
  | OCompute => (s, None)
  end.

Fixpoint run (appends : bool) (s : state) (h : list op) : state * list (option Ans) :=
  match h with
  | [] => (s, [])
  | o :: rest => let '(s1, a) := step appends s o in let '(s2, l) := run appends s1 rest in (s2, a :: l)
  end.

Definition is_fit (o : op) : bool := match o with OFit _ => true | _ => false end.
End History.
