(* MicCase.v — decidable comparison of model runs with recorded implementation outputs *)
From Coq Require Import List Bool Arith ZArith.
From XV Require Import Model.Mic.
Import ListNotations.

Fixpoint list_eqb {A} (e : A -> A -> bool) (a b : list A) : bool :=
  match a, b with [], [] => true | x :: a', y :: b' => e x y && list_eqb e a' b' | _, _ => false end.
Definition coord_eqb (a b : coord) : bool :=
  match a, b with Plain x, Plain y => list_eqb Nat.eqb x y | Multi x, Multi y => list_eqb Z.eqb x y | _, _ => false end.
Definition data_eqb (a b : data) : bool := list_eqb (fun p q => Nat.eqb (fst p) (fst q) && coord_eqb (snd p) (snd q)) a b.
Definition out_eqb (a b : option data) : bool :=
  match a, b with None, None => true | Some x, Some y => data_eqb x y | _, _ => false end.

(* a case: a history and the implementation's outputs, one per operation *)
Definition case_ok (p : params) (c : list op * list (option data)) : bool := list_eqb out_eqb (snd (run p init (fst c))) (snd c).

Fixpoint mismatches_from (p : params) (i : Z) (cs : list (list op * list (option data))) : list Z :=
  match cs with [] => [] | c :: r => if case_ok p c then mismatches_from p (i + 1) r else i :: mismatches_from p (i + 1) r end.
Definition mismatches p cs := mismatches_from p 1%Z cs.
