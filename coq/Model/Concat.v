(* Concat.v — xeofs/preprocessing/concatenator.py: the items of a list are joined along the feature axis (with
   positions 0..P-1 as dummy labels) and cut back into one block per item.  An item is, for one sample, its list of
   (feature label, value) pairs.  The fitted coordinates are kept in a dict keyed by str(i); [block_order] is the order
   in which the blocks are walked when cutting back (regenerated from the source: insertion order). *)
From Coq Require Import String List Arith ZArith Ascii DecimalString Decimal.
Import ListNotations.

Definition item := list (Z * Z).
Inductive key_order := Insertion | SortedKeys.

Definition key_of (i : nat) : string := NilEmpty.string_of_uint (Nat.to_uint i).
Fixpoint insert_key (i : nat) (l : list nat) : list nat :=
  match l with
  | [] => [i]
  | j :: r => match String.compare (key_of i) (key_of j) with Gt => j :: insert_key i r | _ => i :: l end
  end.
Definition sorted_keys (n : nat) : list nat := fold_right insert_key [] (seq 0 n).
Definition block_order (rule : key_order) (n : nat) : list nat :=
  match rule with Insertion => seq 0 n | SortedKeys => sorted_keys n end.

(* fit: the labels of every item; transform: the values of all items one after the other *)
Definition coords_in (items : list item) : list (list Z) := map (map fst) items.
Definition concat_values (items : list item) : list Z := concat (map (map snd) items).

(* cutting back: block i (by position, sizes in insertion order) gets the labels stored under the i-th key walked *)
Fixpoint cut (sizes : list nat) (v : list Z) : list (list Z) :=
  match sizes with [] => [] | s :: r => firstn s v :: cut r (skipn s v) end.
Definition split (rule : key_order) (labels : list (list Z)) (v : list Z) : option (list item) :=
  let blocks := cut (map (@length Z) labels) v in
  let walked := map (fun k => nth k labels []) (block_order rule (length labels)) in
  if forallb (fun lb => Nat.eqb (length (fst lb)) (length (snd lb))) (combine walked blocks)
  then Some (map (fun lb => combine (fst lb) (snd lb)) (combine walked blocks))
  else None.    (* size conflict between a block and the labels it is given *)
