(* Pipe.v — the preprocessing chain as a list of stages applied in order and undone in reverse order
   (xeofs/preprocessing/preprocessor.py), and the dimension renaming stage
   (xeofs/preprocessing/dimension_renamer.py).  The orders and the numbering rule are parameters
   regenerated from the source (Gen/T7pipe.v). *)
From Coq Require Import List Bool Arith.
Import ListNotations.

Section Chain.
Variable D : Type.
Record stage := mkStage { fwd : D -> D; bwd : D -> D }.

Definition run_fwd (l : list stage) (x : D) : D := fold_left (fun a s => fwd s a) l x.
(* [reversed] is what get_transformers(inverse=True) does; the faithful source passes true *)
Definition run_bwd (reversed : bool) (l : list stage) (x : D) : D :=
  fold_left (fun a s => bwd s a) (if reversed then rev l else l) x.
End Chain.

(* ---------- DimensionRenamer ---------- *)
Inductive order_rule := ByUser | ByData.     (* sample dims numbered in the user's order / in the order of X.dims *)

Definition mem (d : nat) (l : list nat) : bool := existsb (Nat.eqb d) l.

Definition ordered_dims (rule : order_rule) (sample_dims xdims : list nat) : list nat :=
  match rule with
  | ByUser => sample_dims ++ filter (fun d => negb (mem d sample_dims)) xdims
  | ByData => filter (fun d => mem d sample_dims) xdims ++ filter (fun d => negb (mem d sample_dims)) xdims
  end.

(* dim_mapping = {dim: base + str(i) for i, dim in enumerate(ordered_dims, start)}: the new name is its number *)
Definition dim_mapping (rule : order_rule) (start : nat) (sample_dims xdims : list nat) : list (nat * nat) :=
  let o := ordered_dims rule sample_dims xdims in combine o (seq start (length o)).

Fixpoint assoc (d : nat) (m : list (nat * nat)) : option nat :=
  match m with [] => None | (k, v) :: r => if Nat.eqb k d then Some v else assoc d r end.
Fixpoint rassoc (v : nat) (m : list (nat * nat)) : option nat :=
  match m with [] => None | (k, w) :: r => if Nat.eqb w v then Some k else rassoc v r end.

Definition rename (m : list (nat * nat)) (dims : list nat) : list nat :=
  map (fun d => match assoc d m with Some v => v | None => d end) dims.
Definition unrename (m : list (nat * nat)) (dims : list nat) : list nat :=
  map (fun v => match rassoc v m with Some k => k | None => v end) dims.
Definition names_after (m : list (nat * nat)) (dims : list nat) : list (option nat) := map (fun d => assoc d m) dims.
