(* Pop.v — Principal Oscillation Patterns (xeofs/single/pop.py): lag-0 / lag-1 Gram matrices of the
   time-ordered PC-space data, feedback matrix A = C1 C0^{-1} (inverse: oracle), eigen-oracle
   (P, lam), damping times and periods (log / arg: oracle functions), POP coefficients
   (Storch et al. 1995 eq. 19; the 2x2 pseudo-inverse is an oracle), norms, sorting, transform. *)
From Coq Require Import ZArith List Bool Lia Arith.
From XV Require Import Base.Scalar Base.Sum Base.Mat.
Import ListNotations.

Section Pop.
Context {F : Type} (K : Ops F).
Notation mat := (@mat F). Notation vec := (@vec F).

(* ---- row-shift selections of the n x q time-ordered matrix: X[:-1] and X[1:] ---- *)
Definition head_rows (n q : nat) (X : mat) : mat := tab (n - 1) q (fun t j => get K X t j).
Definition tail_rows (n q : nat) (X : mat) : mat := tab (n - 1) q (fun t j => get K X (1 + t) j).

(* X[:-1]^H X[:-1]  and  X[1:]^H X[:-1]   (both q x q, no normalisation) *)
Definition lag0 (n q : nat) (X : mat) : mat :=
  mmul K q (n - 1) q (mH K (n - 1) q (head_rows n q X)) (head_rows n q X).
Definition lag1 (n q : nat) (X : mat) : mat :=
  mmul K q (n - 1) q (mH K (n - 1) q (tail_rows n q X)) (head_rows n q X).

(* oracle: two-sided inverse *)
Definition inv_ok (q : nat) (C Cinv : mat) : Prop :=
  wf K q q Cinv /\ mmul K q q q C Cinv = mI K q /\ mmul K q q q Cinv C = mI K q.

(* A = (X[1:]^H X[:-1]) inv(X[:-1]^H X[:-1]) *)
Definition feedback (n q : nat) (X C0inv : mat) : mat := mmul K q q q (lag1 n q X) C0inv.

(* oracle: eigen-decomposition, columns of P are the patterns *)
Definition eig_ok (q : nat) (A P : mat) (lam : vec) : Prop :=
  wf K q q P /\ vwf K q lam /\ mmul K q q q A P = mmul K q q q P (mdiag K q lam).

Definition real_mat (m n : nat) (A : mat) : Prop :=
  forall i j, (i < m)%nat -> (j < n)%nat -> fconj K (get K A i j) = get K A i j.

(* ---- damping time and period: flog, farg and pi are oracle arguments ---- *)
Definition pop_tau (flog : F -> F) (lam : F) : F := fdiv K (fofZ K (-1)%Z) (flog (fabs K lam)).
Definition pop_period (pi : F) (farg : F -> F) (lam : F) : F := fdiv K (fmul K (fofZ K 2%Z) pi) (farg lam).

(* ---- selection of mode-indexed vectors / lists by an index list ---- *)
Definition psel (I : list nat) (v : vec) : vec := vtab (length I) (fun j => vget K v (nth j I O)).
Definition lsel {A} (d : A) (I : list nat) (l : list A) : list A := map (fun i => nth i l d) I.

(* ---- argsort(norms)[::-1]: stable insertion argsort, reversed ---- *)
Fixpoint ins_idx (v : vec) (i : nat) (l : list nat) : list nat :=
  match l with
  | [] => [i]
  | j :: r => if fleb K (vget K v i) (vget K v j) then i :: l else j :: ins_idx v i r
  end.
Definition argsort (q : nat) (v : vec) : list nat := fold_right (ins_idx v) [] (seq 0 q).
Definition argsort_desc (q : nat) (v : vec) : list nat := rev (argsort q v).

(* ---- POP coefficients: real and imaginary parts and the imaginary unit are arguments ---- *)
Section Coeff.
Variables (re im : F -> F) (iu : F).
Definition quad := (F * F * F * F)%type.
Definition q0 : quad := (f0 K, f0 K, f0 K, f0 K).

Definition colre (q : nat) (P : mat) (j : nat) : vec := vtab q (fun f => re (get K P f j)).
Definition colim (q : nat) (P : mat) (j : nat) : vec := vtab q (fun f => im (get K P f j)).
(* u.T @ v : plain (unconjugated) dot product *)
Definition dot (q : nat) (u v : vec) : F := sum K q (fun f => fmul K (vget K u f) (vget K v f)).
(* M = [[pr.pr, pr.pi], [pr.pi, pi.pi]] *)
Definition gram2 (q : nat) (P : mat) (j : nat) : quad :=
  let pr := colre q P j in let pi_ := colim q P j in
  (dot q pr pr, dot q pr pi_, dot q pr pi_, dot q pi_ pi_).

Definition q_mul (a b : quad) : quad :=
  let '(a00, a01, a10, a11) := a in let '(b00, b01, b10, b11) := b in
  (fadd K (fmul K a00 b00) (fmul K a01 b10), fadd K (fmul K a00 b01) (fmul K a01 b11),
   fadd K (fmul K a10 b00) (fmul K a11 b10), fadd K (fmul K a10 b01) (fmul K a11 b11)).
Definition q_T (a : quad) : quad := let '(a00, a01, a10, a11) := a in (a00, a10, a01, a11).
Definition q_I : quad := (f1 K, f0 K, f0 K, f1 K).
(* oracle: Moore-Penrose pseudo-inverse of the (real symmetric) 2x2 Gram matrix *)
Definition pinv_ok (M Mi : quad) : Prop :=
  q_mul (q_mul M Mi) M = M /\ q_mul (q_mul Mi M) Mi = Mi /\
  q_T (q_mul M Mi) = q_mul M Mi /\ q_T (q_mul Mi M) = q_mul Mi M.

Definition coeff_combine (zr zi : F) : F := fadd K zr (fmul K iu zi).

(* z = zri[0] + 1j zri[1],  zri = Minv @ [X pr, X pi]^T *)
Definition pop_coeff (q : nat) (X P : mat) (Mi : quad) (t j : nat) : F :=
  let '(a, b, c, d) := Mi in
  let xr := sum K q (fun f => fmul K (get K X t f) (re (get K P f j))) in
  let xi := sum K q (fun f => fmul K (get K X t f) (im (get K P f j))) in
  coeff_combine (fadd K (fmul K a xr) (fmul K b xi)) (fadd K (fmul K c xr) (fmul K d xi)).
Definition pop_coeffs (n q : nat) (X P : mat) (Minvs : list quad) : mat :=
  tab n q (fun t j => pop_coeff q X P (nth j Minvs q0) t j).
End Coeff.

(* norms = sqrt(var(Z, axis=sample)), ddof = 0, |w|^2 = w conj w *)
Definition col_mean (n : nat) (Zc : mat) (j : nat) : F := fdiv K (colsum K n Zc j) (fofZ K (Z.of_nat n)).
Definition col_var_ddof (ddof : Z) (n : nat) (Zc : mat) (j : nat) : F :=
  fdiv K (sum K n (fun t => let d := fsub K (get K Zc t j) (col_mean n Zc j) in fmul K d (fconj K d)))
         (fofZ K (Z.of_nat n - ddof)).
Definition col_var (n : nat) (Zc : mat) (j : nat) : F := col_var_ddof 0%Z n Zc j.
Definition norm_of_var (v : F) : F := fsqrt K v.
Definition pop_norms (n q : nat) (Zc : mat) : vec := vtab q (fun j => norm_of_var (col_var n Zc j)).

(* ---- the PCA change of basis used by POP (V : p x q, orthonormal columns) ---- *)
Definition pca_transform (m p q : nat) (V X : mat) : mat := mmul K m p q X V.
Definition pca_transform_components (p q c : nat) (V C : mat) : mat := mmul K q p c (mH K p q V) C.
Definition pca_inverse_transform_components (p q c : nat) (V P : mat) : mat := mmul K p q c V P.

Record pop_out := mkPop {
  p_comps : mat;    (* p x q, physical space: V P *)
  p_scores : mat;   (* n x q *)
  p_lam : vec; p_tau : vec; p_T : vec; p_norms : vec }.

Section Fit.
Variables (re im : F -> F) (iu : F) (flog farg : F -> F) (pi : F).

(* fit before sorting. X : n x q PC-space data (pca.fit_transform), V : p x q *)
Definition pop_fit (n p q : nat) (X V P : mat) (lam : vec) (Minvs : list quad) : pop_out :=
  let Zc := pop_coeffs re im iu n q X P Minvs in
  {| p_comps := pca_inverse_transform_components p q q V P;
     p_scores := Zc;
     p_lam := lam;
     p_tau := vmap K q (pop_tau flog) lam;
     p_T := vmap K q (pop_period pi farg) lam;
     p_norms := pop_norms n q Zc |}.

(* _sort_by_variance: every mode-indexed array is re-indexed by the same index list *)
Definition pop_sort (n p : nat) (idx : list nat) (o : pop_out) : pop_out :=
  {| p_comps := msel_cols K p idx (p_comps o); p_scores := msel_cols K n idx (p_scores o);
     p_lam := psel idx (p_lam o); p_tau := psel idx (p_tau o); p_T := psel idx (p_T o);
     p_norms := psel idx (p_norms o) |}.

(* _transform_algorithm on preprocessed data Xn (m x p): components back to PC space, data to
   PC space, the same coefficient function *)
Definition pop_transform (m p q : nat) (V comps : mat) (Minvs : list quad) (Xn : mat) : mat :=
  pop_coeffs re im iu m q (pca_transform m p q V Xn) (pca_transform_components p q q V comps) Minvs.
End Fit.

End Pop.
