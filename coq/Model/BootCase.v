(* BootCase.v — executable comparison of the bootstrap model with what
   xeofs.validation.EOFBootstrapper returned, generic in the scalar instance (run at binary64);
   used by the generated Cases/C20_*.v files. *)
From Coq Require Import ZArith List Bool PrimFloat.
From XV Require Import Base.Scalar Base.Sum Base.Mat Base.Instances Model.Eof Model.EofCase Model.Boot.
Import ListNotations.

Section Case.
Context {F : Type} (K : Ops F).
Variable mag : F -> float.
Variable cl : float -> float -> F -> F -> bool.

(* one member: the index list the harness reproduced from the seed, the SVD oracle's answer for
   the centred resample, and the implementation's results for that member *)
Record boot_mcase := mkBM {
  m_idx : list nat;
  m_U : list (list F); m_s : list F; m_Vt : list (list F);
  m_expvar : list F; m_totvar : F;
  m_comps : list (list F);     (* p x k, as stored (after alignment) *)
  m_scores : list (list F);    (* n x k, as stored (after alignment) *)
  m_vectors : bool }.          (* compare vectors (spectral gap present) *)

Record boot_case := mkBC {
  bc_n : nat; bc_p : nat; bc_r : nat; bc_k : nat;
  bc_X : list (list F);        (* n x p: the model's input_data *)
  bc_M : list (list F);        (* n x k: the model's scores *)
  bc_members : list boot_mcase }.

Definition is_unit_sign (x : F) : bool := cl 0%float 0%float (fmul K x x) (f1 K).

(* failing field numbers: 1 shapes / index list, 2 svd factorisation of the centred resample,
   3 U unitary, 4 Vt unitary, 5 explained variance, 6 total variance, 7 components (aligned),
   8 scores (aligned), 9 an alignment sign is not +-1, 10 aligned scores correlate negatively
   with the model's, 11 scores on resampled rows differ from the member's own scores *)
Definition check_member (rt : float) (c : boot_case) (m : boot_mcase) : list nat :=
  let n := bc_n c in let p := bc_p c in let r := bc_r c in let k := bc_k c in
  let a := (m_U m, m_s m, m_Vt m) in
  let Xc := center_cols K n p (boot_resample K p (m_idx m) (bc_X c)) in
  let Xr := mmul K n r p (mmul K n r r (m_U m) (mdiag K r (m_s m))) (m_Vt m) in
  let b := boot_member K n p r k (bc_X c) (m_idx m) a in
  let o := boot_align K n p k b (bc_M c) in
  let tolI := (rt * 100)%float in
  (if idx_okb n (m_idx m) && wfb n r (m_U m) && wfb r p (m_Vt m) && Nat.eqb (length (m_s m)) r then [] else [1%nat]) ++
  (if mcl cl (rt * 100 * mmag mag (bc_X c))%float 0%float Xr Xc then [] else [2%nat]) ++
  (if mcl cl tolI tolI (mmul K r n r (mH K n r (m_U m)) (m_U m)) (mI K r) then [] else [3%nat]) ++
  (if mcl cl tolI tolI (mmul K r p r (m_Vt m) (mH K r p (m_Vt m))) (mI K r) then [] else [4%nat]) ++
  (if vsame mag cl rt (bm_expvar o) (m_expvar m) then [] else [5%nat]) ++
  (if vsame mag cl rt [bm_totvar o] [m_totvar m] then [] else [6%nat]) ++
  (if negb (m_vectors m) || msame mag cl rt (bm_comps o) (m_comps m) then [] else [7%nat]) ++
  (if negb (m_vectors m) || msame mag cl rt (bm_scores o) (m_scores m) then [] else [8%nat]) ++
  (if forallb is_unit_sign (bm_signs o) then [] else [9%nat]) ++
  (if forallb (fun j => fleb K (f0 K) (sum K n (fun i => fmul K (get K (bm_scores o) i j) (get K (bc_M c) i j)))) (seq 0 k)
   then [] else [10%nat]) ++
  (if mcl cl (rt * 100 * mmag mag (e_scores (b_fit b)))%float 0%float
        (msel_rows K k (m_idx m) (b_scores b)) (e_scores (b_fit b)) then [] else [11%nat]).

Definition check_boot (rt : float) (c : boot_case) : list (nat * nat) :=
  (if wfb (bc_n c) (bc_p c) (bc_X c) && wfb (bc_n c) (bc_k c) (bc_M c) then [] else [(0%nat, 1%nat)]) ++
  concat (map (fun im => map (fun f => (fst im, f)) (check_member rt c (snd im)))
              (combine (seq 0 (length (bc_members c))) (bc_members c))).

(* (case, member * 100 + field) *)
Definition check_boots (rt : float) (cs : list boot_case) : list (nat * nat) :=
  concat (map (fun ic => map (fun mf => (fst ic, (fst mf * 100 + snd mf)%nat)) (check_boot rt (snd ic)))
              (combine (seq 0 (length cs)) cs)).
End Case.

Definition check_boots_f64 := @check_boots float OF64 PrimFloat.abs fclose.
