(* Serial.v — the attribute codecs a serialised xeofs model goes through.

   netCDF path (utils/io.py): [_sanitize_attrs_nc] turns every attribute whose type is one of
   [sanitized_types] into its str(); [_desanitize_attrs_nc] applies [ast.literal_eval] to every string
   attribute for which [_should_desanitize] holds.  The type test and the string test are the
   translated ones (Gen/T2.v); [literal_eval] is an ORACLE: an argument of the model, never an axiom.

   zarr path: attributes are stored as JSON, i.e. they come back as json.loads(json.dumps(attrs)).

   A DataTree is modelled as far as the codecs see it: node attributes, per-variable attributes,
   named children. *)
From Coq Require Import String Ascii ZArith List Bool Lia.
From XV Require Import Base.Scalar Model.PyVal Gen.T2.
Import ListNotations.
Open Scope string_scope.

Definition attrs := list (string * pyv).

(* ------------------------------------------------------------------ netCDF codec, one attribute *)
(* `if isinstance(attr, sanitized_types): attrs[key] = str(attr)` *)
Definition sanitize_attr (v : pyv) : pyv :=
  if is_sanitized_type v then PStr (py_str v) else v.

Section Codec.
  Variable literal_eval : string -> result pyv.

  (* the action applied to a string the guard accepts: `literal_eval(attr)`, wrapped in
     `try: ... except (<desanitize_caught>): return attr` when the source has the wrapper
     (desanitize_caught is the generated list of caught kinds; empty for a bare literal_eval) *)
  Definition literal_action (s : string) : result pyv :=
    match literal_eval s with
    | Ok v => Ok v
    | Err k => if existsb (Nat.eqb k) desanitize_caught then Ok (PStr s) else Err k
    end.

  (* `if _should_desanitize(attr): attrs[key] = <action>(attr)`;
     literal_eval of something that is not a string is a ValueError (unreachable: the guard is
     false on non-strings) *)
  Definition desanitize_attr (v : pyv) : result pyv :=
    match should_desanitize v with
    | Err e => Err e
    | Ok false => Ok v
    | Ok true => match v with PStr s => literal_action s | _ => Err EValueError end
    end.

  (* one attribute dictionary; the loop runs in dictionary order and stops at the first exception *)
  Definition sanitize_attrs (d : attrs) : attrs := map (fun kv => (fst kv, sanitize_attr (snd kv))) d.

  Fixpoint desanitize_attrs (d : attrs) : result attrs :=
    match d with
    | [] => Ok []
    | kv :: r =>
        match desanitize_attr (snd kv) with
        | Err e => Err e
        | Ok v' => match desanitize_attrs r with
                   | Err e => Err e
                   | Ok r' => Ok ((fst kv, v') :: r')
                   end
        end
    end.

  Definition codec_attr (v : pyv) : result pyv := desanitize_attr (sanitize_attr v).
  Definition codec_attrs (d : attrs) : result attrs := desanitize_attrs (sanitize_attrs d).
End Codec.

(* ------------------------------------------------------------------ trees *)
Inductive dtree : Type :=
| DNode (a : attrs) (vars : list (string * attrs)) (children : list (string * dtree)).

(* which attribute dictionaries of a node the hand model visits, in which order; tied to the
   generated loop structure in Proofs/C13_tie.v *)
Definition model_sites : list attr_site := [NodeAttrs; VarAttrs].

Fixpoint sanitize_tree (t : dtree) : dtree :=
  match t with
  | DNode a vars ch =>
      DNode (sanitize_attrs a)
            (map (fun nv => (fst nv, sanitize_attrs (snd nv))) vars)
            ((fix go (ch : list (string * dtree)) : list (string * dtree) :=
                match ch with [] => [] | c :: r => (fst c, sanitize_tree (snd c)) :: go r end) ch)
  end.

Section TreeCodec.
  Variable literal_eval : string -> result pyv.

  Fixpoint desanitize_vars (vars : list (string * attrs)) : result (list (string * attrs)) :=
    match vars with
    | [] => Ok []
    | nv :: r =>
        match desanitize_attrs literal_eval (snd nv) with
        | Err e => Err e
        | Ok a' => match desanitize_vars r with
                   | Err e => Err e
                   | Ok r' => Ok ((fst nv, a') :: r')
                   end
        end
    end.

  (* nodes are visited parent first; only whether an exception is raised (not which of several) is
     claimed about the traversal order *)
  Fixpoint desanitize_tree (t : dtree) : result dtree :=
    match t with
    | DNode a vars ch =>
        match desanitize_attrs literal_eval a with
        | Err e => Err e
        | Ok a' =>
            match desanitize_vars vars with
            | Err e => Err e
            | Ok vars' =>
                match (fix go (ch : list (string * dtree)) : result (list (string * dtree)) :=
                         match ch with
                         | [] => Ok []
                         | c :: r =>
                             match desanitize_tree (snd c) with
                             | Err e => Err e
                             | Ok c' => match go r with
                                        | Err e => Err e
                                        | Ok r' => Ok ((fst c, c') :: r')
                                        end
                             end
                         end) ch with
                | Err e => Err e
                | Ok ch' => Ok (DNode a' vars' ch')
                end
            end
        end
    end.

  Definition codec_tree (t : dtree) : result dtree := desanitize_tree (sanitize_tree t).
End TreeCodec.

(* every attribute dictionary of a tree *)
Fixpoint tree_dicts (t : dtree) : list attrs :=
  match t with
  | DNode a vars ch =>
      (a :: map snd vars ++
       (fix go (ch : list (string * dtree)) : list attrs :=
          match ch with [] => [] | c :: r => tree_dicts (snd c) ++ go r end) ch)%list
  end.

(* ------------------------------------------------------------------ JSON (zarr attributes) *)
(* JSON numbers: a token without fraction/exponent is read back as int, any other as float *)
Inductive json : Type :=
| JNull | JBool (b : bool) | JInt (z : Z) | JFloat (tok : string) | JStr (s : string)
| JArr (l : list json) | JObj (d : list (string * json)).

Fixpoint json_dumps (v : pyv) : json :=
  match v with
  | PNone => JNull
  | PBool b => JBool b
  | PInt z => JInt z
  | PFloatTok t => JFloat t
  | PStr s => JStr s
  | PList l => JArr ((fix go (l : list pyv) : list json :=
                        match l with [] => [] | x :: r => json_dumps x :: go r end) l)
  | PDict d => JObj ((fix go (d : list (string * pyv)) : list (string * json) :=
                        match d with [] => [] | kv :: r => (fst kv, json_dumps (snd kv)) :: go r end) d)
  end.

Fixpoint json_loads (j : json) : pyv :=
  match j with
  | JNull => PNone
  | JBool b => PBool b
  | JInt z => PInt z
  | JFloat t => PFloatTok t
  | JStr s => PStr s
  | JArr l => PList ((fix go (l : list json) : list pyv :=
                        match l with [] => [] | x :: r => json_loads x :: go r end) l)
  | JObj d => PDict ((fix go (d : list (string * json)) : list (string * pyv) :=
                        match d with [] => [] | kv :: r => (fst kv, json_loads (snd kv)) :: go r end) d)
  end.

Definition json_rt (v : pyv) : pyv := json_loads (json_dumps v).
Definition json_rt_attrs (d : attrs) : attrs := map (fun kv => (fst kv, json_rt (snd kv))) d.

(* ------------------------------------------------------------------ executable helpers for Cases *)
Fixpoint pyv_eqb (a b : pyv) : bool :=
  match a, b with
  | PNone, PNone => true
  | PBool x, PBool y => Bool.eqb x y
  | PInt x, PInt y => Z.eqb x y
  | PFloatTok x, PFloatTok y => String.eqb x y
  | PStr x, PStr y => String.eqb x y
  | PList l, PList m =>
      (fix go (l m : list pyv) : bool :=
         match l, m with
         | [], [] => true
         | x :: r, y :: s => pyv_eqb x y && go r s
         | _, _ => false
         end) l m
  | PDict d, PDict e =>
      (fix go (d e : list (string * pyv)) : bool :=
         match d, e with
         | [], [] => true
         | x :: r, y :: s => String.eqb (fst x) (fst y) && pyv_eqb (snd x) (snd y) && go r s
         | _, _ => false
         end) d e
  | _, _ => false
  end.

(* an oracle given as a finite table (what the harness observed Python's literal_eval to answer);
   a string outside the table is a harness fault, reported as EOther *)
Fixpoint table_oracle (tbl : list (string * result pyv)) (s : string) : result pyv :=
  match tbl with
  | [] => Err EOther
  | (k, r) :: rest => if String.eqb k s then r else table_oracle rest s
  end.

Definition tag_code (v : pyv) : Z :=
  match v with
  | PNone => 0 | PBool _ => 1 | PInt _ => 2 | PFloatTok _ => 3 | PStr _ => 4 | PList _ => 5 | PDict _ => 6
  end%Z.

(* outcome class of the netCDF codec on one attribute: 0 unchanged, 10+k exception of kind k,
   20+tag a different value of that type came back *)
Definition codec_outcome (tbl : list (string * result pyv)) (v : pyv) : Z :=
  match codec_attr (table_oracle tbl) v with
  | Ok v' => if pyv_eqb v' v then 0%Z else (20 + tag_code v')%Z
  | Err k => (10 + Z.of_nat k)%Z
  end.

(* what is compared with Python besides the outcome: str(v) itself, as a list of character codes *)
Fixpoint str_codes (s : string) : list Z :=
  match s with EmptyString => [] | String c r => Z.of_nat (nat_of_ascii c) :: str_codes r end.

Definition json_outcome (v : pyv) : Z := if pyv_eqb (json_rt v) v then 0%Z else 1%Z.
