(* ScalerLib.v — vocabulary and interpreter for the scaler's guarded element-wise
   operation lists (the lists themselves are regenerated from scaler.py: Gen/T4.v). *)
From Coq Require Import ZArith List Bool.
From XV Require Import Base.Scalar Base.Mat.
Import ListNotations.

Inductive guard := GAlways | GCenter | GStd | GCoslat.
Inductive sop := OSub | OAdd | OMul | ODiv.
Inductive sparam := PMean | PStd | PCoslat | PWeights.

Record sflags := mkFlags { with_center : bool; with_std : bool; with_coslat : bool }.

Section Scaler.
Context {F : Type} (K : Ops F).
Record sparams := mkParams { p_mean : F; p_std : F; p_coslat : F; p_weights : F }.

Definition guard_on (fl : sflags) (g : guard) : bool :=
  match g with GAlways => true | GCenter => with_center fl | GStd => with_std fl | GCoslat => with_coslat fl end.
Definition param (ps : sparams) (p : sparam) : F :=
  match p with PMean => p_mean ps | PStd => p_std ps | PCoslat => p_coslat ps | PWeights => p_weights ps end.
Definition apply_op (o : sop) (x v : F) : F :=
  match o with OSub => fsub K x v | OAdd => fadd K x v | OMul => fmul K x v | ODiv => fdiv K x v end.

Definition run_ops (fl : sflags) (ps : sparams) (ops : list (guard * sop * sparam)) (x : F) : F :=
  fold_left (fun acc gop => let '(g, o, p) := gop in if guard_on fl g then apply_op o acc (param ps p) else acc) ops x.

(* element-wise on a matrix, parameters per feature (column) *)
Definition scale_mat (n p : nat) (fl : sflags) (ps : nat -> sparams) (ops : list (guard * sop * sparam)) (X : list (list F)) :=
  tab n p (fun i j => run_ops fl (ps j) ops (get K X i j)).

(* the `normalized` switches: (value of the flag that triggers the operation, operation with the norms) *)
Definition norm_apply (sw : bool * sop) (normalized : bool) (x nrm : F) : F :=
  if Bool.eqb normalized (fst sw) then apply_op (snd sw) x nrm else x.
End Scaler.
Arguments mkParams {F} _ _ _ _.
