(* RotCase.v — executable comparison of the rotation model with EOFRotator outputs. *)
From Coq Require Import ZArith List Bool PrimFloat.
From XV Require Import Base.Scalar Base.Sum Base.Mat Base.Instances Model.Eof Model.EofCase Model.Rot.
Import ListNotations.

Section Case.
Context {F : Type} (K : Ops F).
Variable mag : F -> float.
Variable cl : float -> float -> F -> F -> bool.

Record rot_case := mkRC {
  rc_n : nat; rc_p : nat; rc_k : nat;
  rc_Vk : list (list F); rc_Un : list (list F); rc_lam : list F; rc_sv : list F;
  rc_R : list (list F); rc_RinvT : list (list F); rc_idx : list nat; rc_X : list (list F);
  rc_comps : list (list F); rc_scores : list (list F); rc_norms : list F; rc_expvar : list F;
  rc_transformed : list (list F) }.

(* 1 RinvT R^H = I, 2 components, 3 scores, 4 pseudo-norms, 5 explained variance,
   6 transform(training) vs implementation's transform, 7 transform(training) vs fitted scores *)
Definition check_rot (rt : float) (c : rot_case) : list nat :=
  let n := rc_n c in let p := rc_p c in let k := rc_k c in
  let fitted := rot_sort K n p (rc_idx c) (rot_fit K n p k (rc_Vk c) (rc_Un c) (rc_lam c) (rc_R c) (rc_RinvT c)) in
  let tr := rot_transform K n p k (rc_Vk c) (rc_sv c) (rc_RinvT c) true (rc_idx c) fitted (rc_X c) in
  (if mcl cl (rt * 100)%float (rt * 100)%float (mmul K k k k (rc_RinvT c) (mH K k k (rc_R c))) (mI K k) then [] else [1%nat]) ++
  (if msame mag cl rt (r_comps fitted) (rc_comps c) then [] else [2%nat]) ++
  (if msame mag cl rt (r_scores fitted) (rc_scores c) then [] else [3%nat]) ++
  (if vsame mag cl rt (r_norms fitted) (rc_norms c) then [] else [4%nat]) ++
  (if vsame mag cl rt (r_expvar fitted) (rc_expvar c) then [] else [5%nat]) ++
  (if msame mag cl rt tr (rc_transformed c) then [] else [6%nat]) ++
  (if msame mag cl rt tr (r_scores fitted) then [] else [7%nat]).

Definition check_rots (rt : float) (cs : list rot_case) : list (nat * nat) :=
  concat (map (fun ic => map (fun f => (fst ic, f)) (check_rot rt (snd ic))) (combine (seq 0 (length cs)) cs)).
End Case.

Definition check_rots_f64 := @check_rots float OF64 PrimFloat.abs fclose.
Definition check_rots_c64 := @check_rots cfloat OC64 (fun a => fst (c_abs a)) cclose.
