(* OScale.v — per-feature operations on data with missing values (the Scaler in front of the Sanitizer).
   A fitted per-feature statistic (mean, standard deviation with any divisor, clipped or not) is a function of the
   PRESENT values of that feature, in sample order: xarray's reductions skip NaN.  [omap_cols] applies
   x |-> g j (present values of column j) x to every present entry and leaves missing entries missing. *)
From Coq Require Import List Bool Arith.
From XV Require Import Model.Sanitizer.
Import ListNotations.

Section OScale.
Context {F : Type}.
Notation omat := (@omat F).

Definition present (o : option F) : list F := match o with Some x => [x] | None => [] end.
Definition colvals (M : omat) (j : nat) : list F := flat_map (fun r => present (nth j r None)) M.
Definition omap_cols (p : nat) (g : nat -> list F -> F -> F) (M : omat) : omat :=
  map (fun r => map (fun j => option_map (g j (colvals M j)) (nth j r None)) (seq 0 p)) M.
End OScale.
