(* Whiten.v — fractional whitening (xeofs/preprocessing/whitener.py with
   linalg/_numpy/_utils.py:_fractional_matrix_power) and PCA reduction
   (xeofs/preprocessing/pca.py), polymorphic in the scalar instance.

   Oracles are arguments: the eigen/SVD answer (V, lam) for the covariance matrix
   C = X^H X / n, and the real-power answer d_i = lam_i ^ ((alpha - 1) / 2) together
   with dinv_i = 1 / d_i (np.linalg.inv of a matrix that is diagonal in the basis V). *)
From Coq Require Import ZArith List Bool Lia Arith.
From XV Require Import Base.Scalar Base.Sum Base.Mat Model.Eof.
Import ListNotations.

Section Whiten.
Context {F : Type} (K : Ops F).
Notation mat := (@mat F). Notation vec := (@vec F).

(* ---------- eigen oracle ---------- *)
Definition eig_ok (p : nat) (C V : mat) (lam : vec) : Prop :=
  wf K p p C /\ wf K p p V /\ vwf K p lam /\
  C = mmul K p p p (mmul K p p p V (mdiag K p lam)) (mH K p p V) /\
  mmul K p p p (mH K p p V) V = mI K p /\
  mmul K p p p V (mH K p p V) = mI K p /\
  real_vec K p lam.

(* ---------- scalar pieces (tied to the source by Proofs/C16_tie.v) ---------- *)
(* nc = X.shape[0] : the covariance divisor is N, not N - 1 *)
Definition whiten_divisor (n p : nat) : Z := Z.of_nat n.
(* power = (self.alpha - 1) / 2 *)
Definition whiten_exponent (alpha : F) : F := fdiv K (fsub K alpha (fofZ K 1%Z)) (fofZ K 2%Z).
(* alpha_is_one = (1.0 - self.alpha) < eps *)
Definition whiten_is_identity (alpha eps : F) : bool := negb (fleb K eps (fsub K (fofZ K 1%Z) alpha)).
(* constructor guard: alpha < 0 is rejected (there is no upper bound) *)
Definition whiten_rejects (alpha : F) : bool := negb (fleb K (fofZ K 0%Z) alpha).
(* is_above_zero = s > <threshold>; the threshold is np.finfo(s.dtype).eps in absolute terms (relative = false), or, in the
   scale-invariant variant, eps * C.shape[0] * s.max() (relative = true); which one the source uses is read off by the translator *)
Definition whiten_keep (s thr : F) : bool := negb (fleb K s thr).
Definition whiten_threshold (relative : bool) (eps : F) (p : nat) (smax : F) : F :=
  if relative then fmul K (fmul K eps (fofZ K (Z.of_nat p))) smax else eps.

Fixpoint fpow (x : F) (e : nat) : F := match e with O => f1 K | S e' => fmul K x (fpow x e') end.

(* ---------- matrices ---------- *)
(* C = X.conj().T @ X / nc *)
Definition whiten_cov (n p : nat) (X : mat) : mat :=
  let G := mmul K p n p (mH K n p X) X in
  tab p p (fun i j => fdiv K (get K G i j) (fofZ K (whiten_divisor n p))).

(* V @ np.diag(a) @ V.conj().T *)
Definition sandwich (p : nat) (V : mat) (a : vec) : mat :=
  mmul K p p p (mmul K p p p V (mdiag K p a)) (mH K p p V).

(* dropping the columns of V whose singular value is not above eps is the same matrix
   product as zeroing the corresponding diagonal entries *)
Definition whiten_mask (p : nat) (thr : F) (lam a : vec) : vec :=
  vtab p (fun i => if whiten_keep (vget K lam i) thr then vget K a i else f0 K).

Definition whiten_T (p : nat) (thr : F) (V : mat) (lam d : vec) : mat := sandwich p V (whiten_mask p thr lam d).
Definition whiten_Tinv (p : nat) (thr : F) (V : mat) (lam dinv : vec) : mat := sandwich p V (whiten_mask p thr lam dinv).

(* eigenvalues of the covariance of the whitened data: d_i^2 lam_i *)
Definition whitened_eigs (p : nat) (lam d : vec) : vec :=
  vtab p (fun i => fmul K (fmul K (vget K d i) (vget K d i)) (vget K lam i)).

(* the four maps on explicit T (feature x mode) and Tinv (mode x feature) *)
Definition whiten_transform (n p : nat) (T X : mat) : mat := mmul K n p p X T.
Definition whiten_inverse_data (n p : nat) (Tinv X : mat) : mat := mmul K n p p X Tinv.
Definition whiten_transform_components (p m : nat) (T P : mat) : mat := mmul K p p m (mH K p p T) P.
Definition whiten_inverse_components (p m : nat) (Tinv P : mat) : mat := mmul K p p m (mH K p p Tinv) P.

(* the fitted object: for alpha = 1 the source stores the scalar 1 and every map returns its argument *)
Record whitener := mkW { w_identity : bool; w_T : mat; w_Tinv : mat }.

Definition whiten_fit (p : nat) (alpha eps thr : F) (V : mat) (lam d dinv : vec) : whitener :=
  if whiten_is_identity alpha eps then mkW true [[f1 K]] [[f1 K]]
  else mkW false (whiten_T p thr V lam d) (whiten_Tinv p thr V lam dinv).

Definition w_transform (n p : nat) (w : whitener) (X : mat) : mat :=
  if w_identity w then X else whiten_transform n p (w_T w) X.
Definition w_inverse_data (n p : nat) (w : whitener) (X : mat) : mat :=
  if w_identity w then X else whiten_inverse_data n p (w_Tinv w) X.
Definition w_transform_components (p m : nat) (w : whitener) (P : mat) : mat :=
  if w_identity w then P else whiten_transform_components p m (w_T w) P.
Definition w_inverse_components (p m : nat) (w : whitener) (P : mat) : mat :=
  if w_identity w then P else whiten_inverse_components p m (w_Tinv w) P.

(* ---------- PCA ---------- *)
(* _SVD: V = VT.conj().T, sign multiplier from the columns of V (max / min along axis 0),
   V *= sign; for "all" or an integer mode count the first k rows of VT are kept before that *)
Definition mcol (p : nat) (A : mat) (j : nat) : vec := map (fun i => get K A i j) (seq 0 p).
Definition col_signs (p k : nat) (V : mat) : vec :=
  vtab k (fun j => let c := mcol p V j in sign_rule K (vmax K c) (vmin K c)).
Definition pca_basis_sg (p k : nat) (Vt : mat) (sg : vec) : mat :=
  colscale K p k (mH K k p (mrows K k p Vt)) sg.
Definition pca_fit (p k : nat) (a : svd_answer) : mat :=
  let '(U, s, Vt) := a in
  pca_basis_sg p k Vt (col_signs p k (mH K k p (mrows K k p Vt))).

(* V is feature x mode (p x k) *)
Definition pca_transform (n p k : nat) (V X : mat) : mat := mmul K n p k X V.
Definition pca_inverse_data (n p k : nat) (V X : mat) : mat := mmul K n k p X (mH K p k V).
Definition pca_transform_components (p k m : nat) (V P : mat) : mat := mmul K k p m (mH K p k V) P.
Definition pca_inverse_components (p k m : nat) (V Q : mat) : mat := mmul K p k m V Q.

End Whiten.
