(* Sanitizer.v — executable model of xeofs/preprocessing/sanitizer.py over n x p matrices of
   [option F] ([None] is NaN).  First-order, computable, polymorphic in the scalar type [F]
   (no arithmetic is performed here: the point of the model is that, once the checks accepted,
   the matrix handed on has type [list (list F)] — no [None] can reach an arithmetic operation).

   Mask-level functions work on the not-null mask [list (list bool)]; the number of columns [p]
   is explicit (a matrix with no rows does not determine it). *)
From Coq Require Import List Bool Arith Lia ZArith.
Import ListNotations.

(* ------------------------------------------------------------------ masks *)
Definition count_true (r : list bool) : nat := length (filter (fun b : bool => b) r).
Definition row_any (r : list bool) : bool := existsb (fun b : bool => b) r.
Definition col_any (B : list (list bool)) (j : nat) : bool := existsb (fun r => nth j r false) B.
Definition bget (B : list (list bool)) (i j : nat) : bool := nth j (nth i B []) false.

(* X.notnull().any(sample_name) / .any(feature_name) / .sum(feature_name) *)
Definition valid_features_b (p : nat) (B : list (list bool)) : list bool := map (col_any B) (seq 0 p).
Definition valid_samples_b (B : list (list bool)) : list bool := map row_any B.
Definition valid_per_sample_b (B : list (list bool)) : list nat := map count_true B.

(* X_valid_features_per_sample.isin([0, X_valid_features.sum()]) for one sample *)
Definition row_ok (cnt nvalid : nat) : bool := existsb (Nat.eqb cnt) [0; nvalid].
(* not (~isin(...)).any() *)
Definition isolated_ok_b (p : nat) (B : list (list bool)) : bool :=
  forallb (fun c => row_ok c (count_true (valid_features_b p B))) (valid_per_sample_b B).

(* labels (positions) where a boolean vector is true *)
Definition true_idx (l : list bool) : list nat := filter (fun j => nth j l false) (seq 0 (length l)).

Fixpoint eqb_list {A} (eqb : A -> A -> bool) (a b : list A) : bool :=
  match a, b with
  | [], [] => true
  | x :: a', y :: b' => eqb x y && eqb_list eqb a' b'
  | _, _ => false
  end.

(* X_valid_features.equals(self.is_valid_feature) *)
Definition mask_matches_fit (fit_vf vf : list bool) : bool := eqb_list Bool.eqb vf fit_vf.

(* position of a label in a label list (reindex looks labels up) *)
Fixpoint index_of (x : nat) (l : list nat) : option nat :=
  match l with
  | [] => None
  | y :: t => if Nat.eqb x y then Some 0 else option_map S (index_of x t)
  end.

(* ------------------------------------------------------------------ data *)
Inductive san_err := SE_dims | SE_coords | SE_mask | SE_isolated | SE_internal.
Inductive sres (A : Type) := SOk (a : A) | SErr (e : san_err).
Arguments SOk {A} _. Arguments SErr {A} _.

(* the checks of Sanitizer.transform, in the order the hand model performs them *)
Inductive mstep := MCheckDims | MCheckCoords | MCheckMask | MCheckIsolated | MWhereDrop.
Definition san_model_steps : list mstep := [MCheckDims; MCheckCoords; MCheckMask; MCheckIsolated; MWhereDrop].
(* which of them are skipped when check_nans = False *)
Definition mstep_needs_check_nans (s : mstep) : bool :=
  match s with MCheckDims | MCheckCoords => false | _ => true end.
(* reductions that define validity: feature valid = any over samples, sample valid = any over
   features, per-sample count = sum over features *)
Inductive axis := AxSample | AxFeature.
Inductive reduction := RAny | RSum.
Definition model_valid_features_red : reduction * axis := (RAny, AxSample).
Definition model_valid_samples_red : reduction * axis := (RAny, AxFeature).
Definition model_valid_per_sample_red : reduction * axis := (RSum, AxFeature).
(* inverse transforms: which coordinate is re-indexed to the fit coordinates *)
Definition model_inverse_data_axis : option axis := Some AxFeature.
Definition model_inverse_components_axis : option axis := Some AxFeature.
Definition model_inverse_scores_axis : option axis := Some AxSample.
Definition model_inverse_scores_unseen_axis : option axis := None.   (* identity *)

Section Data.
Context {F : Type}.

Definition omat := list (list (option F)).
Definition is_some (o : option F) : bool := match o with Some _ => true | None => false end.
Definition notnull (M : omat) : list (list bool) := map (map is_some) M.
Definition oget (M : omat) (i j : nat) : option F := nth j (nth i M []) None.
Definition owf (n p : nat) (M : omat) : Prop := length M = n /\ Forall (fun r => length r = p) M.
Definition owfb (n p : nat) (M : omat) : bool :=
  Nat.eqb (length M) n && forallb (fun r => Nat.eqb (length r) p) M.

Definition valid_features (p : nat) (M : omat) : list bool := valid_features_b p (notnull M).
Definition valid_samples (M : omat) : list bool := valid_samples_b (notnull M).
Definition valid_per_sample (M : omat) : list nat := valid_per_sample_b (notnull M).
Definition isolated_ok (p : nat) (M : omat) : bool := isolated_ok_b p (notnull M).
(* kept sample / feature positions *)
Definition kept_rows (M : omat) : list nat := true_idx (valid_samples M).
Definition kept_cols (p : nat) (M : omat) : list nat := true_idx (valid_features p M).

(* selection of rows I and columns J (deleting everything else) *)
Definition select (I J : list nat) (M : omat) : omat := map (fun i => map (fun j => oget M i j) J) I.

(* a matrix of genuine values, if there is no None *)
Fixpoint dense_row (r : list (option F)) : option (list F) :=
  match r with
  | [] => Some []
  | Some x :: t => option_map (cons x) (dense_row t)
  | None :: _ => None
  end.
Fixpoint dense (M : omat) : option (list (list F)) :=
  match M with
  | [] => Some []
  | r :: t => match dense_row r, dense t with
              | Some a, Some b => Some (a :: b)
              | _, _ => None
              end
  end.
Definition undense (D : list (list F)) : omat := map (map (@Some F)) D.

Record san_out := mkOut { out_X : list (list F); out_rows : list nat; out_cols : list nat }.

(* check_nans = True, dims and coordinates fine: isolated check, then where(vf & vs, drop=True) *)
Definition sanitize (p : nat) (M : omat) : sres san_out :=
  if isolated_ok p M then
    match dense (select (kept_rows M) (kept_cols p M) M) with
    | Some D => SOk (mkOut D (kept_rows M) (kept_cols p M))
    | None => SErr SE_internal
    end
  else SErr SE_isolated.

(* ---- fit state and transform with all checks *)
Record san_fit := mkFit { fit_fcoords : list Z; fit_scoords : list Z; fit_vf : list bool }.
Record san_in := mkIn { in_dims_ok : bool; in_fcoords : list Z; in_scoords : list Z; in_data : omat }.

Definition san_fit_of (p : nat) (x : san_in) : sres san_fit :=
  if in_dims_ok x then SOk (mkFit (in_fcoords x) (in_scoords x) (valid_features p (in_data x)))
  else SErr SE_dims.

Definition step_error (st : san_fit) (p : nat) (x : san_in) (s : mstep) : option san_err :=
  match s with
  | MCheckDims => if in_dims_ok x then None else Some SE_dims
  | MCheckCoords => if eqb_list Z.eqb (in_fcoords x) (fit_fcoords st) then None else Some SE_coords
  | MCheckMask => if mask_matches_fit (fit_vf st) (valid_features p (in_data x)) then None else Some SE_mask
  | MCheckIsolated => if isolated_ok p (in_data x) then None else Some SE_isolated
  | MWhereDrop => None
  end.
Fixpoint first_error (st : san_fit) (p : nat) (x : san_in) (steps : list mstep) : option san_err :=
  match steps with
  | [] => None
  | s :: t => match step_error st p x s with Some e => Some e | None => first_error st p x t end
  end.

Definition san_transform (st : san_fit) (p : nat) (x : san_in) : sres san_out :=
  match first_error st p x san_model_steps with
  | Some e => SErr e
  | None => sanitize p (in_data x)
  end.

Definition san_fit_transform (p : nat) (x : san_in) : sres san_out :=
  match san_fit_of p x with
  | SOk st => san_transform st p x
  | SErr e => SErr e
  end.

(* ---- inverse transforms: reindex to the full fit coordinates, None where the label was dropped *)
Definition reindex {A} (full kept : list nat) (vals : list A) : list (option A) :=
  map (fun lab => match index_of lab kept with Some k => nth_error vals k | None => None end) full.
(* one row of dense values -> row over all p feature labels (components, reconstructed data) *)
Definition reinsert_cols (p : nat) (J : list nat) (v : list F) : list (option F) := reindex (seq 0 p) J v.
(* rows of [option]-valued entries -> all n sample labels; a dropped sample is a row of None (scores) *)
Definition reinsert_rows (n w : nat) (I : list nat) (R : list (list (option F))) : omat :=
  map (fun o => match o with Some r => r | None => repeat None w end) (reindex (seq 0 n) I R).
Definition reinsert (n p : nat) (I J : list nat) (D : list (list F)) : omat :=
  reinsert_rows n p I (map (reinsert_cols p J) D).

(* ---- cross-set pairing as implemented: each field is sanitised on its own and rows are then
   paired by position; the only guard is equality of the row counts *)
Definition cross_pair (p q : nat) (MX MY : omat) : sres (san_out * san_out) :=
  match sanitize p MX, sanitize q MY with
  | SOk a, SOk b => if Nat.eqb (length (out_X a)) (length (out_X b)) then SOk (a, b) else SErr SE_dims
  | SErr e, _ => SErr e
  | _, SErr e => SErr e
  end.

End Data.
