(* PipeCase.v — comparison of the renaming model with recorded DimensionRenamer.dim_mapping tables *)
From Coq Require Import List Bool Arith ZArith.
From XV Require Import Model.Pipe.
Import ListNotations.

Fixpoint nl_eqb (a b : list nat) : bool :=
  match a, b with [] , [] => true | x :: a', y :: b' => Nat.eqb x y && nl_eqb a' b' | _, _ => false end.
Fixpoint pl_eqb (a b : list (nat * nat)) : bool :=
  match a, b with [] , [] => true | (x, u) :: a', (y, v) :: b' => Nat.eqb x y && Nat.eqb u v && pl_eqb a' b' | _, _ => false end.

(* a case: start, sample dims, X.dims, the implementation's mapping in dict order, renamed dims, dims after undoing *)
Definition ren_case := (nat * list nat * list nat * list (nat * nat) * list nat * list nat)%type.
Definition ren_ok (rule : order_rule) (c : ren_case) : bool :=
  let '(start, sample, xdims, m_impl, renamed, back) := c in
  let m := dim_mapping rule start sample xdims in
  pl_eqb m m_impl && nl_eqb (rename m xdims) renamed && nl_eqb (unrename m (rename m xdims)) back.
Fixpoint ren_mismatches_from (rule : order_rule) (i : Z) (cs : list ren_case) : list Z :=
  match cs with [] => [] | c :: r => if ren_ok rule c then ren_mismatches_from rule (i + 1) r else i :: ren_mismatches_from rule (i + 1) r end.
Definition ren_mismatches rule cs := ren_mismatches_from rule 1%Z cs.
