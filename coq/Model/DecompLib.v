(* DecompLib.v — vocabulary shared by the generated decision functions (Gen/T3.v)
   and the hand-written decomposition model. *)
From Coq Require Import String ZArith List Bool.
From XV Require Import Base.Scalar.
Import ListNotations.

(* dynamic type tag of a Python argument *)
Inductive pyty := TNone | TBool | TInt | TFloat | TStr | TList | TTuple | TDict | TDataArray | TDataset | TOther.

Definition pyty_eqb (a b : pyty) : bool :=
  match a, b with
  | TNone, TNone | TBool, TBool | TInt, TInt | TFloat, TFloat | TStr, TStr | TList, TList
  | TTuple, TTuple | TDict, TDict | TDataArray, TDataArray | TDataset, TDataset | TOther, TOther => true
  | _, _ => false
  end.

(* Python: bool is a subclass of int *)
Definition pyty_is (a t : pyty) : bool :=
  pyty_eqb a t || (match a, t with TBool, TInt => true | _, _ => false end).
Definition pyty_isinstance (a : pyty) (ts : list pyty) : bool := existsb (pyty_is a) ts.

Inductive backend := Exact | Randomized | Svds | DaskCompressed | Refused.
Definition backend_eqb (a b : backend) : bool :=
  match a, b with
  | Exact, Exact | Randomized, Randomized | Svds, Svds | DaskCompressed, DaskCompressed | Refused, Refused => true
  | _, _ => false end.
Definition backend_code (b : backend) : Z :=
  match b with Exact => 0 | Randomized => 1 | Svds => 2 | DaskCompressed => 3 | Refused => 4 end.

Inductive post_step := PTruncate | PFlip.

Section Count.
Context {F : Type} (K : Ops F).
Definition count_ge (l : list F) (x : F) : nat := length (filter (fun c => fleb K x c) l).
Definition count_gt (l : list F) (x : F) : nat := length (filter (fun c => negb (fleb K c x)) l).
Definition count_le (l : list F) (x : F) : nat := length (filter (fun c => fleb K c x) l).
Definition count_lt (l : list F) (x : F) : nat := length (filter (fun c => negb (fleb K x c)) l).

(* running sums: numpy cumsum *)
Fixpoint cumsum_from (acc : F) (l : list F) : list F :=
  match l with [] => [] | x :: r => let a := fadd K acc x in a :: cumsum_from a r end.
Definition cumsum (l : list F) : list F :=
  match l with [] => [] | x :: r => x :: cumsum_from x r end.
End Count.

(* solver -> back-end, composed from the two generated pieces *)
Definition policy (ue : string -> bool -> bool -> Z -> Z -> result bool) (be : bool -> bool -> bool -> backend)
  (solver : string) (small cplx dask : bool) (npre rank : Z) : result backend :=
  match ue solver small dask npre rank with Ok b => Ok (be b cplx dask) | Err k => Err k end.
Definition res_code (r : result backend) : Z :=
  match r with Ok b => backend_code b | Err k => (100 + Z.of_nat k)%Z end.
