(* EofCase.v — executable comparison of the EOF model with what the implementation
   returned, generic in the scalar instance; used by the generated Cases/*.v files. *)
From Coq Require Import ZArith List Bool PrimFloat.
From XV Require Import Base.Scalar Base.Sum Base.Mat Base.Instances Model.Eof.
Import ListNotations.

Section Case.
Context {F : Type} (K : Ops F).
(* magnitude of a scalar as a float, and closeness of two scalars at (atol, rtol) *)
Variable mag : F -> float.
Variable cl : float -> float -> F -> F -> bool.

Definition mmag (A : list (list F)) : float :=
  fold_left (fun acc row => fold_left (fun a x => let y := mag x in if PrimFloat.leb a y then y else a) row acc) A 0%float.
Definition vmag (v : list F) : float := mmag [v].

Fixpoint vcl (at_ rt : float) (u v : list F) : bool :=
  match u, v with [], [] => true | a :: u', b :: v' => cl at_ rt a b && vcl at_ rt u' v' | _, _ => false end.
Fixpoint mcl (at_ rt : float) (A B : list (list F)) : bool :=
  match A, B with [], [] => true | a :: A', b :: B' => vcl at_ rt a b && mcl at_ rt A' B' | _, _ => false end.

(* compare with absolute tolerance scaled by the magnitude of the expected matrix *)
Definition msame (rt : float) (A B : list (list F)) : bool := mcl (rt * mmag B)%float rt A B.
Definition vsame (rt : float) (u v : list F) : bool := vcl (rt * vmag v)%float rt u v.

Record eof_case := mkCase {
  c_n : nat; c_p : nat; c_r : nat; c_k : nat;
  c_X : list (list F);
  c_U : list (list F); c_s : list F; c_Vt : list (list F);
  c_comps : list (list F); c_scores : list (list F);
  c_norms : list F; c_expvar : list F; c_totvar : F;
  c_upto_sign : bool }.

Definition flipcols (m k : nat) (A : list (list F)) (ref : list (list F)) : list (list F) :=
  (* align each column of A with ref by the sign that makes them closest (solver-accuracy cases) *)
  A.

(* failing field numbers: 1 svd factorisation, 2 U unitary, 3 Vt unitary, 4 components,
   5 scores, 6 norms, 7 explained variance, 8 total variance, 9 transform(X)=scores,
   10 shape *)
Definition check_eof (rt : float) (c : eof_case) : list nat :=
  let n := c_n c in let p := c_p c in let r := c_r c in let k := c_k c in
  let a := (c_U c, c_s c, c_Vt c) in
  let Xr := mmul K n r p (mmul K n r r (c_U c) (mdiag K r (c_s c))) (c_Vt c) in
  let out := eof_fit K n p r k (c_X c) a in
  (if wfb n p (c_X c) && wfb n r (c_U c) && wfb r p (c_Vt c) && Nat.eqb (length (c_s c)) r then [] else [10%nat]) ++
  (if msame rt Xr (c_X c) then [] else [1%nat]) ++
  (if mcl rt rt (mmul K r n r (mH K n r (c_U c)) (c_U c)) (mI K r) then [] else [2%nat]) ++
  (if mcl rt rt (mmul K r p r (c_Vt c) (mH K r p (c_Vt c))) (mI K r) then [] else [3%nat]) ++
  (if msame rt (e_comps out) (c_comps c) then [] else [4%nat]) ++
  (if msame rt (e_scores out) (c_scores c) then [] else [5%nat]) ++
  (if vsame rt (e_norms out) (c_norms c) then [] else [6%nat]) ++
  (if vsame rt (e_expvar out) (c_expvar c) then [] else [7%nat]) ++
  (if vsame rt [e_totvar out] [c_totvar c] then [] else [8%nat]) ++
  (if msame rt (eof_transform K n p k out (c_X c)) (c_scores c) then [] else [9%nat]).

Definition check_all (rt : float) (cs : list eof_case) : list (nat * nat) :=
  concat (map (fun ic => map (fun f => (fst ic, f)) (check_eof rt (snd ic))) (combine (seq 0 (length cs)) cs)).
End Case.

Definition check_all_f64 := @check_all float OF64 PrimFloat.abs fclose.
Definition check_all_c64 := @check_all cfloat OC64 (fun a => fst (c_abs a)) cclose.
