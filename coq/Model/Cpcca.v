(* Cpcca.v — the cross-set core (CPCCA._fit_algorithm) on the whitened PC matrices Xw (n x p1) and
   Yw (n x p2): cross-covariance with the N-1 divisor, SVD oracle, signs from the right factor
   applied to both, scores = data times singular vectors, norms, correlation helpers. *)
From Coq Require Import ZArith List Bool Lia Arith.
From XV Require Import Base.Scalar Base.Sum Base.Mat Model.Eof.
Import ListNotations.

Section Cpcca.
Context {F : Type} (K : Ops F).
Notation mat := (@mat F). Notation vec := (@vec F).

(* X.conj().T @ Y / (n_samples_x - 1) *)
Definition cross_cov (n p1 p2 : nat) (X Y : mat) : mat :=
  mscale K p1 p2 (finv K (fofZ K (Z.of_nat n - 1))) (mmul K p1 n p2 (mH K n p1 X) Y).

Record cp_out := mkCp {
  cp_Q1 : mat;       (* p1 x k *)
  cp_Q2 : mat;       (* p2 x k *)
  cp_sigma : vec;    (* k *)
  cp_S1 : mat;       (* n x k scores of the first field *)
  cp_S2 : mat;       (* n x k *)
  cp_tsc : F }.      (* total squared covariance (alpha = 1: squared Frobenius norm of the cross-covariance) *)

(* Decomposer.fit(C): U (p1 x r), s, Vt (r x p2); truncate to k, signs sg computed from Vt rows, applied to U and Vt *)
Definition cpcca_fit_sg (n p1 p2 r k : nat) (X Y : mat) (a : svd_answer) (sg : vec) : cp_out :=
  let '(U, s, Vt) := a in
  let C := cross_cov n p1 p2 X Y in
  let Q1 := colscale K p1 k (mcols K p1 k U) sg in
  let Q2 := mH K k p2 (rowscale K k p2 sg (mrows K k p2 Vt)) in
  {| cp_Q1 := Q1; cp_Q2 := Q2; cp_sigma := vfirstn K k s;
     cp_S1 := mmul K n p1 k X Q1; cp_S2 := mmul K n p2 k Y Q2;
     cp_tsc := frob2 K p1 p2 C |}.

Definition cpcca_fit (n p1 p2 r k : nat) (X Y : mat) (a : svd_answer) : cp_out :=
  let '(U, s, Vt) := a in cpcca_fit_sg n p1 p2 r k X Y a (row_signs K k (mrows K k p2 Vt)).

(* ---- CPCCA.squared_covariance_fraction, for one mode with component vectors u (p1 x 1), v (p2 x 1) and identity whitening:
   the data minus its reconstruction by the mode's scores, the cross-covariance of the two residuals, its squared Frobenius norm,
   one minus that over the total squared covariance, negative values set to zero *)
Definition col (m i : nat) (A : mat) : mat := tab m 1 (fun a _ => get K A a i).
Definition mode_scores (n p : nat) (X u : mat) : mat := mmul K n p 1 X u.                                   (* X u *)
Definition mode_recon (n p : nat) (X u : mat) : mat := mmul K n 1 p (mode_scores n p X u) (mH K p 1 u).     (* xr.dot(scores_i, Q_i^H) *)
Definition mode_resid (n p : nat) (X u : mat) : mat := msub K n p X (mode_recon n p X u).                   (* dX = X - Xrec *)
Definition resid_sqcov (n p1 p2 : nat) (X Y u v : mat) : F :=                                               (* norm(dX^H dY / (n - 1)) ** 2 *)
  frob2 K p1 p2 (cross_cov n p1 p2 (mode_resid n p1 X u) (mode_resid n p2 Y v)).
Definition scf_src (n p1 p2 : nat) (X Y u v : mat) (tsc : F) : F := fsub K (f1 K) (fdiv K (resid_sqcov n p1 p2 X Y u v) tsc).
(* fraction_variance_X_explained_by_X / _Y_explained_by_Y for one mode (identity whitening, centred field: the N-1 divisors of the two
   variances cancel): one minus the squared norm of the residual over the squared norm of the field *)
Definition fve_src (n p : nat) (X u : mat) : F := fsub K (f1 K) (fdiv K (frob2 K n p (mode_resid n p X u)) (frob2 K n p X)).

Definition scf_modes (n p1 p2 k : nat) (X Y Q1 Q2 : mat) (tsc : F) : vec :=
  vtab k (fun i => let x := scf_src n p1 p2 X Y (col p1 i Q1) (col p2 i Q2) tsc in if fleb K x (f0 K) then f0 K else x).

(* correlation of two series (columns), with a common ddof for covariance and standard deviations:
   c = sum (x - mx)(conj (y - my)) ; corr = c / sqrt(vx * vy) — the divisors cancel when they agree *)
Definition csum (n : nat) (x y : nat -> F) : F := sum K n (fun i => fmul K (x i) (fconj K (y i))).
End Cpcca.
