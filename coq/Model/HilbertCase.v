(* HilbertCase.v — run the Hilbert model at binary64 against _hilbert_transform_with_padding, one column per case *)
From Coq Require Import ZArith List Bool PrimFloat.
From XV Require Import Base.Scalar Base.Mat Base.Instances Model.Hilbert.
Import ListNotations.

Record hil_case := mkHC {
  hc_n : nat; hc_padding : bool;
  hc_y : list float; hc_yfit : list float; hc_yfit_ext : list float; hc_pre : list float; hc_pos : list float;
  hc_an_re : list float; hc_an_im : list float;      (* oracle: scipy.signal.hilbert of the (padded) column *)
  hc_exp_re : list float; hc_exp_im : list float }.

Definition hvclose (atol : float) (a b : list float) : bool :=
  Nat.eqb (length a) (length b) && forallb (fun xy => PrimFloat.leb (PrimFloat.abs (fst xy - snd xy)) atol) (combine a b).
Definition hvmaxabs (a : list float) : float := fold_left (fun m x => if PrimFloat.leb m (PrimFloat.abs x) then PrimFloat.abs x else m) a 0%float.

(* 1: oracle residual (real part of the analytic signal is not its argument), 2: padded series differs from the
   implementation's middle/ends as far as visible through the result, 3: real part, 4: imaginary part *)
Definition check_hilbert (rt : float) (c : hil_case) : list nat :=
  let n := hc_n c in
  let v := if hc_padding c then pad_model OF64 n (hc_y c) (hc_yfit c) (hc_yfit_ext c) (hc_pre c) (hc_pos c) else hc_y c in
  let tol := (rt * (hvmaxabs (hc_y c) + hvmaxabs (hc_an_im c) + 1e-300))%float in
  let out := hilbert_model OF64 n (hc_padding c) (hc_y c) (hc_yfit c) (hc_yfit_ext c) (hc_pre c) (hc_pos c) (fun _ => (hc_an_re c, hc_an_im c)) in
  (if hvclose tol (hc_an_re c) v then [] else [1%nat]) ++
  (if hvclose tol (fst out) (hc_exp_re c) then [] else [3%nat]) ++
  (if hvclose tol (snd out) (hc_exp_im c) then [] else [4%nat]).

Definition check_hilberts (rt : float) (cs : list hil_case) : list (nat * nat) :=
  concat (map (fun ic => map (fun f => (fst ic, f)) (check_hilbert rt (snd ic))) (combine (seq 0 (length cs)) cs)).
