(* NdCase.v — run the stacking model at binary64 against the 2-D matrix the Preprocessor produced. *)
From Coq Require Import ZArith List Bool PrimFloat.
From XV Require Import Base.Scalar Base.Mat Base.Instances Model.NdArr.
Import ListNotations.

(* one item (DataArray, Dataset variable or list element): shape, row-major data, dimension order *)
Definition nd_item := (shape * list float * list nat)%type.
Record nd_case := mkNC { nc_items : list nd_item; nc_ns : nat; nc_n : nat; nc_impl : list (list float) }.

Definition item_block (ns : nat) (it : nd_item) : nat * list (list float) :=
  let '(sh, data, order) := it in
  let A := mkNd sh data in
  let shg := gather order sh in
  (size (skipn ns shg), stack2d OF64 A order ns).

Fixpoint veqb (u v : list float) : bool :=
  match u, v with [], [] => true | a :: u', b :: v' => PrimFloat.eqb a b && veqb u' v' | _, _ => false end.
Fixpoint meqb (A B : list (list float)) : bool :=
  match A, B with [], [] => true | a :: A', b :: B' => veqb a b && meqb A' B' | _, _ => false end.

Definition check_nd (c : nd_case) : bool :=
  let blocks := map (item_block (nc_ns c)) (nc_items c) in
  meqb (hcat OF64 (nc_n c) blocks) (nc_impl c).

Definition check_nds (cs : list nd_case) : list nat :=
  map fst (filter (fun ic => negb (check_nd (snd ic))) (combine (seq 0 (length cs)) cs)).
