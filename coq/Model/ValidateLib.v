(* ValidateLib.v — vocabulary shared by the generated validators (Gen/T1.v) and the
   hand-written entry-point model (Model/Validate.v): the slice of Python values that
   arguments range over, finite sets of dimension names, coordinate labels. *)
From Coq Require Import String ZArith List Bool PrimFloat.
From XV Require Import Base.Scalar Model.DecompLib.
Import ListNotations.
Open Scope bool_scope.

(* A Python argument.  [VBool] is separate from [VInt] because `case int():` and
   isinstance(_, int) accept it (bool is a subclass of int) while isinstance(_, str),
   float() ... do not.  [VOther] stands for every class outside this list (numpy arrays,
   numpy scalars, arbitrary objects). *)
Inductive pyval :=
  | VInt (z : Z) | VFloat (f : float) | VStr (s : string) | VBool (b : bool) | VNone
  | VList (l : list pyval) | VTuple (l : list pyval) | VDict
  | VDataArray | VDataset | VOther.

Definition ty_of (v : pyval) : pyty :=
  match v with
  | VInt _ => TInt | VFloat _ => TFloat | VStr _ => TStr | VBool _ => TBool | VNone => TNone
  | VList _ => TList | VTuple _ => TTuple | VDict => TDict
  | VDataArray => TDataArray | VDataset => TDataset | VOther => TOther
  end.
Definition items_of (v : pyval) : list pyval := match v with VList l | VTuple l => l | _ => [] end.
Definition str_of (v : pyval) : string := match v with VStr s => s | _ => EmptyString end.
Definition names_of (v : pyval) : list string := map str_of (items_of v).

(* the value a bare type tag stands for (payload irrelevant to the validators) *)
Definition val_of_ty (t : pyty) : pyval :=
  match t with
  | TNone => VNone | TBool => VBool true | TInt => VInt 0 | TFloat => VFloat 0%float | TStr => VStr EmptyString
  | TList => VList [] | TTuple => VTuple [] | TDict => VDict
  | TDataArray => VDataArray | TDataset => VDataset | TOther => VOther
  end.

Definition is_ok {A} (r : result A) : bool := match r with Ok _ => true | Err _ => false end.
Definition bind {A B} (r : result A) (f : A -> result B) : result B :=
  match r with Ok a => f a | Err k => Err k end.
Definition seq_res {B} (r : result unit) (k : result B) : result B := bind r (fun _ => k).
Notation "r ;; k" := (seq_res r k) (at level 61, right associativity).
Definition void {A} (r : result A) : result unit := bind r (fun _ => Ok tt).
(* 0 for a result, 100 + error kind otherwise: what the case files print *)
Definition code {A} (r : result A) : Z := match r with Ok _ => 0%Z | Err k => (100 + Z.of_nat k)%Z end.

(* first error of a list of checks, in order *)
Fixpoint first_err (l : list (result unit)) : result unit :=
  match l with [] => Ok tt | r :: rest => match r with Ok _ => first_err rest | Err k => Err k end end.

(* ---- finite sets of names (python: set(...), |, ==, in) ---- *)
Definition str_mem (s : string) (l : list string) : bool := existsb (String.eqb s) l.
Definition str_subset (a b : list string) : bool := forallb (fun x => str_mem x b) a.
Definition set_eqb (a b : list string) : bool := str_subset a b && str_subset b a.
Definition set_union (a b : list string) : list string := a ++ b.
Definition str_remove (s : string) (l : list string) : list string := filter (fun x => negb (String.eqb x s)) l.

(* ---- coordinates: one integer code per label (order-preserving codes from the harness) ---- *)
Definition coord := list Z.
Fixpoint zlist_eqb (a b : list Z) : bool :=
  match a, b with
  | [], [] => true
  | x :: a', y :: b' => Z.eqb x y && zlist_eqb a' b'
  | _, _ => false
  end.
(* xarray: DataArray.equals on two 1-d index coordinates = same labels in the same order *)
Definition coord_equals (a b : coord) : bool := zlist_eqb a b.
Definition z_mem (x : Z) (l : list Z) : bool := existsb (Z.eqb x) l.
(* xarray arithmetic aligns with join="inner": pandas Index.intersection(sort=False)
   keeps the labels of the left operand that also occur in the right one, in left order *)
Definition inner_join (left right : coord) : coord := filter (fun c => z_mem c right) left.

(* a stacked (feature) coordinate: one tuple of labels per feature *)
Definition scoord := list (list Z).
Fixpoint scoord_identical (a b : scoord) : bool :=
  match a, b with
  | [], [] => true
  | x :: a', y :: b' => zlist_eqb x y && scoord_identical a' b'
  | _, _ => false
  end.

(* association list: dimension name -> labels *)
Definition dimmap := list (string * coord).
Fixpoint lookup (d : string) (m : dimmap) : coord :=
  match m with [] => [] | (k, v) :: r => if String.eqb d k then v else lookup d r end.
Definition dnames (m : dimmap) : list string := map fst m.

(* ---- facts used by the proofs ---- *)
Lemma zlist_eqb_eq a b : zlist_eqb a b = true <-> a = b.
Proof.
  revert b; induction a as [|x a IH]; intros [|y b]; cbn [zlist_eqb]; split; intros H;
    try reflexivity; try discriminate.
  - apply andb_true_iff in H as [H1 H2]. apply Z.eqb_eq in H1. apply IH in H2. now subst.
  - injection H as -> ->. rewrite Z.eqb_refl. cbn [andb]. now apply IH.
Qed.

Lemma zlist_eqb_refl a : zlist_eqb a a = true.
Proof. now apply zlist_eqb_eq. Qed.

Lemma str_mem_In s l : str_mem s l = true <-> In s l.
Proof.
  unfold str_mem. rewrite existsb_exists. split.
  - intros [x [Hin Heq]]. apply String.eqb_eq in Heq. now subst.
  - intros Hin. exists s. split; [assumption|apply String.eqb_refl].
Qed.

Lemma str_subset_spec a b : str_subset a b = true <-> (forall x, In x a -> In x b).
Proof.
  unfold str_subset. rewrite forallb_forall. split; intros H x Hx; specialize (H x Hx).
  - now apply str_mem_In. - now apply str_mem_In.
Qed.

Lemma set_eqb_spec a b : set_eqb a b = true <-> (forall x, In x a <-> In x b).
Proof.
  unfold set_eqb. rewrite andb_true_iff, !str_subset_spec. split.
  - intros [H1 H2] x. split; auto. - intros H. split; intros x Hx; now apply H.
Qed.

Lemma set_eqb_refl a : set_eqb a a = true.
Proof. apply set_eqb_spec. tauto. Qed.

Lemma z_mem_In x l : z_mem x l = true <-> In x l.
Proof.
  unfold z_mem. rewrite existsb_exists. split.
  - intros [y [Hin Heq]]. apply Z.eqb_eq in Heq. now subst.
  - intros Hin. exists x. split; [assumption|apply Z.eqb_refl].
Qed.

Lemma filter_length_le {A} (p : A -> bool) l : (length (filter p l) <= length l)%nat.
Proof. induction l as [|x l IH]; cbn [filter length]; [auto|]. destruct (p x); cbn [length]; auto with arith. Qed.

Lemma filter_same_length {A} (p : A -> bool) l : length (filter p l) = length l -> filter p l = l.
Proof.
  induction l as [|x l IH]; cbn [filter length]; [reflexivity|].
  destruct (p x); cbn [length]; intros H.
  - f_equal. apply IH. now injection H.
  - pose proof (filter_length_le p l). rewrite H in H0. exfalso. apply (Nat.nle_succ_diag_l _ H0).
Qed.

Lemma inner_join_self a : inner_join a a = a.
Proof.
  unfold inner_join. apply filter_same_length. f_equal.
  assert (H : forall l, (forall x, In x l -> In x a) -> filter (fun c => z_mem c a) l = l).
  { induction l as [|x l IH]; intros Hin; cbn [filter]; [reflexivity|].
    assert (Hx : z_mem x a = true) by (apply z_mem_In, Hin; now left).
    rewrite Hx. f_equal. apply IH. intros y Hy. apply Hin. now right. }
  apply H. auto.
Qed.

(* a coordinate of the same length that is not the fitted one cannot survive the inner join *)
Lemma inner_join_same_length a b : length a = length b -> inner_join a b = b -> a = b.
Proof.
  intros Hl Hj. unfold inner_join in Hj.
  assert (Hlen : length (filter (fun c => z_mem c b) a) = length a) by (rewrite Hj; auto).
  apply filter_same_length in Hlen. now rewrite Hlen in Hj.
Qed.
