(* Opa.v — Optimal Persistence Analysis (xeofs/single/opa.py): lagged covariances of the normalised
   PCs exactly as `_Ctau` computes them, the trapezoidal lag sum, its symmetrisation, the target
   matrix in C0^(-1/2) coordinates with the source's own index contractions, the eigen-oracle answer
   of the target (or, faithful to the source, the singular values of the symmetric target taken as
   eigenvalues), filter patterns, optimally persistent patterns, series, back-projection. *)
From Coq Require Import ZArith List Bool Lia Arith.
From XV Require Import Base.Scalar Base.Sum Base.Mat.
Import ListNotations.

Section Opa.
Context {F : Type} (K : Ops F).
Notation mat := (@mat F). Notation vec := (@vec F).

(* the literal 0.5 of the source: 1 / (1 + 1) (exact at binary64) *)
Definition half : F := finv K (fadd K (f1 K) (f1 K)).

(* ---- scaling of the PCA results: scores / sqrt(n_samples - 1), components * sqrt(n_samples - 1) ---- *)
Definition pc_scale (n : nat) (x : F) : F := fdiv K x (fsqrt K (fofZ K (Z.of_nat n - 1)%Z)).
Definition eof_scale (n : nat) (x : F) : F := fmul K x (fsqrt K (fofZ K (Z.of_nat n - 1)%Z)).
Definition scaled_pcs (n q : nat) (A : mat) : mat := tab n q (fun t j => pc_scale n (get K A t j)).
Definition scaled_eofs (n p q : nat) (E : mat) : mat := tab p q (fun f j => eof_scale n (get K E f j)).

(* ---- _Ctau: X.shift(sample = -tau).dropna(sample) has n - tau rows, row t holding X[t + tau];
        xr.dot aligns X0 on those n - tau labels (inner join); divisor = (n - tau) - 1 ---- *)
Definition ctau_div (n tau : nat) : F := fofZ K (Z.of_nat (n - tau) - 1)%Z.
Definition ctau (n q : nat) (S : mat) (tau : nat) : mat :=
  tab q q (fun i j => fdiv K (sum K (n - tau) (fun t => fmul K (get K S t i) (get K S (t + tau) j))) (ctau_div n tau)).

(* ---- M = 0.5 C0 + sum_{tau = 1}^{tau_max} w_tau C_tau, w_tau = 0.5 at tau_max, 1 otherwise ---- *)
Definition lag_weight (tau_max tau : nat) : F :=
  if Nat.eqb tau 0 then half else if Nat.eqb tau tau_max then half else f1 K.
Definition lag_term (n q : nat) (S : mat) (tau_max tau : nat) : mat :=
  mscale K q q (lag_weight tau_max tau) (ctau n q S tau).
Definition msum (n q : nat) (S : mat) (tau_max : nat) : mat :=
  fold_left (fun M tau => madd K q q M (lag_term n q S tau_max tau)) (seq 1 tau_max) (lag_term n q S tau_max 0).

(* M_summed = M + M^T *)
Definition msym (q : nat) (M : mat) : mat := madd K q q M (mT K q q M).

(* ---- C0_sqrt = U0 * sqrt(s0) from the (SVD) oracle answer of C0; its inverse Ci is an oracle ---- *)
Definition c0sqrt (q : nat) (U0 : mat) (s0 : vec) : mat := colscale K q q U0 (vmap K q (fsqrt K) s0).
Definition opa_inv_ok (q : nat) (A Ai : mat) : Prop :=
  wf K q q Ai /\ mmul K q q q Ai A = mI K q /\ mmul K q q q A Ai = mI K q.
(* what the code needs of the decomposition of C0: C0 = U0 diag(s0) U0^T with non-negative s0 *)
Definition psd_factor_ok (q : nat) (C0 U0 : mat) (s0 : vec) : Prop :=
  wf K q q U0 /\ mmul K q q q (colscale K q q U0 s0) (mT K q q U0) = C0 /\
  forall i, (i < q)%nat -> fmul K (fsqrt K (vget K s0 i)) (fsqrt K (vget K s0 i)) = vget K s0 i.
(* ---- the source's C0_sqrt_inv: the symmetric inverse square root U0 diag(1/sqrt(s0)) U0^T ---- *)
Definition ci_sym (q : nat) (U0 : mat) (s0 : vec) : mat :=
  tab q q (fun a b => sum K q (fun m => fmul K (fdiv K (get K U0 a m) (fsqrt K (vget K s0 m))) (get K U0 b m))).
(* the whitening property the algorithm relies on: Ci^T C0 Ci = I *)
Definition whiten_ok (q : nat) (C0 Ci : mat) : Prop :=
  wf K q q Ci /\ mmul K q q q (mmul K q q q (mT K q q Ci) C0) Ci = mI K q.

(* ---- target = (0.5 * (Ci . Ms)) . Ci : Ci has dims (mode, feature1); the first product contracts its
        feature1 index with the first index of Ms, the second product contracts the SAME matrix's
        mode index (renamed feature2) with the remaining index of Ms ---- *)
Definition target (q : nat) (Ci Ms : mat) : mat :=
  mmul K q q q (mscale K q q half (mmul K q q q Ci Ms)) Ci.
Definition opa_target (n q : nat) (S Ci : mat) (tau_max : nat) : mat := target q Ci (msym q (msum n q S tau_max)).

(* ---- eigen-decomposition oracle of the symmetric target: full orthonormal basis, lam may be negative ---- *)
Definition eig_sym_ok (q : nat) (T U : mat) (lam : vec) : Prop :=
  wf K q q U /\ vwf K q lam /\
  mmul K q q q (mT K q q U) U = mI K q /\ mmul K q q q U (mT K q q U) = mI K q /\
  mmul K q q q T U = colscale K q q U lam.

(* the source takes the SINGULAR values of the symmetric target as eigenvalues: s = |lam|, ordered by |lam| *)
Definition opa_key (use_svd_as_eig : bool) (x : F) : F := if use_svd_as_eig then fabs K x else x.
Definition reported (use_svd_as_eig : bool) (k : nat) (lam : vec) : vec :=
  vtab k (fun i => opa_key use_svd_as_eig (vget K lam i)).
(* the order in which the oracle answer arrives: descending in the key *)
Definition order_ok (use_svd_as_eig : bool) (q : nat) (lam : vec) : Prop :=
  forall i j, (i <= j)%nat -> (j < q)%nat ->
    fle K (opa_key use_svd_as_eig (vget K lam j)) (opa_key use_svd_as_eig (vget K lam i)).

(* ---- lagged autocovariance of column j of a series matrix, same divisor convention as _Ctau;
        trapezoidal sum with the lag weights; decorrelation time = sum over its lag-0 value ---- *)
Definition col_acov (n : nat) (P : mat) (j tau : nat) : F :=
  fdiv K (sum K (n - tau) (fun t => fmul K (get K P t j) (get K P (t + tau) j))) (ctau_div n tau).
Definition col_trapz (n tau_max : nat) (P : mat) (j : nat) : F :=
  sum K (S tau_max) (fun tau => fmul K (lag_weight tau_max tau) (col_acov n P j tau)).
Definition own_time (n tau_max : nat) (P : mat) (j : nat) : F :=
  fdiv K (col_trapz n tau_max P j) (col_acov n P j 0).

Record opa_out := mkOpa {
  o_V : mat;       (* q x k filter patterns in PC space:  Ci . U[:, :k] *)
  o_W : mat;       (* q x k optimally persistent patterns in PC space: C0 . V *)
  o_P : mat;       (* n x k series: scores . V *)
  o_Vphys : mat;   (* p x k: comps . V *)
  o_Wphys : mat;   (* p x k: comps . W *)
  o_tau : vec;     (* k reported decorrelation times *)
  o_norms : vec }. (* k Euclidean norms of the series *)

(* S : n x q normalised PCs, E : p x q scaled EOFs, Ci : q x q, (U, lam) : oracle answer, k = n_modes *)
Definition opa_fit (use_svd_as_eig : bool) (n p q k : nat) (S E Ci U : mat) (lam : vec) : opa_out :=
  let C0 := ctau n q S 0 in
  let Uk := mcols K q k U in
  let V := mmul K q q k Ci Uk in
  let W := mmul K q q k C0 V in
  let P := mmul K n q k S V in
  {| o_V := V; o_W := W; o_P := P;
     o_Vphys := mmul K p q k E V; o_Wphys := mmul K p q k E W;
     o_tau := reported use_svd_as_eig k lam;
     o_norms := vtab k (fun j => fsqrt K (sum K n (fun t => fmul K (get K P t j) (get K P t j)))) |}.

End Opa.
