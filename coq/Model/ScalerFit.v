(* ScalerFit.v — the statistics Scaler.fit computes (per-feature mean, ddof-0 standard deviation
   clipped at a floor) and the full fit+transform on a 2-D matrix of valid entries. *)
From Coq Require Import ZArith List Bool Lia Arith.
From XV Require Import Base.Scalar Base.Sum Base.Mat Model.ScalerLib Gen.T4.
Import ListNotations.

Section Fit.
Context {F : Type} (K : Ops F).

Definition col_mean (n : nat) (X : list (list F)) (j : nat) : F :=
  fdiv K (sum K n (fun i => get K X i j)) (fofZ K (Z.of_nat n)).
Definition col_var0 (n : nat) (X : list (list F)) (j : nat) : F :=
  let m := col_mean n X j in
  fdiv K (sum K n (fun i => let d := fsub K (get K X i j) m in fmul K d (fconj K d))) (fofZ K (Z.of_nat n)).
(* clip(min = floor) *)
Definition clip_min (floor x : F) : F := if fleb K floor x then x else floor.
Definition col_std (n : nat) (floor : F) (X : list (list F)) (j : nat) : F := clip_min floor (fsqrt K (col_var0 n X j)).

(* parameters fitted from the data; coslat and user weights are given per feature *)
Definition fit_params (n : nat) (floor : F) (X : list (list F)) (cosw w : nat -> F) (j : nat) : sparams :=
  mkParams (col_mean n X j) (col_std n floor X j) (cosw j) (w j).

Definition scaler_fit_transform (n p : nat) (fl : sflags) (floor : F) (cosw w : nat -> F) (X : list (list F)) : list (list F) :=
  scale_mat K n p fl (fit_params n floor X cosw w) scaler_fwd X.
End Fit.
