(* Boot.v — the EOF bootstrapper (xeofs/validation/bootstrapper.py, EOFBootstrapper.fit),
   polymorphic in the scalar instance.  The random generator and the SVD are oracles: the
   index lists (one per member, `rng.choice(n, n, replace=True)`) and the SVD answers (one
   per member, for the matrix the member's fit decomposes) are arguments.

   One member, for the model's preprocessed samples X (n x p), index list idx (n entries < n):
     Xb      = rows idx of X                         input_data.isel(sample = idx_rnd)
     mu_b    = column means of Xb                    member EOF is built with center=True (default):
     Xc      = Xb - 1 mu_b                           its scaler subtracts the resample's own means
     fit     = eof_fit Xc (SVD answer for Xc)        bst_model.fit(bst_data, dim = "sample")
     scores  = (X - 1 mu_b) V_b                      bst_model.transform(input_data): through the
                                                     member's preprocessor, i.e. minus mu_b
   alignment: corr_j = mean_i(z_ij m_ij) / std_i(z_ij) / std_i(m_ij), sign_j = np.sign(corr_j)
   (np.sign 0 = 0), components and scores of mode j are multiplied by sign_j. *)
From Coq Require Import ZArith List Bool Lia Arith.
From XV Require Import Base.Scalar Base.Sum Base.Mat Model.Eof.
Import ListNotations.

Section Boot.
Context {F : Type} (K : Ops F).
Notation mat := (@mat F). Notation vec := (@vec F).

(* ---- centring as the member's scaler does it ---- *)
Definition col_means (n p : nat) (X : mat) : vec := vtab p (fun j => colmean K n X j).
(* the n x p matrix all of whose rows are mu *)
Definition rowrep (n p : nat) (mu : vec) : mat := tab n p (fun _ j => vget K mu j).
(* X - 1 mu *)
Definition sub_rowvec (n p : nat) (X : mat) (mu : vec) : mat := msub K n p X (rowrep n p mu).
Definition center_cols (n p : nat) (X : mat) : mat := sub_rowvec n p X (col_means n p X).

(* ---- one member before alignment ---- *)
Record boot_out := mkBoot {
  b_fit : eof_out (F:=F);   (* the member's own EOF analysis *)
  b_mean : vec;             (* the member's scaler mean (p) *)
  b_scores : mat }.         (* n x k: projection of the ORIGINAL samples *)

Definition boot_resample (p : nat) (idx : list nat) (X : mat) : mat := msel_rows K p idx X.

Definition boot_member (n p r k : nat) (X : mat) (idx : list nat) (a : svd_answer (F:=F)) : boot_out :=
  let Xb := boot_resample p idx X in
  let o := eof_fit K n p r k (center_cols n p Xb) a in
  {| b_fit := o;
     b_mean := col_means n p Xb;
     b_scores := eof_transform K n p k o (sub_rowvec n p X (col_means n p Xb)) |}.

(* ---- sign alignment with the model's scores M (n x k) ---- *)
(* np.sign: 1, -1, and 0 at 0 *)
Definition sgn (x : F) : F :=
  if fleb K (f0 K) x then (if fleb K x (f0 K) then f0 K else fofZ K 1%Z) else fofZ K (-1)%Z.

(* xarray .std(dim): ddof = 0 *)
Definition col_std (n : nat) (A : mat) (j : nat) : F :=
  fsqrt K (fdiv K (sum K n (fun i => let d := fsub K (get K A i j) (colmean K n A j) in fmul K d (fconj K d)))
                  (fofZ K (Z.of_nat n))).
Definition mean_prod (n : nat) (Z M : mat) (j : nat) : F :=
  fdiv K (sum K n (fun i => fmul K (get K Z i j) (get K M i j))) (fofZ K (Z.of_nat n)).
(* (bst_scores * model_scores).mean / bst_scores.std / model_scores.std *)
Definition corr_formula (mp sb sm : F) : F := fdiv K (fdiv K mp sb) sm.
Definition boot_corr (n : nat) (Z M : mat) (j : nat) : F :=
  corr_formula (mean_prod n Z M j) (col_std n Z j) (col_std n M j).
Definition boot_signs (n k : nat) (Z M : mat) : vec := vtab k (fun j => sgn (boot_corr n Z M j)).

Record boot_member_out := mkMember {
  bm_expvar : vec;     (* k *)
  bm_totvar : F;
  bm_comps : mat;      (* p x k, aligned *)
  bm_scores : mat;     (* n x k, aligned *)
  bm_signs : vec }.    (* k: the alignment signs *)

Definition boot_align (n p k : nat) (b : boot_out) (M : mat) : boot_member_out :=
  let sg := boot_signs n k (b_scores b) M in
  {| bm_expvar := e_expvar (b_fit b);
     bm_totvar := e_totvar (b_fit b);
     bm_comps := colscale K p k (e_comps (b_fit b)) sg;
     bm_scores := colscale K n k (b_scores b) sg;
     bm_signs := sg |}.

Definition boot_one (n p r k : nat) (X M : mat) (idx : list nat) (a : svd_answer (F:=F)) : boot_member_out :=
  boot_align n p k (boot_member n p r k X idx a) M.

(* ---- all members: one index list and one SVD answer per member ---- *)
Definition svd_dflt : svd_answer (F:=F) := ([], [], []).
Fixpoint boot_members (n p r k : nat) (X M : mat) (idxs : list (list nat)) (ans : list (svd_answer (F:=F)))
  : list boot_member_out :=
  match idxs with
  | [] => []
  | idx :: rest => boot_one n p r k X M idx (hd svd_dflt ans) :: boot_members n p r k X M rest (tl ans)
  end.

(* the generator oracle: draw i is what the i-th call rng.choice(n, n, replace=True) returned *)
Definition boot_indices (draw : nat -> list nat) (B : nat) : list (list nat) := map draw (seq 0 B).
Definition boot_run (n p r k B : nat) (X M : mat) (draw : nat -> list nat) (ans : list (svd_answer (F:=F))) :=
  boot_members n p r k X M (boot_indices draw B) ans.
(* coordinates of the member dimension "n": np.arange(1, n_bootstraps + 1) *)
Definition boot_coords (B : nat) : list Z := map (fun i => (Z.of_nat i + 1)%Z) (seq 0 B).

(* admissible index list: n entries, each a row index of X *)
Definition idx_ok (n : nat) (idx : list nat) : Prop := length idx = n /\ Forall (fun i => (i < n)%nat) idx.
Definition idx_okb (n : nat) (idx : list nat) : bool := Nat.eqb (length idx) n && forallb (fun i => Nat.ltb i n) idx.

End Boot.
