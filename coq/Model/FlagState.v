(* FlagState.v — the "sorted" flag protocol of the rotators and of POP as a state machine.
   The fitted arrays are stored unsorted by _fit_algorithm together with the sorting permutation; compute() calls
   _sort_by_variance, which re-indexes the arrays once (guarded by the flag) and sets the flag; transform consults the
   flag. Whether _fit_algorithm resets the flag is a parameter regenerated from the source. *)
From Coq Require Import List Bool.
Import ListNotations.

Section FlagState.
Variable A : Type.                         (* the mode-indexed arrays of one fit *)
Variable sortA : list nat -> A -> A.       (* re-indexing of every mode-indexed array by one permutation *)
Variable fit_resets_flag : bool.           (* `self.sorted = False` is a statement of _fit_algorithm *)
Variable sort_guarded : bool.              (* _sort_by_variance re-indexes only `if not self.sorted` *)

Record fstate := mkFS { fs_sorted : bool; fs_data : A; fs_idx : list nat; fs_fresh : A }.
(* fs_fresh: the arrays as the last _fit_algorithm produced them (ghost field: never read by the operations) *)

Inductive fop := FFit (d : A) (idx : list nat) | FCompute.

Definition fstep (s : fstate) (o : fop) : fstate :=
  match o with
  | FFit d idx => {| fs_sorted := if fit_resets_flag then false else fs_sorted s; fs_data := d; fs_idx := idx; fs_fresh := d |}
  | FCompute => {| fs_sorted := true;
                   fs_data := if (sort_guarded && fs_sorted s)%bool then fs_data s else sortA (fs_idx s) (fs_data s);
                   fs_idx := fs_idx s; fs_fresh := fs_fresh s |}
  end.

Definition finit (d : A) (idx : list nat) : fstate := {| fs_sorted := false; fs_data := d; fs_idx := idx; fs_fresh := d |}.
Definition frun (s : fstate) (ops : list fop) : fstate := fold_left fstep ops s.

(* the invariant: the stored arrays are the last fit's arrays, sorted exactly when the flag says so *)
Definition FlagInv (s : fstate) : Prop := fs_data s = if fs_sorted s then sortA (fs_idx s) (fs_fresh s) else fs_fresh s.
End FlagState.
