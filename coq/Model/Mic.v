(* Mic.v — MultiIndexConverter as a state machine (xeofs/preprocessing/multi_index_converter.py).
   A data object is abstracted to its dimension coordinates: an association list dim -> coord in the
   order of the dimensions; a coordinate is either a plain index or a MultiIndex (entries encoded as
   integers).  The two dictionaries coords_from_fit / coords_from_transform are Python dicts
   (insertion ordered, update in place).  The parameters describe statement shapes extracted from the
   source by T7mic; the faithful source is [faithful]. *)
From Coq Require Import List Bool Arith ZArith.
Import ListNotations.

Definition dim := nat.
Definition lab := Z.
Inductive coord := Plain (l : list nat) | Multi (l : list lab).
Definition data := list (dim * coord).

Inductive store_rule := StoreAlways | StoreIfSizeDiffers.
Inductive take_rule := TakeWhenShorter | TakeNever.
Record params := mkP { p_aliased : bool;          (* coords_from_fit and coords_from_transform name one dict *)
                       p_store : store_rule;      (* how transform records the coordinates of its input *)
                       p_take : take_rule }.      (* what the inverse does when entries were removed *)
Definition faithful : params := mkP false StoreAlways TakeWhenShorter.

Section Dict.
Context {A : Type}.
Fixpoint lookup (d : dim) (m : list (dim * A)) : option A :=
  match m with [] => None | (k, v) :: r => if Nat.eqb k d then Some v else lookup d r end.
Fixpoint update (d : dim) (v : A) (m : list (dim * A)) : list (dim * A) :=
  match m with [] => [(d, v)] | (k, w) :: r => if Nat.eqb k d then (k, v) :: r else (k, w) :: update d v r end.
End Dict.

Definition size (c : coord) : nat := match c with Plain l => length l | Multi l => length l end.
Definition take_pos (c : coord) (pos : list nat) : coord :=
  match c with Plain l => Plain (map (fun i => nth i l O) pos) | Multi l => Multi (map (fun i => nth i l 0%Z) pos) end.
Definition is_multi (c : coord) : bool := match c with Multi _ => true | Plain _ => false end.

Record st := mkSt { modified : list dim; from_fit : list (dim * coord); from_tr : list (dim * coord) }.
Definition init : st := mkSt [] [] [].

Definition write_fit (p : params) (s : st) (d : dim) (c : coord) : st :=
  if p_aliased p then mkSt (modified s) (update d c (from_fit s)) (update d c (from_tr s))
  else mkSt (modified s) (update d c (from_fit s)) (from_tr s).
Definition write_tr (p : params) (s : st) (d : dim) (c : coord) : st :=
  if p_aliased p then mkSt (modified s) (update d c (from_fit s)) (update d c (from_tr s))
  else mkSt (modified s) (from_fit s) (update d c (from_tr s)).

(* fit: for dim in X.dims: if the index is a MultiIndex: coords_from_fit[dim] = X.coords[dim]; modified.append(dim) *)
Definition fit_step (p : params) (s : st) (dc : dim * coord) : st :=
  if is_multi (snd dc) then
    let s1 := write_fit p s (fst dc) (snd dc) in mkSt (modified s1 ++ [fst dc]) (from_fit s1) (from_tr s1)
  else s.
Definition fit (p : params) (s : st) (X : data) : st := fold_left (fit_step p) X s.

(* transform: for dim in modified: coords_from_transform[dim] = X_t.coords[dim]; X_t.coords[dim] = range(size) *)
Definition tr_step (p : params) (acc : option (st * data)) (d : dim) : option (st * data) :=
  match acc with
  | None => None
  | Some (s, X) =>
    match lookup d X with
    | None => None                                   (* KeyError: the data lacks the dimension *)
    | Some c =>
      let s' := match p_store p with
                | StoreAlways => write_tr p s d c
                | StoreIfSizeDiffers => match lookup d (from_tr s) with
                                        | Some c0 => if Nat.eqb (size c0) (size c) then s else write_tr p s d c
                                        | None => write_tr p s d c end
                end in
      Some (s', update d (Plain (seq 0 (size c))) X)
    end
  end.
Definition transform (p : params) (s : st) (X : data) : option (st * data) :=
  fold_left (tr_step p) (modified s) (Some (s, X)).

Inductive reference := RefFit | RefTransform.
Definition ref_dict (s : st) (r : reference) := match r with RefFit => from_fit s | RefTransform => from_tr s end.

(* _inverse_transform: for dim, orig in reference.items(): if dim in X.dims: positions = X.coords[dim];
   if orig.size != positions.size: orig = orig.isel(positions); X.coords[dim] = orig *)
Definition inv_step (p : params) (acc : option data) (kv : dim * coord) : option data :=
  match acc with
  | None => None
  | Some X =>
    match lookup (fst kv) X with
    | None => Some X
    | Some cur =>
      if Nat.eqb (size (snd kv)) (size cur) then Some (update (fst kv) (snd kv) X)
      else match p_take p, cur with
           | TakeWhenShorter, Plain pos =>
             if forallb (fun i => Nat.ltb i (size (snd kv))) pos then Some (update (fst kv) (take_pos (snd kv) pos) X)
             else None                              (* IndexError: a position outside the stored index *)
           | _, _ => None                           (* size conflict: refused *)
           end
    end
  end.
Definition inverse (p : params) (s : st) (r : reference) (X : data) : option data :=
  fold_left (inv_step p) (ref_dict s r) (Some X).

(* operations on one converter object; GenericListTransformer.fit constructs a fresh converter per fit *)
Inductive op := OFit (X : data) | OTransform (X : data) | OInverse (r : reference) (X : data).
Definition step (p : params) (s : st) (o : op) : st * option data :=
  match o with
  | OFit X => (fit p init X, None)
  | OTransform X => match transform p s X with Some (s', X') => (s', Some X') | None => (s, None) end
  | OInverse r X => (s, inverse p s r X)
  end.
Fixpoint run (p : params) (s : st) (h : list op) : st * list (option data) :=
  match h with
  | [] => (s, [])
  | o :: rest => let '(s1, a) := step p s o in let '(s2, l) := run p s1 rest in (s2, a :: l)
  end.
