(* ConcatCase.v — the concatenator model against recorded Concatenator round trips *)
From Coq Require Import List Bool Arith ZArith.
From XV Require Import Model.Concat.
Import ListNotations.

Fixpoint zl_eqb (a b : list Z) : bool := match a, b with [], [] => true | x :: a', y :: b' => Z.eqb x y && zl_eqb a' b' | _, _ => false end.
Fixpoint it_eqb (a b : item) : bool := match a, b with [], [] => true | (x, u) :: a', (y, v) :: b' => Z.eqb x y && Z.eqb u v && it_eqb a' b' | _, _ => false end.
Fixpoint its_eqb (a b : list item) : bool := match a, b with [], [] => true | x :: a', y :: b' => it_eqb x y && its_eqb a' b' | _, _ => false end.

(* a case: the items, the implementation's joined values, the implementation's items after cutting back (None = raised) *)
Definition concat_case := (list item * list Z * option (list item))%type.
Definition concat_ok (rule : key_order) (c : concat_case) : bool :=
  let '(items, joined, back) := c in
  zl_eqb (concat_values items) joined &&
  match split rule (coords_in items) joined, back with
  | Some a, Some b => its_eqb a b | None, None => true | _, _ => false end.
Fixpoint concat_mismatches_from (rule : key_order) (i : Z) (cs : list concat_case) : list Z :=
  match cs with [] => [] | c :: r => if concat_ok rule c then concat_mismatches_from rule (i + 1) r else i :: concat_mismatches_from rule (i + 1) r end.
Definition concat_mismatches rule cs := concat_mismatches_from rule 1%Z cs.
