(* MatAlg.v — algebra of canonical matrices over a field with involution. *)
From Coq Require Import ZArith List Bool Ring Field Setoid Lia Arith.
From XV Require Import Base.Scalar Base.Sum Base.Mat.
Import ListNotations.

Section MatAlg.
Context {F : Type} (K : Ops F).
Hypothesis FL : FieldLaws K.
Add Field Ffm : (FL_field K FL).
Notation "0" := (f0 K). Notation "1" := (f1 K).
Infix "+" := (fadd K). Infix "*" := (fmul K). Infix "-" := (fsub K).
Notation "- x" := (fopp K x).
Notation cj := (fconj K).
Notation sum := (sum K).
Notation delta := (delta K).
Notation get := (get K). Notation vget := (vget K).
Notation mmul := (mmul K). Notation madd := (madd K). Notation msub := (msub K).
Notation mscale := (mscale K). Notation mT := (mT K). Notation mH := (mH K).
Notation mconj := (mconj K). Notation mI := (mI K). Notation mdiag := (mdiag K).
Notation mrows := (mrows K). Notation mcols := (mcols K). Notation wf := (wf K).
Notation colscale := (colscale K). Notation rowscale := (rowscale K).
Notation trace := (trace K). Notation frob2 := (frob2 K).

Ltac mx := mat_unfold; apply tab_ext; intros i j Hi Hj; get_simpl.
Ltac sx := apply (sum_ext K); (let l := fresh "l" in let H := fresh "Hl" in intros l H); get_simpl.

Lemma cj_delta i j : cj (delta i j) = delta i j.
Proof. unfold Sum.delta. destruct (Nat.eqb i j); [apply (FL_conj_1 K FL)|apply (FL_conj_0 K FL)]. Qed.

Lemma cj_opp x : cj (- x) = - cj x.
Proof. assert (H : cj (- x) + cj x = 0).
  { rewrite <- (FL_conj_add K FL). replace (- x + x) with 0 by ring. apply (FL_conj_0 K FL). }
  replace (cj (- x)) with (cj (- x) + cj x - cj x) by ring. rewrite H. ring. Qed.

Lemma cj_sub x y : cj (x - y) = cj x - cj y.
Proof. replace (x - y) with (x + - y) by ring. rewrite (FL_conj_add K FL), cj_opp. ring. Qed.

Lemma mmul_assoc m n o p A B C :
  mmul m o p (mmul m n o A B) C = mmul m n p A (mmul n o p B C).
Proof. mx.
  rewrite (sum_ext K o _ (fun k => sum n (fun l => get A i l * get B l k * get C k j))).
  2:{ intros k Hk. get_simpl. rewrite <- (sum_scale_r K FL). reflexivity. }
  rewrite (sum_swap K FL). sx. rewrite <- (sum_scale_l K FL). apply (sum_ext K). intros l' Hl'. ring. Qed.

Lemma mmul_I_l m n A : wf m n A -> mmul m m n (mI m) A = A.
Proof. intros HA. rewrite HA at 2. mx.
  rewrite (sum_ext K m _ (fun k => delta i k * get A k j)) by (intros k Hk; get_simpl; reflexivity).
  apply (sum_delta_l K FL m i (fun k => get A k j)); exact Hi. Qed.

Lemma mmul_I_r m n A : wf m n A -> mmul m n n A (mI n) = A.
Proof. intros HA. rewrite HA at 2. mx.
  rewrite (sum_ext K n _ (fun k => get A i k * delta k j)) by (intros k Hk; get_simpl; reflexivity).
  apply (sum_delta_r K FL n j (fun k => get A i k)); exact Hj. Qed.

Lemma mH_mmul m n o A B : mH m o (mmul m n o A B) = mmul o n m (mH n o B) (mH m n A).
Proof. mx. rewrite (sum_conj K FL). sx. rewrite (FL_conj_mul K FL). ring. Qed.

Lemma mT_mmul m n o A B : mT m o (mmul m n o A B) = mmul o n m (mT n o B) (mT m n A).
Proof. mx. sx. ring. Qed.

Lemma mH_invol m n A : wf m n A -> mH n m (mH m n A) = A.
Proof. intros HA. rewrite HA at 2. mx. apply (FL_conj_invol K FL). Qed.

Lemma mT_invol m n A : wf m n A -> mT n m (mT m n A) = A.
Proof. intros HA. rewrite HA at 2. mx. reflexivity. Qed.

Lemma mH_I n : mH n n (mI n) = mI n.
Proof. mx. rewrite cj_delta. apply (delta_sym K). Qed.

Lemma mH_madd m n A B : mH m n (madd m n A B) = madd n m (mH m n A) (mH m n B).
Proof. mx. apply (FL_conj_add K FL). Qed.

Lemma mH_msub m n A B : mH m n (msub m n A B) = msub n m (mH m n A) (mH m n B).
Proof. mx. apply cj_sub. Qed.

Lemma mmul_madd_l m n o A B C :
  mmul m n o (madd m n A B) C = madd m o (mmul m n o A C) (mmul m n o B C).
Proof. mx. rewrite <- (sum_add K FL). sx. ring. Qed.

Lemma mmul_madd_r m n o A B C :
  mmul m n o A (madd n o B C) = madd m o (mmul m n o A B) (mmul m n o A C).
Proof. mx. rewrite <- (sum_add K FL). sx. ring. Qed.

Lemma mmul_msub_l m n o A B C :
  mmul m n o (msub m n A B) C = msub m o (mmul m n o A C) (mmul m n o B C).
Proof. mx. rewrite <- (sum_sub K FL). sx. ring. Qed.

Lemma mmul_msub_r m n o A B C :
  mmul m n o A (msub n o B C) = msub m o (mmul m n o A B) (mmul m n o A C).
Proof. mx. rewrite <- (sum_sub K FL). sx. ring. Qed.

Lemma mmul_mscale_l m n o c A B : mmul m n o (mscale m n c A) B = mscale m o c (mmul m n o A B).
Proof. mx. rewrite <- (sum_scale_l K FL). sx. ring. Qed.

Lemma mmul_mscale_r m n o c A B : mmul m n o A (mscale n o c B) = mscale m o c (mmul m n o A B).
Proof. mx. rewrite <- (sum_scale_l K FL). sx. ring. Qed.

Lemma msub_self m n A : msub m n A A = mzero K m n.
Proof. unfold mzero. mx. ring. Qed.

(* A·diag d = colscale A d ; diag d·A = rowscale d A *)
Lemma mmul_diag_r m n A d : mmul m n n A (mdiag n d) = colscale m n A d.
Proof. mx. rewrite (sum_ext K n _ (fun k => (get A i k * vget d k) * delta k j)).
  2:{ intros k Hk. get_simpl. ring. }
  apply (sum_delta_r K FL n j (fun k => get A i k * vget d k)); exact Hj. Qed.

Lemma mmul_diag_l m n d A : mmul m m n (mdiag m d) A = rowscale m n d A.
Proof. mx. rewrite (sum_ext K m _ (fun k => delta i k * (vget d k * get A k j))).
  2:{ intros k Hk. get_simpl. unfold Sum.delta. destruct (Nat.eqb_spec i k) as [->|]; ring. }
  apply (sum_delta_l K FL m i (fun k => vget d k * get A k j)); exact Hi. Qed.

Lemma mdiag_mul n d e : mmul n n n (mdiag n d) (mdiag n e) = mdiag n (vmap2 K n (fmul K) d e).
Proof. rewrite mmul_diag_l. mx. ring. Qed.

Lemma mH_diag n d : (forall i, (i < n)%nat -> cj (vget d i) = vget d i) -> mH n n (mdiag n d) = mdiag n d.
Proof. intros Hr. mx. rewrite (FL_conj_mul K FL), cj_delta.
  unfold Sum.delta. rewrite (Nat.eqb_sym j i). destruct (Nat.eqb_spec i j) as [->|]; [rewrite Hr by lia|]; ring. Qed.

(* truncation: first k columns of a product, first k rows of a product *)
Lemma mcols_mmul m n o k A B : (k <= o)%nat -> mcols m k (mmul m n o A B) = mmul m n k A (mcols n k B).
Proof. intros Hk. mx. sx. reflexivity. Qed.

Lemma mrows_mmul m n o k A B : (k <= m)%nat -> mrows k o (mmul m n o A B) = mmul k n o (mrows k n A) B.
Proof. intros Hk. mx. sx. reflexivity. Qed.

Lemma mH_mrows m n k A : (k <= m)%nat -> mH k n (mrows k n A) = mcols n k (mH m n A).
Proof. intros Hk. mx. reflexivity. Qed.

Lemma mH_mcols m n k A : (k <= n)%nat -> mH m k (mcols m k A) = mrows k m (mH m n A).
Proof. intros Hk. mx. reflexivity. Qed.

Lemma mcols_I n k : (k <= n)%nat -> mrows k k (mcols n k (mI n)) = mI k.
Proof. intros Hk. mx. reflexivity. Qed.

Lemma mrows_mcols_comm m n a b A : (a <= m)%nat -> (b <= n)%nat ->
  mrows a b (mcols m b A) = mcols a b (mrows a n A).
Proof. intros Ha Hb. mx. reflexivity. Qed.

(* if B = mrows k .. then the product can be restricted *)
Lemma mmul_trunc_inner m n o k A B : (k <= n)%nat ->
  (forall l j, (k <= l)%nat -> (l < n)%nat -> (j < o)%nat -> get B l j = 0) ->
  mmul m n o A B = mmul m k o (mcols m k A) (mrows k o B).
Proof. intros Hk Hz. mx. rewrite (sum_trunc K FL k n) by (try exact Hk; intros l H1 H2; rewrite Hz by lia; ring).
  sx. reflexivity. Qed.

Lemma trace_mmul_comm m n A B : trace m (mmul m n m A B) = trace n (mmul n m n B A).
Proof. unfold trace. mat_unfold.
  rewrite (sum_ext K m _ (fun i => sum n (fun k => get A i k * get B k i))) by (intros i Hi; get_simpl; reflexivity).
  rewrite (sum_swap K FL). apply (sum_ext K). intros k Hk. get_simpl. apply (sum_ext K). intros i Hi. ring. Qed.

Lemma frob2_trace m n A : frob2 m n A = trace m (mmul m n m A (mH m n A)).
Proof. unfold frob2, trace. apply (sum_ext K). intros i Hi. mat_unfold. get_simpl. apply (sum_ext K).
  intros k Hk. get_simpl. reflexivity. Qed.

Lemma frob2_trace' m n A : frob2 m n A = trace n (mmul n m n (mH m n A) A).
Proof. rewrite frob2_trace. apply trace_mmul_comm. Qed.

Lemma trace_diag n d : trace n (mdiag n d) = sum n (vget d).
Proof. unfold trace. apply (sum_ext K). intros i Hi. mat_unfold. get_simpl. rewrite (delta_same K). ring. Qed.

Lemma trace_msub n A B : trace n (msub n n A B) = trace n A - trace n B.
Proof. unfold trace. rewrite <- (sum_sub K FL). apply (sum_ext K). intros i Hi. mat_unfold. get_simpl. reflexivity. Qed.

End MatAlg.
