(* Scalar.v — the abstract scalar signature the whole model is written against.
   No Axiom/Parameter: laws are records that appear as Section hypotheses only. *)
From Coq Require Import ZArith List Bool Ring Field Setoid Lia.
Import ListNotations.

Record Ops (F : Type) := mkOps {
  f0 : F; f1 : F;
  fadd : F -> F -> F; fmul : F -> F -> F; fsub : F -> F -> F;
  fopp : F -> F; fdiv : F -> F -> F; finv : F -> F;
  fconj : F -> F; fsqrt : F -> F; fabs : F -> F;
  fleb : F -> F -> bool; fofZ : Z -> F }.

Arguments f0 {F} _. Arguments f1 {F} _. Arguments fadd {F} _ _ _. Arguments fmul {F} _ _ _.
Arguments fsub {F} _ _ _. Arguments fopp {F} _ _. Arguments fdiv {F} _ _ _. Arguments finv {F} _ _.
Arguments fconj {F} _ _. Arguments fsqrt {F} _ _. Arguments fabs {F} _ _.
Arguments fleb {F} _ _ _. Arguments fofZ {F} _ _.

Definition fle {F} (O : Ops F) (x y : F) : Prop := fleb O x y = true.
Definition isreal {F} (O : Ops F) (x : F) : Prop := fconj O x = x.

(* Field with an involutive automorphism (conj = id for real data). *)
Record FieldLaws {F} (O : Ops F) : Prop := {
  FL_field : field_theory (f0 O) (f1 O) (fadd O) (fmul O) (fsub O) (fopp O) (fdiv O) (finv O) eq;
  FL_conj_add : forall x y, fconj O (fadd O x y) = fadd O (fconj O x) (fconj O y);
  FL_conj_mul : forall x y, fconj O (fmul O x y) = fmul O (fconj O x) (fconj O y);
  FL_conj_invol : forall x, fconj O (fconj O x) = x;
  FL_conj_0 : fconj O (f0 O) = f0 O;
  FL_conj_1 : fconj O (f1 O) = f1 O;
  FL_ofZ_1 : fofZ O 1%Z = f1 O;
  FL_ofZ_m1 : fofZ O (-1)%Z = fopp O (f1 O) }.

(* Order on the self-conjugate ("real") elements; x * conj x is real and >= 0. *)
Record OrdLaws {F} (O : Ops F) : Prop := {
  OL_refl : forall x, fle O x x;
  OL_trans : forall x y z, fle O x y -> fle O y z -> fle O x z;
  OL_antisym : forall x y, fle O x y -> fle O y x -> x = y;
  OL_total : forall x y, isreal O x -> isreal O y -> fle O x y \/ fle O y x;
  OL_add : forall x y z, fle O x y -> fle O (fadd O x z) (fadd O y z);
  OL_mul : forall x y, fle O (f0 O) x -> fle O (f0 O) y -> fle O (f0 O) (fmul O x y);
  OL_norm_nonneg : forall x, fle O (f0 O) (fmul O x (fconj O x));
  OL_norm_zero : forall x, fmul O x (fconj O x) = f0 O -> x = f0 O }.

Record SqrtLaws {F} (O : Ops F) : Prop := {
  SL_sq : forall x, fle O (f0 O) x -> fmul O (fsqrt O x) (fsqrt O x) = x;
  SL_nonneg : forall x, fle O (f0 O) x -> fle O (f0 O) (fsqrt O x) }.

Inductive result (A : Type) := Ok (a : A) | Err (k : nat).
Arguments Ok {A} _. Arguments Err {A} _.
(* error kinds *)
Definition ETypeError := 1. Definition EValueError := 2. Definition EKeyError := 3.
Definition ENotImplemented := 4. Definition ELinAlg := 5. Definition EOther := 6.
