(* Sum.v — finite sums over an abstract field. *)
From Coq Require Import ZArith List Bool Ring Field Setoid Lia Arith.
From XV Require Import Base.Scalar.
Import ListNotations.

Section Sum.
Context {F : Type} (K : Ops F).
Notation "0" := (f0 K). Notation "1" := (f1 K).
Infix "+" := (fadd K). Infix "*" := (fmul K). Infix "-" := (fsub K).
Notation "- x" := (fopp K x).

Fixpoint sum (n : nat) (f : nat -> F) : F :=
  match n with 0%nat => 0 | S k => sum k f + f k end.

(* sum over a list of values *)
Definition lsum (l : list F) : F := fold_left (fadd K) l 0.

Hypothesis FL : FieldLaws K.
Add Field Ff : (FL_field K FL).

Lemma sum_ext n f g : (forall i, (i < n)%nat -> f i = g i) -> sum n f = sum n g.
Proof. induction n as [|n IH]; cbn [sum]; intros H; [reflexivity|].
  rewrite IH by (intros; apply H; lia). rewrite H by lia. reflexivity. Qed.

Lemma sum_zero n : sum n (fun _ => 0) = 0.
Proof. induction n as [|n IH]; cbn [sum]; [reflexivity|]. rewrite IH; ring. Qed.

Lemma sum_zero' n f : (forall i, (i < n)%nat -> f i = 0) -> sum n f = 0.
Proof. intros H. rewrite (sum_ext n f (fun _ => 0)) by exact H. apply sum_zero. Qed.

Lemma sum_add n f g : sum n (fun i => f i + g i) = sum n f + sum n g.
Proof. induction n as [|n IH]; cbn [sum]; [ring|]. rewrite IH; ring. Qed.

Lemma sum_sub n f g : sum n (fun i => f i - g i) = sum n f - sum n g.
Proof. induction n as [|n IH]; cbn [sum]; [ring|]. rewrite IH; ring. Qed.

Lemma sum_opp n f : sum n (fun i => - f i) = - sum n f.
Proof. induction n as [|n IH]; cbn [sum]; [ring|]. rewrite IH; ring. Qed.

Lemma sum_scale_l n c f : sum n (fun i => c * f i) = c * sum n f.
Proof. induction n as [|n IH]; cbn [sum]; [ring|]. rewrite IH; ring. Qed.

Lemma sum_scale_r n c f : sum n (fun i => f i * c) = sum n f * c.
Proof. induction n as [|n IH]; cbn [sum]; [ring|]. rewrite IH; ring. Qed.

Lemma sum_swap m n (f : nat -> nat -> F) :
  sum m (fun i => sum n (fun j => f i j)) = sum n (fun j => sum m (fun i => f i j)).
Proof. induction m as [|m IH]; cbn [sum].
  - symmetry; apply sum_zero.
  - rewrite IH. rewrite <- sum_add. reflexivity. Qed.

Lemma sum_conj n f : fconj K (sum n f) = sum n (fun i => fconj K (f i)).
Proof. induction n as [|n IH]; cbn [sum]; [apply (FL_conj_0 K FL)|].
  rewrite (FL_conj_add K FL), IH. reflexivity. Qed.

(* Kronecker delta *)
Definition delta (i j : nat) : F := if Nat.eqb i j then 1 else 0.

Lemma delta_same i : delta i i = 1.
Proof. unfold delta. rewrite Nat.eqb_refl. reflexivity. Qed.
Lemma delta_diff i j : i <> j -> delta i j = 0.
Proof. unfold delta. intros H. apply Nat.eqb_neq in H. rewrite H. reflexivity. Qed.
Lemma delta_sym i j : delta i j = delta j i.
Proof. unfold delta. rewrite Nat.eqb_sym. reflexivity. Qed.

Lemma sum_delta_l n i f : (i < n)%nat -> sum n (fun k => delta i k * f k) = f i.
Proof. induction n as [|n IH]; intros Hi; [lia|]. cbn [sum].
  destruct (Nat.eq_dec i n) as [->|Hne].
  - rewrite delta_same. rewrite sum_zero'. ring.
    intros k Hk. rewrite delta_diff by lia. ring.
  - rewrite IH by lia. rewrite delta_diff by lia. ring. Qed.

Lemma sum_delta_r n i f : (i < n)%nat -> sum n (fun k => f k * delta k i) = f i.
Proof. intros Hi. rewrite <- (sum_delta_l n i f Hi). apply sum_ext. intros k _.
  rewrite (delta_sym k i). ring. Qed.

Lemma sum_delta_out n i f : (n <= i)%nat -> sum n (fun k => delta i k * f k) = 0.
Proof. intros Hi. apply sum_zero'. intros k Hk. rewrite delta_diff by lia. ring. Qed.

Lemma sum_split m n f : sum (m + n) f = sum m f + sum n (fun i => f (m + i)%nat).
Proof. induction n as [|n IH].
  - rewrite Nat.add_0_r. cbn [sum]. ring.
  - rewrite Nat.add_succ_r. cbn [sum]. rewrite IH. ring. Qed.

(* if f vanishes from k on, the sum to n>=k is the sum to k *)
Lemma sum_trunc k n f : (k <= n)%nat -> (forall i, (k <= i)%nat -> (i < n)%nat -> f i = 0) ->
  sum n f = sum k f.
Proof. intros Hk Hz. replace n with (k + (n - k))%nat by lia. rewrite sum_split.
  rewrite (sum_zero' (n - k)). ring. intros i Hi. apply Hz; lia. Qed.

Lemma sum_single n i f : (i < n)%nat -> (forall k, (k < n)%nat -> k <> i -> f k = 0) -> sum n f = f i.
Proof. intros Hi Hz. rewrite <- (sum_delta_l n i f Hi). apply sum_ext. intros k Hk.
  destruct (Nat.eq_dec i k) as [->|Hne].
  - rewrite delta_same; ring.
  - rewrite delta_diff by exact Hne. rewrite Hz by (try lia; congruence). ring. Qed.

End Sum.
