(* Perm.v — finite sums are invariant under a permutation of the index range. *)
From Coq Require Import ZArith List Bool Ring Field Setoid Lia Arith Permutation.
From XV Require Import Base.Scalar Base.Sum.
Import ListNotations.

Section Perm.
Context {F : Type} (K : Ops F).
Hypothesis FL : FieldLaws K.
Add Field Ffperm : (FL_field K FL).
Notation "0" := (f0 K). Infix "+" := (fadd K).

Fixpoint lsumr (l : list F) : F := match l with [] => 0 | x :: r => x + lsumr r end.

Lemma lsumr_app l1 l2 : lsumr (l1 ++ l2) = lsumr l1 + lsumr l2.
Proof. induction l1 as [|x r IH]; cbn [lsumr app]; [ring|]. rewrite IH; ring. Qed.

Lemma lsumr_perm l1 l2 : Permutation l1 l2 -> lsumr l1 = lsumr l2.
Proof. induction 1 as [|x l l' Hp IH|x y l|l l' l'' H1 IH1 H2 IH2]; cbn [lsumr].
  - reflexivity.
  - rewrite IH; reflexivity.
  - ring.
  - congruence. Qed.

Lemma sum_lsumr n f : sum K n f = lsumr (map f (seq 0 n)).
Proof. induction n as [|n IH]; [reflexivity|]. cbn [sum]. rewrite seq_S, map_app, lsumr_app, <- IH. cbn [map lsumr Nat.add]. ring. Qed.

Lemma map_nth_seq {A} (d : A) (l : list A) : map (fun j => nth j l d) (seq 0 (length l)) = l.
Proof. induction l as [|x r IH]; [reflexivity|]. cbn [length seq map nth]. f_equal.
  rewrite <- seq_shift, map_map. exact IH. Qed.

Lemma sum_perm n (idx : list nat) f : Permutation idx (seq 0 n) ->
  sum K n (fun j => f (nth j idx O)) = sum K n f.
Proof. intros Hp. rewrite !sum_lsumr.
  assert (Hl : length idx = n) by (rewrite (Permutation_length Hp), seq_length; reflexivity).
  rewrite <- (map_map (fun j => nth j idx O) f). rewrite <- Hl at 1. rewrite map_nth_seq.
  apply lsumr_perm. apply Permutation_map. exact Hp. Qed.
End Perm.
