(* Instances.v — executable instance of [Ops]: IEEE binary64 (PrimFloat).
   Running the polymorphic model here is the executable side of the
   correspondence check; it is not a theorem about floats. *)
From Coq Require Import ZArith List Bool PrimFloat Uint63 FloatOps SpecFloat.
From XV Require Import Base.Scalar.
Import ListNotations.

Definition float_ofZ (z : Z) : float :=
  match z with
  | Z0 => 0%float
  | Zpos p => of_uint63 (Uint63.of_Z (Zpos p))
  | Zneg p => PrimFloat.opp (of_uint63 (Uint63.of_Z (Zpos p)))
  end.

Definition OF64 : Ops float := {|
  f0 := 0%float; f1 := 1%float;
  fadd := PrimFloat.add; fmul := PrimFloat.mul; fsub := PrimFloat.sub;
  fopp := PrimFloat.opp; fdiv := PrimFloat.div; finv := fun x => PrimFloat.div 1%float x;
  fconj := fun x => x; fsqrt := PrimFloat.sqrt; fabs := PrimFloat.abs;
  fleb := PrimFloat.leb; fofZ := float_ofZ |}.

(* truncation toward zero of a finite float, as Python's int() *)
Definition float_truncZ (x : float) : Z :=
  match Prim2SF x with
  | S754_finite s m e =>
      let mag := match e with
                 | Z0 => Zpos m | Zpos k => (Zpos m * 2 ^ Zpos k)%Z
                 | Zneg k => (Zpos m / 2 ^ Zpos k)%Z end in
      if s then (- mag)%Z else mag
  | _ => 0%Z
  end.

(* |a-b| <= atol + rtol*max(|a|,|b|), false on NaN *)
Definition fclose (atol rtol a b : float) : bool :=
  let d := PrimFloat.abs (PrimFloat.sub a b) in
  let ma := PrimFloat.abs a in let mb := PrimFloat.abs b in
  let mx := if PrimFloat.leb ma mb then mb else ma in
  PrimFloat.leb d (PrimFloat.add atol (PrimFloat.mul rtol mx)).

Fixpoint vclose (atol rtol : float) (u v : list float) : bool :=
  match u, v with
  | [], [] => true
  | a :: u', b :: v' => fclose atol rtol a b && vclose atol rtol u' v'
  | _, _ => false
  end.

Fixpoint mclose (atol rtol : float) (A B : list (list float)) : bool :=
  match A, B with
  | [], [] => true
  | a :: A', b :: B' => vclose atol rtol a b && mclose atol rtol A' B'
  | _, _ => false
  end.

Definition mmaxabs (A : list (list float)) : float :=
  fold_left (fun acc r => fold_left (fun a x => let y := PrimFloat.abs x in if PrimFloat.leb a y then y else a) r acc) A 0%float.

(* complex binary64: pairs (re, im); order is numpy's lexicographic one, abs the modulus *)
Definition cfloat := (float * float)%type.
Definition c_add (a b : cfloat) : cfloat := (fst a + fst b, snd a + snd b)%float.
Definition c_sub (a b : cfloat) : cfloat := (fst a - fst b, snd a - snd b)%float.
Definition c_mul (a b : cfloat) : cfloat :=
  (fst a * fst b - snd a * snd b, fst a * snd b + snd a * fst b)%float.
Definition c_opp (a : cfloat) : cfloat := (- fst a, - snd a)%float.
Definition c_conj (a : cfloat) : cfloat := (fst a, - snd a)%float.
Definition c_inv (a : cfloat) : cfloat :=
  let d := (fst a * fst a + snd a * snd a)%float in (fst a / d, - snd a / d)%float.
Definition c_div (a b : cfloat) : cfloat := c_mul a (c_inv b).
Definition c_abs (a : cfloat) : cfloat := (PrimFloat.sqrt (fst a * fst a + snd a * snd a), 0)%float.
Definition c_leb (a b : cfloat) : bool :=
  PrimFloat.ltb (fst a) (fst b) || (PrimFloat.eqb (fst a) (fst b) && PrimFloat.leb (snd a) (snd b)).
Definition c_sqrt (a : cfloat) : cfloat := (PrimFloat.sqrt (fst a), 0%float).

Definition OC64 : Ops cfloat := {|
  f0 := (0, 0)%float; f1 := (1, 0)%float;
  fadd := c_add; fmul := c_mul; fsub := c_sub; fopp := c_opp; fdiv := c_div; finv := c_inv;
  fconj := c_conj; fsqrt := c_sqrt; fabs := c_abs; fleb := c_leb;
  fofZ := fun z => (float_ofZ z, 0%float) |}.

Definition cclose (atol rtol : float) (a b : cfloat) : bool :=
  fclose atol rtol (fst a) (fst b) && fclose atol rtol (snd a) (snd b).
