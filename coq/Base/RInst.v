(* RInst.v — the real-number instance of [Ops], used for the order-dependent theorems
   (lra/nra available).  Brings in the standard library's real-number axioms
   (ClassicalDedekindReals.sig_forall_dec, sig_not_dec, functional_extensionality_dep). *)
From Coq Require Import ZArith List Bool Reals Lra Lia.
From XV Require Import Base.Scalar.
Import ListNotations.
Open Scope R_scope.

Definition Rleb (x y : R) : bool := if Rle_dec x y then true else false.

Definition OR : Ops R := {|
  f0 := 0; f1 := 1; fadd := Rplus; fmul := Rmult; fsub := Rminus; fopp := Ropp;
  fdiv := Rdiv; finv := Rinv; fconj := fun x => x; fsqrt := sqrt; fabs := Rabs;
  fleb := Rleb; fofZ := IZR |}.

Lemma Rleb_true x y : Rleb x y = true <-> x <= y.
Proof. unfold Rleb. destruct (Rle_dec x y); split; intros; try assumption; try reflexivity; try discriminate; contradiction. Qed.
Lemma Rleb_false x y : Rleb x y = false <-> y < x.
Proof. unfold Rleb. destruct (Rle_dec x y); split; intros; try discriminate; try reflexivity; lra. Qed.

Lemma R_field_theory : field_theory 0 1 Rplus Rmult Rminus Ropp Rdiv Rinv eq.
Proof. exact Rfield. Qed.

Lemma OR_FieldLaws : FieldLaws OR.
Proof. constructor; cbn; intros; try reflexivity. exact Rfield. Qed.

Lemma OR_OrdLaws : OrdLaws OR.
Proof. constructor; unfold fle, isreal; cbn; intros.
  - apply Rleb_true; lra.
  - apply Rleb_true. apply Rleb_true in H, H0. lra.
  - apply Rleb_true in H, H0. lra.
  - destruct (Rle_dec x y); [left|right]; apply Rleb_true; lra.
  - apply Rleb_true. apply Rleb_true in H. lra.
  - apply Rleb_true. apply Rleb_true in H, H0. nra.
  - apply Rleb_true. nra.
  - nra.
Qed.

Lemma OR_SqrtLaws : SqrtLaws OR.
Proof. constructor; unfold fle; cbn; intros x H; apply Rleb_true in H.
  - apply sqrt_sqrt; exact H.
  - apply Rleb_true. apply sqrt_pos. Qed.
