(* Hom.v — homomorphisms of scalar instances. The models are written once over [Ops F]; a map h : F -> G that
   preserves every operation of the record commutes with every model function (parametricity, proved function by
   function for the ones used). Instance: RtoC from the reals into Coquelicot's complex numbers, which gives
   "a complex model fed real data equals the real model". *)
From Coq Require Import ZArith List Bool Lia Arith.
From XV Require Import Base.Scalar Base.Sum Base.Mat.
Import ListNotations.

Section Hom.
Context {F G : Type} (K1 : Ops F) (K2 : Ops G) (h : F -> G).

Record OpsHom : Prop := {
  h_0 : h (f0 K1) = f0 K2; h_1 : h (f1 K1) = f1 K2;
  h_add : forall x y, h (fadd K1 x y) = fadd K2 (h x) (h y);
  h_mul : forall x y, h (fmul K1 x y) = fmul K2 (h x) (h y);
  h_sub : forall x y, h (fsub K1 x y) = fsub K2 (h x) (h y);
  h_opp : forall x, h (fopp K1 x) = fopp K2 (h x);
  h_div : forall x y, h (fdiv K1 x y) = fdiv K2 (h x) (h y);
  h_inv : forall x, h (finv K1 x) = finv K2 (h x);
  h_conj : forall x, h (fconj K1 x) = fconj K2 (h x);
  h_sqrt : forall x, h (fsqrt K1 x) = fsqrt K2 (h x);
  h_abs : forall x, h (fabs K1 x) = fabs K2 (h x);
  h_leb : forall x y, fleb K2 (h x) (h y) = fleb K1 x y;
  h_ofZ : forall z, h (fofZ K1 z) = fofZ K2 z }.

Hypothesis H : OpsHom.

Definition mmap (A : list (list F)) : list (list G) := map (map h) A.
Definition vmaph (v : list F) : list G := map h v.

Lemma vget_vmaph v i : vget K2 (vmaph v) i = h (vget K1 v i).
Proof. unfold vget, vmaph. rewrite <- (h_0 H). apply map_nth. Qed.

Lemma get_mmap A i j : get K2 (mmap A) i j = h (get K1 A i j).
Proof. unfold get, mmap. change (@nil G) with (map h (@nil F)). rewrite map_nth. rewrite <- (h_0 H). apply map_nth. Qed.

Lemma nth_mmap A i : nth i (mmap A) [] = vmaph (nth i A []).
Proof. unfold mmap, vmaph. change (@nil G) with (map h (@nil F)). apply map_nth. Qed.

Lemma tab_hom m n f : tab m n (fun i j => h (f i j)) = mmap (tab m n f).
Proof. unfold tab, mmap. rewrite map_map. apply map_ext. intros i. rewrite map_map. reflexivity. Qed.

Lemma vtab_hom n f : vtab n (fun i => h (f i)) = vmaph (vtab n f).
Proof. unfold vtab, vmaph. rewrite map_map. reflexivity. Qed.

Lemma tab_ext_all m n (f g : nat -> nat -> G) : (forall i j, f i j = g i j) -> tab m n f = tab m n g.
Proof. intros E. unfold tab. apply map_ext. intros i. apply map_ext. intros j. apply E. Qed.
Lemma vtab_ext_all n (f g : nat -> G) : (forall i, f i = g i) -> vtab n f = vtab n g.
Proof. intros E. unfold vtab. apply map_ext. exact E. Qed.

Lemma sum_hom n f : sum K2 n (fun i => h (f i)) = h (sum K1 n f).
Proof. induction n as [|n IH]; cbn [sum]; [symmetry; apply (h_0 H)|]. rewrite IH, (h_add H). reflexivity. Qed.

Lemma sum_ext_all n (f g : nat -> G) : (forall i, f i = g i) -> sum K2 n f = sum K2 n g.
Proof. intros E. induction n as [|n IH]; cbn [sum]; [reflexivity|]. rewrite IH, E. reflexivity. Qed.

Lemma mmul_hom m n o A B : mmul K2 m n o (mmap A) (mmap B) = mmap (mmul K1 m n o A B).
Proof. unfold mmul. rewrite <- tab_hom. apply tab_ext_all. intros i j. rewrite <- sum_hom. apply sum_ext_all. intros k.
  rewrite !get_mmap, (h_mul H). reflexivity. Qed.

Lemma mH_hom m n A : mH K2 m n (mmap A) = mmap (mH K1 m n A).
Proof. unfold mH. rewrite <- tab_hom. apply tab_ext_all. intros i j. rewrite get_mmap, (h_conj H). reflexivity. Qed.

Lemma mI_hom n : mI K2 n = mmap (mI K1 n).
Proof. unfold mI. rewrite <- tab_hom. apply tab_ext_all. intros i j. unfold delta. destruct (Nat.eqb i j); symmetry; [apply (h_1 H)|apply (h_0 H)]. Qed.

Lemma mdiag_hom n d : mdiag K2 n (vmaph d) = mmap (mdiag K1 n d).
Proof. unfold mdiag. rewrite <- tab_hom. apply tab_ext_all. intros i j. rewrite (h_mul H), vget_vmaph. f_equal.
  unfold delta. destruct (Nat.eqb i j); symmetry; [apply (h_1 H)|apply (h_0 H)]. Qed.

Lemma mrows_hom k n A : mrows K2 k n (mmap A) = mmap (mrows K1 k n A).
Proof. unfold mrows. rewrite <- tab_hom. apply tab_ext_all. intros i j. apply get_mmap. Qed.
Lemma mcols_hom m k A : mcols K2 m k (mmap A) = mmap (mcols K1 m k A).
Proof. unfold mcols. rewrite <- tab_hom. apply tab_ext_all. intros i j. apply get_mmap. Qed.
Lemma colscale_hom m n A d : colscale K2 m n (mmap A) (vmaph d) = mmap (colscale K1 m n A d).
Proof. unfold colscale. rewrite <- tab_hom. apply tab_ext_all. intros i j. rewrite get_mmap, vget_vmaph, (h_mul H). reflexivity. Qed.
Lemma rowscale_hom m n d A : rowscale K2 m n (vmaph d) (mmap A) = mmap (rowscale K1 m n d A).
Proof. unfold rowscale. rewrite <- tab_hom. apply tab_ext_all. intros i j. rewrite get_mmap, vget_vmaph, (h_mul H). reflexivity. Qed.
Lemma mscale_hom m n c A : mscale K2 m n (h c) (mmap A) = mmap (mscale K1 m n c A).
Proof. unfold mscale. rewrite <- tab_hom. apply tab_ext_all. intros i j. rewrite get_mmap, (h_mul H). reflexivity. Qed.
Lemma vfirstn_hom k v : vfirstn K2 k (vmaph v) = vmaph (vfirstn K1 k v).
Proof. unfold vfirstn. rewrite <- vtab_hom. apply vtab_ext_all. intros i. apply vget_vmaph. Qed.
Lemma vmap_hom n (g1 : F -> F) (g2 : G -> G) v : (forall x, g2 (h x) = h (g1 x)) -> vmap K2 n g2 (vmaph v) = vmaph (vmap K1 n g1 v).
Proof. intros E. unfold vmap. rewrite <- vtab_hom. apply vtab_ext_all. intros i. rewrite vget_vmaph. apply E. Qed.

Lemma wf_hom m n A : wf K1 m n A -> wf K2 m n (mmap A).
Proof. unfold wf. intros E. rewrite E at 1. rewrite <- tab_hom. apply tab_ext_all. intros i j. symmetry. apply get_mmap. Qed.
Lemma vwf_hom n v : vwf K1 n v -> vwf K2 n (vmaph v).
Proof. unfold vwf. intros E. rewrite E at 1. rewrite <- vtab_hom. apply vtab_ext_all. intros i. symmetry. apply vget_vmaph. Qed.
End Hom.
