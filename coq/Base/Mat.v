(* Mat.v — canonical list matrices: every operation returns a [tab], so pointwise
   equality on the index range lifts to Leibniz equality (no funext). *)
From Coq Require Import ZArith List Bool Ring Field Setoid Lia Arith.
From XV Require Import Base.Scalar Base.Sum.
Import ListNotations.

Section Mat.
Context {F : Type} (K : Ops F).
Notation "0" := (f0 K). Notation "1" := (f1 K).
Infix "+" := (fadd K). Infix "*" := (fmul K). Infix "-" := (fsub K).
Notation "- x" := (fopp K x).
Notation cj := (fconj K).
Notation sum := (sum K).
Notation delta := (delta K).

Definition mat := list (list F).
Definition vec := list F.

Definition tab (m n : nat) (f : nat -> nat -> F) : mat :=
  map (fun i => map (fun j => f i j) (seq 0 n)) (seq 0 m).
Definition get (A : mat) (i j : nat) : F := nth j (nth i A nil) 0.
Definition vtab (n : nat) (f : nat -> F) : vec := map f (seq 0 n).
Definition vget (v : vec) (i : nat) : F := nth i v 0.

Definition wf (m n : nat) (A : mat) : Prop := A = tab m n (get A).
Definition vwf (n : nat) (v : vec) : Prop := v = vtab n (vget v).

(* executable shape check *)
Definition wfb (m n : nat) (A : mat) : bool :=
  Nat.eqb (length A) m && forallb (fun r => Nat.eqb (length r) n) A.

Definition mmul (m n o : nat) (A B : mat) : mat :=
  tab m o (fun i j => sum n (fun k => get A i k * get B k j)).
Definition madd (m n : nat) (A B : mat) : mat := tab m n (fun i j => get A i j + get B i j).
Definition msub (m n : nat) (A B : mat) : mat := tab m n (fun i j => get A i j - get B i j).
Definition mscale (m n : nat) (c : F) (A : mat) : mat := tab m n (fun i j => c * get A i j).
Definition mT (m n : nat) (A : mat) : mat := tab n m (fun i j => get A j i).
Definition mconj (m n : nat) (A : mat) : mat := tab m n (fun i j => cj (get A i j)).
Definition mH (m n : nat) (A : mat) : mat := tab n m (fun i j => cj (get A j i)).
Definition mI (n : nat) : mat := tab n n (fun i j => delta i j).
Definition mzero (m n : nat) : mat := tab m n (fun _ _ => 0).
Definition mdiag (n : nat) (d : vec) : mat := tab n n (fun i j => delta i j * vget d i).
(* sub-blocks: first k rows / columns; arbitrary row / column selections *)
Definition mrows (k n : nat) (A : mat) : mat := tab k n (get A).
Definition mcols (m k : nat) (A : mat) : mat := tab m k (get A).
Definition msel_rows (n : nat) (I : list nat) (A : mat) : mat :=
  tab (length I) n (fun i j => get A (nth i I O) j).
Definition msel_cols (m : nat) (J : list nat) (A : mat) : mat :=
  tab m (length J) (fun i j => get A i (nth j J O)).
(* column scaling A·diag d and row scaling diag d·A *)
Definition colscale (m n : nat) (A : mat) (d : vec) : mat := tab m n (fun i j => get A i j * vget d j).
Definition rowscale (m n : nat) (d : vec) (A : mat) : mat := tab m n (fun i j => vget d i * get A i j).
Definition hstack (m n1 n2 : nat) (A B : mat) : mat :=
  tab m (n1 + n2) (fun i j => if Nat.ltb j n1 then get A i j else get B i (j - n1)).
Definition vstack (m1 m2 n : nat) (A B : mat) : mat :=
  tab (m1 + m2) n (fun i j => if Nat.ltb i m1 then get A i j else get B (i - m1) j).
Definition trace (n : nat) (A : mat) : F := sum n (fun i => get A i i).
Definition frob2 (m n : nat) (A : mat) : F :=
  sum m (fun i => sum n (fun j => get A i j * cj (get A i j))).
Definition colsum (m : nat) (A : mat) (j : nat) : F := sum m (fun i => get A i j).
Definition vfirstn (k : nat) (v : vec) : vec := vtab k (vget v).
Definition vmap2 (n : nat) (g : F -> F -> F) (u v : vec) : vec := vtab n (fun i => g (vget u i) (vget v i)).
Definition vmap (n : nat) (g : F -> F) (u : vec) : vec := vtab n (fun i => g (vget u i)).
Definition vsum (n : nat) (v : vec) : F := sum n (vget v).

(* ---------- structural lemmas (no field laws needed) ---------- *)

Lemma nth_map_seq {A} (d : A) (g : nat -> A) n i : (i < n)%nat -> nth i (map g (seq 0 n)) d = g i.
Proof. intros Hi. rewrite (nth_indep _ d (g O)) by (rewrite map_length, seq_length; exact Hi).
  rewrite map_nth. rewrite seq_nth by exact Hi. reflexivity. Qed.

Lemma get_tab m n f i j : (i < m)%nat -> (j < n)%nat -> get (tab m n f) i j = f i j.
Proof. intros Hi Hj. unfold get, tab. rewrite (nth_map_seq nil) by exact Hi.
  rewrite nth_map_seq by exact Hj. reflexivity. Qed.

Lemma vget_vtab n f i : (i < n)%nat -> vget (vtab n f) i = f i.
Proof. intros Hi. unfold vget, vtab. apply nth_map_seq; exact Hi. Qed.

Lemma get_tab_out_row m n f i j : (m <= i)%nat -> get (tab m n f) i j = 0.
Proof. intros Hi. unfold get, tab. rewrite (nth_overflow (map _ _)) by (rewrite map_length, seq_length; exact Hi).
  destruct j; reflexivity. Qed.

Lemma get_tab_out_col m n f i j : (n <= j)%nat -> get (tab m n f) i j = 0.
Proof. intros Hj. unfold get, tab. destruct (Nat.lt_ge_cases i m) as [Hi|Hi].
  - rewrite (nth_map_seq nil) by exact Hi. apply nth_overflow. rewrite map_length, seq_length; exact Hj.
  - rewrite (nth_overflow (map _ _)) by (rewrite map_length, seq_length; exact Hi). destruct j; reflexivity. Qed.

Lemma vget_vtab_out n f i : (n <= i)%nat -> vget (vtab n f) i = 0.
Proof. intros Hi. unfold vget, vtab. apply nth_overflow. rewrite map_length, seq_length; exact Hi. Qed.

Lemma map_seq_ext {A} (g h : nat -> A) s n : (forall i, (s <= i)%nat -> (i < s + n)%nat -> g i = h i) ->
  map g (seq s n) = map h (seq s n).
Proof. revert s; induction n as [|n IH]; intros s H; cbn [seq map]; [reflexivity|].
  rewrite H by lia. rewrite IH; [reflexivity|]. intros i H1 H2. apply H; lia. Qed.

Lemma tab_ext m n f g : (forall i j, (i < m)%nat -> (j < n)%nat -> f i j = g i j) -> tab m n f = tab m n g.
Proof. intros H. unfold tab. apply map_seq_ext. intros i _ Hi. apply map_seq_ext. intros j _ Hj.
  apply H; lia. Qed.

Lemma vtab_ext n f g : (forall i, (i < n)%nat -> f i = g i) -> vtab n f = vtab n g.
Proof. intros H. unfold vtab. apply map_seq_ext. intros i _ Hi. apply H; lia. Qed.

Lemma wf_tab m n f : wf m n (tab m n f).
Proof. unfold wf. apply tab_ext. intros i j Hi Hj. rewrite get_tab by assumption. reflexivity. Qed.

Lemma vwf_vtab n f : vwf n (vtab n f).
Proof. unfold vwf. apply vtab_ext. intros i Hi. rewrite vget_vtab by assumption. reflexivity. Qed.

Lemma wf_ext m n A B : wf m n A -> wf m n B ->
  (forall i j, (i < m)%nat -> (j < n)%nat -> get A i j = get B i j) -> A = B.
Proof. intros HA HB H. rewrite HA, HB. apply tab_ext. exact H. Qed.

Lemma vwf_ext n u v : vwf n u -> vwf n v -> (forall i, (i < n)%nat -> vget u i = vget v i) -> u = v.
Proof. intros Hu Hv H. rewrite Hu, Hv. apply vtab_ext. exact H. Qed.

Lemma length_tab m n f : length (tab m n f) = m.
Proof. unfold tab. rewrite map_length, seq_length. reflexivity. Qed.
Lemma length_vtab n f : length (vtab n f) = n.
Proof. unfold vtab. rewrite map_length, seq_length. reflexivity. Qed.

Lemma wf_get_out_row m n A i j : wf m n A -> (m <= i)%nat -> get A i j = 0.
Proof. intros H Hi. rewrite H. apply get_tab_out_row; exact Hi. Qed.
Lemma wf_get_out_col m n A i j : wf m n A -> (n <= j)%nat -> get A i j = 0.
Proof. intros H Hj. rewrite H. apply get_tab_out_col; exact Hj. Qed.

Lemma wf_mmul m n o A B : wf m o (mmul m n o A B). Proof. apply wf_tab. Qed.
Lemma wf_madd m n A B : wf m n (madd m n A B). Proof. apply wf_tab. Qed.
Lemma wf_msub m n A B : wf m n (msub m n A B). Proof. apply wf_tab. Qed.
Lemma wf_mscale m n c A : wf m n (mscale m n c A). Proof. apply wf_tab. Qed.
Lemma wf_mT m n A : wf n m (mT m n A). Proof. apply wf_tab. Qed.
Lemma wf_mH m n A : wf n m (mH m n A). Proof. apply wf_tab. Qed.
Lemma wf_mconj m n A : wf m n (mconj m n A). Proof. apply wf_tab. Qed.
Lemma wf_mI n : wf n n (mI n). Proof. apply wf_tab. Qed.
Lemma wf_mdiag n d : wf n n (mdiag n d). Proof. apply wf_tab. Qed.
Lemma wf_mrows k n A : wf k n (mrows k n A). Proof. apply wf_tab. Qed.
Lemma wf_mcols m k A : wf m k (mcols m k A). Proof. apply wf_tab. Qed.
Lemma wf_colscale m n A d : wf m n (colscale m n A d). Proof. apply wf_tab. Qed.
Lemma wf_rowscale m n d A : wf m n (rowscale m n d A). Proof. apply wf_tab. Qed.

End Mat.

Arguments get {F} K A i j. Arguments vget {F} K v i.
Arguments tab {F} m n f. Arguments vtab {F} n f.

(* ---------- tactics ---------- *)
(* reduce an equation between canonical matrices to a pointwise goal *)
Ltac mat_unfold := unfold mmul, madd, msub, mscale, mT, mconj, mH, mI, mzero, mdiag, mrows, mcols,
  colscale, rowscale, msel_rows, msel_cols, vfirstn, vmap, vmap2.
Ltac get_simpl := repeat first
  [ rewrite get_tab by lia | rewrite vget_vtab by lia ].
