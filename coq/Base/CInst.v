(* CInst.v — the complex numbers over Coq's reals as an instance of [Ops] (Coquelicot's C = R * R with its field
   structure), used for the complex case of the order-dependent theorems. *)
From Coq Require Import ZArith Reals Lra.
From Coquelicot Require Import Complex.
From XV Require Import Base.Scalar Base.RInst.
Open Scope R_scope.

Definition OCR : Ops C := {|
  f0 := RtoC 0; f1 := RtoC 1; fadd := Cplus; fmul := Cmult; fsub := Cminus; fopp := Copp;
  fdiv := Cdiv; finv := Cinv; fconj := Cconj; fsqrt := fun z => RtoC (sqrt (fst z)); fabs := fun z => RtoC (Cmod z);
  fleb := fun x y => Rleb (fst x) (fst y); fofZ := fun z => RtoC (IZR z) |}.

Lemma OCR_FieldLaws : FieldLaws OCR.
Proof. constructor; cbn.
  - exact C_field_theory.
  - intros [a b] [c d]. unfold Cconj, Cplus. cbn. f_equal. ring.
  - intros [a b] [c d]. unfold Cconj, Cmult. cbn. f_equal; ring.
  - intros [a b]. unfold Cconj. cbn. f_equal. ring.
  - unfold Cconj, RtoC. cbn. f_equal. ring.
  - unfold Cconj, RtoC. cbn. f_equal. ring.
  - reflexivity.
  - unfold Copp, RtoC. cbn. f_equal. ring. Qed.
